"""The commands `treeanalysis`, `transitions` and `grammar` with EVERY source format and reader option
(`--src-format F --src-opts ...`), against the model's source dispatch (TT/RunSrc.lean: readSrc, runAnalysisSrc,
runTransitionsSrc, runGrammarSrc).  Used by C16, C10 and C09 (wave 18)."""
import re
import proto
import cli
import gram
from cliseq import cli_error
from core import Case, Line
from impl import trees, clone
from props import c03
from props.c01 import reader_opts

WORDS = ["a", "b", "cc", "Haus", "geht", "über", "10"]


def cli_opts(opts):
    """the dict of reader options as `--src-opts` words"""
    out = []
    for k in sorted(opts):
        out.append(k if opts[k] is True else "%s:%s" % (k, opts[k]))
    return out


def make_source(rng, cont_only=False):
    F = rng.choice(["export", "discobrackets", "tigerxml", "brackets"])
    cont = cont_only or F == "brackets"
    ts = c03.mk_corpus(rng, cont, WORDS)
    if rng.random() < 0.3:
        # labels with a grammatical function part so that gf_split has something to split
        for t in ts:
            for n in trees.preorder(t):
                if n.children and n.parent is not None and rng.random() < 0.4:
                    n.data['label'] = rng.choice(["NP-SBJ", "PP-MO", "VP-OC"])
    v4 = F == "export" and rng.random() < 0.4
    text = c03.write_src(ts, F, v4)
    opts = reader_opts(rng, F) if rng.random() < 0.6 else {}
    opts.pop('brackets_emptypos', None)     # (needs tag-less tokens in the file; C01 covers it)
    if 'gf_split' in opts and 'gf_separator' not in opts and rng.random() < 0.5:
        opts['gf_separator'] = "-"          # the default separator, spelled out
    srcarg = c03.xsents(text) if F == "tigerxml" else proto.enc_s(text)
    return F, ts, text, opts, srcarg


def src_argv(F, opts):
    return ["--src-format", F] + ((["--src-opts"] + cli_opts(opts)) if opts else [])


def analysis_case(rng):
    F, ts, text, opts, srcarg = make_source(rng)
    lines = []
    desc = {"src_format": F, "src_opts": opts, "text": text}
    with cli.Scratch() as sc:
        src = sc.write("src." + F, text)
        for task in ("GapDegree", "PosTags", "SentenceCount"):
            rc, out, err = cli.run_cli(["treeanalysis", src, task] + src_argv(F, opts))
            if rc != 0:
                got = cli_error(err)
            elif task == "GapDegree":
                m = re.search(r"(\d+) trees, (\d+) nodes", out)
                per_tree = re.findall(r"Gap degree\s+(\d+):\s+(\d+) trees", out)
                per_node = re.findall(r"Gap degree\s+(\d+):\s+(\d+) nodes", out)
                got = "%s %s T %s N %s" % (m.group(1), m.group(2), ",".join("%s:%s" % x for x in per_tree),
                                           ",".join("%s:%s" % x for x in per_node)) if m else "unparsable"
                if m:
                    # the report against the set-based predicate on the trees the file was written from (the structure
                    # is what every format carries)
                    lines.append(Line("pred", "P.C16.stats", ["|".join(proto.enc_tree(t) for t in ts), got]))
            elif task == "PosTags":
                m = re.search(r"(\d+) different tags", out)
                got = m.group(1) if m else "unparsable"
            else:
                m = re.search(r"(\d+) sentences", out)
                got = m.group(1) if m else "unparsable"
                if got != str(len(ts)):
                    l = Line("pred", "P.C16.tree", [proto.enc_tree(ts[0]), "0"], note="SentenceCount %s for %d sentences" % (got, len(ts)))
                    l.expect = "sentence-count-%d-expected-got-%s" % (len(ts), got)
                    lines.append(l)
            lines.append(Line("corr", "analysis_src", [task, F, proto.enc_opts(opts), srcarg], got))
    return Case("cli-src:" + F, desc, lines, nontrivial=True)


def canon_err(s):
    # error kinds: the model's small enum against the last line of the traceback
    if s.startswith("ERR"):
        return "ERR"
    return s


def transitions_case(rng):
    F, ts, text, opts, srcarg = make_source(rng)
    system = rng.choice(["gap", "gap", "inorder", "topdown"]) if F != "brackets" else rng.choice(["gap", "inorder", "topdown"])
    pos = rng.random() < 0.3
    trans = ["root_attach", "negra_mark_heads"] + ([] if system == "inorder" else ["binarize"])
    if system != "gap":
        trans = ["root_attach", "negra_mark_heads", "boyd_split", "raising"] + ([] if system == "inorder" else ["binarize"])
    import tx
    with cli.Scratch() as sc:
        src = sc.write("src." + F, text)
        pw = rng.choice([[], [], ["quiet"], ["bare_bin_labels"], ["bare_bin_labels:0", "foo:1"]])
        dw = rng.choice([["pos"], ["pos:0"], ["pos", "x:1"]]) if pos else rng.choice([[], [], ["x:1"]])
        rc, _, err = cli.run_cli(["transitions", src, sc.path("out"), system, "--transform"] + trans + src_argv(F, opts)
                                 + ((["--dest-opts"] + dw) if dw else []) + ((["--transformparams"] + pw) if pw else []))
        if rc != 0:
            got = cli_error(err)
        else:
            out = sc.read("out").split("\n")
            if out and out[-1] == "":
                out.pop()
            got = "|".join(proto.enc_s(x) for x in out) if out else "EMPTY"
    ew = lambda ws: ",".join(proto.enc_s(w) for w in ws)
    bare = {"bare_bin_labels": True} if any(w.startswith("bare_bin_labels") for w in pw) else {}
    lines = [Line("corr", "transitions_src", [F, proto.enc_opts(opts), system, "t" if pos else "f",
                                              tx.calls_str([(n, bare if n == "binarize" else {}) for n in trans]), srcarg], got),
             # the same command from the raw words (TT.runTransitionsCmd: stepsOf, inOptsOf, `pos` by presence)
             Line("corr", "transitions_cmd", [F, ew(cli_opts(opts)), system, ew(dw), ew(trans), ew(pw), srcarg], got)]
    return Case("cli-src:%s:%s" % (F, system), {"src_format": F, "src_opts": opts, "text": text, "transform": trans, "err": err[-300:] if rc else ""},
                lines, nontrivial=True)


def grammar_case(rng):
    F, ts, text, opts, srcarg = make_source(rng)
    gtype = rng.choice(["treebank", "leftright", "optimal"])
    dest = rng.choice(["rcg", "rcg", "pmcfg"])
    lig = rng.random() < 0.25
    import os
    with cli.Scratch() as sc:
        src = sc.write("src." + F, text)
        mw = None
        if gtype != "treebank" and rng.random() < 0.5:
            mw = rng.choice([["v:1"], ["h:1"], ["v:2", "h:1"], ["nofanout"], ["v:0", "h:0"], ["v:1", "h:2", "nofanout"], ["h:3", "h:1"],
                             ["v:02"], ["nofanout:0", "h:2"], ["h:0", "v:3", "nofanout"]])
        rc, _, err = cli.run_cli(["grammar", src, sc.path("g"), gtype, "--dest-format", dest] + src_argv(F, opts)
                                 + (["--dest-opts", "lex_in_grammar"] if lig else []) + ((["--markov"] + mw) if mw else []))
        if rc != 0:
            got = cli_error(err)
        else:
            lex = gram.enc_lines(gram.file_lines(sc.path("g.lex"))) if os.path.exists(sc.path("g.lex")) else "none"
            got = gram.enc_lines(gram.file_lines(sc.path("g." + dest))) + " # " + lex
    cn = "canon_pmcfg" if dest == "pmcfg" else gram.canon_line_files(lexfiles=(1,))
    lines = []
    if mw is None:
        lines.append(Line("corr", "grammar_src", [F, proto.enc_opts(opts), gtype, "-", dest, "t" if lig else "f", srcarg], got, canon=cn))
    # the same command from the raw words (TT.runGrammarCmd: markovOf - defaults v 1, h 2, `nofanout` by presence - and inOptsOf)
    lines.append(Line("corr", "grammar_cmd", [F, ",".join(proto.enc_s(w) for w in cli_opts(opts)), gtype,
                                              "n" if mw is None else ",".join(proto.enc_s(w) for w in mw), dest, "t" if lig else "f", srcarg],
                      got, canon=cn))
    return Case("cli-src:%s:%s:%s" % (F, gtype, dest), {"src_format": F, "src_opts": opts, "text": text, "dest": dest, "lex_in_grammar": lig, "markov": mw,
                                                        "err": err[-300:] if rc else ""}, lines, nontrivial=True)


def spell_words(rng, opts):
    """the reader options as WORDS of `--src-opts`, in the spellings `misc.options_dict` and the readers accept: values on
    flags (presence counts, `gf_split:0` is ON), repeated keys (the last one decides), all-digit values, unknown keys,
    blanks around a word with a colon"""
    words = []
    for k in sorted(opts):
        v = opts[k]
        if v is True:
            w = rng.choice([k, k, k + ":1", k + ":0", k + ":yes", k + ":"])
        elif k == "brackets_firstid":
            w = "%s:%s" % (k, rng.choice(["%d", "%d", "0%d", "00%d"]) % v)
        else:
            w = "%s:%s" % (k, v)
            if rng.random() < 0.3:
                words.append("%s:%s" % (k, rng.choice(["-", "#", "=", "::"])))     # overwritten by the later word
        if ":" in w and rng.random() < 0.15:
            w = rng.choice([" " + w, w + " ", "\t" + w])
        words.append(w)
    rng.shuffle(words)
    # keep a repeated key's LAST word last
    if 'gf_separator' in opts:
        last = "gf_separator:%s" % opts['gf_separator']
        words = [w for w in words if w.strip() != last] + [last]
    for _ in range(rng.choice([0, 0, 1, 2])):
        words.insert(rng.randint(0, len(words)), rng.choice(["quiet", "foo", "foo:bar", "gf:1", "quiet:0", "x:7"]))
    return words


def words_case(rng):
    F, ts, text, opts, srcarg = make_source(rng)
    if rng.random() < 0.5 and not opts:
        opts = reader_opts(rng, F)
        opts.pop('brackets_emptypos', None)
    Fcli = F
    flip = rng.random()
    if F == "discobrackets" and flip < 0.5:
        # the bracket format with the option `disco` is the discobracket format
        Fcli = "brackets"
        opts = dict(opts, disco=True)
    words = spell_words(rng, opts)
    if F == "brackets" and flip < 0.3:
        words.append(rng.choice(["disco:0", "disco:"]))          # present but falsy: plain brackets
    elif Fcli == "discobrackets" and flip > 0.8:
        words.append("disco:0")                                  # the format sets it anyway
    wenc = ",".join(proto.enc_s(w) for w in words)
    lines = []
    with cli.Scratch() as sc:
        src = sc.write("src." + F, text)
        argv = ["--src-format", Fcli] + ((["--src-opts"] + words) if words else [])
        rc, out, err = cli.run_cli(["treeanalysis", src, "SentenceCount"] + argv)
        m = re.search(r"(\d+) sentences", out)
        got = m.group(1) if (rc == 0 and m) else cli_error(err)
        lines.append(Line("corr", "analysis_words", ["SentenceCount", Fcli, wenc, srcarg], got))
        rc, _, err2 = cli.run_cli(["transform", src, sc.path("dest"), "--dest-format", "export"] + argv)
        got = proto.enc_s(sc.read("dest")) if rc == 0 else cli_error(err2)
        lines.append(Line("corr", "convert_words", [Fcli, wenc, "export", "-", "n", srcarg], got))
    return Case("cli-words:" + Fcli, {"src_format": Fcli, "words": words, "text": text, "err": (err + err2)[-300:]}, lines, nontrivial=True)


DEST_FLAGS = ["gf", "gf_terminals", "mark_heads_marking", "boyd_split_marking", "boyd_split_numbering", "brackets_emptyroot",
              "brackets_skipdisco", "export_four", "terminals_one", "terminals_pos", "pos_only"]


def dest_words_case(rng):
    """`--dest-opts` as words (TT.outOptsOf): presence of the writers' keys, the separator through str()"""
    import tx
    F, ts, text, opts, srcarg = make_source(rng)
    G = rng.choice(["export", "brackets", "discobrackets", "terminals", "discobrackets", "export"])
    swords = spell_words(rng, opts)
    dwords = []
    for k in rng.sample(DEST_FLAGS, rng.randint(0, 4)):
        dwords.append(rng.choice([k, k, k + ":0", k + ":x"]))
    if rng.random() < 0.6 and "gf" not in [w.split(":")[0] for w in dwords]:
        dwords.append("gf")
    if rng.random() < 0.5:
        dwords.append(rng.choice(["gf_separator:#", "gf_separator:=", "gf_separator:7", "gf_separator:007", "gf_separator", "gf_separator:::",
                                  "gf_separator:-", "gf_separator:0", "gf_separator:00", "gf_separator:", "gf_separator:0"]))
        if rng.random() < 0.3:
            dwords.insert(0, "gf_separator:+")
    rng.shuffle(dwords) if rng.random() < 0.3 and not any(w.startswith("gf_separator") for w in dwords) else None
    trans = rng.choice([[], ["negra_mark_heads"], ["root_attach", "negra_mark_heads", "boyd_split"],
                        ["root_attach", "negra_mark_heads", "boyd_split", "raising"]])
    if G == "brackets" and F != "brackets":
        trans = ["root_attach", "negra_mark_heads", "boyd_split", "raising"]
    with cli.Scratch() as sc:
        src = sc.write("src." + F, text)
        argv = ["transform", src, sc.path("dest"), "--src-format", F, "--dest-format", G]
        if swords:
            argv += ["--src-opts"] + swords
        if dwords:
            argv += ["--dest-opts"] + dwords
        if trans:
            argv += ["--trans"] + trans
        rc, _, err = cli.run_cli(argv)
        got = proto.enc_s(sc.read("dest")) if rc == 0 else cli_error(err)
    lines = [Line("corr", "convert_words2", [F, ",".join(proto.enc_s(w) for w in swords), G, ",".join(proto.enc_s(w) for w in dwords), "n",
                                             tx.calls_str([(n, {}) for n in trans]), srcarg], got)]
    return Case("cli-dest-words:%s->%s" % (F, G), {"src_format": F, "dest_format": G, "src_words": swords, "dest_words": dwords,
                                                     "trans": trans, "text": text, "err": err[-300:] if rc else ""}, lines, nontrivial=True)


PIPES = [["root_attach"], ["negra_mark_heads"], ["mark_heads_by_rules"], ["root_attach", "mark_heads_by_rules", "boyd_split", "raising"],
         ["negra_mark_heads", "boyd_split"], ["root_attach", "negra_mark_heads", "boyd_split", "raising", "binarize"],
         ["negra_mark_heads", "binarize"], ["mark_heads_by_rules", "binarize"], ["add_topnode"], ["punctuation_verylow"],
         ["punctuation_root"], ["punctuation_symetrify"], ["punctuation_delete"], ["collapse_unary_chains"],
         ["collapse_unary_chains", "uncollapse_unary_chains"], ["filter_by_length"], ["punctuation_delete", "filter_by_length"],
         ["ptb_delete_traces"], ["filter_by_length", "negra_mark_heads", "binarize"], ["binarize"], ["raising"]]


def cmd_case(rng):
    """the whole `transform` command from its words: --trans names --params words --src-opts words --dest-opts words
    against TT.runCmd"""
    F, ts, text, opts, srcarg = make_source(rng)
    names = list(rng.choice(PIPES))
    if rng.random() < 0.2:
        names = names + list(rng.choice(PIPES))
    if rng.random() < 0.3:
        # a name given twice is applied twice (add_topnode is not idempotent: two TOP nodes)
        for _ in range(2):
            names.insert(rng.randint(0, len(names)), "add_topnode")
    elif rng.random() < 0.15:
        names.insert(rng.randint(0, len(names)), rng.choice(names))
    pw = []
    if "mark_heads_by_rules" in names or rng.random() < 0.1:
        pw.append(rng.choice(["mark_heads_preset:negra", "mark_heads_preset:negra", "mark_heads_preset:ptb", "mark_heads_preset:tiger",
                              "mark_heads_preset:7", "mark_heads_preset", "mark_heads_rulefile:", "mark_heads_rulefile:x.rules"]))
        if rng.random() < 0.1:
            pw.append("mark_heads_rulefile:")
    if "filter_by_length" in names:
        if rng.random() < 0.9:
            pw.append("filteroperator:" + rng.choice(["lt", "gt", "eq", "le", "lt", "gt"]))
        if rng.random() < 0.9:
            pw.append("filtervalue:" + rng.choice(["0", "1", "3", "4", "5", "007", "12"]))
    if "binarize" in names and rng.random() < 0.4:
        pw.append(rng.choice(["bare_bin_labels", "bare_bin_labels:0"]))
    if "punctuation_symetrify" in names and rng.random() < 0.5:
        pw.append("relc:" + rng.choice(["PRELS", "cc", "a"]))
    if "ptb_delete_traces" in names:
        for w in rng.sample(["keepall", "keepcoindex", "keep:*T*", "keep:*T*,*U*", "slash", "slash:*T*"], rng.randint(0, 2)):
            pw.append(w)
    for _ in range(rng.choice([0, 0, 1])):
        pw.append(rng.choice(["quiet", "foo:1", "terminalfile:none"]))
    rng.shuffle(pw)
    swords = spell_words(rng, opts)
    G = "export" if F != "brackets" or rng.random() < 0.5 else "brackets"
    dwords = rng.choice([[], [], ["gf"], ["export_four"] if G == "export" else ["gf"]])
    with cli.Scratch() as sc:
        src = sc.write("src." + F, text)
        argv = ["transform", src, sc.path("dest"), "--src-format", F, "--dest-format", G, "--trans"] + names
        if pw:
            argv += ["--params"] + pw
        if swords:
            argv += ["--src-opts"] + swords
        if dwords:
            argv += ["--dest-opts"] + dwords
        rc, _, err = cli.run_cli(argv)
        got = proto.enc_s(sc.read("dest")) if rc == 0 else cli_error(err)
    e = lambda ws: ",".join(proto.enc_s(w) for w in ws)
    lines = [Line("corr", "convert_cmd", [F, e(swords), G, e(dwords), "n", e(names), e(pw), srcarg], got)]
    return Case("cli-cmd:%s" % F, {"src_format": F, "dest_format": G, "trans": names, "params": pw, "src_words": swords, "dest_words": dwords,
                                   "text": text, "result": got[:30], "err": err[-300:] if rc else ""}, lines, nontrivial=len(names) > 1)
