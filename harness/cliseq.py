"""`treetools transform SRC DEST --trans c1 c2 ... --params ...` on generated export files, compared with the model's
pipeline read -> every call in the order given (each occurrence once) -> write (driver op `convert_seq`).

The sequences are deliberately NOT normalised: a call may occur twice, the order may differ from the order in which the
transformations are registered, and a prerequisite may be missing (then both sides must raise the same error)."""
import io
import re
from core import Case, Line
import proto
import treegen
import tx
import cli
from impl import treeoutput, treeinput, clone, tag_uids, quiet

ERR_RE = re.compile(r"^(\w+(?:\.\w+)*)(?::|$)")


def export_text(ts):
    text = ""
    for i, t in enumerate(ts):
        c = clone(t)
        c.data['sid'] = i + 1
        s = io.StringIO()
        treeoutput.export(c, s)
        text += s.getvalue()
    return text


def cli_error(stderr):
    """class name of the uncaught exception of a failed command"""
    last = [l for l in stderr.strip().split("\n") if l.strip()]
    if not last:
        return "ERR:Other"
    m = ERR_RE.match(last[-1].strip())
    name = m.group(1).split(".")[-1] if m else "Other"
    return "ERR:" + (name if name in ("ValueError", "TypeError", "AttributeError", "IndexError", "KeyError", "StopIteration") else "Other")


def perturb(rng, seq):
    """repeat a call / reorder: the command line must do what was asked, in the order asked"""
    seq = list(seq)
    r = rng.random()
    if seq and r < 0.35:
        c = rng.choice(seq)
        seq.insert(rng.randint(0, len(seq)), c)
    elif len(seq) > 1 and r < 0.5:
        i, j = rng.sample(range(len(seq)), 2)
        seq[i], seq[j] = seq[j], seq[i]
    return seq


def params_of(seq):
    params = {}
    for c in seq:
        params.update(c[1])
    return params


def cli_params(params):
    out = []
    for k in sorted(params):
        v = params[k]
        out.append(k if v is True else "%s:%s" % (k, v))
    return out


def seq_case(rng, ts, seq, group, split=False):
    """ts: generated trees (sentence ids 1..k are assigned here); seq: list of (name, params)"""
    params = params_of(seq)
    seq = [(c[0], params) for c in seq]        # --params is one dictionary for the whole run
    text = export_text(ts)
    cs = tx.calls_str(seq)
    with cli.Scratch() as sc:
        src = sc.write("src.export", text)
        argv = ["transform", src, sc.path("dest"), "--src-format", "export", "--dest-format", "export"]
        if seq:
            argv += ["--trans"] + [c[0] for c in seq]
        if params:
            argv += ["--params"] + cli_params(params)
        rc, _, err = cli.run_cli(argv)
        out_trees = None
        if rc != 0:
            got = cli_error(err)
        else:
            got = proto.enc_s(sc.read("dest"))
            try:
                with quiet():
                    out_trees = list(treeinput.export(sc.path("dest"), "utf-8"))
            except Exception:
                out_trees = None
    lines = [Line("corr", "convert_seq", ["export", "-", "export", "-", "n", cs, proto.enc_s(text)], got,
                  note=("command failed: " + err[-200:]) if rc != 0 else "")]
    if not any(c[0] in ("insert_terminals", "substitute_terminals", "delete_terminal") for c in seq):
        # wave 18: the same command against TT.runCmd, from the NAMES after --trans and the WORDS after --params (one dict for
        # all names; TT/RunCmd.lean stepOf / stepsOf) - no harness-side encoding of the parameters in between
        lines.append(Line("corr", "convert_cmd", ["export", "", "export", "", "n", ",".join(proto.enc_s(c[0]) for c in seq),
                                                  ",".join(proto.enc_s(w) for w in cli_params(params)), proto.enc_s(text)], got,
                          note=("command failed: " + err[-200:]) if rc != 0 else ""))
    DROPPING = ("filter_by_length", "punctuation_delete", "ptb_delete_traces", "delete_terminal", "insert_terminals", "substitute_terminals")
    if out_trees is not None and len(out_trees) == len(ts) and not any(c[0] in DROPPING for c in seq):
        # no step of the sequence adds or removes tokens: what was written has the words of what was read, in order
        # (after collapsing, a token's tag is the concatenated chain: only the words are compared then)
        collapsed = any(c[0] == "collapse_unary_chains" for c in seq)
        for t_in, o in zip(ts, out_trees):
            if o.children:
                lines.append(Line("pred", "P.C04.words", [proto.enc_tree(t_in), proto.enc_tree(o), "t" if collapsed else "f"]))
    if seq and out_trees is not None and len(out_trees) == len(ts):
        # the post-condition of the LAST call must hold of what was written, whatever preceded it
        last = tx.call_str(seq[-1][0], seq[-1][1])
        for o in out_trees:
            if not o.children:
                continue        # a sentence collapsed into one bare token is written as an empty sentence: nothing to look at
            tag_uids(o)
            lines.append(Line("pred", "P.post", [last, proto.enc_tree(o)]))
    return Case(group, {"text": text, "trans": [c[0] for c in seq], "params": cli_params(params), "result": got[:40]}, lines,
                nontrivial=len(seq) > 1, tags=["cli-seq", "len%d" % len(seq), "rc%d" % min(rc, 1)]), got
