"""C09 - written grammar and lexicon files decode to exactly the grammar in memory."""
import copy
import io
import os
import core
from core import Case, Line, case_rng
import proto
import gram
import cli
from impl import trees, grammar, grammaroutput, grammarinput, grammaranalysis, treeoutput, quiet, clone
from props.c07 import REORD

ID = "C09"
MODULE = ['TT.Props.C09', 'TT.Props.C09Rcg', 'TT.Props.C09More', 'TT.Props.C09Full', 'TT.Props.C09Treebank', 'TT.Props.C09Lopar', 'TT.Props.C09Lopar2', 'TT.Props.C18Src', 'TT.Props.C03Cmd']
RULE = ("grammars extracted from random treebanks (any fan-out, shared linearization sequences, counts > 1), raw and "
        "binarized in every mode; lexicons with ambiguous, capitalised and non-ASCII words; lex_in_grammar on/off; "
        "PMCFG and LoPar files decoded by independent decoders, RCG files re-read with the tool's own reader; the "
        "`treetools grammar` command incl. a grammar file as input. Non-trivial: the grammar has a rule of fan-out > 1 "
        "or a count > 1")
TRUSTED = ["codecs and the file system are exercised, not modelled"]
ASSUMPTIONS = ["labels carry no parentheses, whitespace or trailing digit (RCG); LoPar only for context-free grammars"]

WORDS = ["der", "Hund", "bellt", "Haus", "a", "Bellt", "été", "Zug", "Über", "x",
         # capitalisation is decided by the FIRST character only: all-caps, CamelCase, an uncased first character
         "EU", "USA", "ÖVP", "McDonalds", "iPhone", "X", "-Punkt", "ßA", "ÉTÉ"]


def mk(rng, disc=True):
    ts = gram.gen_treebank(rng, kmax=4, nmax=8, disc=disc, words=WORDS)
    with quiet():
        g, lex = gram.extract_all(ts)
    mode = rng.choice(["treebank", "leftright", "optimal"])
    mo = None
    if mode != "treebank":
        if rng.random() < 0.5:
            mo = {'v': rng.randint(0, 2), 'h': rng.randint(0, 2)}
            if rng.random() < 0.3:
                mo['nofanout'] = True
        args = {'reordering': REORD[mode]}
        if mo is not None:
            args['markov_opts'] = mo
        with quiet():
            g = grammar.binarize(g, **args)
    return ts, g, lex, mode, mo


def one(rng):
    fmt = rng.choice(["pmcfg", "rcg", "rcg", "lopar"])
    ts, g, lex, mode, mo = mk(rng, disc=(fmt != "lopar") or rng.random() < 0.2)
    lig = fmt != "lopar" and rng.random() < 0.35
    genc, lenc = gram.enc_grammar(g), gram.enc_lexicon(lex)
    params = {"lex_in_grammar": True} if lig else {}
    lines = []
    desc = {"trees": [proto.pretty_tree(t) for t in ts], "mode": mode, "markov": mo, "format": fmt, "lex_in_grammar": lig}
    with cli.Scratch() as sc:
        dest = sc.path("g")
        g_before = copy.deepcopy(g)
        try:
            with quiet():
                getattr(grammaroutput, fmt)(g, lex, dest, "utf-8", **params)
            err = None
        except Exception as e:
            err = proto.err_name(e)
        if g != g_before:
            l = Line("pred", "P.C09.rcg", ["f", "", "", "", ""], note="the writer modified the caller's grammar")
            l.expect = "writer-must-not-modify-grammar"
            lines.append(l)
        if fmt == "pmcfg":
            gl = gram.file_lines(dest + ".pmcfg")
            ll = gram.file_lines(dest + ".lex") if not lig else None
            out = gram.enc_lines(gl) + " # " + (gram.enc_lines(ll) if ll is not None else "none")
            lines.append(Line("corr", "write_pmcfg", ["t" if lig else "f", genc, lenc], out, canon="canon_pmcfg"))
            lines.append(Line("pred", "P.C09.pmcfg", ["t" if lig else "f", genc, lenc, gram.enc_lines(gl),
                                                      gram.enc_lines(ll) if ll is not None else "-"]))
        elif fmt == "rcg":
            gl = gram.file_lines(dest + ".rcg")
            ll = gram.file_lines(dest + ".lex") if not lig else None
            out = gram.enc_lines(gl) + " # " + (gram.enc_lines(ll) if ll is not None else "none")
            lines.append(Line("corr", "write_rcg", ["t" if lig else "f", genc, lenc], out, canon=gram.canon_line_files(lexfiles=(1,))))
            if lig:
                open(dest + ".lex", "w").close()
            try:
                with quiet():
                    g2, l2 = grammarinput.rcg(dest, "utf-8")
                rd = gram.enc_grammar(g2) + " # " + gram.enc_lexicon(l2)
                lines.append(Line("corr", "read_rcg", [gram.enc_lines(gl), gram.enc_lines(ll or [])], rd))
                lines.append(Line("pred", "P.C09.rcg", ["t" if lig else "f", genc, lenc, gram.enc_grammar(g2), gram.enc_lexicon(l2)]))
            except Exception as e:
                l = Line("pred", "P.C09.rcg", ["f", "", "", "", ""], note="own reader raised %s" % proto.err_name(e))
                l.expect = "own-reader-must-accept"
                lines.append(l)
        else:
            # context-free: every linearization of every rule has one argument (decided here, not by the code under test)
            cf = all(len(lin) <= 1 for f in g for lin in g[f])
            if err is not None:
                lines.append(Line("corr", "write_lopar", [genc, lenc], err))
                if cf:
                    l = Line("pred", "P.C09.lopar", ["", "", ""], note="context-free grammar refused: " + err)
                    l.expect = "must-accept"
                    lines.append(l)
            else:
                files = [gram.file_lines(dest + ext) for ext in (".gram", ".lex", ".start", ".oc", ".OC")]
                files[2] = sorted(files[2], key=lambda s: [ord(c) for c in s])
                out = " # ".join(gram.enc_lines(f) for f in files)
                lines.append(Line("corr", "write_lopar", [genc, lenc], out, canon=gram.canon_line_files(lexfiles=(1,))))
                lines.append(Line("pred", "P.C09.lopar", [genc, lenc, out]))
                if not cf:
                    l = Line("pred", "P.C09.lopar", ["", "", ""], note="non-context-free grammar accepted")
                    l.expect = "must-refuse"
                    lines.append(l)
    big = any(len(l) > 1 for f in g for l in g[f]) or any(c > 1 for f in g for l in g[f] for c in g[f][l].values())
    return Case(fmt, desc, lines, nontrivial=big)


def clone_sid9(t):
    c = clone(t)
    c.data['sid'] = t.data['sid']
    return c


def cli_case(rng):
    """`treetools grammar` on a treebank, then with the written RCG grammar as input"""
    ts, _, _, _, _ = mk(rng)
    if rng.random() < 0.15:
        # a treebank of more than a hundred sentences (progress reporting, batching): the same small trees over and over
        big = []
        for i in range(rng.choice([100, 101, 199, 230])):
            c = clone(ts[i % len(ts)])
            c.data['sid'] = i + 1
            big.append(c)
        ts = big
    # a word the output encoding cannot represent: the command may refuse, it must not write something else
    unenc = rng.random() < 0.12
    if unenc:
        ts = [clone_sid9(t) for t in ts]
        x = rng.choice(trees.terminals(rng.choice(ts)))
        x.data['word'] = rng.choice(["Wa\u0142\u0119sa", "\u20acuro", "\u4e2d\u6587"])
    text = ""
    for t in ts:
        s = io.StringIO()
        c = clone(t)
        c.data['sid'] = t.data['sid']
        treeoutput.export(c, s)
        text += s.getvalue()
    gtype = rng.choice(["treebank", "leftright", "optimal"])
    lines = []
    # encodings: the source is read in --src-enc, every output file is written in --dest-enc
    senc, denc = rng.choice([("utf-8", "utf-8"), ("utf-8", "utf-8"), ("utf-8", "iso-8859-1"), ("iso-8859-1", "utf-8"), ("utf-8", "utf-16"),
                             ("utf-16", "utf-8")])
    if unenc:
        senc, denc = "utf-8", rng.choice(["iso-8859-1", "ascii", "iso-8859-1"])
    with cli.Scratch() as sc:
        src = sc.write("tb.export", text, encoding=senc)
        mkv = []
        if gtype != "treebank" and rng.random() < 0.5:
            mkv = ["--markov"] + rng.choice([["v:1"], ["h:1"], ["v:2", "h:1"], ["nofanout", "v:1"]])
        rc, _, err = cli.run_cli(["grammar", src, sc.path("g0"), gtype, "--dest-format", "rcg", "--src-enc", senc, "--dest-enc", denc] + mkv)
        if unenc and rc != 0:
            # refused (UnicodeEncodeError): nothing wrong has been written
            l0 = Line("pred", "P.C18.eq", ["a", "a"], note="a word that %s cannot represent: the command refused" % denc)
            return Case("cli", {"trees": [proto.pretty_tree(t) for t in ts[:8]], "gramtype": gtype, "src_enc": senc, "dest_enc": denc,
                                "unencodable": True}, [l0], nontrivial=True)
        if rc == 0:
            # re-encode what was written to utf-8 for the comparisons below; a file that is not in --dest-enc is a violation
            try:
                for ext in (".rcg", ".lex"):
                    with io.open(sc.path("g0") + ext, encoding=denc, newline="") as f:
                        content = f.read()
                    with io.open(sc.path("g1") + ext, "w", encoding="utf-8", newline="") as f:
                        f.write(content)
            except (UnicodeError, OSError) as e:
                l0 = Line("pred", "P.C09.rcg", ["f", "", "", "", ""], note="output of `treetools grammar --dest-enc %s` does not decode as %s: %s" % (denc, denc, e))
                l0.expect = "output-must-be-in-dest-enc"
                return Case("cli", {"trees": [proto.pretty_tree(t) for t in ts], "gramtype": gtype, "src_enc": senc, "dest_enc": denc}, [l0], nontrivial=True)
            src8 = sc.write("tb8.export", text)
            src = src8
        if rc == 0:
            # the command line's grammar must be the API's: extract, binarize with the documented defaults (v 1, h 2)
            with quiet():
                from impl import treeinput
                gA, lexA = gram.extract_all(list(treeinput.export(src, "utf-8", quiet=True)))
                if gtype != "treebank":
                    mo = None
                    if mkv:
                        from impl import misc
                        mo = misc.options_dict(mkv[1:])
                        mo.setdefault('v', 1)
                        mo.setdefault('h', 2)
                    gA = grammar.binarize(gA, reordering=REORD[gtype], markov_opts=mo)
                grammaroutput.rcg(gA, lexA, sc.path("api"), "utf-8")
            same_api = sorted(gram.file_lines(sc.path("api.rcg"))) == sorted(gram.file_lines(sc.path("g1.rcg"))) and \
                sorted(gram.file_lines(sc.path("api.lex"))) == sorted(gram.file_lines(sc.path("g1.lex")))
            if not same_api:
                l0 = Line("pred", "P.C09.rcg", ["f", "", "", "", ""], note="`treetools grammar %s %s` differs from the API pipeline" % (gtype, " ".join(mkv)))
                l0.expect = "command-line-grammar-must-equal-api-grammar"
                lines.append(l0)
            # ... and the model of the whole command (TT.runGrammarFrom + writer) gives the same files
            mo_enc = "-"
            if gtype != "treebank" and mkv:
                mo_enc = "%d,%d,%s" % (mo['v'], mo['h'], "t" if 'nofanout' in mo else "f")
            lines.append(Line("corr", "grammar_cli", ["-", gtype, mo_enc, "rcg", "f", proto.enc_s(text)],
                              gram.enc_lines(gram.file_lines(sc.path("g1.rcg"))) + " # " + gram.enc_lines(gram.file_lines(sc.path("g1.lex"))),
                              canon=gram.canon_line_files(lexfiles=(1,))))
        ok1 = rc == 0
        rc2, _, err2 = cli.run_cli(["grammar", sc.path("g1"), sc.path("g2"), "treebank", "--src-format", "rcg",
                                    "--dest-format", "rcg"])
        same = ok1 and rc2 == 0 and sorted(gram.file_lines(sc.path("g1.rcg"))) == sorted(gram.file_lines(sc.path("g2.rcg"))) and \
            sorted(gram.file_lines(sc.path("g1.lex"))) == sorted(gram.file_lines(sc.path("g2.lex"))) and len(gram.file_lines(sc.path("g1.rcg"))) > 0
        l = Line("pred", "P.C09.rcg", ["f", "", "", "", ""], note="grammar file as input: rc=%d rc2=%d" % (rc, rc2))
        l.expect = "ok" if same else "grammar-file-input-must-yield-that-grammar"
        if not same:
            lines.append(l)
        else:
            gl = gram.file_lines(sc.path("g1.rcg"))
            ll = gram.file_lines(sc.path("g1.lex"))
            with quiet():
                g2, l2 = grammarinput.rcg(sc.path("g1"), "utf-8")
            lines.append(Line("corr", "read_rcg", [gram.enc_lines(gl), gram.enc_lines(ll)],
                              gram.enc_grammar(g2) + " # " + gram.enc_lexicon(l2)))
            # the command with a grammar file as its input = the model's reader followed by the model's writer
            lines.append(Line("corr", "rcg_rewrite", [gram.enc_lines(gl), gram.enc_lines(ll)],
                              gram.enc_lines(gram.file_lines(sc.path("g2.rcg"))) + " # " + gram.enc_lines(gram.file_lines(sc.path("g2.lex"))),
                              canon=gram.canon_line_files(lexfiles=(1,))))
    return Case("cli", {"trees": [proto.pretty_tree(t) for t in ts[:8]], "sentences": len(ts), "gramtype": gtype, "src_enc": senc, "dest_enc": denc}, lines, nontrivial=True)


def gen(seed, tier, scale):
    idx = 0
    for _ in range((800 if tier == "quick" else 15000) * scale):
        rng = case_rng(seed, ID, idx)
        yield idx, one(rng)
        idx += 1
    ncli = (24 if tier == "quick" else 300) * scale
    rngs = [case_rng(seed, ID, idx + i) for i in range(ncli)]
    for i, r in enumerate(rngs):        # sequential: the case redirects stdout in-process
        yield idx + i, cli_case(r)
    idx += ncli
    # wave 18: the command with every source format and reader option against TT.runGrammarSrc
    import srccases
    nsrc = (16 if tier == "quick" else 300) * scale
    rngs = [case_rng(seed, ID, 700000 + i) for i in range(nsrc)]
    for i, c in enumerate(cli.pmap(srccases.grammar_case, rngs)):
        yield 700000 + i, c
