"""C02 - writers encode every tree faithfully in each output format."""
import io
import core
from core import Case, Line, case_rng
import proto
import treegen
from impl import trees, treeoutput, treeanalysis, quiet, clone
import gram

ID = "C02"
MODULE = ['TT.Props.C02', 'TT.Props.C02Export', 'TT.Props.C02Tiger', 'TT.Props.C02Carry', 'TT.Props.C02Disco', 'TT.Props.C03Words', 'TT.Props.C02Decor']
RULE = ("well-formed trees built through the tree API (all shapes, gap patterns, XML-special / non-ASCII / parenthesis "
        "characters, field lengths 7/8/15/16, lemma/morph/edge present or None, head/split marks present or not) x the "
        "five writers x random subsets of the documented output options; each output is decoded by the specification "
        "decoder of its format and compared with what the format can carry. Non-trivial: at least one option is set")
TRUSTED = ["xml.sax.saxutils.quoteattr is modelled; the specification decoders are statements of intent"]
ASSUMPTIONS = ["export: no whitespace inside fields, non-empty words, no word of the form #ddd, fewer than 500 constituents"]

WORDS = treegen.WORDS + ["sevench", "eightchr", "fifteen_chars__", "sixteen_chars___", "a&b", "<tag>", "\"'both'\"", "tab",
                         "-LRB-", ")", "(", "[x]", "{", "é", "日本", "#2020", "#77", "#100Days", "Donaudampfschifffahrtsgesellschaft"]
LABEL_OPTS = ["gf", "gf_terminals", "mark_heads_marking", "boyd_split_marking", "boyd_split_numbering"]


def mk_tree(rng, cont=False):
    cfg = treegen.Cfg(n_min=1, n_max=9, disc=not cont, p_disc=0.4, p_unary=0.2, p_punct=0.2, words=WORDS,
                      labels=treegen.LABELS + ["N&P", "A<B", "Q\"L", "X&lt;", "&amp;P"], edges=treegen.EDGES + ["S&B", "-", "&gt;"])
    t = treegen.gen_tree(rng, cfg)
    t.data['sid'] = rng.randint(1, 999)
    if rng.random() < 0.3:
        t.data['edge'] = rng.choice(["XX", None, "HD"])      # the root's own edge label: no format writes it
    if rng.random() < 0.3:
        # a tag that is also a category (ADV, NP, S ...), on a token that carries the same edge label as a constituent
        cons = [n for n in trees.preorder(t) if n.children and n is not t]
        toks = trees.unordered_terminals(t)
        if cons and toks:
            c, x = rng.choice(cons), rng.choice(toks)
            x.data['label'] = c.data['label']
            x.data['edge'] = c.data.get('edge')
    mode = rng.random()
    for n in trees.preorder(t):
        if mode < 0.6:
            n.data['head'] = rng.random() < 0.4
            n.data['split'] = rng.random() < 0.3
            if n.data['split'] or rng.random() < 0.2:
                n.data['block_number'] = rng.randint(1, 5)
        # long morph / lemma around tab stops
        if not n.children and rng.random() < 0.2:
            n.data['morph'] = rng.choice(["1234567", "12345678", "Nom.Sg.Masc.Pos", "Nom.Sg.Masc.Posx"])
    return t, mode < 0.6


def label_opts(rng, marked):
    o = {k: True for k in LABEL_OPTS if rng.random() < 0.3}
    if not marked:
        for k in ("mark_heads_marking", "boyd_split_marking", "boyd_split_numbering"):
            if rng.random() < 0.8:
                o.pop(k, None)
    if rng.random() < 0.25:
        o['gf_separator'] = rng.choice(["#", "-", "::"])
    return o


def run_writer(name, tree, opts):
    s = io.StringIO()
    try:
        with quiet():
            getattr(treeoutput, name)(tree, s, **opts)
        return s.getvalue(), None
    except Exception as e:
        return None, proto.err_name(e)


def lines_of(text):
    ls = text.split("\n")
    if ls and ls[-1] == "":
        ls.pop()
    return ls


def huge_case(rng):
    """a sentence of several hundred tokens (node numbers reach and pass 500 tokens): the writers against the model.
    (The specification decoder used by the predicates numbers tokens and constituents in one table and is defined for
    fewer than 500 tokens; beyond that only the comparison with the model is made.)"""
    from impl import mk_leaf, mk_node
    n = rng.choice([120, 499, 500, 501, 520, 640])
    kids = []
    i = 1
    while i <= n:
        k = min(rng.randint(1, 6), n - i + 1)
        kids.append(mk_node(rng.choice(["NP", "PP", "VP"]), [mk_leaf(i + j, "NN", "w%d" % (i + j), "--", "--", rng.choice(["NK", "HD"])) for j in range(k)],
                            edge="--", lemma="--", morph="--"))
        i += k
    t = mk_node("VROOT", [mk_node("S", kids, edge="--", lemma="--", morph="--")], edge="--", lemma="--", morph="--")
    t.data['sid'] = 7
    a = proto.enc_tree(t)
    lines = []
    for fmt, opts in (("export", {}), ("export", {"export_four": True}), ("tigerxml", {}), ("brackets", {})):
        work = clone(t)
        work.data['sid'] = 7
        text, err = run_writer(fmt, work, opts)
        if fmt == "brackets":
            out = proto.enc_s(text[:-1]) if err is None else err
            lines.append(Line("corr", "write_brackets", [proto.enc_opts(opts), a], out))
        elif fmt == "export":
            out = gram.enc_lines(lines_of(text)) if err is None else err
            lines.append(Line("corr", "write_export", [proto.enc_opts(opts), "7", a], out))
            if err is None and n < 500:
                lines.append(Line("pred", "P.C02.export", [proto.enc_opts(opts), "7", a, out]))
        else:
            out = gram.enc_lines(lines_of(text)) if err is None else err
            lines.append(Line("corr", "write_tigerxml", ["7", a], out))
    return Case("huge", {"tokens": n}, lines, nontrivial=True, tags=["huge"])


def one(rng):
    fmt = rng.choice(["export", "export", "brackets", "discobrackets", "tigerxml", "terminals"])
    t, marked = mk_tree(rng, cont=(fmt == "brackets" and rng.random() < 0.75))
    sid = t.data['sid']
    past = None
    if fmt in ("brackets", "discobrackets", "export") and not marked and rng.random() < 0.2:
        # a tree that was analysed before (gap degrees, navigation) and changed in place since
        import history
        t, past = history.aged(rng, t, reader=False, allowed=["root_attach", "punctuation_root", "punctuation_verylow",
                                                               "punctuation_symetrify", "punctuation_delete"])
        t.data['sid'] = sid
        a = proto.enc_tree(t)
        work = t            # the same objects, not a copy
    else:
        a = proto.enc_tree(t)
        work = clone(t)
        work.data['sid'] = sid
    opts = label_opts(rng, marked)
    lines = []
    if fmt == "export":
        if rng.random() < 0.4:
            opts['export_four'] = True
        text, err = run_writer("export", work, opts)
        out = gram.enc_lines(lines_of(text)) if err is None else err
        lines.append(Line("corr", "write_export", [proto.enc_opts(opts), str(sid), a], out))
        if err is None:
            lines.append(Line("pred", "P.C02.export", [proto.enc_opts(opts), str(sid), a, out]))
    elif fmt == "brackets":
        if rng.random() < 0.3:
            opts['brackets_emptyroot'] = True
        if rng.random() < 0.3:
            opts['brackets_skipdisco'] = True
        text, err = run_writer("brackets", work, opts)
        disc = treeanalysis.gap_degree(t) > 0
        if err is None and text == "":
            out = "SKIPPED"
        else:
            out = proto.enc_s(text[:-1]) if err is None else err
        lines.append(Line("corr", "write_brackets", [proto.enc_opts(opts), a], out))
        refused = (err == "ERR:ValueError" and disc) or out == "SKIPPED"
        lines.append(Line("pred", "P.C02.refuse", [a, "t" if refused else "f"]))
        if err is None and out != "SKIPPED":
            lines.append(Line("pred", "P.C02.brackets", [proto.enc_opts(opts), a, out]))
    elif fmt == "discobrackets":
        if rng.random() < 0.3:
            opts['brackets_emptyroot'] = True
        text, err = run_writer("discobrackets", work, opts)
        out = proto.enc_s(text[:-1]) if err is None else err
        lines.append(Line("corr", "write_discobrackets", [proto.enc_opts(opts), a], out))
        if err is None:
            lines.append(Line("pred", "P.C02.disco", [proto.enc_opts(opts), a, out]))
    elif fmt == "tigerxml":
        opts = {}
        text, err = run_writer("tigerxml", work, opts)
        out = gram.enc_lines(lines_of(text)) if err is None else err
        lines.append(Line("corr", "write_tigerxml", [str(sid), a], out))
        if err is None:
            lines.append(Line("pred", "P.C02.tiger", [str(sid), a, out]))
            # also: a real XML parser accepts the document
            import xml.etree.ElementTree as ET
            b = io.StringIO()
            treeoutput.tigerxml_begin(b)
            doc = b.getvalue() + text + "</body>\n</corpus>"
            try:
                ET.fromstring(doc)
            except ET.ParseError as e:
                l = Line("pred", "P.C02.tiger", [str(sid), a, out], note="not well-formed XML: %s" % e)
                l.expect = "well-formed-xml-expected"
                lines.append(l)
    else:
        opts = {}
        if rng.random() < 0.4:
            opts['terminals_one'] = True
        r = rng.random()
        if r < 0.3:
            opts['terminals_pos'] = True
        elif r < 0.5:
            opts['pos_only'] = True
        elif r < 0.55:
            opts['terminals_pos'] = True
            opts['pos_only'] = True
        text, err = run_writer("terminals", work, opts)
        out = proto.enc_s(text) if err is None else err
        lines.append(Line("corr", "write_terminals", [proto.enc_opts(opts), a], out))
        if err is None:
            lines.append(Line("pred", "P.C02.terminals", [proto.enc_opts(opts), a, out]))
    if not any(l.kind == "pred" for l in lines):
        # an error: allowed only when a decoration was requested on unmarked nodes (KeyError) or for the
        # documented refusals
        allowed = (err == "ERR:KeyError" and any(k in opts for k in ("mark_heads_marking", "boyd_split_marking", "boyd_split_numbering"))) \
            or (fmt == "terminals" and err == "ERR:ValueError" and 'terminals_pos' in opts and 'pos_only' in opts)
        if not allowed:
            l = Line("pred", "P.C02.refuse", [a, "f"], note="writer raised %s" % err)
            l.expect = "no-error-expected"
            lines.append(l)
    return Case(fmt, {"tree": proto.pretty_tree(t), "sid": sid, "opts": opts, "out": (lines[0].expect or "")[:60]}, lines,
                nontrivial=len(opts) > 0)


def gen(seed, tier, scale):
    # wave 18: the writers' options as WORDS of `--dest-opts` through `treetools transform` (TT.outOptsOf / TT.runWords2;
    # theorems TT/Props/C03Words.lean: outOptsOf_flags, outOptsOf_sep_last)
    import srccases
    import cli
    nw = (30 if tier == "quick" else 500) * scale
    rngs = [case_rng(seed, ID, 900000 + i) for i in range(nw)]
    for i, c in enumerate(cli.pmap(srccases.dest_words_case, rngs)):
        yield 900000 + i, c
    for i in range((3 if tier == "quick" else 40) * scale):
        yield 800000 + i, huge_case(case_rng(seed, ID, 800000 + i))
    idx = 0
    for _ in range((3000 if tier == "quick" else 60000) * scale):
        rng = case_rng(seed, ID, idx)
        yield idx, one(rng)
        idx += 1
