"""C10 - transition sequences are sound oracles: replaying them rebuilds the tree."""
import io
import core
from core import Case, Line, case_rng
import proto
import treegen
import tx
import cli
from impl import trees, transitions, transitionoutput, treeoutput, quiet, clone
from props.c04 import HEADS

ID = "C10"
MODULE = ['TT.Props.C10', 'TT.Props.C10Run', 'TT.Props.C10More', 'TT.Props.C10Sentence', 'TT.Props.C18Src', 'TT.Props.C03Cmd']
RULE = ("random well-formed head-marked trees: binarized (topdown: continuous; gap: continuous and discontinuous) or of "
        "arbitrary arity (inorder, continuous), unary nodes at any depth incl. an added TOP root and above tokens, "
        "one-token sentences; the emitted sequence is executed by the specification automaton and compared with the "
        "input tree; the plain writer line with/without pos. Non-trivial: more than two tokens")
TRUSTED = ["the automata follow the conventions of the suite's golden sequences (reversed preorder for topdown; deque "
           "re-concatenated top-first in gap)"]
ASSUMPTIONS = ["heads marked, exactly one head child per constituent"]


def enc_acts(tr):
    return ",".join(proto.enc_s(str(x)) for x in tr)


def relocate_punct(rng, t, system):
    """punctuation attached low and far from where it stands (as in TIGER/NeGra style annotation before punctuation_root):
    the tree is discontinuous only because of it.  Returns (tree, relocated?)"""
    from impl import transform, treeanalysis
    t0 = clone(t)
    cons = [x for x in trees.preorder(t) if x.children and x is not t]
    moved = False
    for x in trees.terminals(t):
        if rng.random() < 0.3 and cons:
            x.data['word'] = rng.choice([",", "\"", "."])
            x.data['label'] = {",": "$,", ".": "$."}.get(x.data['word'], "$(")
            tgt = rng.choice(cons)
            if x.parent is not tgt and len(x.parent.children) > 1 and not any(a is x for a in trees.dominance(tgt)):
                x.parent.children.remove(x)
                tgt.children.append(x)
                x.parent = tgt
                moved = True
    if system != "gap":
        # topdown / inorder are defined on continuous trees: the punctuation must be all that crosses
        try:
            with quiet():
                ok = treeanalysis.gap_degree(transform.punctuation_root(clone(t))) == 0
        except Exception:
            ok = False
        if not ok:
            return t0, False
    return t, moved


def one(rng, system):
    disc = system == "gap" and rng.random() < 0.7
    cfg = treegen.Cfg(n_min=1, n_max=10, disc=disc, p_disc=0.5, p_unary=0.25, p_punct=0.1,
                      labels=treegen.LABELS if rng.random() < 0.3 else treegen.PLAIN_LABELS, none_fields=False, max_arity=5)
    t = treegen.gen_tree(rng, cfg)
    if rng.random() < 0.15:
        # tokens that contain a space character which is not an ASCII blank: one token, one field of the written sentence
        x = rng.choice(trees.unordered_terminals(t))
        x.data['word'] = rng.choice(["10\u00a0000", "a\u2009b", "x\u3000y", "n\u0085l"])
        if rng.random() < 0.4:
            x.data['label'] = "C\u00a0D"
    calls = []
    relocated = False
    if len(trees.unordered_terminals(t)) >= 3 and rng.random() < 0.2:
        t, relocated = relocate_punct(rng, t, system)
    if not relocated and rng.random() < 0.3:          # (below a top node the punctuation would leave holes in the old root)
        calls.append(("add_topnode", {}))
    calls.append(rng.choice(HEADS))
    if relocated:
        calls.append(("punctuation_root", {}))          # after the heads were marked (the tree has been looked at)
    if system != "inorder":
        calls.append(("binarize", {}))
    if rng.random() < 0.15:
        calls.append(("add_topnode", {}))
    src = tx.fresh(t, 1)
    batch = False
    if rng.random() < 0.25:
        # the treebank is read completely before the first tree is processed
        import history
        others = [treegen.gen_tree(rng, treegen.Cfg(n_min=1, n_max=4, none_fields=False, labels=treegen.PLAIN_LABELS))
                  for _ in range(rng.randint(1, 2))]
        got = history.batch_read(rng, [t] + others, "export")
        if got:
            src, batch = got[0], True
    _, _, b = tx.run_impl(calls, src)
    if b is None:
        return None
    a = proto.enc_tree(b)
    try:
        with quiet():
            sent, tr = getattr(transitions, system)(b)
        out = enc_acts(tr)
    except Exception as e:
        out = proto.err_name(e)
        sent = None
    lines = [Line("corr", system, [a], out)]
    if sent is not None:
        lines.append(Line("pred", "P.C10", [system, a, out]))
        s = ",".join("%s/%s" % (proto.enc_s(w), proto.enc_s(p)) for (w, p) in sent)
        lines.append(Line("pred", "P.C10.sentence", [a, s]))
        lines.append(Line("corr", "oracle_sentence", [a], s))
        if rng.random() < 0.35:
            pos = rng.random() < 0.5
            with cli.Scratch() as sc:
                with quiet():
                    transitionoutput.plain([(sent, tr)], sc.path("o"), "utf-8", **({"pos": True} if pos else {}))
                txt = sc.read("o")
            lines.append(Line("corr", "plain_line", ["t" if pos else "f", a, out],
                              proto.enc_s(txt[:-1]) if txt.endswith("\n") and txt.count("\n") == 1 else "not-one-line"))
            if txt.endswith("\n") and txt.count("\n") == 1:
                lines.append(Line("pred", "P.C10.line", ["t" if pos else "f", a, proto.enc_s(txt[:-1])]))
    else:
        l = Line("pred", "P.C10", [system, a, ""], note="oracle raised " + out)
        l.expect = "no-error-expected"
        lines.append(l)
    again = False
    if sent is not None and rng.random() < 0.2:
        # the same tree object asked again after its tokens were edited in place (retagged, a word replaced)
        again = True
        for x in rng.sample(trees.terminals(b), min(2, len(trees.terminals(b)))):
            if rng.random() < 0.5:
                x.data['word'] = rng.choice(["neu", "Wort", "x"])
            else:
                x.data['label'] = rng.choice(["XY", "NN2", "VBZ"])
        a2 = proto.enc_tree(b)
        try:
            with quiet():
                sent2, tr2 = getattr(transitions, system)(b)
            out2 = enc_acts(tr2)
        except Exception as e:
            out2, sent2 = proto.err_name(e), None
        lines.append(Line("corr", system, [a2], out2))
        if sent2 is not None:
            lines.append(Line("pred", "P.C10", [system, a2, out2]))
            lines.append(Line("pred", "P.C10.sentence", [a2, ",".join("%s/%s" % (proto.enc_s(w), proto.enc_s(p)) for (w, p) in sent2)]))
    n = len(trees.terminals(b))
    return Case(system, {"tree": proto.pretty_tree(b), "calls": tx.calls_str(calls), "transitions": out[:80], "asked-again-after-edit": again,
                         "read-as-part-of-a-treebank": batch}, lines,
                nontrivial=n > 2, tags=(["disc"] if disc else []) + (["batch-read"] if batch else []))


def cli_case(rng):
    """`treetools transitions SRC DEST T --transform ... [--dest-opts pos]`: one line per tree, sentence ||| transitions"""
    import io
    system = rng.choice(["topdown", "inorder", "gap"])
    k = rng.randint(1, 3)
    text = ""
    ts = []
    relocate = rng.random() < 0.35
    for i in range(k):
        cfg = treegen.Cfg(n_min=(3 if relocate else 1), n_max=7, disc=(system == "gap"), p_disc=0.5, p_unary=0.2, p_punct=0.0, none_fields=False,
                          labels=treegen.PLAIN_LABELS, words=["a", "b", "Haus", "der", "10.000", "x-y"], max_arity=4, edges=["HD", "NK", "--"])
        t = treegen.gen_tree(rng, cfg)
        if relocate:
            t, _ = relocate_punct(rng, t, system)
        t.data['sid'] = i + 1
        s = io.StringIO()
        from impl import treeoutput
        c = clone(t)
        c.data['sid'] = i + 1
        treeoutput.export(c, s)
        text += s.getvalue()
        ts.append(t)
    pos = rng.random() < 0.5
    std = ["negra_mark_heads"] + ([] if system == "inorder" else ["binarize"])
    trans = list(std)
    # the command applies what --transform lists, in the order listed, each occurrence once
    if relocate:
        # heads first (the tree is looked at), then the punctuation is moved to the root, then the rest
        trans = ["negra_mark_heads", "punctuation_root"] + ([] if system == "inorder" else ["binarize"])
        if rng.random() < 0.3:
            trans = ["punctuation_root"] + std
    elif rng.random() < 0.6:
        for extra in rng.sample(["root_attach", "add_topnode", "collapse_unary_chains", "punctuation_root", "negra_mark_heads"],
                                rng.randint(1, 2)):
            trans.insert(rng.randint(0, len(trans)), extra)

    def api(tr_names):
        res = []
        for t in ts:
            _, _, b = tx.run_impl([(n, {}) for n in tr_names], tx.fresh(t, 1))
            if b is None:
                return None
            a = proto.enc_tree(b)
            try:
                with quiet():
                    sent, tr = getattr(transitions, system)(b)
            except Exception:
                return None
            res.append((a, tr))
        return res
    via_api = api(trans)
    if via_api is None:          # this order is refused by the API (prerequisite missing): use the standard pipeline
        trans = list(std)
        via_api = api(trans)
    lines = []
    with cli.Scratch() as sc:
        src = sc.write("src.export", text)
        rc, _, err = cli.run_cli(["transitions", src, sc.path("out"), system, "--transform"] + trans + (["--dest-opts", "pos"] if pos else []))
        if rc != 0:
            l = Line("pred", "P.C10", [system, proto.enc_tree(ts[0]), ""], note="command failed: " + err[-300:])
            l.expect = "command-must-succeed"
            return Case("cli:" + system, {"text": text}, [l], nontrivial=True)
        out = sc.read("out").split("\n")
        if out and out[-1] == "":
            out.pop()
    if len(out) != k:
        l = Line("pred", "P.C10", [system, proto.enc_tree(ts[0]), ""], note="%d lines for %d trees" % (len(out), k))
        l.expect = "one-line-per-tree"
        return Case("cli:" + system, {"text": text}, [l], nontrivial=True)
    # the whole command against the model of transitions.run (TT.runTransitions): every line of the file
    lines.append(Line("corr", "transitions_cli", ["-", system, "t" if pos else "f", tx.calls_str([(n, {}) for n in trans]), proto.enc_s(text)],
                      "|".join(proto.enc_s(x) for x in out) if out else "EMPTY"))
    for (a, tr), line in zip(via_api, out):
        # the same tree through the API (reader-equivalent content: export round trip keeps all fields)
        lines.append(Line("corr", "plain_line", ["t" if pos else "f", a, enc_acts(tr)], proto.enc_s(line)))
        parts = line.split(" ||| ")
        acts = ",".join(proto.enc_s(x) for x in parts[1].split(" ")) if len(parts) == 2 and parts[1] else ""
        lines.append(Line("pred", "P.C10", [system, a, acts]))
    return Case("cli:" + system, {"text": text, "pos": pos, "transform": trans}, lines, nontrivial=True)


def gen(seed, tier, scale):
    ncli = (16 if tier == "quick" else 300) * scale
    rngs = [case_rng(seed, ID, 500000 + i) for i in range(ncli)]
    for i, r in enumerate(rngs):          # sequential: the case uses in-process stdout redirection
        yield 500000 + i, cli_case(r)
    # wave 18: the command with every source format and reader option against TT.runTransitionsSrc
    import srccases
    nsrc = (16 if tier == "quick" else 300) * scale
    rngs = [case_rng(seed, ID, 700000 + i) for i in range(nsrc)]
    for i, c in enumerate(cli.pmap(srccases.transitions_case, rngs)):
        yield 700000 + i, c
    idx = 0
    for _ in range((3000 if tier == "quick" else 60000) * scale):
        rng = case_rng(seed, ID, idx)
        c = one(rng, rng.choice(["topdown", "inorder", "gap", "gap"]))
        if c is not None:
            yield idx, c
        idx += 1
