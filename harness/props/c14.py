"""C14 - tree binarization and unary-chain collapsing are reversible normal forms."""
import core
from core import Case, Line, case_rng
import proto
import treegen
import tx
from impl import trees, transform, quiet, clone, tag_uids
from props.c04 import HEADS

ID = "C14"
MODULE = ['TT.Props.C14', 'TT.Props.C14More', 'TT.Props.C14More2']
RULE = ("random well-formed head-marked trees of arity 1..6 (head first/last/middle, discontinuous nodes), "
        "bare_bin_labels on/off, decorated parent labels; trees with unary chains of length 1..4 at the root, in the "
        "middle and above tokens (labels without '+', not starting with '@'); nodes with >2 children and no head mark "
        "(must be rejected). Non-trivial: some node has more than two children / some unary chain exists")
TRUSTED = []
ASSUMPTIONS = ["labels contain no '+' and do not start with '@'"]


def bin_case(rng):
    cfg = treegen.Cfg(n_min=2, n_max=12, max_arity=6, p_unary=0.1, p_punct=0.05,
                      labels=treegen.LABELS if rng.random() < 0.4 else treegen.PLAIN_LABELS)
    t = treegen.gen_tree(rng, cfg)
    if rng.random() < 0.15:
        import history
        t, _ = history.pretransformed(rng, t, allowed=["add_topnode", "punctuation_root", "root_attach", "punctuation_verylow"])      # none of them marks heads
    tag_uids(t)
    mode = rng.random()
    if mode < 0.8:
        _, _, base = tx.run_impl([rng.choice(HEADS)], tx.fresh(t, 1))
        group = "binarize"
    elif mode < 0.9:
        base = tx.fresh(t, 1)
        for n in trees.preorder(base):
            n.data['head'] = False
        group = "binarize-headless"
    else:
        base = tx.fresh(t, 1)
        group = "binarize-unmarked"
    params = {"bare_bin_labels": True} if rng.random() < 0.3 else {}
    a = proto.enc_tree(base)
    big = any(len(n.children) > 2 for n in trees.preorder(base))
    res, _, out = tx.run_impl([("binarize", params)], base)
    cs = tx.call_str("binarize", params)
    lines = [Line("corr", "apply", [cs, a], res)]
    if group == "binarize":
        if out is not None:
            lines.append(Line("pred", "P.C14.binarize", [cs, a, res]))
        else:
            l = Line("pred", "P.C14.binarize", [cs, a, a], note="returned " + res)
            l.expect = "no-error-expected"
            lines.append(l)
    elif big:
        # must be rejected
        if not res.startswith("ERR:ValueError"):
            l = Line("pred", "P.C14.binarize", [cs, a, a], note="headless node with >2 children was not rejected: " + res[:40])
            l.expect = "rejection-expected"
            lines.append(l)
    return Case(group, {"tree": proto.pretty_tree(t), "call": cs, "result": res[:60]}, lines, nontrivial=big)


def chain_case(rng):
    cfg = treegen.Cfg(n_min=1, n_max=9, p_unary=rng.choice([0.3, 0.6]), p_punct=0.05, labels=treegen.PLAIN_LABELS,
                      none_fields=False)
    t = treegen.gen_tree(rng, cfg)
    # lengthen chains: wrap random nodes
    from impl import mk_node
    for _ in range(rng.randint(0, 3)):
        nodes = [n for n in trees.preorder(t) if n.parent is not None]
        if not nodes:
            break
        n = rng.choice(nodes)
        par = n.parent
        par.children.remove(n)
        w = mk_node(rng.choice(treegen.PLAIN_LABELS), [n], edge="--", lemma="--", morph="--")
        par.children.append(w)
        w.parent = par
    if rng.random() < 0.3:
        # unary chain at the root
        k = list(t.children)
        w = mk_node("S", k, edge="--", lemma="--", morph="--")
        t.children = [w]
        w.parent = t
    if rng.random() < 0.15:
        import history
        t, _ = history.pretransformed(rng, t, allowed=["add_topnode", "punctuation_root", "root_attach", "binarize", "punctuation_verylow"], p_reader=0.0)
    if rng.random() < 0.7:
        tag_uids(t)          # the predicates of this case do not need node identities: leave the node data as the user's code would
    base = tx.fresh(t, 1)
    a = proto.enc_tree(base)
    unary = any(len(n.children) == 1 for n in trees.preorder(base))
    res1, _, col = tx.run_impl([("collapse_unary_chains", {})], base)
    lines = [Line("corr", "apply", ["collapse_unary_chains", a], res1)]
    if col is not None:
        b = proto.enc_tree(col)
        res2, _, unc = tx.run_impl([("uncollapse_unary_chains", {})], col)
        lines.append(Line("corr", "apply", ["uncollapse_unary_chains", b], res2))
        if unc is not None:
            lines.append(Line("pred", "P.C14.collapse", [a, res1, res2]))
        else:
            l = Line("pred", "P.C14.collapse", [a, res1, res1], note="uncollapse returned " + res2)
            l.expect = "no-error-expected"
            lines.append(l)
    return Case("collapse", {"tree": proto.pretty_tree(t)}, lines, nontrivial=unary)


def gen(seed, tier, scale):
    idx = 0
    for _ in range((1500 if tier == "quick" else 30000) * scale):
        rng = case_rng(seed, ID, idx)
        yield idx, bin_case(rng)
        idx += 1
    for _ in range((1500 if tier == "quick" else 30000) * scale):
        rng = case_rng(seed, ID, idx)
        yield idx, chain_case(rng)
        idx += 1
