"""C03 - any-to-any conversion through the command line is total and lossless."""
import gzip
import io
import os
import xml.etree.ElementTree as ET
import core
from core import Case, Line, case_rng
import proto
import treegen
import cli
import gram
from impl import trees, treeoutput, treeinput, treeanalysis, quiet, clone

ID = "C03"
MODULE = ['TT.Props.C03', 'TT.Props.C03Own', 'TT.Props.C03Options', 'TT.Props.C03Run', 'TT.Props.C03Run2', 'TT.Props.C03Total', 'TT.Props.C03Chain', 'TT.Props.C18Src', 'TT.Props.C03Words', 'TT.Props.C03Cmd', 'TT.Props.C18Dir', 'TT.Props.C03Conv19', 'TT.Props.C03Xml', 'TT.Props.C03Mid19']
RULE = ("`treetools transform` on generated treebanks (1..4 sentences) for all 4x5 (source, destination) format pairs, "
        "A->B->A chains, own-format round trips, encodings utf-8 / latin-1 / utf-16 on either side, gzip sources, "
        "directory sources, export v3/v4. The destination is decoded by the specification decoder and compared with "
        "what source and destination formats can both carry; the model composition write o read is compared bytewise. "
        "Non-trivial: source and destination formats differ")
TRUSTED = ["codecs, gzip, argparse, os.listdir and ElementTree are exercised through the command line, not modelled"]
ASSUMPTIONS = ["no whitespace inside fields; bracket formats: no parentheses inside tokens; brackets destination: continuous trees"]

SRC = ["export", "brackets", "discobrackets", "tigerxml"]
DEST = ["export", "brackets", "discobrackets", "tigerxml", "terminals"]
RANK = {"export4": 3, "tigerxml": 3, "export": 2, "brackets": 1, "discobrackets": 1, "terminals": 0}
WORDS_U = ["%%", "%%%x", "%", "#2020", "#12", "#100x", "der", "Hund", "bellt", "a", "x<y", "R&D", "\"q\"", "it's", "straße", "été", "1990", "x=y", "Ärger",
           # around and beyond the tab stops of the export columns (8, 16, 24 characters)
           "sevench", "eightchr", "fifteen_chars__", "sixteen_chars___", "twentythree_characters_", "twentyfour_characters___",
           "Donaudampfschifffahrtsgesellschaft"]
WORDS_X = WORDS_U + ["日本", "ż"]
# bracket characters and their escapes as words: every format other than the plain bracket format carries them as they are
BRACKET_WORDS = ["(", ")", "[", "]", "{", "(s)he", ":-)", "-LRB-", "-RSB-"]


def mk_corpus(rng, cont, words):
    k = rng.randint(1, 4)
    ts = []
    sid = rng.randint(1, 30)
    for _ in range(k):
        cfg = treegen.Cfg(n_min=1, n_max=7, disc=not cont, p_disc=0.5, p_unary=0.2, p_punct=0.1, words=words,
                          punct_words=[",", ".", "-", "\""], labels=["S", "VP", "NP", "NP-SBJ", "CS", "PP"],
                          none_fields=False, edges=["HD", "--", "SB", "OA"], wrap_all=True)
        t = treegen.gen_tree(rng, cfg)
        for n in trees.preorder(t):
            if not n.children:
                n.data['lemma'] = rng.choice(["--", "lemma"])
                n.data['morph'] = rng.choice(["--", "Nom.Sg", "1234567", "12345678", "Nom.Sg.Masc.Pos", "Comp.Nom.Sg.Masc", "Comp.Nom.Sg.Masc.x"])
        t.data['sid'] = sid
        sid += rng.randint(1, 3)
        ts.append(t)
    return ts


def write_src(ts, fmt, v4):
    s = io.StringIO()
    opts = {"export_four": True} if (fmt == "export" and v4) else {}
    getattr(treeoutput, fmt + "_begin")(s, **opts)
    for t in ts:
        c = clone(t)
        c.data['sid'] = t.data['sid']
        getattr(treeoutput, fmt)(c, s, **opts)
    getattr(treeoutput, fmt + "_end")(s, **opts)
    return s.getvalue()


def flines(text):
    ls = text.split("\n")
    if ls and ls[-1] == "":
        ls.pop()
    return ls


def xsents(text, enc="utf-8"):
    root = ET.fromstring(text.encode(enc))
    xs = []
    def eo(x):
        return "n" if x is None else proto.enc_s(x)
    for s in root.find('body').findall('s'):
        g = s.find('graph')
        terms = ";".join(",".join([proto.enc_s(x.get('id')), eo(x.get('word')), eo(x.get('pos')), eo(x.get('morph')),
                                   eo(x.get('lemma'))]) for x in g.find('terminals').findall('t'))
        nts = ";".join(",".join([proto.enc_s(n.get('id')), eo(n.get('cat')),
                                 "+".join("%s=%s" % (eo(e.get('label')), proto.enc_s(e.get('idref'))) for e in n.findall('edge'))])
                       for n in g.find('nonterminals').findall('nt'))
        xs.append("^".join([proto.enc_s(s.get('id')), terms, nts]))
    return "|".join(xs)


def one(rng):
    F = rng.choice(SRC)
    G = rng.choice(DEST)
    want_foreign = F == "tigerxml" and rng.random() < 0.4
    if want_foreign and rng.random() < 0.6:
        G = "export"        # formats with lemma / morphology columns must cope with sources that have none
    cont = G == "brackets" or F == "brackets"
    senc = rng.choice(["utf-8", "utf-8", "latin-1", "utf-16"])
    denc = rng.choice(["utf-8", "utf-8", "latin-1", "utf-16"])
    words = WORDS_U if ("latin-1" in (senc, denc)) else WORDS_X
    if "brackets" not in (F, G) and rng.random() < 0.3:
        # (the plain bracket format replaces bracket characters in tokens for good - LRB, RRB ... -, which C02 covers; the
        # other formats carry them.  The discobracket format has no escaping: its sentence part is cut at every bracket character, so it carries a
        # bracket as a word of its own but not a word with a bracket inside - DESIGN section 8)
        words = words + (["(", ")", "-LRB-", "-RSB-"] if "discobrackets" in (F, G) else BRACKET_WORDS)
    if "export" not in (F, G):
        # space characters that are not in string.whitespace are ordinary token characters in the bracket formats and in
        # TIGER-XML (the export format, split with str.split(), cannot carry them)
        words = words + ["10\u00a0000", "n\u0085l"] + ([] if ("latin-1" in (senc, denc)) else ["a\u2009b", "x\u3000y"])
    ts = mk_corpus(rng, cont, words)
    v4s = F == "export" and rng.random() < 0.5
    v4d = G == "export" and rng.random() < 0.5
    src_text = write_src(ts, F, v4s)
    if F == "tigerxml":
        # the document declares its own encoding; re-declare for the chosen one
        src_text = src_text.replace("<?xml version='1.0'?>", "<?xml version='1.0' encoding='%s'?>" % senc)
    foreign = False
    if want_foreign:
        foreign = True
        # a foreign TIGER-XML file: optional attributes missing on some tokens
        import re as _re
        drop = rng.choice(["morph", "lemma", "both"])
        def strip(m):
            t = m.group(0)
            if rng.random() < 0.6:
                if drop in ("morph", "both"):
                    t = _re.sub(r' morph="[^"]*"', "", t)
                if drop in ("lemma", "both"):
                    t = _re.sub(r' lemma="[^"]*"', "", t)
            return t
        src_text = _re.sub(r"<t [^>]*/>", strip, src_text)
    gz = F != "tigerxml" and rng.random() < 0.2
    dirmode = rng.random() < 0.1 and not gz
    lines = []
    desc = {"src_format": F, "dest_format": G, "src_enc": senc, "dest_enc": denc, "gz": gz, "dir": dirmode,
            "v4": [v4s, v4d], "trees": [proto.pretty_tree(t) for t in ts]}
    with cli.Scratch() as sc:
        if dirmode:
            os.mkdir(sc.path("d"))
            srcp = sc.path("d")
            fp = os.path.join(srcp, "a.src")
            with io.open(fp, "w", encoding=senc, newline="") as f:
                f.write(src_text)
            destp = fp + ".dest"
        else:
            fp = sc.path("a.src" + (".gz" if gz else ""))
            if gz:
                with gzip.open(fp, "wb") as f:
                    f.write(src_text.encode(senc))
            else:
                with io.open(fp, "w", encoding=senc, newline="") as f:
                    f.write(src_text)
            srcp = fp
            destp = sc.path("a.dest")
        dopts = ["--dest-opts", "export_four"] if v4d else []
        rc, _, err = cli.run_cli(["transform", srcp, destp if not dirmode else sc.path("unused"), "--src-format", F,
                                  "--dest-format", G, "--src-enc", senc, "--dest-enc", denc, "--src-opts", "quiet"] + dopts)
        if rc != 0:
            l = Line("pred", "P.C03", [F, G, "f", "f", "-", "-"], note="exit status %d: %s" % (rc, err[-300:]))
            l.expect = "conversion-must-succeed"
            return Case("%s->%s" % (F, G), desc, [l], nontrivial=F != G)
        with io.open(destp, encoding=denc, newline="") as f:
            dest_text = f.read()
        denc_decl = None
        if G == "tigerxml":
            import re
            m = re.match(r"<\?xml version='1.0' encoding='([^']*)'\?>", dest_text)
            denc_decl = m.group(1) if m else None
        srcarg = xsents(src_text, senc) if F == "tigerxml" else proto.enc_s(src_text)
        lines.append(Line("corr", "convert", [F, "quiet", G, "export_four" if v4d else "-",
                                              proto.enc_s(denc_decl) if denc_decl is not None else "n", srcarg],
                          proto.enc_s(dest_text)))
        lines.append(Line("pred", "P.C03", [F, G, "t" if v4s else "f", "t" if v4d else "f",
                                            gram.enc_lines(flines(src_text)), gram.enc_lines(flines(dest_text))]))
        # back conversion / own round trip
        if G in SRC:
            fk = "export4" if (F == "export" and v4s) else F
            gk = "export4" if (G == "export" and v4d) else G
            if RANK[gk] >= RANK[fk]:
                backp = sc.path("back")
                bopts = ["--dest-opts", "export_four"] if v4s else []
                rc2, _, err2 = cli.run_cli(["transform", destp, backp, "--src-format", G, "--dest-format", F, "--src-enc", denc,
                                            "--dest-enc", "utf-8", "--src-opts", "quiet"] + bopts)
                ok = rc2 == 0
                if ok:
                    with io.open(backp, encoding="utf-8", newline="") as f:
                        back = f.read()
                    want = src_text
                    if F == "tigerxml":
                        want = src_text.replace("encoding='%s'" % senc, "encoding='utf-8'")
                    # a foreign file that omitted optional attributes comes back with the defaults filled in
                    ok = foreign or back == want
                if not ok:
                    l = Line("pred", "P.C03", [F, G, "f", "f", "-", "-"], note="A->B->A does not give the original back (rc=%d) %s" % (rc2, err2[-200:]))
                    l.expect = "round-trip-must-reproduce-source"
                    lines.append(l)
    return Case("%s->%s" % (F, G), desc, lines, nontrivial=F != G, tags=[senc + ">" + denc] + (["gz"] if gz else []) + (["dir"] if dirmode else []))


def options_case(rng):
    from impl import misc
    pool = ["quiet", "gf", "gf_separator:#", "gf_separator:-", "brackets_firstid:12", "brackets_firstid:0", "filtervalue:007",
            "a:b:c", "key:", ":v", " padded:1 ", "relc:PRELS", "v:1", "h:2", "nofanout", "x:1.5", "y:-3", "quiet:yes"]
    opts = [rng.choice(pool) for _ in range(rng.randint(0, 5))]
    try:
        d = misc.options_dict(opts)
        out = ";".join("%s=%s" % (proto.enc_s(k), "T" if v is True else ("I%d" % v if isinstance(v, int) else "S" + proto.enc_s(v)))
                       for k, v in d.items())
    except Exception as e:
        out = proto.err_name(e)
    lines = [Line("corr", "options_dict", [",".join(proto.enc_s(o) for o in opts)], out)]
    if not out.startswith("ERR"):
        lines.append(Line("pred", "P.C03.options", [",".join(proto.enc_s(o) for o in opts), out]))
    return Case("options_dict", {"options": opts, "dict": out}, lines, nontrivial=len(opts) > 1)


TWIN = {"der": "das", "Hund": "Band", "bellt": "rennt", "a": "b", "x<y": "x>y", "R&D": "R&B", "it's": "it'd", "1990": "1991",
        "x=y": "x=z", "lemma": "gamma"}


def gz_twin_case(rng):
    """two gzipped treebanks with the SAME file name (train/ and test/ directories) and the same size but different
    words, converted one after the other in the same temporary directory: each conversion depends on its own source only"""
    import gzip
    G = rng.choice(["export", "brackets", "discobrackets"])
    cont = G == "brackets"
    ts1 = mk_corpus(rng, cont, [w for w in TWIN])
    ts2 = []
    for t in ts1:
        c = clone(t)
        c.data['sid'] = t.data['sid']
        for x in trees.terminals(c):
            x.data['word'] = TWIN.get(x.data['word'], x.data['word'])
        ts2.append(c)
    texts = [write_src(ts, "export", False) for ts in (ts1, ts2)]
    lines = []
    with cli.Scratch() as sc:
        os.mkdir(sc.path("tmp"))
        outs = []
        for i, text in enumerate(texts):
            os.mkdir(sc.path("d%d" % i))
            p = os.path.join(sc.path("d%d" % i), "corpus.export.gz")
            with gzip.open(p, "wb") as f:
                f.write(text.encode("utf-8"))
            rc, _, err = cli.run_cli(["transform", p, sc.path("out%d" % i), "--src-format", "export", "--dest-format", G],
                                     env_extra={"TMPDIR": sc.path("tmp")})
            outs.append(proto.enc_s(sc.read("out%d" % i)) if rc == 0 else "ERR:" + (err.strip().split("\n")[-1][:60]))
    for text, out in zip(texts, outs):
        lines.append(Line("corr", "convert", ["export", "quiet", G, "-", "n", proto.enc_s(text)], out))
        if not out.startswith("ERR"):
            lines.append(Line("pred", "P.C03", ["export", G, "f", "f", gram.enc_lines(flines(text)), gram.enc_lines(flines(proto.dec_s(out)))]))
    return Case("gzip-twins->" + G, {"first": texts[0], "second": texts[1]}, lines, nontrivial=True, tags=["gz"])


def gen(seed, tier, scale):
    for i in range((24 if tier == "quick" else 300) * scale):
        yield 200000 + i, gz_twin_case(case_rng(seed, ID, 200000 + i))
    # wave 18: the words of `--src-opts` through `treeanalysis` and `transform` against TT.runAnalysisWords / TT.runWords
    import srccases
    nw = (24 if tier == "quick" else 400) * scale
    rngs = [case_rng(seed, ID, 700000 + i) for i in range(nw)]
    for i, c in enumerate(cli.pmap(srccases.words_case, rngs)):
        yield 700000 + i, c
    rngs = [case_rng(seed, ID, 780000 + i) for i in range(nw)]
    for i, c in enumerate(cli.pmap(srccases.cmd_case, rngs)):
        yield 780000 + i, c
    rngs = [case_rng(seed, ID, 750000 + i) for i in range(nw)]
    for i, c in enumerate(cli.pmap(srccases.dest_words_case, rngs)):
        yield 750000 + i, c
    # wave 19: a DIRECTORY of several source files (plain / gzip, different sizes, one rejected) against TT.runDirCmd
    import dircases
    rngs = [case_rng(seed, ID, 820000 + i) for i in range((20 if tier == "quick" else 300) * scale)]
    for i, c in enumerate(cli.pmap(dircases.dir_case, rngs)):
        yield 820000 + i, c
    # wave 19: TIGER-XML TEXT -> element structure inside the model (TT/IO/Xml.lean parseXmlDoc; Props/C03Xml.lean
    # parseXmlDoc_write, tiger_text_roundtrip) against xml.etree.ElementTree: the real writer's documents, the same
    # documents in other layouts of the modelled subset, structurally incomplete documents, and text outside the subset
    import xmlcases
    for i, c in enumerate(xmlcases.xml_cases(case_rng(seed, ID, 900000), (60 if tier == "quick" else 1500) * scale)):
        yield 900000 + i, c
    for i, c in enumerate(xmlcases.fixed_outside_cases()):
        yield 950000 + i, c
    idx = 100000
    for _ in range((300 if tier == "quick" else 5000) * scale):
        rng = case_rng(seed, ID, idx)
        yield idx, options_case(rng)
        idx += 1
    idx = 0
    n = (160 if tier == "quick" else 3000) * scale
    rngs = [case_rng(seed, ID, idx + i) for i in range(n)]
    for i, c in enumerate(cli.pmap(one, rngs, workers=14)):
        yield idx + i, c
