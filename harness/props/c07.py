"""C07 - grammar binarization preserves every rule's yield function."""
import itertools
import core
from core import Case, Line, case_rng
import proto
import gram
from impl import trees, grammar, grammaranalysis, grammarconst, quiet

ID = "C07"
MODULE = ['TT.Props.C07', 'TT.Props.C07More', 'TT.Props.C07Sem', 'TT.Props.C07Exact', 'TT.Props.C07Exact2']
RULE = ("all canonical ordered non-deleting LCFRS rules of rank <= 4 with <= 6 (quick) / 7 (thorough) variables, plus "
        "all rules extracted from random treebanks; both reorderings; deterministic and Markov v,h in 0..3 with/without "
        "nofanout. For each rule the binarized grammar is checked: <= 2 RHS elements, chain present, chain composes "
        "to the rule's linearization. Whole grammars: deterministic labels unique with one fan-out. Non-trivial: rank >= 3")
TRUSTED = ["Python dict iteration order = insertion order"]
ASSUMPTIONS = ["rules are ordered, non-deleting, non-erasing"]

REORD = {"leftright": grammar.reordering_none, "optimal": grammar.reordering_optimal}


def canonical_rules(rank, nvars):
    """all linearizations over `rank` RHS elements with `nvars` variables in canonical form:
    variables of element i appear with increasing argument index; first occurrences of the elements are in
    order 0,1,..; no two adjacent variables of one element inside an argument; split into arguments anywhere"""
    def seqs(prefix, counts, maxel):
        if len(prefix) == nvars:
            if maxel == rank - 1 and all(c > 0 for c in counts):
                yield list(prefix)
            return
        for e in range(0, min(maxel + 2, rank)):
            yield from seqs(prefix + [e], counts[:e] + [counts[e] + 1] + counts[e + 1:], max(maxel, e))
    for seq in seqs([], [0] * rank, -1):
        # cut into arguments: positions where a cut is mandatory (adjacent equal) or optional
        n = len(seq)
        for cuts in itertools.product([0, 1], repeat=n - 1):
            ok = True
            for i in range(n - 1):
                if seq[i] == seq[i + 1] and not cuts[i]:
                    ok = False
                    break
            if not ok:
                continue
            cnt = [0] * rank
            lin, arg = [], []
            for i, e in enumerate(seq):
                arg.append((e, cnt[e]))
                cnt[e] += 1
                if i == n - 1 or cuts[i]:
                    lin.append(tuple(arg))
                    arg = []
            yield tuple(lin)


def rule_case(func, lin, vert, cnt, reord, mo, group):
    g = {func: {lin: {vert: cnt}}}
    args = {}
    if reord is not None:
        args['reordering'] = REORD[reord]
    if mo is not None:
        args['markov_opts'] = mo
    try:
        with quiet():
            res = grammar.binarize(g, **args)
        out = gram.enc_grammar(res)
    except Exception as e:
        out = proto.err_name(e)
        res = None
    genc = gram.enc_grammar(g)
    lines = [Line("corr", "binarize", [reord or "none", gram.enc_markov(mo), genc], out, canon=gram.canon_grammar)]
    if res is not None:
        lines.append(Line("pred", "P.C07.rule", [reord or "none", gram.enc_markov(mo), gram.enc_func(func), gram.enc_lin(lin),
                                                 gram.enc_vert(vert), out]))
    else:
        l = Line("pred", "P.C07.rule", ["none", "-", "", "-", "V", ""], note="binarize raised " + out)
        l.expect = "no-error-expected"
        lines.append(l)
    return Case(group, {"func": list(func), "lin": [list(a) for a in lin], "reordering": reord, "markov": mo,
                        "result": out[:80]}, lines, nontrivial=len(func) > 3)


def mk_func(rank):
    labs = ["S", "A", "B", "C", "D", "A"]
    return tuple(["S"] + labs[1:rank + 1])


def grammar_case(rng):
    ts = gram.gen_treebank(rng, kmax=4, nmax=9)
    with quiet():
        g, lex = gram.extract_all(ts)
    reord = rng.choice([None, "leftright", "optimal"])
    mo = None
    if rng.random() < 0.5:
        mo = {'v': rng.randint(0, 3), 'h': rng.randint(0, 3)}
        if rng.random() < 0.4:
            mo['nofanout'] = True
    args = {}
    if reord is not None:
        args['reordering'] = REORD[reord]
    if mo is not None:
        args['markov_opts'] = mo
    genc = gram.enc_grammar(g)
    try:
        with quiet():
            res = grammar.binarize(g, **args)
    except Exception as e:
        l = Line("corr", "binarize", [reord or "none", gram.enc_markov(mo), genc], proto.err_name(e))
        l2 = Line("pred", "P.C07.unbin", [reord or "none", genc, genc], note="binarize raised %s: %s" % (type(e).__name__, e))
        l2.expect = "binarization-must-not-fail"
        return Case("treebank-grammar", {"trees": [proto.pretty_tree(t) for t in ts], "reordering": reord, "markov": mo}, [l, l2], nontrivial=True)
    out = gram.enc_grammar(res)
    lines = [Line("corr", "binarize", [reord or "none", gram.enc_markov(mo), genc], out, canon=gram.canon_grammar)]
    if mo is None:
        lines.append(Line("pred", "P.C07.unbin", [reord or "none", genc, out]))
    # every rule on its own
    big = False
    for f in list(g)[:6]:
        for lin in g[f]:
            for v in list(g[f][lin])[:2]:
                if len(f) > 3:
                    big = True
                c = rule_case(f, lin, v, g[f][lin][v], reord, mo, "x")
                lines.extend(c.lines)
    return Case("treebank-grammar", {"trees": [proto.pretty_tree(t) for t in ts], "reordering": reord, "markov": mo},
                lines, nontrivial=big)


def gen(seed, tier, scale):
    idx = 0
    maxv = 6 if tier == "quick" else 7
    for rank in (1, 2, 3, 4):
        for nv in range(rank, maxv + 1):
            for lin in canonical_rules(rank, nv):
                rng = case_rng(seed, ID, idx)
                reord = rng.choice([None, "leftright", "optimal"])
                mo = None
                if rng.random() < 0.4:
                    mo = {'v': rng.randint(0, 3), 'h': rng.randint(0, 3)}
                    if rng.random() < 0.4:
                        mo['nofanout'] = True
                vert = ("S2", "VP1", "VROOT1") if mo is not None else ("S1",)
                if tier == "quick" and rank == 4 and nv >= 6 and rng.random() < 0.6:
                    idx += 1
                    continue
                yield idx, rule_case(mk_func(rank), lin, vert, rng.randint(1, 3), reord, mo, "canonical-rank%d" % rank)
                idx += 1
    for _ in range((400 if tier == "quick" else 10000) * scale):
        rng = case_rng(seed, ID, idx)
        yield idx, grammar_case(rng)
        idx += 1
