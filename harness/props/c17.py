"""C17 - output splitting partitions the treebank in order into well-formed parts."""
import io
import itertools
import os
import core
from core import Case, Line, case_rng
import proto
import treegen
import cli
from impl import trees, treeoutput, treeinput, quiet, clone

ID = "C17"
MODULE = ['TT.Props.C17', 'TT.Props.C17More', 'TT.Props.C17Run', 'TT.Props.C17More2', 'TT.Props.C17More3', 'TT.Props.C17More4', 'TT.Props.C03Cmd', 'TT.Props.C17Xml']
RULE = ("exhaustive specifications of up to 3 parts over {0#,1#,2#,5#,13#,0%,10%,29%,33%,50%,57%,100%,rest} x sizes "
        "0..12 and {100} (quick; more sizes thorough), a malformed stream, and `treetools transform --split` runs over "
        "all five output formats with and without filter_by_length. Non-trivial: more than one part")
TRUSTED = ["argparse, file system and codecs are exercised through the command line only"]
ASSUMPTIONS = []

ATOMS = ["0#", "1#", "2#", "5#", "13#", "0%", "10%", "29%", "33%", "50%", "57%", "100%", "rest"]
MALFORMED = ["", "_", "5#_", "_rest", "-1#_rest", "x%", "rest_rest", "#", "%", "1.5%_rest", "+3#_rest", " 3#_rest",
             "rest ", "REST", "3", "3#%", "%3", "1#__2#", "²#", "1#_rest_2%_rest"]


def spec_case(spec, size, group):
    try:
        with quiet():
            parts = treeoutput.parse_split_specification(spec, size)
        out = "[" + ",".join(str(p) for p in parts) + "]"
    except Exception as e:
        out = proto.err_name(e)
    lines = [Line("corr", "split_spec", [proto.enc_s(spec), str(size)], out)]
    if out.startswith("["):
        lines.append(Line("pred", "P.C17.sizes", [proto.enc_s(spec), str(size), out]))
    elif out == "ERR:ValueError":
        lines.append(Line("pred", "P.C17.reject", [proto.enc_s(spec), str(size)]))
    else:
        l = Line("pred", "P.C17.reject", [proto.enc_s(spec), str(size)], note="raised " + out)
        l.expect = "ValueError-expected"
        lines.append(l)
    return Case(group, {"spec": spec, "size": size, "result": out}, lines, nontrivial="_" in spec)


FORMATS = ["export", "brackets", "discobrackets", "tigerxml", "terminals"]
READERS = {"export": "export", "brackets": "brackets", "discobrackets": "discobrackets", "tigerxml": "tigerxml"}


def body(fmt, text):
    if fmt == "tigerxml":
        head = "<?xml version='1.0' encoding='utf-8'?>\n<corpus>\n<body>\n"
        head2 = "<?xml version='1.0'?>\n<corpus>\n<body>\n"
        tail = "</body>\n</corpus>"
        for h in (head, head2):
            if text.startswith(h) and text.endswith(tail):
                return text[len(h):len(text) - len(tail)]
        return None
    return text


def tx_call(name, params):
    import tx
    return tx.call_str(name, params)


def cli_case(rng, idx):
    k = rng.randint(0, 9)
    sents = []
    # sentence numbers as they come in a sample, a shuffled or a glued treebank: unique but not ascending, or ascending
    sids = list(range(1, k + 1))
    if rng.random() < 0.4:
        sids = rng.sample(range(1, 60), k)
    for i in range(k):
        t = treegen.gen_tree(rng, treegen.Cfg(n_min=1, n_max=6, disc=False, none_fields=False,
                                              words=["a", "b", "cc", "Haus", "x", "twentythree_characters_", "twentyfour_characters___",
                                                     "Donaudampfschifffahrtsgesellschaft"], punct_words=[",", "."],
                                              labels=treegen.PLAIN_LABELS, edges=["HD", "--", "SB"]))
        t.data['sid'] = sids[i]
        for x in trees.terminals(t):
            if rng.random() < 0.1:
                x.data['morph'] = rng.choice(["Nom.Sg.Masc.Pos", "Comp.Nom.Pl.Masc", "Comp.Nom.Sg.Masc.x"])     # 15, 16, 18 characters
        s = io.StringIO()
        treeoutput.export(t, s)
        words = [x.data['word'] for x in trees.terminals(t)]
        nonp = sum(1 for w in words if w not in (",", "."))
        # token count after punctuation_delete (a sentence of punctuation only is left as it is)
        sents.append((s.getvalue(), len(words), nonp if nonp > 0 else len(words)))
    fmt = rng.choice(FORMATS + ["tigerxml"])
    use_filter = rng.random() < 0.5
    fval = rng.choice([0, 0, 0, 1, 2, 3, 4, 6])
    fop = rng.choice(["lt", "lt", "gt", "eq"])
    dropped = {"lt": lambda n_: n_ < fval, "gt": lambda n_: n_ > fval, "eq": lambda n_: n_ == fval}[fop]
    # a transformation that changes the number of tokens BEFORE the filter: the filter sees the tree as it is then
    pre_delete = use_filter and rng.random() < 0.5
    differing = [x for x in sents if x[1] != x[2]]
    if pre_delete and differing and rng.random() < 0.7:
        # a threshold that one sentence crosses BECAUSE of the deletion
        fop, fval = "lt", rng.choice(differing)[1]
        dropped = lambda n_: n_ < fval
    kept = [x for x in sents if not (use_filter and dropped(x[2] if pre_delete else x[1]))]
    n = len(kept)
    natoms = rng.randint(1, 3)
    spec = "_".join(rng.choice(ATOMS) for _ in range(natoms))
    if rng.random() < 0.25:
        # a part that stays empty: it is still a complete file of its format
        parts = spec.split("_")
        parts.insert(rng.randint(0, len(parts)), rng.choice(["0#", "0%"]))
        spec = "_".join(parts)
    with cli.Scratch() as sc:
        src = sc.write("src.export", "".join(x[0] for x in sents))
        extra = ["--trans"] + (["punctuation_delete"] if pre_delete else []) + ["filter_by_length", "--params", "filteroperator:" + fop, "filtervalue:%d" % fval] + (["quiet"] if pre_delete else []) if use_filter else []
        # writer / reader options must reach the parts exactly as they reach the unsplit output
        dopts = {"export": [["export_four"], ["gf"], []], "brackets": [["gf"], ["brackets_emptyroot"], ["gf", "gf_separator:#"], []],
                 "discobrackets": [["gf"], []], "tigerxml": [[]], "terminals": [["terminals_pos"], []]}[fmt]
        do = rng.choice(dopts)
        if do:
            extra += ["--dest-opts"] + do
        if rng.random() < 0.3:
            extra += ["--src-opts", "quiet", "continuous"]
        rc0, _, err0 = cli.run_cli(["transform", src, sc.path("whole"), "--dest-format", fmt] + extra)
        rc, _, err = cli.run_cli(["transform", src, sc.path("part"), "--dest-format", fmt, "--split", spec] + extra)
        observed = None
        problems = []
        if rc == 0:
            files = sorted([f for f in os.listdir(sc.dir) if f.startswith("part.")], key=lambda f: int(f.split(".")[1]))
            whole = body(fmt, sc.read("whole")) if rc0 == 0 else None
            bodies = [body(fmt, sc.read(f)) for f in files]
            if any(b is None for b in bodies):
                problems.append("part-not-a-complete-file")
            elif whole is None or "".join(bodies) != whole:
                problems.append("parts-do-not-reproduce-unsplit-output")
            sizes = []
            for f in files:
                if fmt in READERS:
                    try:
                        got = list(getattr(treeinput, READERS[fmt])(sc.path(f), "utf-8", quiet=True))
                        sizes.append(len(got))
                    except Exception as e:
                        problems.append("reader-rejects-part:%s" % type(e).__name__)
                        sizes.append(-1)
                else:
                    txt = sc.read(f)
                    sizes.append(txt.count("\n"))
            observed = "[" + ",".join(str(x) for x in sizes) + "]"
            texts = [sc.read(f) for f in files]
            parts_txt = "|".join(proto.enc_s(x) for x in texts) if texts else "EMPTY"
        else:
            observed = "ERR:ValueError" if "ValueError" in err else "ERR:Other"
            parts_txt = observed
    lines = [Line("corr", "split_spec", [proto.enc_s(spec), str(n)], observed)]
    if rc != 0:
        # the command refused: the specification must be malformed or demand more trees than exist
        lines.append(Line("pred", "P.C17.reject", [proto.enc_s(spec), str(n)], note="command failed: " + err[-160:]))
    elif observed.startswith("["):
        lines.append(Line("pred", "P.C17.sizes", [proto.enc_s(spec), str(n), observed]))
    # the whole command against the model of transform.run with --split: the text of every part
    import re as _re
    decl = None
    if fmt == "tigerxml" and rc == 0 and texts:
        m = _re.match(r"<\?xml version='1.0' encoding='([^']*)'\?>", texts[0])
        decl = m.group(1) if m else None
    dod = {}
    for x in do:
        if ":" in x:
            kx, vx = x.split(":", 1)
            dod[kx] = vx
        else:
            dod[x] = True
    calls = tx_call("filter_by_length", {"filteroperator": fop, "filtervalue": fval}) if use_filter else ""
    if pre_delete:
        calls = tx_call("punctuation_delete", {}) + ";" + calls
    lines.append(Line("corr", "convert_split", ["export", "continuous" if "continuous" in extra else "-", fmt, proto.enc_opts(dod),
                                                proto.enc_s(decl) if decl is not None else "n", calls, proto.enc_s(spec),
                                                proto.enc_s("".join(x[0] for x in sents))], parts_txt))
    # wave 18: the same command against TT.runSplitCmd, from the raw words of the command line (--trans names, --params words,
    # --dest-opts words, --src-opts words; TT/RunCmd.lean) - the --split branch of transform.run builds its parameter dict
    # separately from the plain branch
    names = (["punctuation_delete"] if pre_delete else []) + ["filter_by_length"] if use_filter else []
    pwords = (["filteroperator:" + fop, "filtervalue:%d" % fval] + (["quiet"] if pre_delete else [])) if use_filter else []
    swords = ["quiet", "continuous"] if "--src-opts" in extra else []
    ew = lambda ws: ",".join(proto.enc_s(w) for w in ws)
    lines.append(Line("corr", "split_cmd", ["export", ew(swords), fmt, ew(do), proto.enc_s(decl) if decl is not None else "n", ew(names),
                                            ew(pwords), proto.enc_s(spec), proto.enc_s("".join(x[0] for x in sents))], parts_txt))
    if fmt == "tigerxml" and rc == 0 and texts and not problems:
        # wave 19: every TIGER-XML part through the model's own XML parser (TT.Xml.parseXmlDoc; Props/C17Xml.lean
        # split_parts_readable_tiger): the element structure ElementTree sees in the part written by the real command
        from props import c03 as _c03
        for x in texts:
            lines.append(Line("corr", "xml_parse", [proto.enc_s(x)], "X" + _c03.xsents(x), note="a TIGER-XML part of the split"))
    if problems:
        l = Line("pred", "P.C17.reject", [proto.enc_s(spec), str(n)], note=";".join(problems))
        l.expect = "parts-well-formed-expected:" + problems[0]
        lines.append(l)
    return Case("cli:" + fmt, {"spec": spec, "sentences": k, "after_filter": n, "format": fmt, "filter": (fop, fval) if use_filter else None,
                               "observed": observed, "problems": problems}, lines, nontrivial=natoms > 1)


def gen(seed, tier, scale):
    idx = 0
    sizes = list(range(0, 13)) + [100]
    if tier == "thorough":
        sizes = list(range(0, 41)) + [99, 100, 101, 299, 1000]
    for r in (1, 2, 3):
        for combo in itertools.product(ATOMS, repeat=r):
            spec = "_".join(combo)
            for size in (sizes if r < 3 else sizes[::3]):
                yield idx, spec_case(spec, size, "exhaustive")
                idx += 1
    for spec in MALFORMED:
        for size in (0, 3, 100):
            yield idx, spec_case(spec, size, "malformed")
            idx += 1
    ncli = (72 if tier == "quick" else 600) * scale
    rngs = [(case_rng(seed, ID, idx + i), idx + i) for i in range(ncli)]
    for i, c in enumerate(cli.pmap(lambda a: cli_case(a[0], a[1]), rngs)):
        yield idx + i, c
    idx += ncli
