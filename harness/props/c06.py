"""C06 - grammar extraction is faithful to the treebank."""
import core
from core import Case, Line, case_rng
import proto
import gram
from impl import trees, grammar, grammaranalysis, quiet, clone

ID = "C06"
MODULE = ['TT.Props.C06', 'TT.Props.C06More', 'TT.Props.C06Count']
RULE = ("random treebanks of 1..5 well-formed trees (any gap pattern, unary nodes, repeated labels among siblings, "
        "repeated identical trees so that counts exceed 1); the extracted dicts are compared with the model and "
        "checked against the node-level specification (rule instantiation reproduces the node's blocks, counts, "
        "vertical contexts, lexicon, context-freeness). Non-trivial: some tree is discontinuous or a count exceeds 1")
TRUSTED = ["Python dict iteration order = insertion order"]
ASSUMPTIONS = ["trees are well formed"]


HIST = ["root_attach", "punctuation_root", "punctuation_verylow", "punctuation_symetrify", "heads+boyd_split+raising",
        "punctuation_delete", "add_topnode", "collapse_unary_chains"]


def one(rng, with_past=False):
    ts = gram.gen_treebank(rng, bare=True)
    past = []
    if with_past:
        # trees with a past: produced by a reader, looked at (gap degrees, a first extraction), changed in place since
        import history
        ts2 = []
        for t in ts:
            if t.data.get('label') != "VROOT":
                ts2.append(t)          # export / TIGER-XML do not carry another root label
                continue
            # the treebank may list one object several times: every occurrence gets a past of its own
            c = clone(t)
            c.data['sid'] = t.data.get('sid')
            t2, p = history.aged(rng, c, allowed=HIST)
            past.append(p)
            ts2.append(t2)
        ts = ts2
    with quiet():
        g, lex = gram.extract_all(ts)
    enc = "|".join(proto.enc_tree(t) for t in ts)
    out = gram.enc_grammar(g) + " # " + gram.enc_lexicon(lex)
    lines = [Line("corr", "extract", [enc], out, canon=gram.canon_lexicon_part),
             Line("pred", "P.C06", [enc, gram.enc_grammar(g), gram.enc_lexicon(lex)])]
    # fan_out of every extracted linearization (at most a dozen per case)
    seen = 0
    for f in g:
        for lin in g[f]:
            if seen >= 12:
                break
            seen += 1
            try:
                vec = ",".join(str(x) for x in grammaranalysis.fan_out(lin))
            except Exception as e:
                vec = proto.err_name(e)
            lines.append(Line("corr", "fan_out", [gram.enc_lin(lin)], vec))
            lines.append(Line("pred", "P.C06.fanout", [gram.enc_lin(lin), vec]))
    cf = grammaranalysis.is_contextfree(g)
    lines.append(Line("corr", "is_contextfree", [gram.enc_grammar(g)], "t" if cf else "f"))
    lines.append(Line("pred", "P.C06.cf", [enc, "t" if cf else "f"]))
    disc = not cf
    multi = any(c > 1 for f in g for l in g[f] for c in g[f][l].values())
    return Case("treebank-with-past" if with_past else "treebank", {"trees": [proto.pretty_tree(t) for t in ts], "history": past},
                lines, nontrivial=disc or multi, tags=(["disc"] if disc else []) + (["count>1"] if multi else []))


def gen(seed, tier, scale):
    idx = 0
    for _ in range((1200 if tier == "quick" else 30000) * scale):
        rng = case_rng(seed, ID, idx)
        yield idx, one(rng)
        idx += 1
    for _ in range((400 if tier == "quick" else 8000) * scale):
        rng = case_rng(seed, ID, idx)
        yield idx, one(rng, with_past=True)
        idx += 1
    # extraction as the `treetools grammar` command does it, file to file (one-token sentences, empty-looking corners
    # included), against the model of the whole command and the API pipeline
    import cli
    from props import c09
    ncli = (16 if tier == "quick" else 200) * scale
    rngs = [case_rng(seed, ID, 700000 + i) for i in range(ncli)]
    for i, c in enumerate(cli.pmap(c09.cli_case, rngs, workers=6)):
        c.group = "grammar-command"
        yield 700000 + i, c
