"""C20 - label parsing and formatting are mutually inverse."""
import itertools
import core
from core import Case, Line, case_rng
import proto
from impl import trees, quiet, mk_leaf, mk_node

ID = "C20"
MODULE = ['TT.Props.C20', 'TT.Props.C20More', 'TT.Props.C20More2', 'TT.Props.C20More3']
ALPHABET = ["A", "b", "1", "0", "-", "=", "#", "'", "*"]
RULE = ("exhaustive strings over %r up to length 4 (quick) / 6 (thorough) x separators {-,#}; random longer "
        "labels x option subsets; get_label on random nodes x decoration option subsets. A case is non-trivial "
        "when the label contains at least one of - = # ' *." % ALPHABET)
TRUSTED = ["Python str.isdigit is modelled by ASCII digits; labels are drawn from an alphabet on which both agree"]
ASSUMPTIONS = ["labels contain no whitespace"]


class P(object):
    pass


def impl_parse(s, sep):
    kw = {}
    if sep != "-":
        kw['gf_separator'] = sep
    lab = trees.parse_label(s, **kw)
    return lab


def label_line(lab):
    return " ".join([proto.enc_s(lab.label), proto.enc_s(lab.gf), proto.enc_s(lab.gf_separator),
                     proto.enc_s(lab.coindex), proto.enc_s(lab.gapindex),
                     "t" if lab.headmarker else "f", "t" if lab.is_trace else "f"])


def label_case(s, sep, al, ag, group):
    lab = impl_parse(s, sep)
    kw = {}
    if al:
        kw['always_label'] = True
    if ag:
        kw['always_gf'] = True
    out = trees.format_label(lab, **kw)
    lines = [Line("corr", "parse_label", [proto.enc_s(sep), proto.enc_s(s)], label_line(lab)),
             Line("corr", "format_parse", [proto.enc_s(sep), "t" if al else "f", "t" if ag else "f",
                                           proto.enc_s(s)], proto.enc_s(out)),
             Line("pred", "P.C20.roundtrip", [proto.enc_s(sep), "t" if al else "f", "t" if ag else "f",
                                              proto.enc_s(s), proto.enc_s(out)]),
             Line("pred", "P.C20.parts", [proto.enc_s(sep), proto.enc_s(s), label_line(lab)])]
    # erase one component, format, compare with the spec eraser
    for comp in ("gapindex", "coindex", "gf", "headmarker"):
        lab2 = impl_parse(s, sep)
        if comp == "gf":
            lab2.gf = trees.DEFAULT_EDGE
        elif comp == "headmarker":
            lab2.headmarker = ""
        else:
            setattr(lab2, comp, "")
        out2 = trees.format_label(lab2)
        lines.append(Line("pred", "P.C20.erase", [proto.enc_s(sep), comp, proto.enc_s(s), proto.enc_s(out2)]))
    nontrivial = any(c in s for c in "-=#'*")
    return Case(group, {"label": s, "gf_separator": sep, "always_label": al, "always_gf": ag,
                        "formatted": out}, lines, nontrivial=nontrivial)


OPTSETS = ["gf", "gf_terminals", "mark_heads_marking", "boyd_split_marking", "boyd_split_numbering"]


def getlabel_case(rng):
    lab = rng.choice(["NP", "VP-SBJ", "S", "X'", "@NP", "A=1", ""])
    edge = rng.choice(["HD", "--", "-", "SB", "", None, "-X", "NK"])
    isleaf = rng.random() < 0.4
    if isleaf:
        node = mk_leaf(3, lab, "w", "--", "--", edge)
    else:
        node = mk_node(lab, [mk_leaf(1, "T", "w", "--", "--", "--")], edge=edge)
    r = rng.random()
    if r < 0.7:
        node.data['head'] = rng.random() < 0.5
    if rng.random() < 0.7:
        node.data['split'] = rng.random() < 0.5
        if node.data['split'] or rng.random() < 0.3:
            node.data['block_number'] = rng.randint(1, 12)
    if rng.random() < 0.5:
        node.data['head_block'] = rng.random() < 0.5
    opts = {k: True for k in OPTSETS if rng.random() < 0.4}
    if rng.random() < 0.3:
        opts['gf_separator'] = rng.choice(["#", "-", "::", "1"])
    try:
        with quiet():
            out = proto.enc_s(trees.get_label(node, **opts))
    except Exception as e:
        out = proto.err_name(e)
    lines = [Line("corr", "get_label", [proto.enc_opts(opts), proto.enc_tree(node)], out)]
    if not out.startswith("ERR"):
        lines.append(Line("pred", "P.C20.decor", [proto.enc_opts(opts), proto.enc_tree(node), out]))
    return Case("get_label", {"label": lab, "edge": edge, "leaf": isleaf, "data": {k: v for k, v in node.data.items() if k in ('head', 'split', 'block_number')},
                              "opts": opts, "out": out}, lines, nontrivial=len(opts) > 0)


def gen(seed, tier, scale):
    idx = 0
    maxlen = 4 if tier == "quick" else 6
    if scale > 1:
        maxlen = max(maxlen, 5)
    # exhaustive: separator '-' for all; '#' for lengths <= maxlen-1
    for n in range(0, maxlen + 1):
        for tup in itertools.product(ALPHABET, repeat=n):
            s = "".join(tup)
            yield idx, label_case(s, "-", False, False, "exhaustive")
            idx += 1
            if n <= maxlen - 1 and "#" in s:
                yield idx, label_case(s, "#", False, False, "exhaustive#")
                idx += 1
    nrand = (1500 if tier == "quick" else 30000) * scale
    pool = ["NP", "VP", "S", "EMPTY", "--", "-", "=", "'", "*", "*T*", "SBJ", "12", "3", "#", "HD", "-NONE-", "A", "x",
            # near misses of the two default literals: other case, longer, shorter
            "Empty", "empty", "eMPTY", "EMPTYX", "XEMPTY", "EMPT", "---", "- -", "np", "Np"]
    for _ in range(nrand):
        rng = case_rng(seed, ID, idx)
        s = "".join(rng.choice(pool) for _ in range(rng.randint(1, 6)))
        sep = rng.choice(["-", "-", "#", "=", "::", "A"])
        yield idx, label_case(s, sep, rng.random() < 0.3, rng.random() < 0.3, "random")
        idx += 1
    for _ in range((800 if tier == "quick" else 10000) * scale):
        rng = case_rng(seed, ID, idx)
        yield idx, getlabel_case(rng)
        idx += 1


if __name__ == "__main__":
    import sys
    sys.exit(core.main(sys.modules[__name__], sys.argv[1:]))
