"""C12 - root_attach moves only root children, to the lowest node spanning the neighbours."""
import core
from core import Case, Line, case_rng
import proto
import treegen
import tx
from impl import trees, transform, quiet, clone, tag_uids, mk_leaf, mk_node

ID = "C12"
MODULE = ['TT.Props.C12', 'TT.Props.C12Land', 'TT.Props.Pinned', 'TT.Props.C12Ref', 'TT.Props.C12More2']
RULE = ("random well-formed trees whose root has 1..6 children (tokens and constituents, continuous or not, adjacent, "
        "interleaved, at the sentence edges, inside gaps) + all shapes up to 4/5 tokens; non-trivial: some node changed parent")
TRUSTED = ["the set-based reference TT/Spec/RootAttachRef.lean (parent maps and token sets; about 75 lines) is a statement of intent; "
           "rootAttach_eq_ref proves the model equal to it, the implementation's output is compared with it for sentences of up to 80 tokens"]
ASSUMPTIONS = ["input trees are well formed"]


def ra_case(t, group):
    tag_uids(t)
    a = proto.enc_tree(t)
    before = {n.data['uid']: (n.parent.data['uid'] if n.parent else None) for n in trees.preorder(t)}
    res, _, out = tx.run_impl([("root_attach", {})], tx.fresh(t, 1))
    lines = [Line("corr", "apply", ["root_attach", a], res)]
    moved = False
    if out is not None:
        after = {n.data['uid']: (n.parent.data['uid'] if n.parent else None) for n in trees.preorder(out)}
        moved = before != after
        lines.append(Line("pred", "P.C12", [a, res]))
    else:
        l = Line("pred", "P.C12", [a, a], note="root_attach returned " + res)
        l.expect = "no-error-expected"
        lines.append(l)
    return Case(group, {"tree": proto.pretty_tree(t), "result": res[:60]}, lines, nontrivial=moved,
                tags=["moved" if moved else "unmoved"])


def long_case(rng, L=None, reverse=False):
    """a very long sentence (token numbers of three and four digits) with unattached material in the gap of a discontinuous
    clause near its end, the root's children stored out of order"""
    L = L or rng.choice([16, 120, 520, 1006, 1100])
    front, i = [], 1
    while i <= L - 6:
        k = min(rng.randint(1, 8), L - 6 - i + 1)
        front.append(mk_node("NP", [mk_leaf(i + j, "NN", "w", "--", "--", "--") for j in range(k)], edge="--", lemma="--", morph="--"))
        i += k
    vp = mk_node("VP", [mk_leaf(L - 3 + j, "VV", "v", "--", "--", "--") for j in range(3)], edge="--", lemma="--", morph="--")
    s = mk_node("S", front + [vp], edge="--", lemma="--", morph="--")
    loose = [mk_leaf(L - 5, "$,", ",", "--", "--", "--"), mk_leaf(L - 4, "$(", "\"", "--", "--", "--"), mk_leaf(L, "$.", ".", "--", "--", "--")]
    kids = [s] + loose
    if reverse:
        kids.reverse()          # stored right to left: the extreme of "child lists are stored in any order"
    else:
        rng.shuffle(kids)
    t = mk_node("VROOT", kids, edge="--", lemma="--", morph="--")
    c = ra_case(t, "long")
    c.desc = {"tokens": L, "result": c.desc.get("result")}
    return c


def interleaved_case(rng):
    """many root children whose token sets cross one another: n tokens dealt at random to m groups, every group a root
    child (a flat constituent, or a bare token when it has one token), often below an outer clause that spans the whole
    sentence - the order in which the loop meets the children, which of them are already attached, and which neighbours
    meet where, all matter here"""
    n = rng.randint(6, 12)
    m = rng.randint(3, 6)
    owner = [rng.randrange(m) for _ in range(n)]
    outer = rng.random() < 0.7
    if outer:
        owner[0] = owner[-1] = 0
    groups = {}
    for i, g in enumerate(owner):
        groups.setdefault(g, []).append(i + 1)
    kids = []
    for g, nums in sorted(groups.items()):
        leaves = [mk_leaf(k, rng.choice(["NN", "VV", "ART"]), rng.choice(["a", "b", "c"]), "--", "--", "--") for k in nums]
        if len(leaves) == 1 and rng.random() < 0.6:
            kids.append(leaves[0])
        else:
            if len(leaves) > 2 and rng.random() < 0.4:
                # some structure inside the group
                inner = mk_node(rng.choice(["NP", "PP"]), leaves[:2], edge="--", lemma="--", morph="--")
                leaves = [inner] + leaves[2:]
            kids.append(mk_node(["S", "NP", "VP", "PP", "AP", "CS"][g % 6], leaves, edge="--", lemma="--", morph="--"))
    rng.shuffle(kids)
    t = mk_node("VROOT", kids, edge="--", lemma="--", morph="--")
    return ra_case(t, "interleaved-root-children")


def gen(seed, tier, scale):
    for i in range((1500 if tier == "quick" else 30000) * scale):
        yield 700000 + i, interleaved_case(case_rng(seed, ID, 700000 + i))
    for i in range((3 if tier == "quick" else 20) * scale):
        yield 600000 + i, long_case(case_rng(seed, ID, 600000 + i), L=[1006, 520, None][i % 3], reverse=(i % 3 == 0))
    idx = 0
    nmax = 4 if tier == "quick" else 5
    for n in range(1, nmax + 1):
        for shape in treegen.all_shapes(n):
            rng = case_rng(seed, ID, idx)
            yield idx, ra_case(treegen.shape_to_tree(shape, rng), "shapes")
            idx += 1
    for _ in range((2000 if tier == "quick" else 50000) * scale):
        rng = case_rng(seed, ID, idx)
        cfg = treegen.Cfg(n_min=2, n_max=12, p_root_direct=0.95, p_disc=rng.choice([0.1, 0.4, 0.6]), p_punct=0.2)
        t = treegen.gen_tree(rng, cfg)
        # detach more material to the root: lift random grandchildren
        for _ in range(rng.randint(0, 3)):
            cands = [c for k in t.children for c in k.children if len(k.children) > 1]
            if not cands:
                break
            c = rng.choice(cands)
            c.parent.children.remove(c)
            t.children.append(c)
            c.parent = t
        if rng.random() < 0.15:
            # trees other transformations (and the readers) have produced are trees like any other
            import history
            t, _ = history.pretransformed(rng, t, allowed=["add_topnode", "binarize", "collapse+uncollapse", "punctuation_root", "split+raise"])
            yield idx, ra_case(t, "pretransformed")
        else:
            yield idx, ra_case(t, "random")
        idx += 1
