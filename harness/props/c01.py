"""C01 - readers decode every well-formed treebank file faithfully."""
import gzip
import io
import itertools
import os
import xml.etree.ElementTree as ET
from xml.sax.saxutils import quoteattr
import core
from core import Case, Line, case_rng
import proto
import treegen
import cli
from impl import trees, treeinput, transform, quiet, mk_leaf, mk_node

ID = "C01"
MODULE = ['TT.Props.C01', 'TT.Props.C01More', 'TT.Props.C01Readers', 'TT.Props.C01Disco', 'TT.Props.C01Disco2', 'TT.Props.C01Src', 'TT.Props.C03Words', 'TT.Props.C01Disco3', 'TT.Props.C01Tiger2', 'TT.Props.C03Xml']
RULE = ("corpora of 1..4 sentences written by a grammar-directed encoder with random layout: brackets (every whitespace "
        "layout, empty/explicit root label, junk between groups), discobrackets, export v3/v4 (headers, comment and "
        "secondary-edge columns, arbitrary consistent 5xx numbering, lines in any order), TIGER-XML (attribute and <nt> "
        "order permuted, with/without explicit VROOT, several id forms); all reader options; plain or gzip; plus all "
        "strings up to length 6 (quick) / 8 (thorough) over {'(', ')', ' ', 'a'} through the bracket reader against the "
        "specification grammar. Non-trivial: more than one sentence or a reader option set")
TRUSTED = ["xml.etree.ElementTree parses the TIGER-XML text for both sides; codecs and gunzip are exercised, not modelled"]
ASSUMPTIONS = ["labels and words contain no whitespace; bracket-format tokens contain no parentheses"]

WORDS = ["%%", "%%x", "#100Days", "#2020", "#5", "#abc", "50#", "#5001", "der", "Hund", "bellt", "a", "x<y", "R&D", "\"q\"", "it's", "straße", "été", "-LRB-", "[br]", "{", "1990", "x=y", "日本"]
U_WORDS = ["1\u00a01/2", "10\u00a0000", "a\u3000b", "x\u2009y", "n\u0085l", "\u00a0", "q\u2028r", "s\u001ct"]
LABELS = ["S", "VP", "NP", "PP", "NP-SBJ", "NP-SBJ-1", "VP=2", "X#OA", "NP#SB-3", "CS"]
POS = ["NN", "VVFIN", "ART", "$.", "PPER", "NN-HD", "V#HD"]
WS = [" ", "\n", "\t", "  ", " \n ", "\n\n"]


def abstract_tree(rng, disc, full):
    cfg = treegen.Cfg(n_min=1, n_max=7, disc=disc, p_disc=0.5, p_unary=0.2, p_punct=0.0, words=WORDS, labels=LABELS,
                      none_fields=False, edges=["HD", "--", "SB", "OA"], wrap_all=rng.random() < 0.6)
    t = treegen.gen_tree(rng, cfg)
    for n in trees.preorder(t):
        if not n.children:
            n.data['label'] = rng.choice(POS)
            if full:
                n.data['lemma'] = rng.choice(["--", "lemma", "Über"])
                n.data['morph'] = rng.choice(["--", "Nom.Sg", "3.Sg"])
            else:
                n.data['lemma'] = None
                n.data['morph'] = None
                n.data['edge'] = None
        else:
            n.data['word'] = None
            if full:
                n.data['lemma'] = "--"
                n.data['morph'] = "--"
            else:
                n.data['lemma'] = n.data['morph'] = n.data['edge'] = None
    t.data['edge'] = "--" if full else None
    t.data['lemma'] = t.data['morph'] = None
    return t


def bracket_labels(rng, t):
    """formats other than the bracket formats can carry parentheses and brackets in constituent labels and edge labels too
    (replace_parens must treat them as it treats tokens)"""
    if rng.random() < 0.25:
        cons = [n for n in trees.preorder(t) if n.children and n is not t]
        if cons:
            n = rng.choice(cons)
            n.data['label'] = rng.choice(["NP[coord]", "X(y)", "{S}", "-LRB-P", "V)"])
            if n.data.get('edge') is not None and rng.random() < 0.5:
                n.data['edge'] = rng.choice(["[E]", "(", "O)A"])


def ws(rng, mandatory=False):
    if mandatory:
        return rng.choice(WS)
    return rng.choice(WS) if rng.random() < 0.3 else ""


def enc_br(rng, node, root=False, emptyroot=False, disco=False):
    if not node.children:
        w = str(node.data['num']) if disco else node.data['word']
        if node.data.get('_emptypos'):
            # a token written without a tag (brackets_emptypos); the closing bracket follows at once - with white space
            # in between the group reads as a constituent label without children and is rejected, by design
            return "(" + ws(rng) + w + ")"
        return "(" + ws(rng) + node.data['label'] + ws(rng, True) + w + ws(rng) + ")"
    lab = "" if (root and emptyroot) else node.data['label']
    s = "(" + ws(rng) + lab + ws(rng)
    for c in trees.children(node):
        s += enc_br(rng, c, disco=disco) + ws(rng)
    return s + ")"


def sid_trees(pairs):
    return "EMPTY" if not pairs else "|".join("%d:%s" % (sid, proto.enc_tree(t)) for sid, t in pairs)


def run_reader(fmt, path, opts):
    try:
        got = []
        with quiet():
            for i, t in enumerate(getattr(treeinput, fmt)(path, "utf-8", quiet=True, **opts)):
                chk = proto.enc_tree_checked(t)
                if chk.startswith("GRAPH"):
                    return chk
                got.append("%d:%s" % (t.data['sid'], proto.enc_tree(t, canon=True)))
                # the consumer does something with each tree before asking for the next one, as transform.run does;
                # what is read afterwards must not depend on it
                try:
                    if i % 2 == 0:
                        transform.ptb_delete_traces(t)
                    else:
                        transform.binarize(transform.negra_mark_heads(t))
                except Exception:
                    pass
        return "EMPTY" if not got else "|".join(got)
    except Exception as e:
        return proto.err_name(e)


DECOYS = {"br": ("brackets", "(S (A decoy))\n"),
          "export": ("export", "#BOS 1\ndecoy\t\t\tNN\t--\t\t--\t0\n#EOS 1\n"),
          "xml": ("tigerxml", "<?xml version='1.0' encoding='utf-8'?>\n<corpus>\n<body>\n<s id=\"s1\">\n<graph root=\"s1_500\">\n<terminals>\n"
                              "<t id=\"s1_1\" word=\"decoy\" lemma=\"--\" pos=\"NN\" morph=\"--\" />\n</terminals>\n<nonterminals>\n"
                              "<nt id=\"s1_500\" cat=\"VROOT\">\n<edge label=\"--\" idref=\"s1_1\" />\n</nt>\n</nonterminals>\n</graph>\n</s>\n</body>\n</corpus>\n")}


def write_file(sc, name, text, gz):
    if isinstance(sc, cli.SamePlace):
        # the file is written TWICE under the same name: first another treebank, which is read; then the one this case
        # is about.  What is read second must not depend on what was there before.
        fmt, decoy = DECOYS.get(name.rsplit(".", 1)[-1], (None, None))
        if fmt is not None:
            p0 = _write_file(sc, name, decoy, gz)
            try:
                with quiet():
                    list(getattr(treeinput, fmt)(p0, "utf-8", quiet=True))
            except Exception:
                pass
    return _write_file(sc, name, text, gz)


def _write_file(sc, name, text, gz):
    if gz:
        p = sc.path(name + ".gz")
        with gzip.open(p, "wb") as f:
            f.write(text.encode("utf-8"))
        return p
    return sc.write(name, text)


def reader_opts(rng, fmt):
    o = {}
    if rng.random() < 0.4:
        o['gf_split'] = True
        if rng.random() < 0.5:
            o['gf_separator'] = "#"
    if rng.random() < 0.3:
        o['replace_parens'] = True
    if fmt in ("export", "tigerxml") and rng.random() < 0.3:
        o['continuous'] = True
    if fmt in ("brackets", "discobrackets") and rng.random() < 0.3:
        o['brackets_firstid'] = rng.choice([0, 0, 1, rng.randint(2, 50)])
    if fmt == "brackets" and rng.random() < 0.25:
        o['brackets_emptypos'] = True
    return o


def brackets_case(rng):
    disco = rng.random() < 0.35
    fmt = "discobrackets" if disco else "brackets"
    opts = reader_opts(rng, fmt)
    k = rng.randint(1, 4)
    corpus, text = [], ""
    first = opts.get('brackets_firstid', 1)
    for i in range(k):
        t = abstract_tree(rng, disc=disco, full=False)
        if rng.random() < 0.25:
            # the bracket formats separate tokens by the characters of string.whitespace only: other Unicode
            # space characters (no-break space, thin space, ideographic space, NEL) are ordinary token characters
            x = rng.choice(trees.terminals(t))
            x.data['word'] = rng.choice(U_WORDS)
            if rng.random() < 0.3:
                x.data['label'] = rng.choice(["C\u00a0D", "N\u2009N"])
        emptyroot = rng.random() < 0.4
        if emptyroot:
            t.data['label'] = ""
        elif rng.random() < 0.5:
            t.data['label'] = "VROOT"
        if not disco and opts.get('brackets_emptypos'):
            # tokens written without a tag: the word is the word as written, whatever else the reader is asked to do
            for x in trees.terminals(t):
                if rng.random() < 0.3:
                    x.data['_emptypos'] = True
                    x.data['label'] = "EMPTY"
                    if rng.random() < 0.5:
                        x.data['word'] = rng.choice(["U-Bahn", "A-B-1", "x=2", "E-Mail-3", "a'"])
        if disco:
            # every whitespace layout of the sentence part: blanks / TABs in any number between the words, after the TAB
            # and before the line break, blank lines between sentences
            ws1 = (lambda: " ") if rng.random() < 0.5 else (lambda: rng.choice([" ", " ", "  ", "\t", " \t "]))
            words = [x.data['word'] for x in trees.terminals(t)]
            sent = words[0] + "".join(ws1() + w for w in words[1:])
            lead = rng.choice(["", "", "", " ", "  "])
            trail = rng.choice(["\n", "\n", "\n", " \n", "\n\n", "\t\n", " \n \n"])
            text += enc_br(rng, t, True, emptyroot, disco=True).replace("\n", " ").replace("\t", " ") + "\t" + lead + sent + trail
        else:
            if rng.random() < 0.2:
                text += rng.choice(["junk ", ") ", "%% comment\n"])
            text += enc_br(rng, t, True, emptyroot) + rng.choice(["\n", "\n\n", " ", ""])
        corpus.append((first + i, t))
    if not disco and not text.endswith(("\n", " ")):
        text += ""
    gz = rng.random() < 0.15
    with (cli.SamePlace() if rng.random() < 0.5 else cli.Scratch()) as sc:
        p = write_file(sc, "f.br", text, gz)
        out = run_reader(fmt, p, opts)
    mopts = dict(opts)
    if disco:
        mopts['disco'] = True
    lines = [Line("corr", "read_brackets", [proto.enc_opts(mopts), proto.enc_s(text)], out),
             Line("pred", "P.C01.corpus", [fmt, proto.enc_opts(mopts), sid_trees(corpus), out])]
    return Case(fmt, {"text": text, "opts": opts, "gz": gz}, lines, nontrivial=k > 1 or bool(opts))


def export_case(rng):
    opts = reader_opts(rng, "export")
    v4file = rng.random() < 0.5
    mixed = rng.random() < 0.25
    v4 = v4file
    k = rng.randint(1, 4)
    corpus = []
    text = rng.choice(["", "%% header\n#FORMAT 4\n", "#BOT ORIGIN\n#EOT ORIGIN\n"])
    sid = rng.choice([rng.randint(1, 20), rng.randint(1, 20), 0, 99, 999, 100000])
    for i in range(k):
        t = abstract_tree(rng, disc=True, full=True)
        bracket_labels(rng, t)
        if mixed:
            v4 = rng.random() < 0.5     # the version is a property of each node line, not of the file
        if not v4:
            for n in trees.preorder(t):
                n.data['lemma'] = "--"
        t.data['label'] = "VROOT"
        t.data['lemma'] = None
        t.data['morph'] = None
        # number constituents: any strictly increasing numbering from 500 consistent with bottom-up order is allowed
        cons = [n for n in trees.postorder(t) if n.children and n is not t]
        nums = sorted(rng.sample(range(500, 560), len(cons)))
        if cons and rng.random() < 0.2:
            # numbers need not be consecutive: up to the highest legal one
            nums = sorted(rng.sample(range(500, 999), len(cons) - 1)) + [999] if rng.random() < 0.6 else sorted(rng.sample(range(900, 1000), len(cons)))
        numof = {id(t): 0}
        for n, x in zip(cons, nums):
            numof[id(n)] = x
        def line(word, n):
            sep = lambda: rng.choice(["\t", "\t\t", "  ", " \t"])
            f = [word] + ([n.data['lemma']] if v4 else []) + [n.data['label'], n.data['morph'], n.data['edge'],
                                                               str(numof[id(n.parent)])]
            s = f[0]
            for x in f[1:]:
                s += sep() + x
            if rng.random() < 0.2:
                s += sep() + rng.choice(["%% comment here", "SB 501", "%% x"])
            return s
        body = [line(x.data['word'], x) for x in trees.terminals(t)]
        cl = [line("#%d" % numof[id(n)], n) for n in cons]
        if rng.random() < 0.3:
            rng.shuffle(cl)
        sid += rng.randint(1, 3)
        text += "#BOS %d%s\n" % (sid, rng.choice(["", " 2 1099999 1", " 0 0"])) + "\n".join(body + cl) + "\n#EOS %d\n" % sid
        if rng.random() < 0.2:
            text += "\n"
        corpus.append(((i + 1) if 'continuous' in opts else sid, t))
    gz = rng.random() < 0.15
    with (cli.SamePlace() if rng.random() < 0.5 else cli.Scratch()) as sc:
        p = write_file(sc, "f.export", text, gz)
        out = run_reader("export", p, opts)
    lines = [Line("corr", "read_export", [proto.enc_opts(opts), proto.enc_s(text)], out),
             Line("pred", "P.C01.corpus", ["export", proto.enc_opts(opts), sid_trees(corpus), out])]
    return Case("export-v4" if v4 else "export-v3", {"text": text, "opts": opts, "gz": gz}, lines,
                nontrivial=k > 1 or bool(opts))


def enc_os(x):
    return "n" if x is None else proto.enc_s(x)


def tiger_case(rng):
    opts = reader_opts(rng, "tigerxml")
    k = rng.randint(1, 3)
    corpus = []
    sents_xml = []
    num = rng.randint(1, 30)
    for i in range(k):
        t = abstract_tree(rng, disc=True, full=True)
        bracket_labels(rng, t)
        explicit_root = rng.random() < 0.5
        t.data['label'] = "VROOT"
        t.data['lemma'] = t.data['morph'] = None
        cons = [n for n in trees.postorder(t) if n.children and (explicit_root or n is not t)]
        if not explicit_root and len([c for c in t.children]) != 1:
            explicit_root = True
            cons = [n for n in trees.postorder(t) if n.children]
        if not explicit_root:
            # the reader adds VROOT above the single top constituent: its fields are the defaults
            t.data['lemma'] = "--"
            t.data['morph'] = "--"
            if not t.children[0].children:
                explicit_root = True
                cons = [n for n in trees.postorder(t) if n.children]
                t.data['lemma'] = t.data['morph'] = None
        if explicit_root:
            t.data['lemma'] = "--"
            t.data['morph'] = "--"
        else:
            # without an explicit VROOT the top constituent has no incoming edge: its edge label is the default
            t.children[0].data['edge'] = "--"
        idof = {}
        for x in trees.terminals(t):
            idof[id(x)] = "s%d_%d" % (num, x.data['num'])
        for j, n in enumerate(cons):
            idof[id(n)] = "s%d_%d" % (num, 500 + j)
        def tline(x):
            at = [("id", idof[id(x)]), ("word", x.data['word']), ("lemma", x.data['lemma']), ("pos", x.data['label']),
                  ("morph", x.data['morph'])]
            rng.shuffle(at)
            attrs = " ".join("%s=%s" % (k_, quoteattr(v)) for k_, v in at)
            if rng.random() < 0.15:
                # a secondary edge below a token: not part of the tree
                return "<t " + attrs + ">" + secedge() + "</t>"
            return "<t " + attrs + " />"
        allids = list(idof.values())
        def secedge():
            return "<secedge label=%s idref=%s />" % (quoteattr(rng.choice(["SB", "OA", "x&y"])), quoteattr(rng.choice(allids)))
        def ntline(n):
            es = list(trees.children(n))
            rng.shuffle(es)
            parts = []
            for c in es:
                if rng.random() < 0.06:
                    # an <edge> WITHOUT `label` (P11): `edge.get('label')` is None, the child's edge label is Python None
                    # (the reader model: edge field `none`; it used to say the text "None")
                    c.data['edge'] = None
                    parts.append("<edge idref=%s />" % quoteattr(idof[id(c)]))
                else:
                    parts.append("<edge label=%s idref=%s />" % (quoteattr(c.data['edge']), quoteattr(idof[id(c)])))
            if rng.random() < 0.25:
                # secondary edges below a constituent (shared arguments of coordinations): not part of the tree
                for _ in range(rng.randint(1, 2)):
                    parts.insert(rng.randint(0, len(parts)), secedge())
            return "<nt id=%s cat=%s>" % (quoteattr(idof[id(n)]), quoteattr(n.data['label'])) + "".join(parts) + "</nt>"
        nts = [ntline(n) for n in cons]
        rng.shuffle(nts)
        sid_attr = rng.choice(["s%d", "%d", "corpus_2_s%d"]) % num
        sents_xml.append("<s id=%s><graph root=\"x\"><terminals>%s</terminals><nonterminals>%s</nonterminals></graph></s>"
                         % (quoteattr(sid_attr), "".join(tline(x) for x in trees.terminals(t)), "".join(nts)))
        corpus.append(((i + 1) if 'continuous' in opts else num, t))
        num += rng.randint(1, 4)
    # the declaration as the tool's own writer spells it (single quotes): the model's XML parser (TT/IO/Xml.lean, wave 19)
    # admits that spelling only; ElementTree does not care
    text = "<?xml version='1.0' encoding='utf-8'?>\n<corpus><head/><body>" + "\n".join(sents_xml) + "</body></corpus>\n"
    # element structure for the model, through the same XML parser
    root = ET.fromstring(text.encode("utf-8"))
    xs = []
    for s in root.find('body').findall('s'):
        g = s.find('graph')
        terms = ";".join(",".join([proto.enc_s(x.get('id')), enc_os(x.get('word')), enc_os(x.get('pos')), enc_os(x.get('morph')),
                                   enc_os(x.get('lemma'))]) for x in g.find('terminals').findall('t'))
        nts = ";".join(",".join([proto.enc_s(n.get('id')), enc_os(n.get('cat')),
                                 "+".join("%s=%s" % (enc_os(e.get('label')), proto.enc_s(e.get('idref'))) for e in n.findall('edge'))])
                       for n in g.find('nonterminals').findall('nt'))
        xs.append("^".join([proto.enc_s(s.get('id')), terms, nts]))
    with (cli.SamePlace() if rng.random() < 0.5 else cli.Scratch()) as sc:
        p = sc.write("f.xml", text)
        out = run_reader("tigerxml", p, opts)
    lines = [Line("corr", "read_tigerxml", [proto.enc_opts(opts), "|".join(xs)], out),
             # wave 19: the same file from its TEXT through the model's own XML parser (TT.Xml.readTigerText), no ElementTree
             # on the model's side: foreign ids, shuffled attributes / <nt> / <edge> order, <secedge>, <head/>, XML specials
             Line("corr", "read_tigerxml_text", [proto.enc_opts(opts), proto.enc_s(text)], out),
             Line("pred", "P.C01.corpus", ["tigerxml", proto.enc_opts(opts), sid_trees(corpus), out])]
    return Case("tigerxml", {"text": text, "opts": opts}, lines, nontrivial=k > 1 or bool(opts))


def group_case(text, emptypos, group):
    opts = {"brackets_emptypos": True} if emptypos else {}
    with cli.Scratch() as sc:
        p = sc.write("f.br", text)
        out = run_reader("brackets", p, opts)
    lines = [Line("corr", "read_brackets", [proto.enc_opts(opts), proto.enc_s(text)], out),
             Line("pred", "P.C01.groups", [proto.enc_opts(opts), proto.enc_s(text), out])]
    return Case(group, {"text": text, "emptypos": emptypos, "out": out[:40]}, lines, nontrivial=out != "EMPTY")


def gen(seed, tier, scale):
    # wave 18: the same reader option in every format, given as WORDS of `--src-opts` on the command line
    # (TT.readSrcWords: options_dict, then what the readers make of the dict; theorems TT/Props/C03Words.lean, C01Src.lean)
    import srccases
    nw = (24 if tier == "quick" else 400) * scale
    rngs = [case_rng(seed, ID, 800000 + i) for i in range(nw)]
    for i, c in enumerate(cli.pmap(srccases.words_case, rngs)):
        yield 800000 + i, c
    # ... and the reader options through the OTHER commands (treeanalysis, transitions, grammar: each has its own copy of
    # the `getattr(treeinput, src_format)(src, enc, **options_dict(src_opts))` glue)
    for k, f in enumerate((srccases.analysis_case, srccases.transitions_case, srccases.grammar_case)):
        nc = (10 if tier == "quick" else 150) * scale
        rngs = [case_rng(seed, ID, 810000 + 10000 * k + i) for i in range(nc)]
        for i, c in enumerate(cli.pmap(f, rngs)):
            yield 810000 + 10000 * k + i, c
    idx = 0
    L = 7 if tier == "quick" else 8
    for n in range(1, L + 1):
        for tup in itertools.product("() a", repeat=n):
            text = "".join(tup)
            if n == L and tier == "quick" and (idx % 2):
                idx += 1
                continue
            yield idx, group_case(text, (idx % 3) == 0, "exhaustive-strings")
            idx += 1
    for _ in range((1200 if tier == "quick" else 30000) * scale):
        rng = case_rng(seed, ID, idx)
        f = rng.choice([brackets_case, brackets_case, export_case, export_case, tiger_case])
        yield idx, f(rng)
        idx += 1
