"""C18 - processing is sentence-local, deterministic and history-independent."""
import io
import json
import os
import subprocess
import core
from core import Case, Line, case_rng
import proto
import treegen
import cli
import gram
from impl import trees, treeinput, treeoutput, grammar, treeanalysis, quiet, clone

ID = "C18"
MODULE = ['TT.Props.C18', 'TT.Props.C18More', 'TT.Props.C18Run', 'TT.Props.C18Local', 'TT.Props.C18Local2', 'TT.Props.C18Src', 'TT.Props.C18Dir', 'TT.Props.C18Ids', 'TT.Props.C18Sum']
RULE = ("(a) histories of 3..7 calls in one process (readers, writers, transformations incl. substitute/insert with two "
        "differently named terminal files, one of them with a duplicate index, grammar extraction/binarization/writing "
        "incl. lex_in_grammar written twice) each compared with the same call in a fresh process, under PYTHONHASHSEED "
        "0 and random; (b) concatenation: reading / extracting / analysing A+B against A and B; (c) the model of the "
        "terminal-file caches against the implementation on every history. Non-trivial: the history contains a "
        "terminal-file call after another call")
TRUSTED = ["interpreter-level determinism (hash seeds, dict order, file system) is exercised, not proved"]
ASSUMPTIONS = ["parameter files do not change during a run"]

FRESH = os.path.join(os.path.dirname(os.path.dirname(os.path.abspath(__file__))), "fresh_call.py")


def run_calls(calls, hashseed=None):
    env = dict(os.environ)
    env["PYTHONDONTWRITEBYTECODE"] = "1"
    if hashseed is not None:
        env["PYTHONHASHSEED"] = str(hashseed)
    p = subprocess.run(cli.py_cmd() + [FRESH], input=json.dumps(calls).encode(), stdout=subprocess.PIPE,
                       stderr=subprocess.PIPE, env=env, timeout=300)
    if p.returncode != 0:
        return ["PROCESS-FAILED %s" % p.stderr.decode()[-200:]] * len(calls)
    return json.loads(p.stdout.decode().strip().split("\n")[-1])


def small_tree(rng, **kw):
    cfg = treegen.Cfg(n_min=1, n_max=6, none_fields=False, labels=["S", "VP", "NP"], words=["a", "b", "Haus", "der"],
                      punct_words=[",", "."], edges=["HD", "--", "NK"], **kw)
    return treegen.gen_tree(rng, cfg)


def term_content(rng, sid, n, dup=False):
    lines = []
    ks = sorted(set(rng.randint(0, n + 2) for _ in range(rng.randint(1, 3))))
    for k in ks:
        lines.append("%d %d %s %s" % (sid, k, rng.choice(["neu", "Wort"]), rng.choice(["NN", "XY"])))
    if dup and lines:
        lines.append(lines[0])
    lines.append("%d 1 other ZZ" % (sid + 7))
    return "\n".join(lines) + "\n"


def grammar_history(rng):
    """a caller who builds grammars from several treebanks with ONE settings object (and who repeats a call)"""
    calls = []
    mo = rng.choice([{"v": 1, "h": 1}, {"v": 1, "h": 2}, {"v": 2, "h": 1}, {"v": 1, "h": 1, "nofanout": True}, None])
    key = rng.choice(["opts-a", "opts-a", None])
    for _ in range(rng.randint(2, 4)):
        if calls and rng.random() < 0.3:
            calls.append(dict(calls[-1]))          # literally the same call again
            continue
        ts = []
        for _ in range(rng.randint(1, 3)):
            cfg = treegen.Cfg(n_min=3, n_max=8, none_fields=False, labels=["S", "VP", "NP"], words=["a", "b", "Haus", "der"],
                              punct_words=[",", "."], edges=["HD", "--", "NK"], max_arity=5, p_disc=rng.choice([0.0, 0.4]))
            ts.append(treegen.gen_tree(rng, cfg))
        calls.append({"op": "grammar", "trees": [proto.enc_tree(t) for t in ts], "mode": rng.choice(["leftright", "optimal"]),
                      "markov": mo, "markov_key": key, "fmt": rng.choice(["rcg", "pmcfg"]), "opts": {}, "times": 1})
    return calls


def termfile_history(rng):
    """terminal files only: well-formed files and a rejected one (double index), each used several times in any order -
    every call says what a fresh process would say about that file"""
    files = {}
    calls = []
    order = [rng.choice(["t1.txt", "t2.txt", "dup.txt"]) for _ in range(rng.randint(3, 6))]
    if "dup.txt" not in order:
        order.insert(rng.randint(1, len(order)), "dup.txt")
    order.insert(order.index("dup.txt") + 1, "dup.txt")          # the rejected file again, right after it was rejected
    if order[0] == "dup.txt" and rng.random() < 0.7:
        order.insert(0, "t1.txt")
    op = rng.choice(["substitute_terminals", "insert_terminals"])
    for name in order:
        t = small_tree(rng)
        sid = rng.randint(1, 2)
        if name not in files:
            files[name] = term_content(rng, sid, len(trees.terminals(t)), dup=(name == "dup.txt"))
        calls.append({"op": op if rng.random() < 0.8 else rng.choice(["substitute_terminals", "insert_terminals"]), "file": name,
                      "content": files[name], "sid": sid, "tree": proto.enc_tree(t), "quiet": rng.random() < 0.5})
    return calls


def label_history(rng):
    """several sentences that use the SAME indexed labels and trace words, sent through steps that read and rewrite label
    parts (trace deletion with and without kept indices and slash annotation, head rules, binarization)"""
    calls = []
    for _ in range(rng.randint(3, 6)):
        t = trace_tree(rng)
        r = rng.random()
        if r < 0.6:
            params = rng.choice([{}, {"keepall": True, "keepcoindex": True}, {"keepall": True, "slash": True}, {"keepcoindex": True},
                                 {"keep": "*T*", "keepcoindex": True}])
            calls.append({"op": "transform", "name": "ptb_delete_traces", "tree": proto.enc_tree(t), "sid": 1, "params": params})
        elif r < 0.8:
            # the same sentence under one rule table and then under the other: what a table says about a production must
            # not depend on what another table said before
            first = rng.choice(["ptb", "negra"])
            if rng.random() < 0.7:
                t = rule_tree(rng)
            calls.append({"op": "transform", "name": "mark_heads_by_rules", "tree": proto.enc_tree(t), "sid": 1, "params": {"mark_heads_preset": first}})
            if rng.random() < 0.7:
                calls.append({"op": "transform", "name": "mark_heads_by_rules", "tree": proto.enc_tree(t), "sid": 1,
                              "params": {"mark_heads_preset": "negra" if first == "ptb" else "ptb"}})
        else:
            calls.append({"op": "write", "fmt": "brackets", "tree": proto.enc_tree(t), "sid": 1, "opts": {"gf": True}})
    return calls


def mk_history(rng):
    r0 = rng.random()
    if r0 < 0.3:
        return grammar_history(rng)
    if r0 < 0.5:
        return termfile_history(rng)
    if r0 < 0.65:
        return label_history(rng)
    files = {"t1.txt": None, "t2.txt": None, "dup.txt": None}
    calls = []
    n = rng.randint(3, 7)
    for _ in range(n):
        r = rng.random()
        if r < 0.45:
            t = small_tree(rng)
            sid = rng.randint(1, 3)
            name = rng.choice(["t1.txt", "t1.txt", "t2.txt", "dup.txt"])
            if files[name] is None:
                files[name] = term_content(rng, sid, len(trees.terminals(t)), dup=(name == "dup.txt"))
            calls.append({"op": rng.choice(["substitute_terminals", "insert_terminals"]), "file": name,
                          "content": files[name], "sid": sid, "tree": proto.enc_tree(t), "quiet": rng.random() < 0.5})
        elif r < 0.6:
            t = small_tree(rng, disc=False)
            t.data['sid'] = 1
            s = io.StringIO()
            fmt = rng.choice(["export", "brackets"])
            getattr(treeoutput, fmt)(clone_sid(t), s)
            if rng.random() < 0.5:
                # the SAME file read twice (or three times) in one process under DIFFERENT reader options: labels that
                # contain both separators, gf_split with one separator and then with the other (added after C18-y19: a
                # per-label memo in the export reader keyed by the raw label alone)
                for n_ in trees.preorder(t):
                    if n_.children and n_.parent is not None:
                        n_.data['label'] = rng.choice(["NP-SB", "PP-LOC#MO", "VP#OC", "S", "NP"])
                s = io.StringIO()
                getattr(treeoutput, fmt)(clone_sid(t), s)
                seps = rng.sample(["-", "#", None], rng.randint(2, 3))
                for sep in seps:
                    o = {} if sep is None else {"gf_split": True, "gf_separator": sep}
                    if sep == "-" and rng.random() < 0.5:
                        del o["gf_separator"]          # the default separator, not spelled out
                    calls.append({"op": "read", "fmt": fmt, "text": s.getvalue(), "opts": o})
                continue
            calls.append({"op": "read", "fmt": fmt, "text": s.getvalue() * rng.randint(1, 2), "opts": {}})
        elif r < 0.75:
            t = small_tree(rng, disc=False)
            calls.append({"op": "write", "fmt": rng.choice(["export", "tigerxml", "discobrackets", "brackets", "terminals"]),
                          "tree": proto.enc_tree(t), "sid": rng.randint(1, 9), "opts": {}})
        elif r < 0.9:
            ts = [small_tree(rng) for _ in range(rng.randint(1, 3))]
            fmt = rng.choice(["rcg", "pmcfg", "lopar"])
            if fmt == "lopar":
                ts = [small_tree(rng, disc=False) for _ in range(rng.randint(1, 3))]
            calls.append({"op": "grammar", "trees": [proto.enc_tree(t) for t in ts], "mode": rng.choice(["treebank", "leftright", "optimal"]),
                          "markov": rng.choice([None, {"v": 1, "h": 1}, {"v": 1, "h": 1}, {"v": 2, "h": 1, "nofanout": True}]),
                          "markov_key": rng.choice([None, "opts-a", "opts-a", "opts-b"]), "fmt": fmt,
                          "opts": {"lex_in_grammar": True} if (fmt != "lopar" and rng.random() < 0.5) else {},
                          "times": rng.choice([1, 2])})
        elif rng.random() < 0.5:
            t = small_tree(rng)
            calls.append({"op": "transform", "name": rng.choice(["root_attach", "negra_mark_heads", "punctuation_root", "add_topnode"]),
                          "tree": proto.enc_tree(t), "sid": 1, "params": {}})
        else:
            # trace deletion with slash annotation: several co-indexed traces whose paths to their fillers overlap
            cfg = treegen.Cfg(n_min=4, n_max=9, p_unary=0.2, p_punct=0.0, p_disc=0.0, none_fields=False,
                              labels=["NP-SBJ-1", "WHNP-1", "S", "VP", "SBAR", "NP-2", "NP", "PP-3"])
            t = treegen.gen_tree(rng, cfg)
            for term in trees.terminals(t)[1:]:
                if rng.random() < 0.45:
                    term.data['label'] = "-NONE-"
                    term.data['word'] = rng.choice(["*T*-1", "*-2", "*T*-3", "*U*", "0"])
            params = {"slash": True}
            if rng.random() < 0.7:
                params["keepall"] = True
            calls.append({"op": "transform", "name": "ptb_delete_traces", "tree": proto.enc_tree(t), "sid": 1, "params": params})
    return calls


_RULE_CATS = None


def rule_tree(rng):
    """a sentence whose productions have a parent that BOTH head-rule tables list (S, VP, PP) and children whose categories
    are listed by one table or the other, so that the two presets disagree about the head: what one table said about a
    parent label must not be what the other table is asked later in the same process (added after C18-x19)"""
    global _RULE_CATS
    from impl import mk_leaf, mk_node
    if _RULE_CATS is None:
        pinned = json.load(open(os.path.join(os.path.dirname(os.path.dirname(os.path.abspath(__file__))), "pinned_head_rules.json")))
        _RULE_CATS = {}
        for parent in ("s", "vp", "pp"):
            cats = set()
            for tbl in (pinned["negra"], pinned["ptb"]):
                for (_, p) in tbl.get(parent, []):
                    cats.update(p.split())
            _RULE_CATS[parent] = sorted(c.upper() for c in cats)
    n = [0]

    def leaf(pos):
        n[0] += 1
        return mk_leaf(n[0], pos, rng.choice(["a", "b", "Haus", "der"]), "--", "--", "--")

    def cons(parent, depth):
        kids = []
        for _ in range(rng.randint(2, 4)):
            if depth < 2 and rng.random() < 0.25:
                kids.append(cons(rng.choice(["S", "VP", "PP"]), depth + 1))
            else:
                kids.append(leaf(rng.choice(_RULE_CATS[parent.lower()] + ["ZZ"])))
        return mk_node(parent, kids, edge="--", lemma="--", morph="--")
    return mk_node("VROOT", [cons(rng.choice(["S", "VP", "PP"]), 0)], edge="--", lemma="--", morph="--")


def trace_tree(rng):
    """PTB-like tree with several co-indexed traces and fillers of different categories (paths to the fillers overlap)"""
    from impl import mk_leaf, mk_node
    if rng.random() < 0.5:
        cfg = treegen.Cfg(n_min=4, n_max=9, p_unary=0.2, p_punct=0.0, p_disc=0.0, none_fields=False,
                          labels=["NP-SBJ-1", "WHNP-1", "S", "VP", "SBAR", "NP-2", "NP", "PP-3"])
        t = treegen.gen_tree(rng, cfg)
        for term in trees.terminals(t)[1:]:
            if rng.random() < 0.45:
                term.data['label'] = "-NONE-"
                term.data['word'] = rng.choice(["*T*-1", "*-2", "*T*-3", "*U*", "0"])
        return t
    # fillers high on the left, their traces deep on the right
    fill = rng.sample(["WHNP", "NP", "PP", "ADVP", "WHADVP"], rng.randint(2, 3))
    n = [0]

    def leaf(pos, word):
        n[0] += 1
        return mk_leaf(n[0], pos, word, "--", "--", "--")
    kids = []
    for i, f in enumerate(fill):
        kids.append(mk_node("%s-%d" % (f, i + 1), [leaf("WP", "w%d" % i)], edge="--", lemma="--", morph="--"))
    inner = [leaf("VBD", "saw")]
    order = list(range(len(fill)))
    rng.shuffle(order)
    for i in order:
        inner.append(mk_node("NP", [leaf("-NONE-", rng.choice(["*T*-%d", "*-%d"]) % (i + 1))], edge="--", lemma="--", morph="--"))
    vp = mk_node("VP", inner, edge="--", lemma="--", morph="--")
    s2 = mk_node(rng.choice(["S", "SINV"]), [mk_node("NP-SBJ", [leaf("PRP", "he")], edge="--", lemma="--", morph="--"), vp],
                 edge="--", lemma="--", morph="--")
    sbar = mk_node("SBAR", kids[1:] + [s2], edge="--", lemma="--", morph="--") if len(kids) > 1 else s2
    return mk_node("VROOT", [mk_node("SBARQ", [kids[0], sbar, leaf(".", "?")], edge="--", lemma="--", morph="--")],
                   edge="--", lemma="--", morph="--")


def hashseed_case(rng):
    """the same calls in processes with different hash seeds: output must not depend on set/dict iteration order"""
    calls = []
    for _ in range(12):
        params = {"slash": True}
        if rng.random() < 0.8:
            params["keepall"] = True
        calls.append({"op": "transform", "name": "ptb_delete_traces", "tree": proto.enc_tree(trace_tree(rng)), "sid": 1, "params": params})
    runs = cli.pmap(lambda hs: run_calls(calls, hashseed=hs), [0, rng.randint(1, 999), rng.randint(1000, 99999)], workers=3)
    lines = []
    for i in range(len(calls)):
        for r in runs[1:]:
            lines.append(Line("pred", "P.C18.eq", [proto.enc_s(runs[0][i]), proto.enc_s(r[i])], note="call %d under two hash seeds" % i))
    return Case("hash-seeds", {"calls": [dict(c, tree="...") for c in calls]}, lines, nontrivial=True)


def count_map(fmt, dest):
    """what the written grammar files say, as {item: count} (item = the line without its count)"""
    import re as _re
    out = {}

    def add(k, n):
        out[k] = out.get(k, 0) + n
    if fmt == "rcg":
        for l in gram.file_lines(dest + ".rcg"):
            m = _re.match(r"C:(\d+) (.*)$", l)
            add("rule " + (m.group(2) if m else l), int(m.group(1)) if m else 0)
    else:
        for l in gram.file_lines(dest + ".gram"):
            f = l.split()
            add("rule " + " ".join(f[1:]), int(f[0]))
        for ext in (".start", ".oc", ".OC"):
            for l in gram.file_lines(dest + ext):
                f = l.split()
                add(ext + " " + " ".join(f[:-1]), int(f[-1]))
    for l in gram.file_lines(dest + ".lex"):
        f = l.split("\t")
        tags = f[1].split(" ") if len(f) > 1 else []
        for i in range(0, len(tags) - 1, 2):
            add("lex %s %s" % (f[0], tags[i]), int(tags[i + 1]))
    return out


def grammar_sum_case(rng):
    """grammars, lexicons and the LoPar auxiliary files of a concatenation are the sums of those of the parts"""
    from impl import grammaroutput
    fmt = rng.choice(["rcg", "lopar", "lopar"])
    disc = fmt != "lopar"

    def tb():
        out = []
        for _ in range(rng.randint(1, 3)):
            cfg = treegen.Cfg(n_min=1, n_max=6, none_fields=False, labels=["S", "VP", "NP"], words=["a", "b", "Haus", "Der", "EU"],
                              punct_words=[",", ".", "?"], p_punct=0.3, edges=["--"], disc=disc, p_disc=0.4 if disc else 0.0,
                              p_root_direct=0.6)
            out.append(treegen.gen_tree(rng, cfg))
        return out
    A, B = tb(), tb()
    maps = []
    lines = []
    with cli.Scratch() as sc:
        for name, ts in (("a", A), ("b", B), ("ab", A + B), ("ba", B + A)):
            with quiet():
                g, lex = gram.extract_all(ts)
                try:
                    getattr(grammaroutput, fmt)(g, lex, sc.path(name), "utf-8")
                    maps.append(count_map(fmt, sc.path(name)))
                except Exception as e:
                    maps.append({"error": proto.err_name(e)})
    ma, mb, mab, mba = maps
    if "error" in ma or "error" in mb or "error" in mab:
        lines.append(Line("pred", "P.C18.eq", [proto.enc_s(str(sorted(mab.items()))), proto.enc_s(str(sorted(mab.items())))]))
    else:
        want = dict(ma)
        for k, v in mb.items():
            want[k] = want.get(k, 0) + v
        lines.append(Line("pred", "P.C18.eq", [proto.enc_s(str(sorted(mab.items()))), proto.enc_s(str(sorted(want.items())))],
                          note="%s files of A+B vs the sum of those of A and of B" % fmt))
        lines.append(Line("pred", "P.C18.eq", [proto.enc_s(str(sorted(mab.items()))), proto.enc_s(str(sorted(mba.items())))],
                          note="%s files of A+B vs B+A" % fmt))
    return Case("grammar-sum:" + fmt, {"A": [proto.pretty_tree(t) for t in A], "B": [proto.pretty_tree(t) for t in B]}, lines, nontrivial=True)


def clone_sid(t):
    c = clone(t)
    c.data['sid'] = t.data['sid']
    return c


def history_case(rng):
    calls = mk_history(rng)
    whole = run_calls(calls, hashseed=0)
    whole2 = run_calls(calls, hashseed=rng.randint(1, 10000))
    fresh = cli.pmap(lambda c: run_calls([c], hashseed=0)[0], calls, workers=4)
    lines = []
    for i, c in enumerate(calls):
        l = Line("pred", "P.C18.eq", [proto.enc_s(whole[i]), proto.enc_s(fresh[i])], note="call %d (%s) in a history vs fresh process" % (i, c["op"]))
        lines.append(l)
        l2 = Line("pred", "P.C18.eq", [proto.enc_s(whole[i]), proto.enc_s(whole2[i])], note="call %d (%s) under two hash seeds" % (i, c["op"]))
        lines.append(l2)
    # the cache model: only the terminal-file calls carry process state
    fs = {}
    mc = []
    exp = []
    for i, c in enumerate(calls):
        if c["op"] in ("substitute_terminals", "insert_terminals"):
            fs[c["file"]] = c["content"]
            mc.append("%s,%s,%d,%s" % ("S" if c["op"] == "substitute_terminals" else "I", proto.enc_s(c["file"]), c["sid"], c["tree"]))
            exp.append(whole[i])
    if mc:
        lines.append(Line("corr", "history", [";".join("%s>%s" % (proto.enc_s(k), proto.enc_s(v)) for k, v in fs.items()),
                                              ";".join(mc)], "|".join(exp)))
    nt = sum(1 for i, c in enumerate(calls) if i > 0 and c["op"] in ("substitute_terminals", "insert_terminals"))
    return Case("history", {"calls": [dict(c, tree="...", trees="...") if "tree" in c or "trees" in c else c for c in calls]},
                lines, nontrivial=nt > 0)


def append_case(rng):
    """sentence-locality: f(A + B) = f(A) + f(B)"""
    fmt = rng.choice(["export", "brackets"])
    def tb():
        text = ""
        ts = []
        # the two treebanks may be export files of different versions (3 / 4)
        wopts = {"export_four": True} if (fmt == "export" and rng.random() < 0.5) else {}
        for i in range(rng.randint(1, 3)):
            t = small_tree(rng, disc=(fmt == "export"))
            t.data['sid'] = rng.randint(1, 50)
            s = io.StringIO()
            getattr(treeoutput, fmt)(clone_sid(t), s, **wopts)
            text += s.getvalue()
            ts.append(t)
        return text, ts
    a, ta = tb()
    b, tbs = tb()
    lines = []
    with cli.Scratch() as sc:
        def rd(text, **opts):
            p = sc.write("x", text)
            with quiet():
                return [(t.data['sid'], proto.enc_tree(t, canon=True)) for t in getattr(treeinput, fmt)(p, "utf-8", quiet=True, **opts)]
        try:
            ra, rb, rab = rd(a), rd(b), rd(a + b)
        except Exception as e:
            l = Line("pred", "P.C18.eq", ["a", "b"], note="reading a concatenation raised %s" % proto.err_name(e))
            return Case("append:" + fmt, {"a": a, "b": b}, [l], nontrivial=True)
        if fmt == "brackets":
            rb = [(sid + len(ra), t) for sid, t in rb]
        lines.append(Line("pred", "P.C18.eq", [proto.enc_s(repr(rab)), proto.enc_s(repr(ra + rb))], note="read(A+B) vs read(A)+read(B)"))
        mo = {"disco": True} if False else {}
        lines.append(Line("corr", "read_" + fmt, ["-", proto.enc_s(a + b)],
                          "|".join("%d:%s" % x for x in rab) if rab else "EMPTY"))
        def ex(text):
            p = sc.write("y", text)
            g, lex = {}, {}
            with quiet():
                for t in getattr(treeinput, fmt)(p, "utf-8", quiet=True):
                    grammar.extract(t, g, lex)
            return g, lex
        ga, la = ex(a)
        gb, lb = ex(b)
        gab, lab = ex(a + b)
        def flat(g):
            return {(f, l, v): c for f in g for l in g[f] for v, c in g[f][l].items()}
        fa, fb, fab = flat(ga), flat(gb), flat(gab)
        summed = dict(fa)
        for k, v in fb.items():
            summed[k] = summed.get(k, 0) + v
        lines.append(Line("pred", "P.C18.eq", [proto.enc_s(repr(sorted(map(repr, fab.items())))), proto.enc_s(repr(sorted(map(repr, summed.items()))))],
                          note="extract(A+B) vs pointwise sum"))
        lsum = {}
        for lx in (la, lb):
            for w in lx:
                for tg, c in lx[w].items():
                    lsum[(w, tg)] = lsum.get((w, tg), 0) + c
        lflat = {(w, tg): c for w in lab for tg, c in lab[w].items()}
        lines.append(Line("pred", "P.C18.eq", [proto.enc_s(repr(sorted(lflat.items()))), proto.enc_s(repr(sorted(lsum.items())))],
                          note="lexicon(A+B) vs sum"))
    return Case("append:" + fmt, {"a": a, "b": b}, lines, nontrivial=True)


def observe(ts):
    """pure observers of a list of trees: must not influence, or be influenced by, earlier observations"""
    out = []
    g, lex = {}, {}
    stats = treeanalysis.GapDegree()
    with quiet():
        for t in ts:
            out.append("deg=%d" % treeanalysis.gap_degree(t))
            out.append("nodes=" + ",".join(str(treeanalysis.gap_degree_node(n)) for n in trees.preorder(t)))
            out.append("blocks=" + repr([[x.data['num'] for x in b] for n in trees.preorder(t) for b in trees.terminal_blocks(n)]))
            out.append("levels=" + repr(sorted(trees.levels(t)[1].values())))
            grammar.extract(t, g, lex)
            stats.run(t)
            s = io.StringIO()
            try:
                treeoutput.terminals(t, s)
                treeoutput.brackets(t, s, brackets_skipdisco=True)
            except Exception as e:
                s.write(proto.err_name(e))
            out.append(s.getvalue())
    out.append(gram.enc_grammar(g))
    out.append(repr(sorted(stats.gaps_per_node.items())) + repr(sorted(stats.gaps_per_tree.items())))
    return "\n".join(out)


def observer_case(rng):
    """analysing trees before transforming them must not change what is computed afterwards"""
    from impl import transform
    text = ""
    k = rng.randint(1, 3)
    for i in range(k):
        t = small_tree(rng, p_disc=0.6, p_root_direct=0.8, n_min=3, n_max=8) if False else treegen.gen_tree(
            rng, treegen.Cfg(n_min=3, n_max=8, p_disc=0.6, p_root_direct=0.8, none_fields=False, labels=["S", "VP", "NP"],
                             words=["a", "b", "Haus"], punct_words=[",", "."], p_punct=0.3, edges=["HD", "--"]))
        t.data['sid'] = i + 1
        s = io.StringIO()
        treeoutput.export(clone_sid(t), s)
        text += s.getvalue()
    seq = rng.choice([["root_attach"], ["punctuation_delete"], ["root_attach", "punctuation_verylow"], ["punctuation_root"],
                      ["root_attach", "negra_mark_heads", "boyd_split", "raising"]])
    with cli.Scratch() as sc:
        p = sc.write("x.export", text)

        def run(pre):
            with quiet():
                ts = list(treeinput.export(p, "utf-8", quiet=True))
            if pre:
                observe(ts)
            res = []
            with quiet():
                for t in ts:
                    for name in seq:
                        t = getattr(transform, name)(t, quiet=True)
                    res.append(t)
            return observe(res)
        try:
            a, b = run(True), run(False)
        except Exception as e:
            a, b = "raised", proto.err_name(e)
    lines = [Line("pred", "P.C18.eq", [proto.enc_s(a), proto.enc_s(b)], note="observing before %s vs not observing" % "+".join(seq))]
    return Case("observer:" + "+".join(seq), {"text": text, "transformations": seq}, lines, nontrivial=True)


def interleaved_readers_case(rng):
    """two readers alive at the same time (zip over two treebank files, as a tool that aligns two annotations of one
    text does): what each of them yields must be what it yields alone.  The files are larger than an I/O buffer, plain or
    gzipped, of the same or of different formats."""
    import gzip
    texts = []
    for which in range(2):
        fmt = rng.choice(["export", "brackets"])
        k = rng.choice([130, 160, 220])
        small = [treegen.gen_tree(rng, treegen.Cfg(n_min=3, n_max=7, disc=(fmt == "export"), p_disc=0.3, none_fields=False,
                                                   labels=treegen.PLAIN_LABELS, words=[["alpha", "beta", "gamma", "delta"], ["eins", "zwei", "drei", "vier"]][which],
                                                   punct_words=[",", "."], edges=["HD", "--"])) for _ in range(12)]
        s = io.StringIO()
        for i in range(k):
            c = clone_sid(small[(i * 7 + which) % 12]) if small[(i * 7 + which) % 12].data.get('sid') else clone(small[(i * 7 + which) % 12])
            c.data['sid'] = i + 1
            getattr(treeoutput, fmt)(c, s)
        texts.append((fmt, s.getvalue()))
    gz = rng.random() < 0.6

    def enc(it):
        return [(t.data['sid'], proto.enc_tree(t, canon=True)) for t in it]
    with cli.Scratch() as sc:
        paths = []
        for i, (fmt, text) in enumerate(texts):
            if gz:
                p = sc.path("tb%d.%s.gz" % (i, fmt))
                with gzip.open(p, "wb") as f:
                    f.write(text.encode("utf-8"))
            else:
                p = sc.write("tb%d.%s" % (i, fmt), text)
            paths.append(p)
        try:
            with quiet():
                alone = [enc(getattr(treeinput, texts[i][0])(paths[i], "utf-8", quiet=True)) for i in range(2)]
                ra = getattr(treeinput, texts[0][0])(paths[0], "utf-8", quiet=True)
                rb = getattr(treeinput, texts[1][0])(paths[1], "utf-8", quiet=True)
                both = [[], []]
                for ta, tb in zip(ra, rb):
                    both[0].append((ta.data['sid'], proto.enc_tree(ta, canon=True)))
                    both[1].append((tb.data['sid'], proto.enc_tree(tb, canon=True)))
            n = min(len(alone[0]), len(alone[1]))
            a = repr([alone[0][:n], alone[1][:n]])
            b = repr([both[0][:n], both[1][:n]])
        except Exception as e:
            a, b = "raised", proto.err_name(e)
    lines = [Line("pred", "P.C18.eq", [proto.enc_s(a), proto.enc_s(b)],
                  note="two %s readers consumed in step (%s / %s) vs each alone" % ("gzip" if gz else "plain", texts[0][0], texts[1][0]))]
    return Case("interleaved-readers", {"formats": [t[0] for t in texts], "gz": gz, "sentences": [t[1].count("#BOS") or t[1].count("\n") for t in texts]},
                lines, nontrivial=True)


ROUND = [1 << 8, 1 << 10, 1 << 12, 1 << 15, 1 << 16, 1000, 10000, 100000, 1 << 17]


def long_process_case(rng):
    """a call made after ANY NUMBER of other calls: the sentence stays alive while the process builds very many other
    nodes (a long-running conversion), then it is transformed; the amount of unrelated work is chosen near the round
    numbers at which a counter could wrap"""
    from impl import transform
    text = ""
    k = rng.randint(1, 2)
    for i in range(k):
        t = treegen.gen_tree(rng, treegen.Cfg(n_min=3, n_max=9, p_disc=0.5, p_root_direct=0.6, none_fields=False, labels=["S", "VP", "NP", "PP"],
                                              words=["a", "b", "Haus"], punct_words=[",", "."], p_punct=0.2, edges=["HD", "--"], large=False))
        t.data['sid'] = i + 1
        s = io.StringIO()
        treeoutput.export(clone_sid(t), s)
        text += s.getvalue()
    seq = rng.choice([["add_topnode"], ["root_attach", "negra_mark_heads", "binarize"], ["add_topnode", "root_attach", "punctuation_verylow"],
                      ["root_attach", "negra_mark_heads", "boyd_split", "raising"], ["root_attach", "negra_mark_heads", "boyd_split"]])
    R = rng.choice(ROUND)
    with cli.Scratch() as sc:
        p = sc.write("x.export", text)

        def run(work):
            with quiet():
                ts = list(treeinput.export(p, "utf-8", quiet=True))
            if work:
                nn = sum(1 for t in ts for n in trees.preorder(t))
                jitter = rng.randint(0, nn - 1)
                try:
                    # unrelated work: the next node is the (R + j)-th after the first node of the live sentences
                    ids = sorted(n.id for t in ts for n in trees.preorder(t))
                    probe = trees.Tree(trees.make_node_data())
                    todo = R - (probe.id - ids[0]) - 1 + jitter
                except Exception:
                    todo = R - nn + jitter          # identities that are not numbers: about R constructions
                for _ in range(max(todo, 0)):
                    trees.Tree(trees.make_node_data())
            res = []
            with quiet():
                for t in ts:
                    for name in seq:
                        t = getattr(transform, name)(t, quiet=True)
                    res.append(t)
            nodes = [n for t in res for n in trees.preorder(t)]
            return "different-nodes=%d-of-%d\n" % (len(set(nodes)), len(nodes)) + observe(res)
        try:
            a, b = run(False), run(True)
        except Exception as e:
            a, b = "raised", proto.err_name(e)
    lines = [Line("pred", "P.C18.eq", [proto.enc_s(a), proto.enc_s(b)],
                  note="%s right away vs after about %d unrelated node constructions" % ("+".join(seq), R))]
    return Case("long-process:" + "+".join(seq), {"text": text, "transformations": seq, "unrelated_nodes": R}, lines, nontrivial=True)


def gen(seed, tier, scale):
    idx = 0
    # wave 19: one process works through a DIRECTORY of several files (plain / gzip, different sizes): what is written for
    # a file is what the single-file command writes (TT.runDirCmd; Props/C18Dir.lean)
    import dircases
    rngs = [case_rng(seed, ID, 830000 + i) for i in range((12 if tier == "quick" else 200) * scale)]
    for i, c in enumerate(cli.pmap(dircases.dir_case, rngs)):
        yield 830000 + i, c
    # wave 19: the node-id model (TT/ProcIds.lean `stamp`, `runHistoryX`; `historyX_independent`) against `Tree.newid` in ONE
    # process over a history of reader calls: id blocks per sentence and the final counter for every reader, exact ids for
    # the bracket readers (which create nodes parents first in text order, as `stamp` does)
    import idcases
    for j, c in enumerate(idcases.id_cases(case_rng(seed, ID, 840000), (20 if tier == "quick" else 300) * scale)):
        yield 840000 + j, c
    for i in range((6 if tier == "quick" else 60) * scale):
        yield 810000 + i, interleaved_readers_case(case_rng(seed, ID, 810000 + i))
    for i in range((40 if tier == "quick" else 400) * scale):
        yield 800000 + i, long_process_case(case_rng(seed, ID, 800000 + i))
    for _ in range((200 if tier == "quick" else 4000) * scale):
        rng = case_rng(seed, ID, idx)
        yield idx, observer_case(rng)
        idx += 1
    nh = (40 if tier == "quick" else 600) * scale
    rngs = [case_rng(seed, ID, idx + i) for i in range(nh)]
    for i, c in enumerate(cli.pmap(history_case, rngs, workers=4)):
        yield idx + i, c
    idx += nh
    for _ in range((300 if tier == "quick" else 5000) * scale):
        rng = case_rng(seed, ID, idx)
        yield idx, append_case(rng)
        idx += 1
    for _ in range((6 if tier == "quick" else 100) * scale):
        rng = case_rng(seed, ID, idx)
        yield idx, hashseed_case(rng)
        idx += 1
    for _ in range((150 if tier == "quick" else 3000) * scale):
        rng = case_rng(seed, ID, idx)
        yield idx, grammar_sum_case(rng)
        idx += 1
