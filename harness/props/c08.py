"""C08 - rule and lexicon counts are conserved through extraction and binarization."""
import core
from core import Case, Line, case_rng
import proto
import gram
from impl import trees, grammar, quiet
from props.c07 import REORD

ID = "C08"
MODULE = ['TT.Props.C08', 'TT.Props.C08More', 'TT.Props.C08Net', 'TT.Props.C03Cmd']
RULE = ("random treebanks in which the same rule occurs repeatedly and under different parents; grammar types treebank / "
        "leftright / optimal; deterministic and Markov v,h in 0..3 with/without nofanout; mass balance per label and per "
        "symbol on the implementation's dicts. Non-trivial: some count exceeds 1")
TRUSTED = []
ASSUMPTIONS = ["trees are well formed"]


def one(rng):
    ts = gram.gen_treebank(rng, kmax=6, nmax=8, bare=True)
    with quiet():
        g, lex = gram.extract_all(ts)
    enc = "|".join(proto.enc_tree(t) for t in ts)
    lenc = gram.enc_lexicon(lex)
    lines = [Line("pred", "P.C08", [enc, gram.enc_grammar(g), lenc, ""])]
    reord = rng.choice([None, "leftright", "optimal"])
    mo = None
    if rng.random() < 0.7:
        mo = {'v': rng.randint(0, 3), 'h': rng.randint(0, 3)}
        if rng.random() < 0.5:
            mo['nofanout'] = True
    args = {}
    if reord is not None:
        args['reordering'] = REORD[reord]
    if mo is not None:
        args['markov_opts'] = mo
    with quiet():
        res = grammar.binarize(g, **args)
    out = gram.enc_grammar(res)
    lines.append(Line("corr", "binarize", [reord or "none", gram.enc_markov(mo), gram.enc_grammar(g)], out, canon=gram.canon_grammar))
    lines.append(Line("pred", "P.C08", [enc, out, lenc, ""]))
    # "every grammar produced": what the writer puts into the count field balances in the same way
    import cli
    from impl import grammaroutput
    for which, gg in (("treebank", g), ("binarized", res)):
        if which == "binarized" and rng.random() < 0.5:
            continue
        with cli.Scratch() as sc:
            try:
                with quiet():
                    grammaroutput.pmcfg(gg, lex, sc.path("g"), "utf-8")
                gl = gram.file_lines(sc.path("g") + ".pmcfg")
                lines.append(Line("pred", "P.C08.file", [enc, gram.enc_lines(gl), lenc]))
            except Exception as e:
                l = Line("pred", "P.C08.file", [enc, "", lenc], note="writer raised " + proto.err_name(e))
                l.expect = "writer-must-not-fail"
                lines.append(l)
    # "plus its lexicon count as a tag": with the lexicon embedded, every TAG -> word rule carries that pair's count
    if rng.random() < 0.5:
        with cli.Scratch() as sc:
            try:
                with quiet():
                    grammaroutput.pmcfg(g, lex, sc.path("lg"), "utf-8", lex_in_grammar=True)
                gl = gram.file_lines(sc.path("lg") + ".pmcfg")
                lines.append(Line("pred", "P.C08.lexrules", [gram.enc_lines(gl), lenc]))
            except Exception as e:
                l = Line("pred", "P.C08.lexrules", ["", lenc], note="writer raised " + proto.err_name(e))
                l.expect = "writer-must-not-fail"
                lines.append(l)
    # root occurrences: the LoPar start-symbol file of a context-free treebank grammar carries them
    if all(len(lin) <= 1 for f in g for lin in g[f]) and rng.random() < 0.7:
        with cli.Scratch() as sc:
            try:
                with quiet():
                    grammaroutput.lopar(g, lex, sc.path("lp"), "utf-8")
                files = [gram.file_lines(sc.path("lp") + ext) for ext in (".gram", ".lex", ".start", ".oc", ".OC")]
                files[2] = sorted(files[2], key=lambda x: [ord(c) for c in x])
                lines.append(Line("pred", "P.C09.lopar", [gram.enc_grammar(g), lenc, " # ".join(gram.enc_lines(f) for f in files)]))
            except Exception as e:
                l = Line("pred", "P.C09.lopar", ["", "", ""], note="LoPar writer raised " + proto.err_name(e))
                l.expect = "writer-must-not-fail"
                lines.append(l)
    multi = any(c > 1 for f in g for l in g[f] for c in g[f][l].values())
    return Case("treebank", {"trees": [proto.pretty_tree(t) for t in ts], "reordering": reord, "markov": mo}, lines,
                nontrivial=multi, tags=["markov"] if mo else ["deterministic"])


def cli_big(rng, small=False):
    """`treetools grammar` on a treebank of more than a hundred sentences (small: a handful), with and without --markov words:
    the counts in the written grammar balance against the trees"""
    import io
    import cli
    from impl import treeoutput, clone
    base = gram.gen_treebank(rng, kmax=4, nmax=6, disc=rng.random() < 0.5)
    n = rng.choice([100, 101, 150, 201, 230]) if not small else rng.choice([4, 6, 9, 12])
    ts = []
    text = ""
    for i in range(n):
        c = clone(base[i % len(base)])
        c.data['sid'] = i + 1
        c.data['label'] = "VROOT"
        s = io.StringIO()
        treeoutput.export(c, s)
        text += s.getvalue()
        ts.append(c)
    with quiet():
        _, lex = gram.extract_all(ts)
    gtype = rng.choice(["treebank", "leftright", "optimal"])
    with cli.Scratch() as sc:
        src = sc.write("tb.export", text)
        mw = []
        if gtype != "treebank" and rng.random() < (0.7 if small else 0.4):
            # what the command does between `--markov` and `binarize` (defaults, trimming of contexts) must conserve counts too
            mw = rng.choice([["v:1"], ["h:1"], ["v:2", "h:1"], ["nofanout"], ["v:0", "h:0"], ["v:1", "h:2", "nofanout"], ["v:3"], ["v:0"]])
        rc, _, err = cli.run_cli(["grammar", src, sc.path("g"), gtype, "--dest-format", "pmcfg"] + ((["--markov"] + mw) if mw else []))
        if rc != 0:
            l = Line("pred", "P.C08.file", ["", "", ""], note="command failed: " + err[-200:])
            l.expect = "command-must-succeed"
            return Case("cli-big", {"sentences": n, "gramtype": gtype}, [l], nontrivial=True)
        gl = gram.file_lines(sc.path("g") + ".pmcfg")
    enc = "|".join(proto.enc_tree(t) for t in ts)
    lines = [Line("pred", "P.C08.file", [enc, gram.enc_lines(gl), gram.enc_lexicon(lex)])]
    return Case("cli-small" if small else "cli-big", {"sentences": n, "gramtype": gtype, "markov": mw, "distinct_trees": [proto.pretty_tree(t) for t in base]}, lines, nontrivial=True)


def gen(seed, tier, scale):
    # wave 18: `treetools grammar` with --markov words on every source format against TT.runGrammarCmd (markovOf: defaults v 1,
    # h 2, `nofanout` by presence): what the COMMAND does between `--markov` and `binarize` must not lose counts either
    import srccases
    import cli as _cli
    nw = (24 if tier == "quick" else 400) * scale
    rngs = [case_rng(seed, ID, 710000 + i) for i in range(nw)]
    for i, c in enumerate(_cli.pmap(srccases.grammar_case, rngs)):
        yield 710000 + i, c
    for i in range((4 if tier == "quick" else 40) * scale):
        yield 700000 + i, cli_big(case_rng(seed, ID, 700000 + i))
    for i in range((40 if tier == "quick" else 600) * scale):
        yield 720000 + i, cli_big(case_rng(seed, ID, 720000 + i), small=True)
    idx = 0
    for _ in range((1000 if tier == "quick" else 20000) * scale):
        rng = case_rng(seed, ID, idx)
        yield idx, one(rng)
        idx += 1
