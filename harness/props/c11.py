"""C11 - token-editing transformations change exactly the targeted tokens."""
import core
from core import Case, Line, case_rng
import proto
import treegen
import tx
from impl import trees, transform, quiet, clone, tag_uids, mk_leaf, mk_node

ID = "C11"
MODULE = ['TT.Props.C11', 'TT.Props.C11More', 'TT.Props.C11Slash', 'TT.Props.Pinned', 'TT.Props.C11Traces', 'TT.Props.C11Slash2', 'TT.Props.C11Slash3', 'TT.Props.C11Slash4', 'TT.Props.C11Slash5']
RULE = ("random well-formed trees with punctuation / trace tokens at any depth and position (first, last, only child "
        "of a unary chain, sole content of a constituent); terminal files with valid, out-of-range, 0 and other-sentence "
        "entries; parameters quiet, keep, keepall, keepcoindex, slash (flag and label list; co-indexed fillers that dominate "
        "or c-command their trace, several constituents with one index, traces without filler), filteroperator/filtervalue. Non-trivial: the output "
        "differs from the input")
TRUSTED = []
ASSUMPTIONS = ["labels follow the documented label grammar (gap index before co-index)"]

TRACE_WORDS = ["*T*-1", "*-2", "*U*", "0", "*EXP*-3", "*T*-12", "*?*", "*ICH*-2", "*T*=1-2", "*"]
IDX_LABELS = ["NP-SBJ-1", "WHNP-1", "S=2", "NP-2", "VP", "SBAR-ADV=3-1", "NP-SBJ", "S", "PP-LOC-2", "ADJP"]


def punct_delete(rng):
    cfg = treegen.Cfg(n_min=1, n_max=10, p_punct=rng.choice([0.2, 0.5, 1.0]), p_unary=0.3, labels=treegen.PLAIN_LABELS)
    t = treegen.gen_tree(rng, cfg)
    t.data['sid'] = rng.randint(1, 50)
    if rng.random() < 0.15:
        import history
        sid0 = t.data['sid']
        t, _ = history.pretransformed(rng, t, allowed=["add_topnode", "binarize", "root_attach", "punctuation_root", "punctuation_verylow", "split+raise"])
        t.data['sid'] = sid0
    tag_uids(t)
    a = proto.enc_tree(t)
    params = {"quiet": True} if rng.random() < 0.5 else {}
    res, out, ret = tx.run_impl([("punctuation_delete", params)], tx.fresh(t, t.data['sid']))
    lines = [Line("corr", "apply", ["punctuation_delete", a], res)]
    if ret is not None:
        lines.append(Line("pred", "P.C11", ["punctuation_delete", a, res]))
        printed = []
        for ln in out.split("\n"):
            f = ln.split("\t")
            if len(f) == 4 and f[0] == str(t.data['sid']):
                printed.append("%s,%s,%s" % (f[1], proto.enc_s(f[2]), proto.enc_s(f[3])))
        pl = ";".join(printed)
        lines.append(Line("corr", "punct_delete_lines", [a], pl))
        lines.append(Line("pred", "P.C11.lines", [a, pl]))
    else:
        l = Line("pred", "P.C11", ["punctuation_delete", a, a], note="returned " + res)
        l.expect = "no-error-expected"
        lines.append(l)
    return Case("punctuation_delete", {"tree": proto.pretty_tree(t), "result": res[:60]}, lines,
                nontrivial=res != proto.enc_tree(t, canon=True))


def delete_one(rng):
    t = treegen.gen_tree(rng, treegen.Cfg(n_min=2, n_max=9, p_unary=0.3, labels=treegen.PLAIN_LABELS))
    t.data['sid'] = 1
    if rng.random() < 0.15:
        import history
        t, _ = history.pretransformed(rng, t, allowed=["add_topnode", "binarize", "root_attach", "punctuation_root", "split+raise", "collapse+uncollapse"])
        t.data['sid'] = 1
    tag_uids(t)
    a = proto.enc_tree(t)
    base = tx.fresh(t, 1)
    terms = trees.terminals(base)
    k = rng.randint(1, len(terms))
    try:
        with quiet():
            trees.delete_terminal(base, terms[k - 1])
        res = proto.enc_tree_checked(base)
    except Exception as e:
        res = proto.err_name(e)
    cs = "delete_terminal:k=%d" % k
    lines = [Line("corr", "apply", [cs, a], res), Line("pred", "P.C11", [cs, a, res])]
    return Case("delete_terminal", {"tree": proto.pretty_tree(t), "k": k}, lines)


def mk_reqs(rng, n, with_pos_none):
    ks = set()
    for _ in range(rng.randint(1, 4)):
        r = rng.random()
        if r < 0.6:
            ks.add(rng.randint(1, max(1, n)))
        elif r < 0.75:
            ks.add(n + 1)
        elif r < 0.9:
            ks.add(n + rng.randint(2, 5))
        else:
            ks.add(0)
    order = sorted(ks)
    r = rng.random()
    if r < 0.12:
        order.append(rng.choice(order))          # the same index twice in the file: the file is refused
    if r < 0.3 or r > 0.85:
        rng.shuffle(order)                         # the lines of a terminal file need not be sorted
    reqs = []
    for k in order:
        pos = rng.choice(["NN", "XY", "$,"])
        if with_pos_none and rng.random() < 0.3:
            pos = None
        reqs.append((k, rng.choice(["neu", "Wort", ",", "x<y"]), pos))
    return reqs


def terminal_file(rng):
    t = treegen.gen_tree(rng, treegen.Cfg(n_min=1, n_max=8, labels=treegen.PLAIN_LABELS))
    sid = rng.randint(1, 9)
    t.data['sid'] = sid
    tag_uids(t)
    a = proto.enc_tree(t)
    n = len(trees.terminals(t))
    name = rng.choice(["insert_terminals", "substitute_terminals"])
    reqs = mk_reqs(rng, n, name == "substitute_terminals")
    params = {"quiet": True} if rng.random() < 0.5 else {}
    others = ["%d 1 other XX" % (sid + 1), "%d 2 more YY" % (sid + 3)] if rng.random() < 0.5 else []
    base = tx.fresh(t, sid)
    fn = tx.write_terminalfile(sid, reqs, others)
    p2 = dict(params)
    p2['terminalfile'] = fn
    try:
        with quiet():
            ret = getattr(transform, name)(base, **p2)
        res = proto.enc_tree_checked(ret)
    except Exception as e:
        res = proto.err_name(e)
        ret = None
    cs = tx.call_str(name, params, reqs)
    lines = [Line("corr", "apply", [cs, a], res)]
    dup = len(set(k for k, _, _ in reqs)) < len(reqs)
    if dup:
        # a file that names an index twice is refused (and nothing has been done to the tree)
        if res != "ERR:ValueError":
            l = Line("pred", "P.C11", [cs, a, a], note="a terminal file with a duplicate index was not refused: " + res[:40])
            l.expect = "rejection-expected"
            lines.append(l)
    elif ret is not None:
        lines.append(Line("pred", "P.C11", [cs, a, res]))
    else:
        l = Line("pred", "P.C11", [cs, a, a], note="returned " + res)
        l.expect = "no-error-expected"
        lines.append(l)
    second = None
    if not dup and rng.random() < 0.4:
        # a second sentence with the same id served from the same terminal file (every file of a directory numbers
        # its sentences from 1; the same tree processed again): the file says the same thing about it
        t2 = t if rng.random() < 0.3 else treegen.gen_tree(rng, treegen.Cfg(n_min=1, n_max=8, labels=treegen.PLAIN_LABELS))
        t2 = tx.fresh(t2, sid)
        tag_uids(t2)
        a2 = proto.enc_tree(t2)
        try:
            with quiet():
                ret2 = getattr(transform, name)(t2, **p2)
            res2 = proto.enc_tree_checked(ret2)
        except Exception as e:
            res2 = proto.err_name(e)
            ret2 = None
        lines.append(Line("corr", "apply", [cs, a2], res2))
        if ret2 is not None:
            lines.append(Line("pred", "P.C11", [cs, a2, res2]))
        second = proto.pretty_tree(t2)
    return Case(name, {"tree": proto.pretty_tree(t), "sid": sid, "reqs": reqs, "params": params, "result": res[:50],
                       "second-tree-same-id-same-file": second},
                lines, nontrivial=res != proto.enc_tree(t, canon=True))


def filter_len(rng):
    t = treegen.gen_tree(rng, treegen.Cfg(n_min=1, n_max=8))
    t.data['sid'] = 1
    tag_uids(t)
    a = proto.enc_tree(t)
    params = {"filteroperator": rng.choice(["lt", "gt", "eq"]), "filtervalue": rng.randint(0, 9)}
    res, _, _ = tx.run_impl([("filter_by_length", params)], tx.fresh(t, 1))
    cs = tx.call_str("filter_by_length", params)
    lines = [Line("corr", "apply", [cs, a], res), Line("pred", "P.C11", [cs, a, res])]
    return Case("filter_by_length", {"tree": proto.pretty_tree(t), "params": params, "result": res[:20]}, lines,
                nontrivial=res == "NONE")


def traces(rng):
    cfg = treegen.Cfg(n_min=2, n_max=9, p_unary=0.25, p_punct=0.05, labels=IDX_LABELS, p_disc=0.0, none_fields=False)
    t = treegen.gen_tree(rng, cfg)
    terms = trees.terminals(t)
    for term in terms:
        if rng.random() < 0.35:
            term.data['label'] = "-NONE-"
            term.data['word'] = rng.choice(TRACE_WORDS)
    t.data['sid'] = 1
    tag_uids(t)
    a = proto.enc_tree(t)
    params = {}
    r = rng.random()
    if r < 0.25:
        params['keepall'] = True
    elif r < 0.5:
        params['keep'] = rng.choice(["*T*", "*U*,0", "*", "*T*,*EXP*"])
    if rng.random() < 0.3:
        params['keepcoindex'] = True
    alltr = all(x.data['label'] == "-NONE-" for x in terms) and 'keepall' not in params
    res, _, ret = tx.run_impl([("ptb_delete_traces", params)], tx.fresh(t, 1))
    cs = tx.call_str("ptb_delete_traces", params)
    lines = [Line("corr", "apply", [cs, a], res)]
    if ret is not None:
        lines.append(Line("pred", "P.C11", [cs, a, res]))
    else:
        l = Line("pred", "P.C11", [cs, a, a], note="returned " + res)
        l.expect = "no-error-expected"
        lines.append(l)
    return Case("ptb_delete_traces", {"tree": proto.pretty_tree(t), "params": params, "result": res[:50]}, lines,
                nontrivial=res != proto.enc_tree(t, canon=True), tags=["all-traces"] if alltr else [])


SLASH_CATS = ["S", "VP", "SBAR", "NP", "NP-SBJ", "WHNP", "PP-LOC", "ADJP", "WHADVP", "SQ", "NP'", "S", "NP", "VP"]
SLASH_TRACE_FORMS = ["*T*", "*T*", "*T*", "*", "*", "*ICH*", "*EXP*", "*U*", "0", "*?*"]
SLASH_VALUES = ["*T*", "*", "*T*,*ICH*", "*U*", "*T*,*,*EXP*", "*ICH*"]
SLASH_KEEPS = ["*T*", "*T*,*", "*,*ICH*,*EXP*", "*U*,0", "*T*-1,*-2,*T*-2", "*T*,*,*ICH*,*EXP*,*U*,0,*?*"]


def _constituents(node, acc):
    """constituents below (and including) node, storage preorder"""
    if node.children:
        acc.append(node)
        for c in node.children:
            _constituents(c, acc)
    return acc


def _with_index(rng, label, k):
    """LABEL(=GAP)?-K('), the documented order of the pieces"""
    hm = ""
    if label.endswith("'"):
        label, hm = label[:-1], "'"
    gap = "=%d" % rng.randint(1, 3) if rng.random() < 0.1 else ""
    return "%s%s-%d%s" % (label, gap, k, hm)


def _has_index(node):
    return len(trees.parse_label(node.data['label']).coindex) > 0


def slash_tree(rng):
    """a PTB-like tree for the slash annotation: trace tokens (with and without co-index, several with the same one),
    co-indexed constituents placed so that every branch of the annotation code is reached: one filler per index
    (dominating the trace, or elsewhere in the tree), several constituents with the same index (bottom-up resolution:
    an ancestor of the trace, or a child of one), indices without any filler (the trace is deleted), traces as the only
    content of a constituent or of a unary chain (pruning)"""
    cfg = treegen.Cfg(n_min=2, n_max=10, p_unary=0.3, p_punct=0.0, labels=SLASH_CATS, p_disc=rng.choice([0.0, 0.0, 0.3]),
                      none_fields=False)
    t = treegen.gen_tree(rng, cfg)
    if rng.random() < 0.3:
        t.data['label'] = rng.choice(["S", "TOP", "SQ"])
    terms = trees.terminals(t)
    all_traces = rng.random() < 0.04
    p_trace = rng.choice([0.2, 0.35, 0.5])
    nidx = rng.choice([1, 2, 2, 3])
    traces = []
    for i, term in enumerate(terms):
        if all_traces or (rng.random() < p_trace and (i > 0 or rng.random() < 0.5)):
            w = rng.choice(SLASH_TRACE_FORMS)
            r = rng.random()
            if r < (0.8 if w.startswith("*") and w not in ("*U*", "*?*") else 0.1):
                if rng.random() < 0.07:
                    w += "=%d" % rng.randint(1, 3)
                w += "-%d" % rng.randint(1, nidx)
            term.data['label'] = "-NONE-"
            term.data['word'] = w
            traces.append(term)
    if not all_traces and len(traces) == len(terms):
        # keep one ordinary token
        keep = rng.choice(terms)
        keep.data['label'] = "NN"
        keep.data['word'] = "w"
        traces = [x for x in traces if x is not keep]
    cons = _constituents(t, [])
    inner = cons[1:] if len(cons) > 1 else cons
    mode = rng.choice(["random", "unique", "unique", "resolvable", "resolvable"])
    if mode == "random":
        for c in (cons if rng.random() < 0.3 else inner):
            if rng.random() < 0.35:
                c.data['label'] = _with_index(rng, c.data['label'], rng.randint(1, nidx))
    elif mode == "unique":
        pool = list(cons if rng.random() < 0.3 else inner)
        rng.shuffle(pool)
        for k in range(1, nidx + 1):
            if pool and rng.random() < 0.8:
                c = pool.pop()
                c.data['label'] = _with_index(rng, c.data['label'], k)
    else:
        for tr in traces:
            co = trees.parse_label(tr.data['word']).coindex
            if not co or rng.random() < 0.15:
                continue
            anc = []
            cur = tr.parent
            while cur is not None:
                anc.append(cur)
                cur = cur.parent
            for _ in range(4):
                a = rng.choice(anc)
                if rng.random() < 0.5:
                    cand = a                                     # a filler that dominates the trace
                else:
                    sibs = [c for c in a.children if c.children and c not in anc]
                    if not sibs:
                        continue
                    cand = rng.choice(sibs)                      # a filler that is a child of an ancestor
                if not _has_index(cand):
                    cand.data['label'] = _with_index(rng, cand.data['label'], int(co))
                    break
        if rng.random() < 0.5:
            free = [c for c in inner if not _has_index(c)]
            if free:
                c = rng.choice(free)
                c.data['label'] = _with_index(rng, c.data['label'], rng.randint(1, nidx))
    if rng.random() < 0.1:
        # gap indices alone
        c = rng.choice(cons)
        if not _has_index(c) and not c.data['label'].endswith("'"):
            c.data['label'] += "=%d" % rng.randint(1, 3)
    return t, mode


def traces_slash(rng):
    """ptb_delete_traces with the slash parameter: model and implementation on the same input; the token clauses of the
    property are evaluated on the implementation's output (which tokens remain, numbering, pruning)"""
    t, mode = slash_tree(rng)
    t.data['sid'] = 1
    tag_uids(t)
    a = proto.enc_tree(t)
    params = {"slash": True if rng.random() < 0.5 else rng.choice(SLASH_VALUES)}
    r = rng.random()
    if r < 0.55:
        params['keepall'] = True
    elif r < 0.88:
        params['keep'] = rng.choice(SLASH_KEEPS)
    if rng.random() < 0.3:
        params['keepcoindex'] = True
    res, _, ret = tx.run_impl([("ptb_delete_traces", params)], tx.fresh(t, 1))
    cs = tx.call_str("ptb_delete_traces", params)
    lines = [Line("corr", "apply", [cs, a], res)]
    if ret is not None:
        # the property's clauses on the implementation's output, evaluated by the driver (Driver/OpsEdit.lean, slash branch)
        lines.append(Line("pred", "P.C11", [cs, a, res]))
        # expected tokens: as without slash, except that traces without a filler are deleted too
        nparams = {k: v for k, v in params.items() if k != "slash"}
        res2, _, ret2 = tx.run_impl([("ptb_delete_traces", nparams)], tx.fresh(t, 1))
        try:
            kept = set(x.data.get('uid') for x in trees.terminals(ret)) if ret.children else set()
            kept2 = set(x.data.get('uid') for x in trees.terminals(ret2)) if ret2 is not None and ret2.children else set()
            ok = kept <= kept2 and (not ret.children or [x.data['num'] for x in trees.terminals(ret)] == list(range(1, len(kept) + 1))) and \
                all((n.children or 'num' in n.data) for n in trees.preorder(ret) if n is not ret)
            if ret2 is not None and ret2.children:
                # nothing but kept traces is deleted on top of the plain trace deletion
                gone = [x for x in trees.terminals(ret2) if x.data.get('uid') not in kept]
                ok = ok and all(x.data['word'] == "-NONE-" for x in gone)
        except ValueError:
            kept, kept2, ok = set(), set(), False          # not a well-formed tree (e.g. a childless constituent left behind)
        l = Line("pred", "P.C18.eq", ["a", "a" if ok else "b"], note="slash: tokens %s vs without slash %s" % (sorted(kept), sorted(kept2)))
        lines.append(l)
    elif not res.startswith("ERR:ValueError"):
        l = Line("pred", "P.C18.eq", ["a", "b"], note="slash: raised " + res)
        lines.append(l)
    else:
        lines.append(Line("pred", "P.C18.eq", ["a", "a"], note="slash: rejected (no unique filler)"))
    return Case("ptb_delete_traces:slash", {"tree": proto.pretty_tree(t), "params": params, "result": res[:50], "fillers": mode}, lines,
                nontrivial=True)


GENS = [punct_delete, delete_one, terminal_file, terminal_file, filter_len, traces, traces, traces_slash]


def gen(seed, tier, scale):
    idx = 0
    for _ in range((3000 if tier == "quick" else 50000) * scale):
        rng = case_rng(seed, ID, idx)
        yield idx, rng.choice(GENS)(rng)
        idx += 1
