"""C19 - tree navigation API agrees with a set-based model of the tree."""
import core
from core import Case, Line, case_rng
import proto
import treegen
from impl import trees, treeoutput, quiet, clone

ID = "C19"
MODULE = ['TT.Props.C19', 'TT.Props.C19More', 'TT.Props.C19More2', 'TT.Props.C19More3']
RULE = ("all tree shapes up to 4 (quick) / 5 (thorough) tokens with shuffled child storage + random well-formed "
        "trees of 1..10 tokens (discontinuous, unary nodes, material directly under the root), every node and every "
        "ordered pair of nodes; non-trivial: at least one constituent below the root")
TRUSTED = ["object identity of nodes is represented by storage paths"]
ASSUMPTIONS = ["trees are well formed (tokens 1..n, no childless constituent)"]


HIST = ["root_attach", "punctuation_root", "punctuation_verylow", "punctuation_symetrify", "heads+boyd_split+raising",
        "punctuation_delete", "add_topnode", "collapse_unary_chains"]


def pathmap(root):
    m = {}
    for p in proto.all_paths(root):
        m[id(proto.node_at(root, p))] = p
    return m


def ep(m, node):
    if node is None:
        return "-"
    return proto.enc_path(m[id(node)]) if id(node) in m else "not-a-node-of-the-tree"


def nav_case(tree, group, desc, light=False):
    m = pathmap(tree)
    paths = proto.all_paths(tree)
    nodes = [proto.node_at(tree, p) for p in paths]
    t = proto.enc_tree(tree)
    lines = []
    with quiet():
        # children
        ch = ";".join(",".join(str(m[id(c)][-1]) for c in trees.children(n)) for n in nodes)
        lines.append(Line("corr", "children_all", [t], ch))
        lines.append(Line("pred", "P.C19.children", [t, ch]))
        te = ",".join(str(x.data['num']) for x in trees.terminals(tree))
        lines.append(Line("corr", "terminals", [t], te))
        lines.append(Line("pred", "P.C19.terminals", [t, te]))
        pre = " ".join(ep(m, n) for n in trees.preorder(tree))
        lines.append(Line("corr", "preorder", [t], pre))
        lines.append(Line("pred", "P.C19.preorder", [t, pre]))
        post = " ".join(ep(m, n) for n in trees.postorder(tree))
        lines.append(Line("corr", "postorder", [t], post))
        lines.append(Line("pred", "P.C19.postorder", [t, post]))
        sib = ";".join("%s,%s" % (ep(m, trees.left_sibling(n)), ep(m, trees.right_sibling(n))) for n in nodes)
        lines.append(Line("corr", "siblings", [t], sib))
        lines.append(Line("pred", "P.C19.siblings", [t, sib]))
        dom = ";".join(" ".join(ep(m, a) for a in trees.dominance(n)) for n in nodes)
        lines.append(Line("corr", "dominance", [t], dom))
        lines.append(Line("pred", "P.C19.dominance", [t, dom]))
        if not light:          # quadratic in the number of nodes
            lca = ";".join(ep(m, trees.lca(a, b)) for a in nodes for b in nodes)
            lines.append(Line("corr", "lca_all", [t], lca))
            lines.append(Line("pred", "P.C19.lca", [t, lca]))
        lev, rev = trees.levels(tree)
        levs = ";".join("%s=%d" % (ep(m, n), rev[n]) for n in trees.preorder(tree) if n in rev)
        lines.append(Line("corr", "levels", [t], levs))
        lines.append(Line("pred", "P.C19.levels", [t, levs]))
        # levels dict must list every constituent exactly once under its level
        cp = clone(tree)
        m2 = pathmap(cp)
        treeoutput.compute_export_numbering(cp)
        nums = ";".join(proto.enc_on(proto.node_at(cp, p).data.get('num')) for p in paths)
        lines.append(Line("corr", "export_numbering", [t], nums))
        lines.append(Line("pred", "P.C19.numbering", [t, nums]))
        # every node of a tree is a tree: the traversals started at inner nodes and at tokens stay inside that subtree
        inner = nodes[1:] if len(nodes) <= 12 else [nodes[i] for i in sorted(set([1, 2, len(nodes) // 2, len(nodes) - 2, len(nodes) - 1]))]
        for n in inner[:(3 if light else 40)]:
            sm = pathmap(n)
            st = proto.enc_tree(n)
            try:
                spre = " ".join(ep(sm, x) for x in trees.preorder(n))
                spost = " ".join(ep(sm, x) for x in trees.postorder(n))
                ste = ",".join(str(x.data['num']) for x in trees.terminals(n))
                slev, srev = trees.levels(n)
                slevs = ";".join("%s=%d" % (ep(sm, x), srev[x]) for x in trees.preorder(n) if x in srev)
            except KeyError:
                spre = spost = ste = slevs = "left-the-subtree"          # levels() keyed by a node outside
            lines.append(Line("corr", "preorder", [st], spre, note="started at an inner node"))
            lines.append(Line("pred", "P.C19.preorder", [st, spre], note="started at an inner node"))
            lines.append(Line("corr", "postorder", [st], spost, note="started at an inner node"))
            lines.append(Line("pred", "P.C19.postorder", [st, spost], note="started at an inner node"))
            lines.append(Line("corr", "terminals", [st], ste, note="started at an inner node"))
            lines.append(Line("corr", "levels", [st], slevs, note="started at an inner node"))
    ncons = sum(1 for n in nodes if n.children) - 1
    return Case(group, desc, lines, nontrivial=ncons > 0)


def huge_tree(rng):
    """a sentence of several hundred or more than a thousand tokens, child lists stored out of order"""
    from impl import mk_leaf, mk_node
    n = rng.choice([499, 500, 520, 1006])
    kids, i = [], 1
    while i <= n:
        k = min(rng.randint(1, 9), n - i + 1)
        kids.append(mk_node(rng.choice(["NP", "PP"]), [mk_leaf(i + j, "NN", "w", "--", "--", "--") for j in range(k)], edge="--", lemma="--", morph="--"))
        i += k
    # a discontinuous constituent at the very end and loose tokens in its gap, stored in reverse
    tail = kids[-3:]
    rng.shuffle(kids)
    t = mk_node("VROOT", [mk_node("S", kids[:len(kids) // 2], edge="--", lemma="--", morph="--")] + list(reversed(kids[len(kids) // 2:])),
                edge="--", lemma="--", morph="--")
    return t, n


def gen(seed, tier, scale):
    for i in range((2 if tier == "quick" else 12) * scale):
        rng = case_rng(seed, ID, 600000 + i)
        t, n = huge_tree(rng)
        yield 600000 + i, nav_case(t, "huge", {"tokens": n}, light=True)
    idx = 0
    nmax = 4 if tier == "quick" else 5
    for n in range(1, nmax + 1):
        for shape in treegen.all_shapes(n):
            rng = case_rng(seed, ID, idx)
            tree = treegen.shape_to_tree(shape, rng)
            yield idx, nav_case(tree, "shapes", {"shape": shape, "tree": proto.pretty_tree(tree)})
            idx += 1
    nrand = (1500 if tier == "quick" else 20000) * scale
    cfg = treegen.Cfg(n_max=10)
    for _ in range(nrand):
        rng = case_rng(seed, ID, idx)
        tree = treegen.gen_tree(rng, cfg)
        yield idx, nav_case(tree, "random", {"tree": proto.pretty_tree(tree)})
        idx += 1
    # trees with a past: produced by a reader, navigated before, changed in place since
    import history
    for _ in range((500 if tier == "quick" else 10000) * scale):
        rng = case_rng(seed, ID, idx)
        tree = treegen.gen_tree(rng, treegen.Cfg(n_max=9, p_punct=0.3))
        tree.data['sid'] = 1
        before = proto.pretty_tree(tree)
        tree, past = history.aged(rng, tree, allowed=HIST)
        yield idx, nav_case(tree, "after-history", {"tree-before": before, "history": past, "tree": proto.pretty_tree(tree)})
        idx += 1
