"""C15 - head marking selects exactly one head child per constituent, as the rule says."""
import itertools
import core
from core import Case, Line, case_rng
import proto
import treegen
import tx
from impl import trees, transform, transformconst, quiet, clone, tag_uids, mk_leaf, mk_node

ID = "C15"
MODULE = ['TT.Props.C15', 'TT.Props.C15More']
RULE = ("random well-formed trees with edge labels drawn so that 0, 1 or several HD/NK occur; for rule-based marking "
        "every parent category of both presets x child category sequences (length 1..4) over the listed categories "
        "plus unlisted ones, plain / upper-case / decorated (NP-SBJ-1, VP=2); unknown preset and missing/both rule "
        "sources must be rejected. Non-trivial: some constituent has at least two children")
TRUSTED = ["str.lower is modelled on ASCII"]
ASSUMPTIONS = []


def mark_case(rng):
    cfg = treegen.Cfg(n_min=1, n_max=10, edges=["HD", "NK", "HD", "NK", "--", "SB", "MO"], p_punct=0.1)
    t = treegen.gen_tree(rng, cfg)
    for x in trees.unordered_terminals(t):
        # Penn Treebank quote tags: a tag may itself end in the character that marks heads
        if rng.random() < 0.12:
            x.data['label'] = rng.choice(["''", "``", "POS'"])
            x.data['word'] = rng.choice(["''", "``", "'"])
    tag_uids(t)
    call = rng.choice([("negra_mark_heads", {}), ("negra_mark_heads", {}),
                       ("mark_heads_by_rules", {"mark_heads_preset": "negra"}),
                       ("mark_heads_by_rules", {"mark_heads_preset": "ptb"})])
    if rng.random() < 0.04:
        call = ("mark_heads_by_rules", {"mark_heads_rulefile": ""})          # an empty rule-file name: the empty rule table
    return one(t, call, "tree:" + call[0])


def one(t, call, group):
    base = tx.fresh(t, 1)
    a = proto.enc_tree(base)
    res, _, out = tx.run_impl([call], base)
    cs = tx.call_str(call[0], call[1])
    lines = [Line("corr", "apply", [cs, a], res)]
    if out is not None:
        lines.append(Line("pred", "P.C15", [cs, a, res]))
    else:
        l = Line("pred", "P.C15", [cs, a, a], note="returned " + res)
        l.expect = "no-error-expected"
        lines.append(l)
    if out is not None:
        # the marks as a writer shows them (output option mark_heads_marking): one marked child per constituent
        opts = {"mark_heads_marking": True}
        for n in list(trees.preorder(out))[:8]:
            with quiet():
                lab = trees.get_label(n, **opts)
            lines.append(Line("corr", "get_label", [proto.enc_opts(opts), proto.enc_tree(n)], proto.enc_s(lab)))
            lines.append(Line("pred", "P.C20.decor", [proto.enc_opts(opts), proto.enc_tree(n), proto.enc_s(lab)]))
    big = any(len(n.children) > 1 for n in trees.preorder(t))
    return Case(group, {"tree": proto.pretty_tree(t), "call": cs, "result": res[:60]}, lines, nontrivial=big)


def decorate(rng, cat):
    r = rng.random()
    if r < 0.5:
        return cat.upper()
    if r < 0.65:
        return cat.upper() + "-SBJ"
    if r < 0.8:
        return cat.upper() + "-SBJ-1"
    if r < 0.86:
        return cat.upper() + "=2"
    if r < 0.95:
        # every combination of decorations in the documented order: function, gap index, co-index, head mark
        return cat.upper() + rng.choice(["=2-1", "-1", "-12", "=23-10", "-SBJ=2-1", "-LOC-PRD=3", "=2-1'", "-1'"])
    return cat


def rule_case(rng, preset, parent, cats):
    kids = [mk_leaf(i + 1, decorate(rng, c), "w%d" % (i + 1), "--", "--", "--") for i, c in enumerate(cats)]
    rng.shuffle(kids)
    n = mk_node(decorate(rng, parent), kids, edge="--", lemma="--", morph="--")
    t = mk_node("VROOT", [n], edge="--", lemma="--", morph="--")
    tag_uids(t)
    return one(t, ("mark_heads_by_rules", {"mark_heads_preset": preset}), "rules:" + preset)


def reject_case(rng):
    t = treegen.gen_tree(rng, treegen.Cfg(n_max=4))
    tag_uids(t)
    params = rng.choice([{"mark_heads_preset": "foo"}, {}, {"mark_heads_preset": "negra", "mark_heads_rulefile": "x"},
                         {"mark_heads_rulefile": "somefile"}])
    base = tx.fresh(t, 1)
    a = proto.enc_tree(base)
    res, _, _ = tx.run_impl([("mark_heads_by_rules", params)], base)
    cs = tx.call_str("mark_heads_by_rules", params)
    lines = [Line("corr", "apply", [cs, a], res)]
    if not res.startswith("ERR:ValueError"):
        l = Line("pred", "P.C15", [cs, a, a], note="not rejected: " + res[:40])
        l.expect = "rejection-expected"
        lines.append(l)
    return Case("reject", {"params": params, "result": res[:40]}, lines, nontrivial=True)


def gen(seed, tier, scale):
    idx = 0
    for _ in range((1500 if tier == "quick" else 30000) * scale):
        rng = case_rng(seed, ID, idx)
        yield idx, mark_case(rng)
        idx += 1
    import json as _json
    import os as _os
    pinned = _json.load(open(_os.path.join(_os.path.dirname(_os.path.dirname(_os.path.abspath(__file__))), "pinned_head_rules.json")))
    for preset, tbl in (("negra", pinned["negra"]), ("ptb", pinned["ptb"])):
        for parent in tbl:
            listed = sorted(set(c for (_, p) in tbl[parent] for c in p.split()))
            pool = listed + ["zz", "yy"]
            # every listed category of every entry once as the only listed child, not in first position
            for cat in listed:
                rng = case_rng(seed, ID, idx)
                cats = [rng.choice(["zz", "yy"]) for _ in range(rng.randint(1, 2))] + [cat] + \
                    [rng.choice(["zz", "yy"]) for _ in range(rng.randint(0, 1))]
                yield idx, rule_case(rng, preset, parent, cats)
                idx += 1
            per = (3 if tier == "quick" else 40) * scale
            for _ in range(per):
                rng = case_rng(seed, ID, idx)
                k = rng.randint(1, 4)
                # exactly one listed child in most cases
                if listed and rng.random() < 0.7:
                    cats = [rng.choice(["zz", "yy", "xx"]) for _ in range(k)]
                    cats[rng.randrange(k)] = rng.choice(listed)
                else:
                    cats = [rng.choice(pool) for _ in range(k)]
                yield idx, rule_case(rng, preset, parent, cats)
                idx += 1
    for _ in range(60 * scale):
        rng = case_rng(seed, ID, idx)
        yield idx, reject_case(rng)
        idx += 1
