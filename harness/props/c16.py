"""C16 - gap-degree analysis agrees with the set-based definition everywhere it is used."""
import io
import re
import core
from core import Case, Line, case_rng
import proto
import treegen
import tx
import cli
from impl import trees, treeanalysis, treeoutput, grammar, grammaranalysis, transform, quiet, clone
from props.c04 import HEADS

ID = "C16"
MODULE = ['TT.Props.C16', 'TT.Props.C16More', 'TT.Props.C16Tags', 'TT.Props.C16Total', 'TT.Props.C16Run', 'TT.Props.C16Stats', 'TT.Props.C16Src', 'TT.Props.C16Run2']
RULE = ("every node of all shapes up to 4/5 tokens and of random trees with gap degree 0..n/2 (gaps at several levels, "
        "unary nodes): terminal_blocks, gap_degree_node, gap_degree; agreement of gap degree > 0 with the bracket "
        "writer's refusal and with non-context-freeness of the extracted grammar; disco_order in both modes on "
        "binarized trees; the three analysis tasks through `treetools treeanalysis` on generated treebanks. "
        "Non-trivial: the tree has a discontinuous node")
TRUSTED = ["stdout of the command line is parsed with regular expressions"]
ASSUMPTIONS = ["trees are well formed"]


def node_case(t, group):
    a = proto.enc_tree(t)
    paths = proto.all_paths(t)
    with quiet():
        outs = []
        for p in paths:
            n = proto.node_at(t, p)
            bl = "|".join(",".join(str(x.data['num']) for x in b) for b in trees.terminal_blocks(n))
            outs.append("%s:%d" % (bl, treeanalysis.gap_degree_node(n)))
        out = ";".join(outs)
        deg = treeanalysis.gap_degree(t)
        s = io.StringIO()
        try:
            treeoutput.brackets(clone(t), s)
            refused = False
        except ValueError:
            refused = True
        g = {}
        grammar.extract(t, g, {})
        cf = grammaranalysis.is_contextfree(g)
        gt = ";".join(treeanalysis.gap_type(proto.node_at(t, p)) for p in paths)
    lines = [Line("corr", "blocks_all", [a], out), Line("pred", "P.C16.node", [a, out]),
             Line("corr", "gap_degree", [a], str(deg)), Line("pred", "P.C16.tree", [a, str(deg)]),
             Line("pred", "P.C16.notions", [a, str(deg), "t" if refused else "f", "t" if cf else "f"]),
             Line("corr", "gap_type_all", [a], gt)]
    return Case(group, {"tree": proto.pretty_tree(t), "gap_degree": deg}, lines, nontrivial=deg > 0,
                tags=["deg%d" % deg])


def dup_rule_tree(rng):
    """one tree in which the same bare production occurs twice, once continuous and once discontinuous, in either order"""
    from impl import mk_leaf, mk_node
    first_cont = rng.random() < 0.5
    labs = [rng.choice(["NN", "VB", "ART"]) for _ in range(2)]
    def vp(a, b):
        return mk_node("VP", [mk_leaf(a, labs[0], "x", "--", "--", "--"), mk_leaf(b, labs[1], "y", "--", "--", "--")], edge="--", lemma="--", morph="--")
    if first_cont:
        kids = [vp(1, 2), vp(3, 5), mk_leaf(4, "ADV", "z", "--", "--", "--")]
    else:
        kids = [vp(1, 3), mk_leaf(2, "ADV", "z", "--", "--", "--"), vp(4, 5)]
    rng.shuffle(kids)
    return mk_node("VROOT", [mk_node("S", kids, edge="--", lemma="--", morph="--")], edge="--", lemma="--", morph="--")


HIST = ["root_attach", "punctuation_root", "punctuation_verylow", "punctuation_symetrify", "heads+boyd_split+raising",
        "punctuation_delete", "add_topnode", "collapse_unary_chains"]


def aged_tree(rng, n_min=1):
    """a tree with a past: produced by a reader, analysed before, changed in place since"""
    import history
    cfg = treegen.Cfg(n_min=n_min, n_max=9, p_disc=rng.choice([0.0, 0.4, 0.7]), p_punct=0.3, labels=treegen.PLAIN_LABELS,
                      none_fields=False, max_arity=4)
    t = treegen.gen_tree(rng, cfg)
    t.data['sid'] = 1
    t, past = history.aged(rng, t, allowed=HIST)
    return t, past


def disco_case(rng, with_past=False):
    cfg = treegen.Cfg(n_min=2, n_max=10, p_disc=rng.choice([0.0, 0.4, 0.7]), p_punct=0.0, labels=treegen.PLAIN_LABELS,
                      none_fields=False, max_arity=4)
    if with_past:
        t, _ = aged_tree(rng, 2)
        _, _, b = tx.run_impl([rng.choice(HEADS), ("binarize", {})], t)     # the same objects, not a copy
    else:
        t = treegen.gen_tree(rng, cfg)
        b = None
    if b is None:
        _, _, b = tx.run_impl([rng.choice(HEADS), ("binarize", {})], tx.fresh(t, 1))
    a = proto.enc_tree(b)
    res = []
    lines = []
    for mode in ("left", "rightd"):
        try:
            with quiet():
                r = ",".join(str(x.data['num']) for x in treeanalysis.disco_order(b, mode))
        except Exception as e:
            r = proto.err_name(e)
        res.append(r)
        lines.append(Line("corr", "disco_order", [mode, a], r))
    if not any(r.startswith("ERR") for r in res):
        lines.append(Line("pred", "P.C16.disco", [a, res[0], res[1]]))
    deg = treeanalysis.gap_degree(b)
    return Case("disco_order-with-past" if with_past else "disco_order", {"tree": proto.pretty_tree(b), "left": res[0], "rightd": res[1]},
                lines, nontrivial=deg > 0)


def cli_case(rng):
    k = rng.randint(0, 7)
    # treebanks in which the degrees of the trees and the degrees of the nodes are different sets (no continuous sentence at
    # all; one sentence of degree 2 with nodes of degree 1 inside) as well as ordinary mixtures
    alldisc = rng.random() < 0.4
    if alldisc:
        k = rng.randint(1, 3)
    big = (not alldisc) and rng.random() < 0.25
    if big:
        k = rng.choice([100, 101, 202, 250])          # more than a hundred sentences: progress reporting, batching
    ts = []
    text = ""
    # tags are counted as they stand: placeholder-looking and decorated tags are tags like any other
    pos_pool = rng.choice([treegen.POS, treegen.POS[:3] + ["EMPTY", "--", "NN-SB", "$,"], ["EMPTY", "NN"], ["--"]])
    for i in range(k):
        cfg = treegen.Cfg(n_min=5 if alldisc else 1, n_max=10 if alldisc else (4 if big else 7), p_disc=0.9 if alldisc else 0.5, none_fields=False,
                          labels=treegen.PLAIN_LABELS, words=["a", "b", "cc", "Haus"], punct_words=[",", "."], edges=["HD", "--"],
                          pos=pos_pool)
        t = treegen.gen_tree(rng, cfg)
        t.data['sid'] = i + 1
        s = io.StringIO()
        treeoutput.export(clone_sid(t), s)
        text += s.getvalue()
        ts.append(t)
    enc = "|".join(proto.enc_tree(t) for t in ts)
    lines = []
    with cli.Scratch() as sc:
        src = sc.write("src.export", text)
        rc, out, err = cli.run_cli(["treeanalysis", src, "GapDegree"])
        if rc == 0 and k > 0:
            m = re.search(r"(\d+) trees, (\d+) nodes", out)
            per_tree = re.findall(r"Gap degree\s+(\d+):\s+(\d+) trees", out)
            per_node = re.findall(r"Gap degree\s+(\d+):\s+(\d+) nodes", out)
            o = "%s %s T %s N %s" % (m.group(1), m.group(2), ",".join("%s:%s" % x for x in per_tree),
                                     ",".join("%s:%s" % x for x in per_node)) if m else "unparsable"
            lines.append(Line("corr", "gap_stats", [enc], o))
            lines.append(Line("pred", "P.C16.stats", [enc, o]))
            # the whole command against its model (reader + accumulator + report), from the text of the file
            lines.append(Line("corr", "analysis_cli", ["GapDegree", proto.enc_s(text)], o))
        rc, out, err = cli.run_cli(["treeanalysis", src, "PosTags"])
        m = re.search(r"(\d+) different tags", out)
        lines.append(Line("corr", "pos_tags", [enc], m.group(1) if (rc == 0 and m) else "failed rc=%d" % rc))
        if k > 0:
            lines.append(Line("corr", "analysis_cli", ["PosTags", proto.enc_s(text)], m.group(1) if (rc == 0 and m) else "failed rc=%d" % rc))
        if rc == 0 and m:
            lines.append(Line("pred", "P.C16.tags", [enc, "- " + m.group(1)]))
        # the same task through the API: one tag per token
        task = treeanalysis.PosTags()
        for t in ts:
            task.run(clone_sid(t))
        lines.append(Line("pred", "P.C16.tags", [enc, "%d %d" % (len(task.tags), len(set(task.tags)))]))
        rc, out, err = cli.run_cli(["treeanalysis", src, "SentenceCount"])
        m = re.search(r"(\d+) sentences", out)
        l = Line("pred", "P.C16.tree", [proto.enc_tree(ts[0]) if ts else "L 1 e n n n n n n n n n", "0"], note="SentenceCount")
        got = m.group(1) if (rc == 0 and m) else "failed"
        lines.append(Line("corr", "analysis_cli", ["SentenceCount", proto.enc_s(text)], got))
        if got != str(k):
            l.expect = "sentence-count-%d-expected-got-%s" % (k, got)
            lines.append(l)
    return Case("cli", {"sentences": k}, lines, nontrivial=k > 1)


def clone_sid(t):
    c = clone(t)
    c.data['sid'] = t.data['sid']
    return c


def gen(seed, tier, scale):
    idx = 0
    nmax = 4 if tier == "quick" else 5
    for n in range(1, nmax + 1):
        for shape in treegen.all_shapes(n):
            rng = case_rng(seed, ID, idx)
            yield idx, node_case(treegen.shape_to_tree(shape, rng), "shapes")
            idx += 1
    for _ in range((1200 if tier == "quick" else 30000) * scale):
        rng = case_rng(seed, ID, idx)
        cfg = treegen.Cfg(n_min=1, n_max=12, p_disc=rng.choice([0.2, 0.5, 0.8]), p_unary=0.2, none_fields=False)
        yield idx, node_case(treegen.gen_tree(rng, cfg), "random")
        idx += 1
    for _ in range((60 if tier == "quick" else 600) * scale):
        rng = case_rng(seed, ID, idx)
        yield idx, node_case(dup_rule_tree(rng), "same-rule-cont-and-disc")
        idx += 1
    for _ in range((600 if tier == "quick" else 10000) * scale):
        rng = case_rng(seed, ID, idx)
        yield idx, disco_case(rng)
        idx += 1
    for _ in range((300 if tier == "quick" else 5000) * scale):
        rng = case_rng(seed, ID, idx)
        t, _ = aged_tree(rng)
        yield idx, node_case(t, "with-past")
        idx += 1
    for _ in range((300 if tier == "quick" else 5000) * scale):
        rng = case_rng(seed, ID, idx)
        yield idx, disco_case(rng, with_past=True)
        idx += 1
    ncli = (60 if tier == "quick" else 600) * scale
    rngs = [case_rng(seed, ID, idx + i) for i in range(ncli)]
    for i, c in enumerate(cli.pmap(cli_case, rngs)):
        yield idx + i, c
    idx += ncli
    # wave 18: the command with every source format and reader option against TT.runAnalysisSrc
    import srccases
    nsrc = (30 if tier == "quick" else 400) * scale
    rngs = [case_rng(seed, ID, 700000 + i) for i in range(nsrc)]
    for i, c in enumerate(cli.pmap(srccases.analysis_case, rngs)):
        yield 700000 + i, c
