"""C04 - structural transformations preserve the sentence and tree well-formedness."""
import core
from core import Case, Line, case_rng
import proto
import treegen
import tx
from impl import trees, transform, quiet, clone, tag_uids

ID = "C04"
MODULE = ['TT.Props.C04', 'TT.Props.Pinned', 'TT.Props.C04Total', 'TT.Props.C03Cmd', 'TT.Props.C03Conv19']
RULE = ("random well-formed trees (1..10 tokens; discontinuous; unary chains incl. at the root and above tokens; "
        "planted punctuation incl. punctuation-only constituents) x each structural transformation with its "
        "prerequisites, and prerequisite-respecting sequences of up to 7 transformations drawn from the automaton "
        "movers* ; heads ; (boyd_split [raising] | binarize) ; [add_topnode] ; [collapse [uncollapse]]. "
        "Non-trivial: the output differs from the input.")
TRUSTED = ["node identity across a transformation is carried by data['uid'] set by the harness"]
ASSUMPTIONS = ["input trees are well formed"]

HEADS = [("negra_mark_heads", {}), ("mark_heads_by_rules", {"mark_heads_preset": "negra"}),
         ("mark_heads_by_rules", {"mark_heads_preset": "ptb"})]
MOVERS = ["punctuation_verylow", "punctuation_symetrify", "punctuation_root"]


def single_cases(rng):
    """(prefix calls establishing prerequisites, call under test)"""
    h = rng.choice(HEADS)
    return rng.choice([
        ([], ("root_attach", {})),
        ([], h),
        ([("root_attach", {})], ("punctuation_verylow", {})),
        ([("root_attach", {})], ("punctuation_symetrify", rng.choice([{}, {"relc": "PRELS"}]))),
        ([], ("punctuation_verylow", {})),
        ([], ("punctuation_symetrify", {})),
        ([], ("punctuation_root", {})),
        ([], ("add_topnode", {})),
        ([h], ("boyd_split", {})),
        ([("root_attach", {}), h], ("boyd_split", {})),
        ([h, ("boyd_split", {})], ("raising", {})),
        ([h], ("binarize", rng.choice([{}, {"bare_bin_labels": True}]))),
        ([], ("collapse_unary_chains", {})),
        ([("collapse_unary_chains", {})], ("uncollapse_unary_chains", {})),
    ])


def gen_seq(rng):
    seq = []
    if rng.random() < 0.15:
        seq.append(("add_topnode", {}))
    if rng.random() < 0.7:
        seq.append(("root_attach", {}))
        for _ in range(rng.randint(0, 2)):
            m = rng.choice(MOVERS)
            seq.append((m, {"relc": "PRELS"} if m == "punctuation_symetrify" and rng.random() < 0.3 else {}))
    elif rng.random() < 0.5:
        seq.append(("punctuation_root", {}))
    r = rng.random()
    if r < 0.8:
        seq.append(rng.choice(HEADS))
        r2 = rng.random()
        if r2 < 0.45:
            seq.append(("boyd_split", {}))
            if rng.random() < 0.8:
                seq.append(("raising", {}))
        elif r2 < 0.85:
            seq.append(("binarize", {"bare_bin_labels": True} if rng.random() < 0.3 else {}))
    if rng.random() < 0.2 and not any(c[0] == "add_topnode" for c in seq):
        seq.append(("add_topnode", {}))
    elif rng.random() < 0.08:
        seq.append(("add_topnode", {}))          # every application adds one node, also on a tree that has a TOP already
    collapsed = False
    if rng.random() < 0.35:
        seq.append(("collapse_unary_chains", {}))
        collapsed = True
        if rng.random() < 0.6:
            seq.append(("uncollapse_unary_chains", {}))
            collapsed = False
    return seq, collapsed


def mk_tree(rng, plain=False, paired=False, n_min=1):
    cfg = treegen.Cfg(n_min=n_min, n_max=10, p_punct=0.3, p_unary=0.2, labels=treegen.PLAIN_LABELS if plain or rng.random() < 0.7 else treegen.LABELS)
    if rng.random() < 0.1:
        cfg.p_punct = 0.9
    if paired:
        # dense paired punctuation: several quotes / brackets inside one phrase, phrases consisting of them only
        cfg.p_punct = rng.choice([0.4, 0.6, 0.8])
        cfg.punct_words = ["\"", "(", ")", "``", "''", "'", ",", "[", "]"]
    t = treegen.gen_tree(rng, cfg)
    t.data['sid'] = rng.randint(1, 99)
    tag_uids(t)
    return t


def single(rng):
    prefix, call = single_cases(rng)
    plain = call[0] in ("collapse_unary_chains", "uncollapse_unary_chains")
    t = mk_tree(rng, plain, paired=(call[0] == "punctuation_symetrify" and rng.random() < 0.7))
    if call[0] == "add_topnode" and rng.random() < 0.3:
        t.data['label'] = "TOP"          # a tree whose root happens to be labelled TOP (with several children) is a tree like any other
    if call[0] == "uncollapse_unary_chains":
        # labels without '+', chain labels get joined by collapse
        pass
    base = clone(t)
    base.data['sid'] = t.data['sid']
    pre_res, _, pre_tree = tx.run_impl(prefix, base)
    if pre_tree is None:
        return None
    a = proto.enc_tree(pre_tree)
    res, _, _ = tx.run_impl([call], pre_tree)
    cs = tx.calls_str([call])
    lines = [Line("corr", "apply", [cs, a], res)]
    if not res.startswith(("ERR", "NONE", "GRAPH")):
        lines.append(Line("pred", "P.C04", [tx.call_str(call[0], call[1]), a, res]))
    else:
        lines.append(Line("pred", "P.C04", [tx.call_str(call[0], call[1]), a, a], note="implementation returned " + res))
        lines[-1].expect = "no-error-expected"
    return Case("single:" + call[0], {"tree": proto.pretty_tree(t), "prefix": tx.calls_str(prefix), "call": cs,
                                      "result": res[:40]}, lines, nontrivial=res != proto.enc_tree(pre_tree, canon=True))


def strip_uids(n):
    n.data.pop('uid', None)
    for c in n.children:
        strip_uids(c)


def sequence(rng):
    seq, collapsed = gen_seq(rng)
    t = mk_tree(rng, plain=True, paired=(any(c[0] == "punctuation_symetrify" for c in seq) and rng.random() < 0.6))
    if rng.random() < 0.3:
        strip_uids(t)          # the sequence predicate needs no node identities: node data exactly as the API hands it out
    if not seq:
        seq = [("root_attach", {})]
    src = tx.fresh(t, t.data['sid'])
    batch = False
    if rng.random() < 0.2:
        # the tree as part of a treebank that was read completely before anything was transformed
        import history
        others = [mk_tree(rng, plain=True) for _ in range(rng.randint(1, 2))]
        got = history.batch_read(rng, [t] + others, "export")
        if got and got[0].data.get('label') == t.data.get('label'):
            src, batch = got[0], True
    a = proto.enc_tree(src)
    res, _, _ = tx.run_impl(seq, src)
    cs = tx.calls_str(seq)
    lines = [Line("corr", "apply", [cs, a], res)]
    if not res.startswith(("ERR", "NONE", "GRAPH")):
        lines.append(Line("pred", "P.C04.seq", [a, res, "t" if collapsed else "f"]))
    else:
        l = Line("pred", "P.C04.seq", [a, a, "f"], note="implementation returned " + res)
        l.expect = "no-error-expected"
        lines.append(l)
    return Case("sequence", {"tree": proto.pretty_tree(t), "calls": cs, "result": res[:40], "read-as-part-of-a-treebank": batch}, lines,
                nontrivial=len(seq) > 1, tags=["len%d" % len(seq)] + (["batch-read"] if batch else []))


def cli_sequence(rng):
    """the same sequences through `treetools transform --trans ...` (order as given, repeats allowed)"""
    import cliseq
    # at least two tokens: a one-token sentence collapses into a bare token, which is no tree any further step is defined on
    ts = [mk_tree(rng, plain=True, n_min=2) for _ in range(rng.randint(1, 3))]
    seq, _ = gen_seq(rng)
    seq = cliseq.perturb(rng, seq or [("root_attach", {})])
    return cliseq.seq_case(rng, ts, seq, "cli-sequence")[0]


def gen(seed, tier, scale):
    # wave 18: the whole command from its words (--trans names, --params words, source / destination words) against TT.runCmd
    import srccases
    import cli as _cli
    nw = (30 if tier == "quick" else 500) * scale
    rngs = [case_rng(seed, ID, 780000 + i) for i in range(nw)]
    for i, c in enumerate(_cli.pmap(srccases.cmd_case, rngs)):
        yield 780000 + i, c
    for i in range((40 if tier == "quick" else 600) * scale):
        yield 900000 + i, cli_sequence(case_rng(seed, ID, 900000 + i))
    idx = 0
    n1 = (1500 if tier == "quick" else 30000) * scale
    n2 = (1000 if tier == "quick" else 20000) * scale
    for _ in range(n1):
        rng = case_rng(seed, ID, idx)
        c = single(rng)
        if c is not None:
            yield idx, c
        idx += 1
    for _ in range(n2):
        rng = case_rng(seed, ID, idx)
        yield idx, sequence(rng)
        idx += 1
