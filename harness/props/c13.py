"""C13 - punctuation re-attachment puts punctuation where documented, moves nothing else."""
import core
from core import Case, Line, case_rng
import proto
import treegen
import tx
from impl import trees, transform, quiet, clone, tag_uids

ID = "C13"
MODULE = ['TT.Props.C13', 'TT.Props.Pinned', 'TT.Props.PinnedMore', 'TT.Props.C13More', 'TT.Props.C13More2']
RULE = ("random well-formed trees with planted punctuation / paired punctuation (first, last, consecutive, sole child, "
        "punctuation-only constituents, unary nodes over punctuation), optionally after root_attach; the three "
        "re-attachments; relc on/off; non-trivial: some token changed parent")
TRUSTED = []
ASSUMPTIONS = ["input trees are well formed"]


def p_case(rng):
    cfg = treegen.Cfg(n_min=1, n_max=11, p_punct=rng.choice([0.25, 0.5, 0.85]), p_unary=0.25,
                      p_disc=rng.choice([0.0, 0.3]), labels=treegen.PLAIN_LABELS)
    t = treegen.gen_tree(rng, cfg)
    if rng.random() < 0.4:
        for term in trees.unordered_terminals(t):
            if rng.random() < 0.2:
                # the designated tag and its near misses (longer, shorter, other case, decorated)
                term.data['label'] = rng.choice(["PRELS", "PRELS", "PRELS", "PRELSAT", "PRELS-SB", "PRELS$", "PREL", "prels"])
    if rng.random() < 0.25:
        # punctuation is decided by the WORD (the documented inventory): a currency sign tagged `$`, a dash or a number
        # tagged `$(` are ordinary tokens
        for term in trees.unordered_terminals(t):
            if term.data['word'] not in treegen.PUNCT_WORDS and rng.random() < 0.25:
                term.data['label'] = rng.choice(["$", "$(", "$,", "$."])
                if rng.random() < 0.5:
                    term.data['word'] = rng.choice(["$", "\u2013", "5", "US$", "\u201e"])
    tag_uids(t)
    prefix = [("root_attach", {})] if rng.random() < 0.5 else []
    if rng.random() < 0.15:
        # trees that other transformations have produced are trees like any other: binarized first
        prefix = prefix + [("negra_mark_heads", {}), ("binarize", {})]
    _, _, base = tx.run_impl(prefix, tx.fresh(t, 1))
    if base is None:
        prefix = []
        base = tx.fresh(t, 1)
    tag_uids(base)          # nodes created by the prefix get identities too
    a = proto.enc_tree(base)
    name = rng.choice(["punctuation_verylow", "punctuation_root", "punctuation_symetrify"])
    params = {"relc": rng.choice(["PRELS", "PRELS", "PREL", "PRELS$"])} if name == "punctuation_symetrify" and rng.random() < 0.4 else {}
    before = {n.data['uid']: (n.parent.data['uid'] if n.parent else None) for n in trees.preorder(base)}
    res, _, out = tx.run_impl([(name, params)], base)
    cs = tx.call_str(name, params)
    lines = [Line("corr", "apply", [cs, a], res)]
    moved = False
    if out is not None:
        after = {n.data['uid']: (n.parent.data['uid'] if n.parent else None) for n in trees.preorder(out)}
        moved = before != after
        lines.append(Line("pred", "P.C13", [cs, a, res]))
    else:
        l = Line("pred", "P.C13", [cs, a, a], note="returned " + res)
        l.expect = "no-error-expected"
        lines.append(l)
    return Case(name, {"tree": proto.pretty_tree(t), "prefix": tx.calls_str(prefix), "call": cs, "result": res[:60]},
                lines, nontrivial=moved, tags=["moved" if moved else "unmoved"])


def cli_punct(rng):
    """punctuation steps inside `treetools transform --trans ...` sequences: a step named twice runs twice, in place"""
    import cliseq
    ts = []
    for _ in range(rng.randint(1, 2)):
        t = treegen.gen_tree(rng, treegen.Cfg(n_min=2, n_max=9, p_punct=0.4, p_unary=0.3, labels=treegen.PLAIN_LABELS, none_fields=False))
        ts.append(t)
    pool = ["root_attach", "punctuation_verylow", "punctuation_root", "punctuation_symetrify", "collapse_unary_chains",
            "add_topnode", "punctuation_delete"]
    seq = [(rng.choice(pool), {}) for _ in range(rng.randint(1, 3))]
    movers = [c for c in seq if c[0] in ("punctuation_verylow", "punctuation_root")]
    if movers and rng.random() < 0.6:
        seq.append(rng.choice(movers))          # the same step again after the others changed the tree
    elif rng.random() < 0.5:
        seq.append((rng.choice(["punctuation_verylow", "punctuation_root"]), {}))
    return cliseq.seq_case(rng, ts, seq, "cli-sequence")[0]


def gen(seed, tier, scale):
    for i in range((60 if tier == "quick" else 800) * scale):
        yield 900000 + i, cli_punct(case_rng(seed, ID, 900000 + i))
    idx = 0
    for _ in range((3000 if tier == "quick" else 60000) * scale):
        rng = case_rng(seed, ID, idx)
        yield idx, p_case(rng)
        idx += 1
