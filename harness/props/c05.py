"""C05 - crossing-branch removal always yields continuous trees, heads kept in place."""
import core
from core import Case, Line, case_rng
import proto
import treegen
import tx
from impl import trees, transform, treeoutput, quiet, clone, tag_uids
from props.c04 import HEADS

ID = "C05"
MODULE = ['TT.Props.C05', 'TT.Props.C05More', 'TT.Props.C05Split', 'TT.Props.C05More2']
RULE = ("random well-formed trees (2..11 tokens, discontinuity probability 0.2..0.7, unary nodes) + all shapes up to "
        "4 (quick) / 5 (thorough) tokens x all head-edge assignments drawn at random; pipeline [root_attach] ; head "
        "marking ; boyd_split ; raising compared with the one-pass reference contSpec; boyd_split alone against the "
        "block bijection; split marks in written labels. Non-trivial: the input has a discontinuous constituent.")
TRUSTED = ["lazy generator traversal over a mutated tree is modelled as 'children first, each child returns its replacements'"]
ASSUMPTIONS = ["every constituent has exactly one head child (established by head marking, C15)"]


def pipe_case(t, rng, group):
    ra = rng.random() < 0.5
    h = rng.choice(HEADS)
    prefix = ([("root_attach", {})] if ra else []) + [h]
    base = tx.fresh(t, 1)
    lines0 = []
    if ra:
        a_ra = proto.enc_tree(base)
        res_ra, _, base = tx.run_impl([("root_attach", {})], base)
        lines0.append(Line("corr", "apply", ["root_attach", a_ra], res_ra))
    # "after head marking": the marking step is part of the pipeline the property speaks about
    a0 = proto.enc_tree(base)
    res_h, _, marked = tx.run_impl([h], base)
    hs = tx.call_str(h[0], h[1])
    lines0.append(Line("corr", "apply", [hs, a0], res_h))
    if marked is not None:
        lines0.append(Line("pred", "P.C15", [hs, a0, res_h]))
    a = proto.enc_tree(marked)
    disc = max(len(trees.terminal_blocks(n)) for n in trees.preorder(marked) if n.children) > 1
    res_split, _, split = tx.run_impl([("boyd_split", {})], marked)
    lines = lines0 + [Line("corr", "apply", ["boyd_split", a], res_split)]
    if split is None:
        l = Line("pred", "P.C05.split", [a, a], note="boyd_split returned " + res_split)
        l.expect = "no-error-expected"
        lines.append(l)
        return Case(group, {"tree": proto.pretty_tree(t), "prefix": tx.calls_str(prefix)}, lines, nontrivial=disc)
    lines.append(Line("pred", "P.C05.split", [a, res_split]))
    # split marks in labels
    opts = rng.choice([{"boyd_split_marking": True}, {"boyd_split_numbering": True},
                       {"boyd_split_marking": True, "boyd_split_numbering": True}])
    for n in list(trees.preorder(split))[:6]:
        with quiet():
            lab = trees.get_label(n, **opts)
        want = n.data['label'] + (("*" if 'boyd_split_marking' in opts else "") +
                                  (str(n.data['block_number']) if 'boyd_split_numbering' in opts else "")
                                  if n.data['split'] else "")
        l = Line("corr", "get_label", [proto.enc_opts(opts), proto.enc_tree(n)], proto.enc_s(lab))
        lines.append(l)
        if lab != want:
            l2 = Line("pred", "P.C20.decor", [proto.enc_opts(opts), proto.enc_tree(n), proto.enc_s(lab)])
            lines.append(l2)
    b_in = proto.enc_tree(split)
    res, _, raised = tx.run_impl([("raising", {})], split)
    lines.append(Line("corr", "apply", ["raising", b_in], res))
    if raised is None:
        l = Line("pred", "P.C05.pipe", [a, a], note="raising returned " + res)
        l.expect = "no-error-expected"
        lines.append(l)
    else:
        lines.append(Line("pred", "P.C05.pipe", [a, res]))
    return Case(group, {"tree": proto.pretty_tree(t), "prefix": tx.calls_str(prefix)}, lines, nontrivial=disc,
                tags=["disc" if disc else "cont", "root_attach" if ra else "no_root_attach"])


def gen(seed, tier, scale):
    idx = 0
    nmax = 4 if tier == "quick" else 5
    for n in range(2, nmax + 1):
        for shape in treegen.all_shapes(n):
            rng = case_rng(seed, ID, idx)
            t = treegen.shape_to_tree(shape, rng, edges=["HD", "NK", "--", "SB"])
            tag_uids(t)
            yield idx, pipe_case(t, rng, "shapes")
            idx += 1
    for _ in range((1500 if tier == "quick" else 40000) * scale):
        rng = case_rng(seed, ID, idx)
        # categories of the head-rule tables, bare and with the decorations the label grammar allows (a gap index alone,
        # a function, a co-index, a head marker): head finding looks at the category only
        labels = treegen.PLAIN_LABELS if rng.random() < 0.6 else treegen.PLAIN_LABELS + ["VP=1", "NP=2", "S=1", "PP=3", "VP-HD", "NP-SBJ-1", "VP=2-1", "NP'", "AP=12"]
        cfg = treegen.Cfg(n_min=2, n_max=11, p_disc=rng.choice([0.2, 0.5, 0.7]), p_punct=0.1,
                          labels=labels, none_fields=False)
        t = treegen.gen_tree(rng, cfg)
        tag_uids(t)
        yield idx, pipe_case(t, rng, "random")
        idx += 1
