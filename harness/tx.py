"""Calling transformations of the implementation and of the model with the same arguments."""
import os
import tempfile
import proto
from impl import trees, transform, quiet, clone, tag_uids

_TMP = None


def tmpdir():
    global _TMP
    if _TMP is None:
        _TMP = tempfile.mkdtemp(prefix="ttverif_")
        import atexit
        import shutil
        atexit.register(lambda: shutil.rmtree(_TMP, ignore_errors=True))
    return _TMP


_cnt = [0]


def call_str(name, params, reqs=None):
    """encoding of one transformation call for the driver (see Driver/OpsTransform.lean)"""
    parts = [name]
    for k in sorted(params):
        v = params[k]
        if k == "terminalfile" or k == "quiet":
            continue
        if v is True:
            parts.append(k)
        elif k in ("relc", "mark_heads_rulefile"):
            parts.append("%s=%s" % (k, proto.enc_s(str(v))))
        elif k == "keep":
            parts.append("keep=%s" % "!".join(proto.enc_s(x) for x in str(v).split(",")))
        else:
            parts.append("%s=%s" % (k, v))
    if reqs is not None:
        parts.append("reqs=" + "|".join("%d,%s,%s" % (k, proto.enc_s(w), proto.enc_s(p)) for (k, w, p) in reqs))
    return ":".join(parts)


def write_terminalfile(sid, reqs, others=()):
    """reqs: list of (index, word, pos-or-None) for this sid; others: lines for other sids"""
    _cnt[0] += 1
    fn = os.path.join(tmpdir(), "terms_%d.txt" % _cnt[0])
    with open(fn, "w", encoding="utf-8") as f:
        for (k, w, p) in reqs:
            f.write("%d %d %s%s\n" % (sid, k, w, "" if p is None else " " + p))
        for line in others:
            f.write(line + "\n")
    return fn


def run_impl(calls, tree):
    """calls: list of (name, params[, reqs]).  Returns (result string, stdout text).
    result string: canonical tree | NONE | ERR:<class> | GRAPH-ILLFORMED ..."""
    cur = tree
    out_text = ""
    try:
        with quiet() as (out, err):
            for call in calls:
                name, params = call[0], dict(call[1])
                if len(call) > 2 and call[2] is not None:
                    params['terminalfile'] = write_terminalfile(cur.data['sid'], call[2])
                cur = getattr(transform, name)(cur, **params)
                if cur is None:
                    break
            out_text = out.getvalue()
    except Exception as e:
        return proto.err_name(e), out_text, None
    if cur is None:
        return "NONE", out_text, None
    return proto.enc_tree_checked(cur, canon=True), out_text, cur


def calls_str(calls):
    return ";".join(call_str(c[0], c[1], c[2] if len(c) > 2 else None) for c in calls)


def fresh(tree, sid=1):
    t = clone(tree)
    t.data['sid'] = sid
    return t
