"""Running /repo/treetools as a subprocess on generated files."""
import io
import os
import shutil
import subprocess
import tempfile
from concurrent.futures import ThreadPoolExecutor

REPO = os.environ.get("VERIF_REPO", "/repo")
PY = "/venv/bin/python"


def py_cmd():
    """interpreter command line; under tools/impl_coverage.py subprocesses are measured too"""
    cov = os.environ.get("VERIF_COVERAGE")
    if cov:
        return [PY, "-m", "coverage", "run", "-p", "--branch", "--source", os.path.join(REPO, "trees"),
                "--data-file", os.path.join(cov, ".coverage")]
    return [PY]


def run_cli(argv, cwd=None, env_extra=None, timeout=120):
    env = dict(os.environ)
    env["PYTHONDONTWRITEBYTECODE"] = "1"
    env.pop("PYTHONPATH", None)
    if env_extra:
        env.update(env_extra)
    proc = subprocess.run(py_cmd() + [os.path.join(REPO, "treetools")] + argv, cwd=cwd, env=env,
                          stdout=subprocess.PIPE, stderr=subprocess.PIPE, timeout=timeout)
    return proc.returncode, proc.stdout.decode("utf-8", "replace"), proc.stderr.decode("utf-8", "replace")


class Scratch(object):
    def __enter__(self):
        self.dir = tempfile.mkdtemp(prefix="ttcli_")
        return self

    def __exit__(self, *a):
        shutil.rmtree(self.dir, ignore_errors=True)

    def path(self, name):
        return os.path.join(self.dir, name)

    def write(self, name, text, encoding="utf-8"):
        p = self.path(name)
        with io.open(p, "w", encoding=encoding, newline="") as f:
            f.write(text)
        return p

    def read(self, name, encoding="utf-8"):
        with io.open(self.path(name), encoding=encoding, newline="") as f:
            return f.read()


class SamePlace(Scratch):
    """like Scratch, but every use within this process gets the SAME directory, so that files of the same name are
    written again and again with new content - a user who re-runs a conversion after editing the file.  Anything that
    remembers a file by its path shows here.  For in-process, sequential use only."""
    _dir = None

    def __enter__(self):
        if SamePlace._dir is None:
            import atexit
            SamePlace._dir = tempfile.mkdtemp(prefix="ttsame_")
            atexit.register(shutil.rmtree, SamePlace._dir, True)
        self.dir = SamePlace._dir
        for f in os.listdir(self.dir):          # the directory starts empty; names repeat
            try:
                os.remove(os.path.join(self.dir, f))
            except OSError:
                pass
        return self

    def __exit__(self, *a):
        pass


def pmap(fn, items, workers=12):
    with ThreadPoolExecutor(max_workers=workers) as ex:
        return list(ex.map(fn, items))
