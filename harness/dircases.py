"""wave 19: `treetools transform DIR ...` with a directory of SEVERAL source files (plain and gzip-compressed, of
different sizes, sometimes one that the reader rejects) against TT.runDirCmd: every file is converted on its own into
`<file>.dest`, in the order of the listing; the first failing file ends the command."""
import gzip
import io
import os

import cli
import gram
import proto
from cliseq import cli_error
from core import Case, Line
from props import c03
from srccases import WORDS, reader_opts, spell_words, PIPES


def _mk(rng, F):
    ts = c03.mk_corpus(rng, F == "brackets", WORDS)
    if rng.random() < 0.5:
        ts = ts + c03.mk_corpus(rng, F == "brackets", WORDS)      # sizes differ from file to file
    if rng.random() < 0.3:
        ts = ts[:1]
    for i, t in enumerate(ts):
        t.data['sid'] = i + 1
    v4 = F == "export" and rng.random() < 0.4
    text = c03.write_src(ts, F, v4)
    return text, (c03.xsents(text) if F == "tigerxml" else proto.enc_s(text)), v4


def dir_case(rng):
    F = rng.choice(["export", "discobrackets", "tigerxml", "brackets", "export", "brackets"])
    opts = reader_opts(rng, F) if rng.random() < 0.4 else {}
    opts.pop('brackets_emptypos', None)
    swords = spell_words(rng, opts)
    names = list(rng.choice(PIPES + [[]] * 12))
    names = [n for n in names if n not in ("mark_heads_by_rules", "filter_by_length", "ptb_delete_traces")]
    G = "export" if F != "brackets" or rng.random() < 0.5 else "brackets"
    dwords = rng.choice([[], [], ["gf"]])
    nfiles = rng.choice([2, 3, 3, 4])
    files = {}
    bad = None
    for i in range(nfiles):
        text, arg, v4 = _mk(rng, F)
        gz = F in ("export", "brackets", "discobrackets") and rng.random() < 0.6
        name = "f%d.%s%s" % (i, F, ".gz" if gz else "")
        # (bracket format only: cutting the last character of a DISCObracket file shortens its sentence part - a line
        # with fewer words than tokens is outside the domain of the discobracket model, `DiscoLineOK`; the first version
        # of this generator did that and produced a false alarm on the unchanged tree at seed 1)
        if F == "brackets" and bad is None and rng.random() < 0.12:
            text = text.rstrip()[:-1] + "\n"                      # a group cut off by the end of the file: rejected
            arg = proto.enc_s(text)
            bad = name
        files[name] = (text, arg, gz, v4)
    e = lambda ws: ",".join(proto.enc_s(w) for w in ws)
    split = rng.random() < 0.08
    with cli.Scratch() as sc:
        d = sc.path("dir")
        os.mkdir(d)
        for name, (text, arg, gz, _v4) in files.items():
            p = os.path.join(d, name)
            if gz:
                with gzip.open(p, "wb") as f:
                    f.write(text.encode("utf-8"))
            else:
                with io.open(p, "w", encoding="utf-8", newline="") as f:
                    f.write(text)
        listing = os.listdir(d)                                    # the order the command will see (no .dest files yet)
        argv = ["transform", d, sc.path("unused"), "--src-format", F, "--dest-format", G]
        if names:
            argv += ["--trans"] + names
        if swords:
            argv += ["--src-opts"] + swords
        if dwords:
            argv += ["--dest-opts"] + dwords
        if split:
            argv += ["--split", "50%_rest"]
        os.mkdir(sc.path("tmp"))
        rc, _, err = cli.run_cli(argv, env_extra={"TMPDIR": sc.path("tmp")})
        if split:
            got = cli_error(err) if rc != 0 else "split-of-a-directory-accepted"
            wrote = [n for n in os.listdir(d) if n.endswith(".dest")]
            lines = [Line("corr", "convert_dir_split", [], got if not wrote else "wrote " + ",".join(wrote))]
            return Case("cli-dir-split:%s" % F, {"src_format": F, "files": sorted(files), "err": err[-200:]}, lines, nontrivial=True)
        written = [n for n in listing if os.path.exists(os.path.join(d, n + ".dest"))]
        if rc != 0 and written:
            written = written[:-1]                                 # the file being written when the exception came
        outs = []
        for n in written:
            with io.open(os.path.join(d, n + ".dest"), encoding="utf-8", newline="") as f:
                outs.append(proto.enc_s(n + ".dest") + "@" + proto.enc_s(f.read()))
        got = "&".join(outs) + "#" + ("ok" if rc == 0 else cli_error(err))
        # no file after the failing one may have been touched
        extra = [n for n in os.listdir(d) if n.endswith(".dest") and n[:-5] not in listing]
        if extra:
            got += " unexpected files " + ",".join(extra)
    fl = "&".join(proto.enc_s(n) + "@" + files[n][1] for n in listing)
    lines = [Line("corr", "convert_dir", [F, e(swords), G, e(dwords), "n", e(names), "", fl], got)]
    # every file on its own through the single-file model function: the directory is nothing but its files
    if rc == 0:
        for n, o in zip(listing, outs):
            lines.append(Line("corr", "convert_cmd", [F, e(swords), G, e(dwords), "n", e(names), "", files[n][1]], o.split("@")[1]))
            if not names and not swords and not dwords and n != bad:
                # the property itself on every file of the directory: the destination holds the sentences of ITS source
                lines.append(Line("pred", "P.C03", [F, G, "t" if files[n][3] else "f", "f", gram.enc_lines(c03.flines(files[n][0])),
                                                    gram.enc_lines(c03.flines(proto.dec_s(o.split("@")[1])))]))
    return Case("cli-dir:%s" % F, {"src_format": F, "dest_format": G, "trans": names, "src_words": swords, "dest_words": dwords,
                                   "listing": listing, "bad": bad, "sizes": [len(files[n][0]) for n in listing],
                                   "gz": [files[n][2] for n in listing], "result": got[-20:], "err": err[-300:] if rc else ""},
                lines, nontrivial=True, tags=["dir"] + (["gz"] if any(f[2] for f in files.values()) else []))
