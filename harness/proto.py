"""Line protocol shared with the Lean driver (see lean/Driver/Proto.lean)."""


def enc_s(s):
    if s is None:
        return "n"
    if not isinstance(s, str):
        s = str(s)
    if s == "":
        return "e"
    return ".".join(str(ord(c)) for c in s)


def dec_s(tok):
    if tok == "n":
        return None
    if tok == "e":
        return ""
    return "".join(chr(int(x)) for x in tok.split("."))


def enc_ob(b):
    if b is None:
        return "n"
    return "t" if b else "f"


def enc_on(n):
    return "n" if n is None else str(int(n))


class GraphIllFormed(Exception):
    pass


def check_graph(root):
    """Walk the real object graph: parent pointers consistent, no node twice, root has no parent."""
    if root.parent is not None:
        raise GraphIllFormed("returned node has a parent")
    seen = set()
    stack = [root]
    while stack:
        node = stack.pop()
        if id(node) in seen:
            raise GraphIllFormed("node reachable twice")
        seen.add(id(node))
        for child in node.children:
            if child.parent is not node:
                raise GraphIllFormed("child.parent is not its container")
            stack.append(child)


def _leafnums(node):
    if len(node.children) == 0:
        n = node.data.get('num')
        return [n] if isinstance(n, int) else []
    out = []
    for c in node.children:
        out.extend(_leafnums(c))
    return out


def _fields(node, is_leaf):
    d = node.data
    return " ".join([enc_s(d.get('label') if d.get('label') is not None else ""),
                     enc_s(d.get('word')), enc_s(d.get('lemma')), enc_s(d.get('morph')),
                     enc_s(d.get('edge')), enc_ob(d.get('head')), enc_ob(d.get('split')),
                     enc_ob(d.get('head_block')), enc_on(d.get('block_number')), enc_on(d.get('uid'))])


def enc_tree(node, canon=False):
    """Prefix encoding.  A node without children that carries an int 'num' is a token."""
    if len(node.children) == 0 and isinstance(node.data.get('num'), int):
        return "L %d %s" % (node.data['num'], _fields(node, True))
    kids = list(node.children)
    if canon:
        def key(k):
            nums = _leafnums(k)
            return min(nums) if nums else 1000000000
        kids = sorted(kids, key=key)
    parts = ["N %d %s" % (len(kids), _fields(node, False))]
    for k in kids:
        parts.append(enc_tree(k, canon))
    return " ".join(parts)


def enc_tree_checked(node, canon=True):
    try:
        check_graph(node)
    except GraphIllFormed as e:
        return "GRAPH-ILLFORMED %s" % e
    return enc_tree(node, canon)


def enc_path(p):
    return "r" if len(p) == 0 else "/".join(str(i) for i in p)


def path_of(root, node):
    """storage path of node below root (by identity)"""
    path = []
    cur = node
    while cur is not root:
        par = cur.parent
        if par is None:
            return None
        idx = [i for i, c in enumerate(par.children) if c is cur]
        if not idx:
            return None
        path.append(idx[0])
        cur = par
    return list(reversed(path))


def node_at(root, path):
    cur = root
    for i in path:
        cur = cur.children[i]
    return cur


def all_paths(root):
    out = [[]]
    for i, c in enumerate(root.children):
        out.extend([[i] + p for p in all_paths(c)])
    return out


def enc_opts(d):
    """dict of option -> True | str | int  =>  'k1,k2=<enc_s v>'"""
    if not d:
        return "-"
    parts = []
    for k in sorted(d):
        v = d[k]
        if v is True:
            parts.append(k)
        else:
            parts.append("%s=%s" % (k, enc_s(str(v))))
    return ",".join(parts)


def err_name(exc):
    for cls, name in ((ValueError, "ValueError"), (TypeError, "TypeError"),
                      (AttributeError, "AttributeError"), (IndexError, "IndexError"),
                      (KeyError, "KeyError"), (StopIteration, "StopIteration")):
        if isinstance(exc, cls):
            return "ERR:" + name
    return "ERR:Other"


def pretty_tree(node):
    """human readable bracket form for replay files"""
    d = node.data
    if len(node.children) == 0:
        return "(%s %s#%s)" % (d.get('label'), d.get('word'), d.get('num'))
    extra = ""
    if d.get('edge') not in (None, '--'):
        extra = "-" + str(d.get('edge'))
    return "(%s%s %s)" % (d.get('label'), extra, " ".join(pretty_tree(c) for c in node.children))


def dec_tree(s, mk_node_fn=None):
    """inverse of enc_tree: rebuild a tree through the tree API (used by fresh-process replays)"""
    import sys
    from impl import trees as _trees
    toks = s.split(" ")
    pos = [0]

    def fields():
        lab, w, le, m, e, h, sp, hb, bn, ui = toks[pos[0]:pos[0] + 10]
        pos[0] += 10
        d = _trees.make_node_data()
        d['label'] = dec_s(lab)
        d['word'] = dec_s(w)
        d['lemma'] = dec_s(le)
        d['morph'] = dec_s(m)
        d['edge'] = dec_s(e)
        for key, v in (('head', h), ('split', sp), ('head_block', hb)):
            if v != "n":
                d[key] = v == "t"
        if bn != "n":
            d['block_number'] = int(bn)
        if ui != "n":
            d['uid'] = int(ui)
        return d

    def node():
        kind = toks[pos[0]]
        n = int(toks[pos[0] + 1])
        pos[0] += 2
        d = fields()
        if kind == "L":
            d['num'] = n
            return _trees.Tree(d)
        t = _trees.Tree(d)
        for _ in range(n):
            c = node()
            t.children.append(c)
            c.parent = t
        return t
    return node()
