"""Grammar encodings shared with the driver (Driver/OpsGrammar.lean) and treebank generators."""
import proto
import treegen
from impl import trees, grammar, grammarconst, clone


def enc_func(f):
    return ",".join(proto.enc_s(x) for x in f)


def enc_lin(lin):
    if len(lin) == 0:
        return "-"
    return "/".join(".".join("%d:%d" % (i, j) for (i, j) in arg) for arg in lin)


def enc_vert(v):
    if v == grammarconst.DEFAULT_VERT:
        return "V"
    return "T" + ",".join(proto.enc_s(x) for x in v)


def enc_grammar(g):
    out = []
    for f in g:
        for lin in g[f]:
            for v in g[f][lin]:
                out.append("%s|%s|%s|%d" % (enc_func(f), enc_lin(lin), enc_vert(v), g[f][lin][v]))
    return ";".join(out)


def enc_lexicon(lex):
    return ";".join("%s>%s" % (proto.enc_s(w), ",".join("%s:%d" % (proto.enc_s(t), lex[w][t]) for t in lex[w]))
                    for w in lex)


def enc_lines(lines):
    return "-" if not lines else ",".join(proto.enc_s(l) for l in lines)


def file_lines(path, enc="utf-8"):
    import io
    with io.open(path, encoding=enc, newline="") as f:
        txt = f.read()
    if txt == "":
        return []
    lines = txt.split("\n")
    if lines[-1] == "":
        lines.pop()
    return lines


def enc_markov(mo):
    if mo is None:
        return "-"
    return "%d,%d,%s" % (mo['v'], mo['h'], "t" if 'nofanout' in mo else "f")


def gen_treebank(rng, kmax=5, nmax=8, disc=True, repeat=True, words=None, bare=False):
    """1..kmax trees; repeated subtrees/trees so that counts exceed 1; repeated sibling labels"""
    ts = []
    if repeat and rng.random() < 0.25:
        return context_variants(rng)
    if repeat and rng.random() < 0.12:
        return lin_variants(rng)
    if rng.random() < 0.08:
        # a very flat constituent: more than ten children (two-digit variable numbers in RCG)
        from impl import mk_leaf, mk_node
        n = rng.randint(11, 14)
        kids = [mk_leaf(i + 1, rng.choice(["NN", "KON", "ART"]), (words or ["a", "b", "Haus"])[i % 3], "--", "--", "--") for i in range(n)]
        t = mk_node("VROOT", [mk_node("NP", kids, edge="--", lemma="--", morph="--"), mk_leaf(n + 1, "$.", ".", "--", "--", "--")],
                    edge="--", lemma="--", morph="--")
        t.data['sid'] = 1
        return [t]
    if disc and rng.random() < 0.04:
        # a comb: one constituent over every other token - fan-out of ten and more (two-digit arities in the RCG format)
        from impl import mk_leaf, mk_node
        m = rng.randint(10, 13)
        odd = [mk_leaf(2 * i + 1, "V", (words or ["a", "b", "Haus"])[i % 3], "--", "--", "--") for i in range(m)]
        even = [mk_leaf(2 * i + 2, "P", (words or ["a", "b", "Haus"])[(i + 1) % 3], "--", "--", "--") for i in range(m - 1)]
        t = mk_node("VROOT", [mk_node("S", [mk_node("VP", odd, edge="--", lemma="--", morph="--")] + even, edge="--", lemma="--", morph="--")],
                    edge="--", lemma="--", morph="--")
        t.data['sid'] = 1
        return [t] * rng.choice([1, 1, 12])          # also: a count of more than nine
    k = rng.randint(1, kmax)
    labels = rng.choice([["S", "VP", "NP"], ["A", "B"], treegen.PLAIN_LABELS])
    for _ in range(k):
        if bare and rng.random() < 0.12:
            # a one-word sentence as the bracket reader returns it for `(NN dog)`: the root of the tree is the token
            from impl import mk_leaf
            t = mk_leaf(1, rng.choice(["NN", "VB", labels[0]]), rng.choice(words or ["Hund", "a", "bellt"]), "--", "--", "--")
            t.data['sid'] = len(ts) + 1
            ts.append(t)
            continue
        if repeat and ts and rng.random() < 0.35:
            t = clone(rng.choice(ts))
            # put it under a different parent sometimes (different vertical context)
            if rng.random() < 0.5 and len(t.children) == 1:
                t.children[0].data['label'] = t.children[0].data['label']
                t.data['label'] = rng.choice(["VROOT", "TOP", "RB"])
        else:
            cfg = treegen.Cfg(n_min=1, n_max=nmax, disc=disc, p_disc=rng.choice([0.0, 0.3, 0.6]), p_unary=0.15,
                              p_punct=0.1, labels=labels, none_fields=False,
                              words=words or ["der", "Hund", "bellt", "Haus", "a", "b", "été", "Zug"],
                              punct_words=[",", "."], max_arity=rng.choice([3, 4, 5]))
            t = treegen.gen_tree(rng, cfg)
            if rng.random() < 0.3:
                t.data['label'] = rng.choice(["VROOT", "TOP", "RB"])
        t.data['sid'] = len(ts) + 1
        ts.append(t)
    return ts


def context_variants(rng):
    """the same subtree (hence the same rules) under a parent of one label that is continuous in one
    sentence and discontinuous in another, and under a differently labelled parent: vertical contexts
    that differ only in a fan-out, or only in a label"""
    from impl import mk_leaf, mk_node
    k = rng.randint(2, 4)
    labs = [rng.choice(["DT", "JJ", "NN", "NE"]) for _ in range(k)]

    def sub(offset):
        kids = [mk_leaf(offset + i + 1, labs[i], "w" + "abcdefgh"[i], "--", "--", "--") for i in range(k)]
        return mk_node("NP", kids, edge="--", lemma="--", morph="--")
    out = []
    for variant in rng.sample(["cont", "disc", "other", "cont"], rng.randint(2, 4)):
        x = sub(0)
        if variant == "cont":
            p = mk_node("VP", [x, mk_leaf(k + 1, "VB", "v", "--", "--", "--")], edge="--", lemma="--", morph="--")
            root = mk_node("VROOT", [p], edge="--", lemma="--", morph="--")
        elif variant == "disc":
            p = mk_node("VP", [x, mk_leaf(k + 2, "VB", "v", "--", "--", "--")], edge="--", lemma="--", morph="--")
            root = mk_node("VROOT", [p, mk_leaf(k + 1, "RB", "r", "--", "--", "--")], edge="--", lemma="--", morph="--")
        else:
            p = mk_node("PP", [mk_leaf(1, "IN", "i", "--", "--", "--"), sub(1)], edge="--", lemma="--", morph="--")
            root = mk_node("VROOT", [p], edge="--", lemma="--", morph="--")
        root.data['sid'] = len(out) + 1
        out.append(root)
    return out


def lin_variants(rng):
    """one bare rule of rank 3..4 with several linearizations (its constituent continuous in one sentence, with a gap at
    different places in others), followed by further rules of rank >= 3: binarization symbols of different chains of
    the same bare rule, and of the rules after it, must not collide"""
    from impl import mk_leaf, mk_node
    k = rng.randint(3, 4)
    labs = [rng.choice(["A", "B", "C", "D"]) for _ in range(k)]
    out = []

    def sent(parent, gap_after):
        kids, pos, filler = [], 1, None
        for i in range(k):
            kids.append(mk_leaf(pos, labs[i], "w" + "abcd"[i], "--", "--", "--"))
            pos += 1
            if gap_after is not None and i == gap_after:
                filler = mk_leaf(pos, "F", "f", "--", "--", "--")
                pos += 1
        x = mk_node(parent, kids, edge="--", lemma="--", morph="--")
        top = [x] + ([filler] if filler is not None else [])
        if len(top) == 1:
            top.append(mk_leaf(pos, "$.", ".", "--", "--", "--"))
        root = mk_node("VROOT", top, edge="--", lemma="--", morph="--")
        root.data['sid'] = len(out) + 1
        out.append(root)
    plan = [("S", None), ("S", rng.randint(0, k - 2))]
    if rng.random() < 0.5:
        plan.append(("S", rng.randint(0, k - 2)))
    rng.shuffle(plan)
    for _ in range(rng.randint(1, 2)):
        plan.append((rng.choice(["T", "U", "S"]), rng.choice([None, 0, 1])))
    if rng.random() < 0.3:
        rng.shuffle(plan)
    for parent, gap in plan:
        sent(parent, gap)
    return out


def extract_all(ts):
    g, lex = {}, {}
    for t in ts:
        grammar.extract(t, g, lex)
    return g, lex


# ---- canonical forms for comparisons where the properties call an order irrelevant ------------------------------------

def _canon_lex_line(tok):
    """one encoded line of a lexicon file  WORD<TAB>TAG COUNT TAG COUNT ... : the (tag, count) pairs in sorted order"""
    try:
        line = proto.dec_s(tok)
        word, rest = line.split("\t", 1)
        parts = rest.split(" ")
        pairs = sorted(zip(parts[0::2], parts[1::2]))
        if len(parts) % 2:
            return tok
        return proto.enc_s(word + "\t" + " ".join("%s %s" % p for p in pairs))
    except Exception:
        return tok


def canon_line_files(lexfiles=()):
    """files that represent SETS of lines (RCG clauses, LoPar rules, lexicon entries): lines sorted; in the files whose
    position is listed in `lexfiles` the tag/count pairs of a line are sorted too"""
    def canon(s):
        out = []
        for k, f in enumerate(s.split(" # ")):
            toks = f.split(",") if f not in ("-", "none") else [f]
            if k in lexfiles:
                toks = [_canon_lex_line(t) for t in toks]
            out.append(",".join(sorted(toks)))
        return " # ".join(out)
    return canon


def canon_lexicon_part(s):
    """`<grammar> # <lexicon>` as printed by enc_grammar/enc_lexicon: the lexicon is a map word -> tag -> count, the
    order of its entries is nobody's business"""
    if " # " not in s:
        return s
    g, lx = s.rsplit(" # ", 1)
    ents = []
    for e in lx.split(";") if lx else []:
        if ">" in e:
            w, tags = e.split(">", 1)
            e = w + ">" + ",".join(sorted(tags.split(",")))
        ents.append(e)
    return g + " # " + ";".join(sorted(ents))


def canon_grammar(s):
    """a grammar is a map (function, linearization, vertical context) -> count: the order in which a dict lists its entries
    is not part of any property"""
    return ";".join(sorted(s.split(";")))
