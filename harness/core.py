"""Check skeleton shared by all properties.

 regenerate Consts.lean from /repo -> lake build (kernel re-checks the property theorems)
 -> axiom audit -> correspondence (model vs implementation, same inputs) + the property's own
 decidable predicate evaluated by the Lean driver on the IMPLEMENTATION's output
 -> evidence/<id>.json ; exit 0 | exit 1 + VIOLATION line | exit 2 (infrastructure)
"""
import fcntl
import hashlib
import json
import os
import random
import re
import subprocess
import sys
import time

HERE = os.path.dirname(os.path.abspath(__file__))
VERIF = os.path.dirname(HERE)
LEAN_DIR = os.path.join(VERIF, "lean")
EVID = os.path.join(VERIF, "evidence")
REPLAYS = os.path.join(EVID, "replays")
os.environ.setdefault("PYTHONDONTWRITEBYTECODE", "1")
sys.dont_write_bytecode = True

ALLOWED_AXIOMS = {"propext", "Classical.choice", "Quot.sound"}
FORBIDDEN = re.compile(r"\b(sorry|admit|native_decide|bv_decide|implemented_by|unsafe)\b|^\s*axiom\s|maxHeartbeats\s+0\b")


class Line(object):
    """one protocol line.  kind 'corr': driver output must equal `expect` (the implementation's
    canonical output).  kind 'pred': the driver evaluates a property predicate on the
    implementation's output; `expect` is 'ok'."""
    __slots__ = ("kind", "op", "args", "expect", "note", "canon")

    def __init__(self, kind, op, args, expect="ok", note="", canon=None):
        self.kind, self.op, self.args, self.expect, self.note = kind, op, args, expect, note
        # `canon` (corr lines): where the properties call an order irrelevant (lines of files that represent sets,
        # entries of a lexicon) both answers are brought into a canonical order before they are compared - a Python
        # function str -> str, or the name of a driver operation that canonicalises (second pass)
        self.canon = canon

    def text(self):
        return "\t".join([self.op] + list(self.args))


class Case(object):
    def __init__(self, group, desc, lines, key=None, nontrivial=True, tags=()):
        self.group = group          # generator / op family name
        self.desc = desc            # JSON-able human readable description (the replay)
        self.lines = lines
        self.key = key if key is not None else hashlib.sha1(
            "\n".join(l.text() for l in lines).encode("utf-8", "surrogatepass")).hexdigest()
        self.nontrivial = nontrivial
        self.tags = set(tags)
        self.index = None


def case_rng(seed, prop, index):
    h = hashlib.sha256(("%s/%s/%d" % (seed, prop, index)).encode()).digest()
    return random.Random(int.from_bytes(h[:8], "big"))


# ---------------------------------------------------------------------------------------------
# build + audit
# ---------------------------------------------------------------------------------------------

def _limit_memory():
    """a proof that needs more than 40 GB of address space is a broken proof, not a reason to take the machine down"""
    import resource
    lim = 40 * 1024 * 1024 * 1024
    try:
        resource.setrlimit(resource.RLIMIT_AS, (lim, lim))
    except (ValueError, OSError):
        pass


class _Proc(object):
    def __init__(self, returncode, stdout):
        self.returncode, self.stdout = returncode, stdout


def _locked(cmd, timeout=1500):
    lock = open(os.path.join(LEAN_DIR, ".build.lock"), "w")
    fcntl.flock(lock, fcntl.LOCK_EX)
    try:
        try:
            return subprocess.run(cmd, cwd=LEAN_DIR, stdout=subprocess.PIPE, stderr=subprocess.STDOUT,
                                  timeout=timeout, preexec_fn=_limit_memory)
        except subprocess.TimeoutExpired as e:
            return _Proc(124, (e.stdout or b"") + b"\nerror: build timed out after %d s" % timeout)
    finally:
        fcntl.flock(lock, fcntl.LOCK_UN)
        lock.close()


def gen_consts():
    proc = subprocess.run(["/venv/bin/python", os.path.join(VERIF, "tools", "gen_consts.py")],
                          stdout=subprocess.PIPE, stderr=subprocess.STDOUT, cwd=VERIF)
    return proc.returncode, proc.stdout.decode(errors="replace")


def lake_build(targets):
    proc = _locked(["lake", "build"] + targets)
    return proc.returncode, proc.stdout.decode(errors="replace")


def theorem_names(module):
    """names of theorems declared in a Props module (namespace-qualified)"""
    path = os.path.join(LEAN_DIR, *module.split(".")) + ".lean"
    names = []
    ns = []
    src = open(path, encoding="utf-8").read()
    src = re.sub(r"/-.*?-/", lambda m: "\n" * m.group(0).count("\n"), src, flags=re.S)
    if True:
        for line in src.split("\n"):
            line = line.split("--")[0]
            m = re.match(r"\s*namespace\s+(\S+)", line)
            if m:
                ns.append(m.group(1))
                continue
            m = re.match(r"\s*end\s+(\S+)", line)
            if m and ns and ns[-1] == m.group(1):
                ns.pop()
                continue
            if re.match(r"\s*(?:@\[[^\]]*\]\s*)?private\s+theorem\s", line):
                continue     # private helpers cannot be named from outside; the public theorems depend on them
            m = re.match(r"\s*(?:@\[[^\]]*\]\s*)?(?:protected\s+)?theorem\s+(\S+)", line)
            if m:
                names.append(".".join(ns + [m.group(1)]))
    return names


def count_examples(module):
    path = os.path.join(LEAN_DIR, *module.split(".")) + ".lean"
    src = open(path, encoding="utf-8").read()
    src = re.sub(r"/-.*?-/", "", src, flags=re.S)
    return len(re.findall(r"^\s*example\b", src, re.M))


def forbidden_scan():
    """grep the whole Lean tree for escape hatches; comments are stripped first"""
    hits = []
    for root, _, files in os.walk(LEAN_DIR):
        if ".lake" in root or os.sep + "Scratch" in root:
            continue            # Scratch/ holds work in progress of proof sessions: not part of any library or executable
        for fn in files:
            if not fn.endswith(".lean"):
                continue
            p = os.path.join(root, fn)
            src = open(p, encoding="utf-8").read()
            src = re.sub(r"/-.*?-/", lambda m: "\n" * m.group(0).count("\n"), src, flags=re.S)
            for i, line in enumerate(src.split("\n"), 1):
                code = line.split("--")[0]
                if FORBIDDEN.search(code):
                    hits.append("%s:%d: %s" % (os.path.relpath(p, VERIF), i, line.strip()))
    return hits


def axiom_audit(module, names):
    """#print axioms for every property theorem; returns (ok, per-theorem dict, raw)"""
    if not names:
        return True, {}, ""
    # one file per process (several checks may run at the same time and all of them audit the pinned constants), and the
    # run takes the build lock: nobody rewrites compiled files while they are being read
    audit = os.path.join(LEAN_DIR, ".lake", "audit_%s_%d.lean" % (module.replace(".", "_"), os.getpid()))
    with open(audit, "w") as f:
        f.write("import %s\n" % module)
        for n in names:
            f.write("#print axioms %s\n" % n)
    try:
        proc = _locked(["lake", "env", "lean", audit], timeout=900)
    finally:
        try:
            os.remove(audit)
        except OSError:
            pass
    raw = proc.stdout.decode(errors="replace")
    per = {}
    for m in re.finditer(r"'(\S+)' depends on axioms: \[([^\]]*)\]", raw, re.S):
        per[m.group(1)] = [a.strip() for a in m.group(2).replace("\n", " ").split(",") if a.strip()]
    for m in re.finditer(r"'(\S+)' does not depend on any axioms", raw):
        per[m.group(1)] = []
    ok = proc.returncode == 0 and all(n in per for n in names) and \
        all(set(v) <= ALLOWED_AXIOMS for v in per.values())
    return ok, per, raw


# ---------------------------------------------------------------------------------------------
# known findings
# ---------------------------------------------------------------------------------------------

def load_known():
    p = os.path.join(VERIF, "known_findings.json")
    if not os.path.exists(p):
        return []
    return json.load(open(p))["findings"]


# ---------------------------------------------------------------------------------------------
# the run
# ---------------------------------------------------------------------------------------------

class Result(object):
    def __init__(self):
        self.evaluations = 0
        self.lines = 0
        self.keys = set()
        self.nontrivial_keys = set()
        self.groups = {}
        self.pred_fail = []      # (case, line, got)
        self.corr_fail = []      # (case, line, got)
        self.samples = []
        self.tags = {}


def run_cases(cases, result, sample_every=None, batch=4000):
    """evaluate cases through the Lean driver in batches"""
    import driver
    buf = []
    nlines = 0

    def flush():
        nonlocal buf, nlines
        if not buf:
            return
        lines = []
        for c in buf:
            for l in c.lines:
                lines.append(l.text())
        outs = driver.run_lines(lines)
        i = 0
        second = []
        for c in buf:
            for l in c.lines:
                got = outs[i]
                i += 1
                if got != l.expect:
                    if l.kind == "corr" and l.canon is not None and not got.startswith("ERR") and not l.expect.startswith("ERR"):
                        if callable(l.canon):
                            try:
                                if l.canon(got) == l.canon(l.expect):
                                    continue
                            except Exception:
                                pass
                        else:
                            second.append((c, l, got))
                            continue
                    if l.kind == "pred":
                        result.pred_fail.append((c, l, got))
                    else:
                        result.corr_fail.append((c, l, got))
        if second:
            qs = []
            for c, l, got in second:
                qs.append(l.canon + "\t" + got.replace(" # ", "\t"))
                qs.append(l.canon + "\t" + l.expect.replace(" # ", "\t"))
            cs = driver.run_lines(qs)
            for k, (c, l, got) in enumerate(second):
                a, b = cs[2 * k], cs[2 * k + 1]
                if a != b or a.startswith("BAD") or a.startswith("FAIL"):
                    result.corr_fail.append((c, l, got))
        buf = []
        nlines = 0

    def guarded(it):
        """an exception that escapes from the IMPLEMENTATION while the harness prepares a case (innermost frame in /repo)
        is an outcome, not an infrastructure problem: it becomes a failing case of its own and ends the generation"""
        import traceback as _tb
        last = [None]
        while True:
            try:
                idx, c = next(it)
            except StopIteration:
                return
            except Exception as e:
                frames = _tb.extract_tb(e.__traceback__)
                repo = os.path.realpath(os.environ.get("VERIF_REPO", "/repo"))
                if not frames or not os.path.realpath(frames[-1].filename).startswith(repo + os.sep):
                    raise
                nidx = (last[0] + 1) if last[0] is not None else 0
                l = Line("pred", "echo_tree", ["L 1 e n n n n n n n n n"], note="the implementation raised %s: %s at %s:%d (%s) while the case after index %s was prepared"
                         % (type(e).__name__, e, os.path.relpath(frames[-1].filename, repo), frames[-1].lineno, frames[-1].name, last[0]))
                l.expect = "implementation-must-not-raise-on-this-input"
                c = Case("implementation-raised", {"exception": type(e).__name__, "message": str(e),
                                                    "traceback": ["%s:%d %s" % (f.filename, f.lineno, f.name) for f in frames[-6:]]}, [l])
                yield nidx, c
                return
            last[0] = idx
            yield idx, c

    for idx, c in guarded(iter(cases)):
        c.index = idx
        result.evaluations += 1
        result.lines += len(c.lines)
        result.keys.add(c.key)
        if c.nontrivial:
            result.nontrivial_keys.add(c.key)
        g = result.groups.setdefault(c.group, {"cases": 0, "nontrivial": 0})
        g["cases"] += 1
        g["nontrivial"] += 1 if c.nontrivial else 0
        for t in c.tags:
            result.tags[t] = result.tags.get(t, 0) + 1
        if len(result.samples) < 6 and (result.evaluations % 97 == 1):
            result.samples.append({"group": c.group, "index": idx, "desc": c.desc})
        buf.append(c)
        nlines += len(c.lines)
        if nlines >= batch:
            flush()
    flush()


SCALE = [1]
REPLAY_MODE = [None]


def write_replay(prop, n, payload):
    if REPLAY_MODE[0]:
        return REPLAY_MODE[0]          # the case that was asked for is its own replay
    if SCALE[0] != 1 and "scale" not in payload:
        payload = dict(payload, scale=SCALE[0])
    os.makedirs(REPLAYS, exist_ok=True)
    path = os.path.join(REPLAYS, "%s-%d.json" % (prop, n))
    with open(path, "w") as f:
        json.dump(payload, f, indent=1, ensure_ascii=False, default=str)
    return os.path.relpath(path, VERIF)


def main(mod, argv):
    """mod: a props.cXX module with ID, MODULE (Lean module with the property theorems),
    gen(seed, tier, scale) -> iterator of (index, Case), optional classify(case, line, got) -> key,
    TRUSTED (list), RULE (str), NOTE (str)."""
    t0 = time.time()
    import argparse
    ap = argparse.ArgumentParser()
    ap.add_argument("--tier", default=os.environ.get("VERIF_TIER", "quick"))
    ap.add_argument("--replay", default=None)
    ap.add_argument("--no-build", action="store_true")
    args = ap.parse_args(argv)
    tier = args.tier if args.tier in ("quick", "thorough") else "quick"
    try:
        seed = int(os.environ.get("VERIF_SEED", "0"))
    except ValueError:
        seed = 0
    prop = mod.ID
    os.makedirs(EVID, exist_ok=True)
    evid_path = os.path.join(EVID, "%s.json" % prop)
    rp_payload = None
    if args.replay:
        # re-running one recorded case: read it first, leave evidence and the recorded replays alone
        rp_payload = json.load(open(args.replay))
        REPLAY_MODE[0] = os.path.relpath(os.path.abspath(args.replay), VERIF)
        os.environ["VERIF_NO_EVIDENCE"] = "1"
    else:
        if os.path.exists(evid_path) and not os.environ.get("VERIF_NO_EVIDENCE"):
            os.remove(evid_path)
        # stale replays of this property
        if os.path.isdir(REPLAYS):
            for fn in os.listdir(REPLAYS):
                if fn.startswith(prop + "-"):
                    os.remove(os.path.join(REPLAYS, fn))

    broken = []          # proof / audit / build problems (not violations by themselves)
    notes = []
    # 1. regenerate constants from /repo
    rc, out = gen_consts()
    if rc != 0:
        broken.append({"what": "gen_consts", "detail": out[-1500:]})
    # 2. build model + driver, then the property theorems
    driver_ok = True
    if not args.no_build:
        rc, out = lake_build(["TT", "ttdriver"])
        if rc != 0:
            driver_ok = False
            broken.append({"what": "model/driver build", "detail": out[-3000:]})
    modules = [mod.MODULE] if isinstance(mod.MODULE, str) else list(mod.MODULE)
    # every property rests on the constant tables: regenerated from /repo = pinned copy (a changed table breaks a proof)
    if "TT.Props.ConstsPinned" not in modules:
        modules.append("TT.Props.ConstsPinned")
    modules = [m for m in modules if os.path.exists(os.path.join(LEAN_DIR, *m.split(".")) + ".lean")]
    checker_cmd = "cd lean && lake build %s" % " ".join(modules)
    names, n_examples, axioms = [], 0, {}
    rc, out = lake_build(modules)
    proofs_ok = rc == 0
    if rc != 0:
        m = re.findall(r"error: ([^\n]*)", out)
        broken.append({"what": "theorem build %s" % " ".join(modules), "detail": out[-3000:],
                       "first_errors": m[:5]})
    for mm in modules:
        names += theorem_names(mm)
        n_examples += count_examples(mm)
    if proofs_ok:
        for mm in modules:
            ok, ax, raw = axiom_audit(mm, theorem_names(mm))
            axioms.update(ax)
            if not ok:
                proofs_ok = False
                broken.append({"what": "axiom audit %s" % mm, "detail": raw[-2000:]})
        hits = forbidden_scan()
        if hits:
            proofs_ok = False
            broken.append({"what": "forbidden constructs", "detail": hits[:20]})
        if tier == "thorough" and proofs_ok:
            proc = subprocess.run(["lake", "env", "leanchecker"] + modules, cwd=LEAN_DIR,
                                  stdout=subprocess.PIPE, stderr=subprocess.STDOUT)
            checker_cmd += " && lake env leanchecker %s" % " ".join(modules)
            if proc.returncode != 0:
                proofs_ok = False
                broken.append({"what": "leanchecker", "detail": proc.stdout.decode(errors="replace")[-2000:]})

    if not driver_ok:
        # cannot run the model at all: nothing can be shown
        path = write_replay(prop, 0, {"property": prop, "broken": broken,
                                      "explanation": "model or driver no longer builds against /repo's constants"})
        write_evidence(mod, tier, seed, t0, Result(), names, n_examples, axioms, False, checker_cmd, 1, broken, [])
        print("VIOLATION property=%s replay=%s no-failing-input-found" % (prop, path))
        return 1

    # 3. correspondence + predicate on implementation output
    result = Result()
    # VERIF_SCALE multiplies every random-case budget of the tier (soak runs); replays remember it
    scale = max(1, int(os.environ.get("VERIF_SCALE", "1") or "1"))
    SCALE[0] = scale
    if args.replay:
        rp = rp_payload
        seed = rp.get("seed", seed)
        tier = rp.get("tier", tier)
        want = rp.get("case_index")
        gen = ((i, c) for (i, c) in mod.gen(seed, tier, rp.get("scale", 1)) if want is None or i == want)
        run_cases(gen, result)
    else:
        run_cases(mod.gen(seed, tier, scale), result)

    known = [k for k in load_known() if k["property"] == prop and k["status"] == "known"]
    violations = []
    known_hits = {}

    def attribute(case, line, got):
        key = mod.classify(case, line, got) if hasattr(mod, "classify") else None
        for k in known:
            if key is not None and k["key"] == key:
                return k
        return None

    for (c, l, got) in result.pred_fail:
        k = attribute(c, l, got)
        if k is not None:
            known_hits.setdefault(k["key"], []).append(c)
        else:
            violations.append(("pred", c, l, got))
    corr_unexplained = []
    for (c, l, got) in result.corr_fail:
        k = attribute(c, l, got)
        if k is not None:
            known_hits.setdefault(k["key"], []).append(c)
        else:
            corr_unexplained.append((c, l, got))

    # 4. broken proof or correspondence: search for a failing input with the predicate only
    searched = 0
    if (not proofs_ok or corr_unexplained) and not violations and not args.replay:
        sres = Result()
        run_cases(mod.gen(seed + 7919, tier, 6), sres)
        searched = sres.evaluations
        for (c, l, got) in sres.pred_fail:
            if attribute(c, l, got) is None:
                c.origin = (seed + 7919, 6)          # where the replay has to look for this case
                violations.append(("pred", c, l, got))

    exit_code = 0
    replay_n = 0
    printed = []
    if violations:
        # one replay per distinct (group, clause), smallest case first
        seen = set()
        violations.sort(key=lambda v: sum(len(l.text()) for l in v[1].lines))
        for (kind, c, l, got) in violations:
            sig = (c.group, l.op, got.split(" ")[0:2].__repr__())
            if sig in seen:
                continue
            seen.add(sig)
            replay_n += 1
            rseed, rscale = getattr(c, "origin", (seed, scale))
            path = write_replay(prop, replay_n, {
                "property": prop, "seed": rseed, "scale": rscale, "tier": tier, "case_index": c.index, "group": c.group,
                "input": c.desc, "failing_line": l.text(), "predicate_result": got, "note": l.note,
                "rerun": "checks/run.py %s --replay <this file>" % prop})
            printed.append("VIOLATION property=%s replay=%s" % (prop, path))
            if replay_n >= 5:
                break
        exit_code = 1
    elif corr_unexplained or not proofs_ok:
        replay_n += 1
        payload = {"property": prop, "seed": seed, "tier": tier,
                   "explanation": "a proof obligation or the model/implementation correspondence no longer "
                                  "checks; the search evaluated the property predicate on the implementation's "
                                  "output for %d further inputs and found no failing input" % searched,
                   "broken": broken}
        if corr_unexplained:
            c, l, got = corr_unexplained[0]
            payload["correspondence"] = {
                "op": l.op, "group": c.group, "case_index": c.index, "input": c.desc,
                "line": l.text(), "implementation": l.expect, "model": got,
                "disagreements": len(corr_unexplained)}
        else:
            payload["theorems"] = names
        path = write_replay(prop, replay_n, payload)
        printed.append("VIOLATION property=%s replay=%s no-failing-input-found" % (prop, path))
        exit_code = 1

    for k in known:
        hits = known_hits.get(k["key"], [])
        print("KNOWN-FINDING: property=%s %s (%d cases this run)" % (prop, k["what"], len(hits)))
    for p in printed:
        print(p)
    write_evidence(mod, tier, seed, t0, result, names, n_examples, axioms, proofs_ok, checker_cmd,
                   len(printed), broken, sorted(known_hits))
    print("%s tier=%s seed=%d cases=%d lines=%d pred_fail=%d corr_fail=%d theorems=%d proofs_ok=%s wall=%.1fs"
          % (prop, tier, seed, result.evaluations, result.lines, len(result.pred_fail),
             len(result.corr_fail), len(names), proofs_ok, time.time() - t0))
    return exit_code


def write_evidence(mod, tier, seed, t0, result, names, n_examples, axioms, proofs_ok, checker_cmd,
                   n_viol, broken, known_keys):
    obligations = len(names) + n_examples
    ev = {
        "property_id": mod.ID, "tier": tier, "seed": seed, "level": "proof",
        "coverage": {
            "obligations": obligations,
            "discharged": obligations if proofs_ok else 0,
            "checker_cmd": checker_cmd,
            "trusted_base": list(getattr(mod, "TRUSTED", [])) + [
                "Lean 4.33 kernel (leanchecker re-check in the thorough tier)",
                "axioms per theorem as listed under 'axioms' (allowed: propext, Classical.choice, Quot.sound)",
                "tools/gen_consts.py, harness/*.py (serialiser, canonicaliser, exception map)",
                "the hand-written Lean model is tied to /repo only by the correspondence run reported here"],
            "theorems": names,
            "examples_nonvacuity": n_examples,
            "axioms": axioms,
            "evaluations": result.evaluations,
            "protocol_lines": result.lines,
            "distinct_nontrivial": len(result.nontrivial_keys),
            "distinct": len(result.keys),
            "rule": getattr(mod, "RULE", ""),
            "samples": result.samples[:6],
            "traces_validated_against_impl": result.lines,
            "groups": result.groups,
            "tags": result.tags,
            "predicate_failures": len(result.pred_fail),
            "correspondence_disagreements": len(result.corr_fail),
            "known_findings_hit": known_keys,
            "broken": broken,
            "exhaustive": False,
        },
        "assumptions": list(getattr(mod, "ASSUMPTIONS", [])),
        "wall_s": round(time.time() - t0, 2),
        "violations": n_viol,
    }
    if os.environ.get("VERIF_NO_EVIDENCE"):      # measurement runs (tools/impl_coverage.py) leave the evidence alone
        return
    with open(os.path.join(EVID, "%s.json" % mod.ID), "w") as f:
        json.dump(ev, f, indent=1, ensure_ascii=False, default=str)
