"""XML text -> element structure: the model's XML reader (TT/IO/Xml.lean, driver op `xml_parse`) against
`xml.etree.ElementTree` (what `treeinput.tigerxml` parses with).

 xml-written   TIGER-XML written by the real writer (`treeoutput.tigerxml*`) for generated corpora whose words, tags,
               labels, edge labels, lemmas and morphology carry XML specials, TAB / LF / CR and non-ASCII characters
 xml-layout    such a document re-serialised with a randomised serializer: white space between tags / inside tags / around
               "=", `<t/>` as `<t></t >`, either attribute delimiter, entities or decimal character references or raw
               characters, permuted attributes, the three forms of the XML declaration, literal TAB / LF in values
               (normalised to a blank), plus structural variations (no <s>, unknown elements and attributes, missing
               attributes, repeated <body> / <graph> / <terminals>, <t> hidden below an unknown element)
 xml-struct    documents on which the READER fails after parsing (<s> without id -> TypeError, no <body> / <graph> /
               <terminals> / <nonterminals> -> AttributeError): expectation from the accesses of `treeinput.tigerxml`
               replayed on the real ElementTree objects
 xml-outside   texts outside the modelled subset (well-formed XML the model refuses by design) and ill-formed XML (for
               these `ElementTree` must raise `ParseError` - asserted when the case is built): the model answers ERR:Other

Expectation for the first two groups: "X" + c03.xsents(text), computed with the real ElementTree on `text.encode('utf-8')`.
"""
import re
import xml.etree.ElementTree as ET

import proto
import treegen
from core import Case, Line
from impl import trees
from props import c03

# --------------------------------------------------------------------------------------------------------------
# material (legal XML 1.0 characters only)
# --------------------------------------------------------------------------------------------------------------
WORDS = ["a<b", "x&y", "\"", "'", "\"'", "a\"b'c", ">", "&amp;", "&#10;", "&lt;", "&#x41;", "&quot;q&apos;", "]]>", "<!--", "-->", "<?pi?>",
         "a\tb", "a\nb", "c\rd", "e\r\nf", "\t", "\n", " ", "  ", " x ", "a b",
         "über", "日本", "\U0001F600", "\u00a0", "n\u0085l", "a\u2028b", "\ufffd", "\ud7ff", "\ue000", "\U0010FFFF", "\x7f", "\u0080",
         "", "der", "Hund", "=", "/>", "</t>", "a=\"b\"", "a='b'", ";", "&", "&&", "<<", "&;", "&#;", "100%"]
PUNCT = [",", ".", "\"", "'", "-", "&", "<", ">"]
LABELS = ["S", "VP", "NP", "NP-SBJ", "N&P", "A<B", "\"Q\"", "it's", "ÄP", "名詞", "X>Y", "a\"b'c", "S\tT", "VROOT", "&#65;"]
POS = ["NN", "VVFIN", "$,", "A&B", "<T>", "\"", "'", "Ü", "P\nQ", "&lt;"]
EDGES = ["HD", "--", "SB", "O&A", "<", ">", "\"", "'", "é", "a\"'b", "E\rF"]
LEMMAS = ["--", "lemma", "l&m", "<l>", "\"l\"", "l'", "ü", "語", "a\tb", "", "&apos;"]
MORPHS = ["--", "Nom.Sg", "Nom&Sg", "<m>", "\"'", "µ", "3.Sg\n", "12345678", "&gt;"]

WS_BETWEEN = ["", "", "\n", "\n", " ", "  ", "\t", "\r\n", "\r", "\n\n", " \n\t ", "\n    "]
WS_IN = [" ", " ", " ", "  ", "\t", "\n", "\r\n", "\r", " \n ", "\n      "]     # at least one
WS_OPT = ["", "", "", " ", "\t", "\n", "  ", "\r\n"]
DECLS = ["", "<?xml version='1.0'?>", "<?xml version='1.0' encoding='utf-8'?>", "<?xml version='1.0' encoding='UTF-8'?>"]


def gen_corpus(rng):
    k = rng.randint(1, 3)
    ts = []
    sid = rng.randint(1, 30)
    nw = rng.randint(3, 12)
    words = [rng.choice(WORDS) for _ in range(nw)] + ["w"]
    for _ in range(k):
        cfg = treegen.Cfg(n_min=1, n_max=6, disc=rng.random() < 0.5, p_disc=0.5, p_unary=0.2, p_punct=0.1, words=words,
                          punct_words=PUNCT, labels=LABELS, pos=POS, none_fields=False, edges=EDGES,
                          wrap_all=rng.random() < 0.5, large=False)
        t = treegen.gen_tree(rng, cfg)
        for n in trees.preorder(t):
            if not n.children:
                n.data['lemma'] = rng.choice(LEMMAS)
                n.data['morph'] = rng.choice(MORPHS)
        t.data['sid'] = sid
        sid += rng.randint(1, 3)
        ts.append(t)
    return ts


def written(rng):
    return c03.write_src(gen_corpus(rng), "tigerxml", False)


# --------------------------------------------------------------------------------------------------------------
# a light element structure and the randomised serializer
# --------------------------------------------------------------------------------------------------------------
class El(object):
    def __init__(self, name, attrs=None, kids=None):
        self.name, self.attrs, self.kids = name, list(attrs or []), list(kids or [])

    def walk(self):
        yield self
        for k in self.kids:
            for x in k.walk():
                yield x

    def get(self, k):
        for a, v in self.attrs:
            if a == k:
                return v
        return None

    def drop(self, k):
        self.attrs = [(a, v) for a, v in self.attrs if a != k]


def from_et(e):
    return El(e.tag, list(e.attrib.items()), [from_et(c) for c in e])


def parse_el(text):
    return from_et(ET.fromstring(text.encode("utf-8")))


def ser_value(rng, v, style):
    """the text between the delimiters (and the delimiter) for the attribute value v"""
    q = rng.choice("\"'")
    out = []
    p_ref = style["p_ref"]
    for c in v:
        o = ord(c)
        if rng.random() < p_ref:
            out.append("&#%s%d;" % ("0" * rng.choice([0, 0, 0, 1, 3]), o))
        elif c == q:
            out.append(rng.choice(["&quot;" if q == '"' else "&apos;", "&#%d;" % o]))
        elif c in "\"'":
            out.append(rng.choice([c, c, "&quot;" if c == '"' else "&apos;"]))
        elif c == "&":
            out.append(rng.choice(["&amp;", "&amp;", "&#38;"]))
        elif c == "<":
            out.append(rng.choice(["&lt;", "&lt;", "&#60;"]))
        elif c == ">":
            out.append(rng.choice([">", "&gt;", "&#62;"]))
        elif c in "\t\n":
            # a literal TAB / LF in a value is read as ONE blank (attribute-value normalisation); the reference keeps it
            out.append(c if rng.random() < style["p_litws"] else "&#%d;" % o)
        elif c == "\r":
            out.append("&#13;")     # (a literal CR inside a value is outside the modelled subset)
        else:
            out.append(c)
    return q + "".join(out) + q


def ser_el(rng, e, style, out):
    out.append("<" + e.name)
    attrs = list(e.attrs)
    if rng.random() < style["p_perm"]:
        rng.shuffle(attrs)
    for a, v in attrs:
        out.append(rng.choice(style["ws_in"]))
        out.append(a + rng.choice(style["ws_opt"]) + "=" + rng.choice(style["ws_opt"]) + ser_value(rng, v, style))
    out.append(rng.choice(style["ws_opt"]))
    if not e.kids and rng.random() < style["p_empty"]:
        out.append("/>")
        return
    out.append(">")
    for k in e.kids:
        out.append(rng.choice(style["ws_between"]))
        ser_el(rng, k, style, out)
    out.append(rng.choice(style["ws_between"]))
    out.append("</" + e.name + rng.choice(style["ws_opt"]) + ">")


def mk_style(rng):
    one_line = rng.random() < 0.2
    nl = lambda l: [x for x in l if "\n" not in x and "\r" not in x]
    return {"p_ref": rng.choice([0.0, 0.0, 0.05, 0.3, 1.0]), "p_litws": rng.choice([0.0, 0.0, 0.5, 1.0]),
            "p_perm": rng.choice([0.0, 0.5, 1.0]), "p_empty": rng.choice([0.0, 0.5, 1.0]),
            "ws_in": nl(WS_IN) if one_line else rng.choice([WS_IN, [" "]]),
            "ws_opt": nl(WS_OPT) if one_line else rng.choice([WS_OPT, [""]]),
            "ws_between": nl(WS_BETWEEN) if one_line else rng.choice([WS_BETWEEN, ["\n"], [""]]),
            "one_line": one_line}


def serialise(rng, root, style=None):
    style = style or mk_style(rng)
    out = []
    decl = rng.choice(DECLS)
    out.append(decl)
    nl = (lambda l: [x for x in l if "\n" not in x and "\r" not in x]) if style["one_line"] else (lambda l: l)
    out.append(rng.choice(nl(WS_BETWEEN)))      # (without a declaration: white space before the root element is fine, too)
    ser_el(rng, root, style, out)
    out.append(rng.choice(nl(WS_BETWEEN)))
    return "".join(out)


# --------------------------------------------------------------------------------------------------------------
# structural variations that the reader does not see (or sees as None)
# --------------------------------------------------------------------------------------------------------------
def _find(root, name):
    return [e for e in root.walk() if e.name == name]


def _parent_of(root, x):
    for e in root.walk():
        if any(k is x for k in e.kids):
            return e
    return None


def vary_ok(rng, root):
    """mutations after which every <s> still has id, graph, terminals, nonterminals and every t / nt an id, every edge an
    idref.  Returns the list of the names of the mutations."""
    done = []
    body = root.kids[0]
    for name in rng.sample(["nos", "head", "xattr", "dropattr", "junk", "twobody", "twograph", "twoterm", "hide", "deep_s",
                            "rootattr", "afterbody", "emptyval"], rng.randint(1, 3)):
        if name == "nos":
            if rng.random() < 0.3:
                body.kids = []
            else:
                continue
        elif name == "head":
            root.kids.insert(0, El("head", [], [El("meta", [("name", "x&y")])] if rng.random() < 0.5 else []))
        elif name == "xattr":
            for e in root.walk():
                if e.name in ("t", "nt", "edge", "s", "graph", "terminals") and rng.random() < 0.3:
                    e.attrs.insert(rng.randint(0, len(e.attrs)), (rng.choice(["extra", "x-1", "_y", "a.b", "Word", "ID", "id2"]), rng.choice(WORDS)))
        elif name == "dropattr":
            for e in root.walk():
                if e.name == "t" and rng.random() < 0.5:
                    e.drop(rng.choice(["lemma", "morph", "word", "pos"]))
                elif e.name == "nt" and rng.random() < 0.3:
                    e.drop("cat")
                elif e.name == "edge" and rng.random() < 0.3:
                    e.drop("label")
                elif e.name == "graph" and rng.random() < 0.5:
                    e.drop("root")
        elif name == "junk":
            for e in list(root.walk()):
                if e.name in ("s", "graph", "terminals", "nonterminals", "nt", "body") and rng.random() < 0.4:
                    e.kids.insert(rng.randint(0, len(e.kids)), El(rng.choice(["x", "T", "S", "tt", "secedge", "t-1", "_", "a.b"]),
                                                                  [("id", "9"), ("idref", "1"), ("word", "zz")][:rng.randint(0, 3)]))
        elif name == "twobody":
            # find('body') takes the first one
            other = El("body", [], [El("s", [("id", "77")], [El("graph", [], [El("terminals"), El("nonterminals")])])])
            root.kids.append(other)
        elif name == "twograph":
            for s in _find(root, "s"):
                if rng.random() < 0.5:
                    s.kids.append(El("graph", [("root", "0")], [El("terminals", [], [El("t", [("id", "1"), ("word", "no")])]), El("nonterminals")]))
        elif name == "twoterm":
            for g in _find(root, "graph"):
                if rng.random() < 0.5:
                    g.kids.append(El("terminals", [], [El("t", [("id", "1"), ("word", "no")])]))
                    g.kids.append(El("nonterminals", [], [El("nt", [("id", "500"), ("cat", "no")])]))
        elif name == "hide":
            # findall looks at direct children only
            for p in _find(root, "terminals") + _find(root, "nonterminals") + _find(root, "nt"):
                if p.kids and rng.random() < 0.4:
                    i = rng.randrange(len(p.kids))
                    p.kids[i] = El("wrap", [], [p.kids[i]])
        elif name == "deep_s":
            if body.kids and rng.random() < 0.7:
                i = rng.randrange(len(body.kids))
                body.kids[i] = El("subcorpus", [("name", "n")], [body.kids[i]])
        elif name == "rootattr":
            root.attrs.append(("id", "c\"1'"))
            body.attrs.append(("x", ""))
        elif name == "afterbody":
            root.kids.append(El("s", [("id", "5")]))
            root.kids.append(El("tail"))
        elif name == "emptyval":
            for e in root.walk():
                if e.name in ("t", "nt", "edge", "s") and rng.random() < 0.3 and e.attrs:
                    i = rng.randrange(len(e.attrs))
                    e.attrs[i] = (e.attrs[i][0], "")
        done.append(name)
    return done


def _first(e, name):
    for k in e.kids:
        if k.name == name:
            return k
    return None


def vary_fail(rng, root):
    """mutations after which the reader (usually) raises; None when the document offers no place for it"""
    body = _first(root, "body")
    ss = [k for k in body.kids if k.name == "s"] if body is not None else []
    name = rng.choice(["nobody", "noid", "nograph", "noterm", "nonterm", "noid_nograph", "graph_deeper"])
    if body is None:
        return None
    if name == "nobody" or not ss:
        for k in root.kids:
            if k.name == "body":
                k.name = rng.choice(["Body", "bodyx", "head"])
        return "nobody"
    s = rng.choice(ss)
    g = _first(s, "graph")
    if g is None:
        return None
    if name in ("noid", "noid_nograph"):
        s.drop("id")
        if rng.random() < 0.5:
            s.attrs.append(("ID", "3"))
    if name in ("nograph", "noid_nograph"):
        if rng.random() < 0.5:
            s.kids = [k for k in s.kids if k.name != "graph"]
        else:
            for k in s.kids:
                if k.name == "graph":
                    k.name = "Graph"
    if name in ("noterm", "nonterm"):
        which = "terminals" if name == "noterm" else "nonterminals"
        r = rng.random()
        if r < 0.4:
            g.kids = [k for k in g.kids if k.name != which]
        elif r < 0.7:
            for k in g.kids:
                if k.name == which:
                    k.name = which[:-1]
        else:
            g.kids = [El("wrap", [], [k]) if k.name == which else k for k in g.kids]
    if name == "graph_deeper":
        s.kids = [El("wrap", [], [k]) if k.name == "graph" else k for k in s.kids]
    return name


_DIGITS = re.compile(r'\d+')


def python_answer(text):
    """what Python does with the text: ElementTree, then the accesses of `treeinput.tigerxml` / `tigerxml_build_tree` in
    their order on the real ElementTree objects; "X" + rendering, or the name of the exception"""
    try:
        root = ET.fromstring(text.encode("utf-8"))
    except ET.ParseError:
        return "ERR:Other"
    try:
        for s in root.find('body').findall('s'):
            _DIGITS.findall(s.get('id'))
            s.find('graph').find('terminals').findall('t')
            s.find('graph').find('nonterminals').findall('nt')
    except (AttributeError, TypeError) as e:
        return "ERR:" + type(e).__name__
    return "X" + c03.xsents(text)


# --------------------------------------------------------------------------------------------------------------
# outside the subset
# --------------------------------------------------------------------------------------------------------------
def _doc(inner_t="<t id=\"1\" word=\"w\" lemma=\"l\" pos=\"p\" morph=\"m\" />", pre="", post="", between="", decl="<?xml version='1.0'?>\n",
         root_open="<corpus>", root_close="</corpus>"):
    return (decl + pre + root_open + "\n<body>\n<s id=\"1\">\n<graph root=\"500\">\n  <terminals>\n    " + inner_t + between +
            "\n  </terminals>\n  <nonterminals>\n    <nt id=\"500\" cat=\"S\">\n      <edge label=\"HD\" idref=\"1\" />\n    </nt>\n"
            "  </nonterminals>\n</graph>\n</s>\n</body>\n" + root_close + post)


# well-formed XML that the model refuses by design (ElementTree's answer is not looked at)
OUTSIDE_WELLFORMED = [
    ("comment", _doc(between="<!-- c -->")),
    ("comment-before-root", _doc(pre="<!-- c -->\n")),
    ("comment-after-root", _doc(post="\n<!-- c -->")),
    ("cdata", _doc(between="<![CDATA[ x ]]>")),
    ("doctype", _doc(pre="<!DOCTYPE corpus>\n")),
    ("doctype-entity", _doc(pre="<!DOCTYPE corpus [<!ENTITY e \"v\">]>\n", inner_t="<t id=\"1\" word=\"&e;\"/>")),
    ("pi", _doc(between="<?php x ?>")),
    ("pi-before-root", _doc(pre="<?xml-stylesheet href='x'?>\n")),
    ("text", _doc(between=" word ")),
    ("text-in-t", _doc(inner_t="<t id=\"1\" word=\"w\">x</t>")),
    ("text-entity", _doc(between="&amp;")),
    ("text-charref", _doc(between="&#65;")),
    ("text-nbsp", _doc(between="\u00a0")),
    ("text-nel", _doc(between="\u0085")),
    ("text-ls", _doc(between="\u2028")),
    ("hexref", _doc(inner_t="<t id=\"1\" word=\"&#x41;\"/>")),
    ("hexref-upper", _doc(inner_t="<t id=\"1\" word=\"&#x4A;\"/>")),
    ("ns-prefix-attr", _doc(inner_t="<t id=\"1\" xml:lang=\"de\" word=\"w\"/>")),
    ("ns-prefix-elem", _doc(root_open="<x:corpus xmlns:x='u'>", root_close="</x:corpus>")),
    ("ns-prefix-decl", _doc(root_open="<corpus xmlns:x='u'>")),
    ("nonascii-name", _doc(between="<über/>")),
    ("nonascii-attr-name", _doc(inner_t="<t id=\"1\" wörd=\"w\"/>")),
    ("cr-in-value", _doc(inner_t="<t id=\"1\" word=\"a\rb\"/>")),
    ("crlf-in-value", _doc(inner_t="<t id=\"1\" word=\"a\r\nb\"/>")),
    ("decl-double-quotes", _doc(decl="<?xml version=\"1.0\"?>\n")),
    ("decl-space", _doc(decl="<?xml version='1.0' ?>\n")),
    ("decl-standalone", _doc(decl="<?xml version='1.0' standalone='yes'?>\n")),
    ("decl-two-blanks", _doc(decl="<?xml  version='1.0'?>\n")),
    ("bom", _doc(decl="\ufeff<?xml version='1.0'?>\n")),
    ("gt-as-text", _doc(inner_t="<t id=\"1\"/>>")),
    ("bom-nodecl", _doc(decl="\ufeff")),
]

# ill-formed XML: ElementTree raises ParseError (asserted), the model refuses
ILLFORMED = [
    ("mismatched", _doc(root_close="</Corpus>")),
    ("mismatched-inner", _doc(inner_t="<t id=\"1\"></T>")),
    ("crossed", _doc(between="<a><b></a></b>")),
    ("unclosed", _doc(root_close="")),
    ("unclosed-inner", _doc(between="<x>")),
    ("stray-end", _doc(between="</x>")),
    ("two-roots", _doc(post="\n<corpus/>")),
    ("two-roots-b", "<a/><b/>"),
    ("text-after-root", _doc(post="x")),
    ("text-before-root", _doc(pre="x")),
    ("repeated-attr", _doc(inner_t="<t id=\"1\" word=\"a\" word=\"b\"/>")),
    ("repeated-attr-same", _doc(inner_t="<t id=\"1\" id=\"1\"/>")),
    ("no-ws-between-attrs", _doc(inner_t="<t id=\"1\"word=\"a\"/>")),
    ("no-ws-between-attrs-sq", _doc(inner_t="<t id='1'word='a'/>")),
    ("raw-lt-in-value", _doc(inner_t="<t id=\"1\" word=\"a<b\"/>")),
    ("raw-amp-in-value", _doc(inner_t="<t id=\"1\" word=\"a&b\"/>")),
    ("raw-amp-blank", _doc(inner_t="<t id=\"1\" word=\"a & b; c\"/>")),
    ("amp-no-semicolon", _doc(inner_t="<t id=\"1\" word=\"&amp\"/>")),
    ("unknown-entity", _doc(inner_t="<t id=\"1\" word=\"&foo;\"/>")),
    ("entity-case", _doc(inner_t="<t id=\"1\" word=\"&AMP;\"/>")),
    ("nbsp-entity", _doc(inner_t="<t id=\"1\" word=\"&nbsp;\"/>")),
    ("empty-entity", _doc(inner_t="<t id=\"1\" word=\"&;\"/>")),
    ("empty-charref", _doc(inner_t="<t id=\"1\" word=\"&#;\"/>")),
    ("charref-letters", _doc(inner_t="<t id=\"1\" word=\"&#12a;\"/>")),
    ("charref-underscore", _doc(inner_t="<t id=\"1\" word=\"&#6_5;\"/>")),
    ("charref-plus", _doc(inner_t="<t id=\"1\" word=\"&#+65;\"/>")),
    ("charref-blank", _doc(inner_t="<t id=\"1\" word=\"&# 65;\"/>")),
    ("charref-blank-after", _doc(inner_t="<t id=\"1\" word=\"&#65 ;\"/>")),
    ("charref-X", _doc(inner_t="<t id=\"1\" word=\"&#X41;\"/>")),
    ("charref-arabic-digits", _doc(inner_t="<t id=\"1\" word=\"&#\u0666\u0665;\"/>")),
    ("charref-fullwidth-digits", _doc(inner_t="<t id=\"1\" word=\"&#\uff16\uff15;\"/>")),
    ("control-char", _doc(inner_t="<t id=\"1\" word=\"a\x01b\"/>")),
    ("control-char-between", _doc(between="\x0c")),
    ("control-char-1f", _doc(inner_t="<t id=\"1\" word=\"\x1f\"/>")),
    ("nul-char", _doc(inner_t="<t id=\"1\" word=\"a\x00b\"/>")),
    ("fffe", _doc(inner_t="<t id=\"1\" word=\"\ufffe\"/>")),
    ("ffff", _doc(inner_t="<t id=\"1\" word=\"\uffff\"/>")),
    ("charref-0", _doc(inner_t="<t id=\"1\" word=\"&#0;\"/>")),
    ("charref-1", _doc(inner_t="<t id=\"1\" word=\"&#1;\"/>")),
    ("charref-8", _doc(inner_t="<t id=\"1\" word=\"&#8;\"/>")),
    ("charref-11", _doc(inner_t="<t id=\"1\" word=\"&#11;\"/>")),
    ("charref-31", _doc(inner_t="<t id=\"1\" word=\"&#31;\"/>")),
    ("charref-surrogate", _doc(inner_t="<t id=\"1\" word=\"&#55296;\"/>")),
    ("charref-surrogate-hi", _doc(inner_t="<t id=\"1\" word=\"&#57343;\"/>")),
    ("charref-fffe", _doc(inner_t="<t id=\"1\" word=\"&#65534;\"/>")),
    ("charref-ffff", _doc(inner_t="<t id=\"1\" word=\"&#65535;\"/>")),
    ("charref-too-big", _doc(inner_t="<t id=\"1\" word=\"&#1114112;\"/>")),
    ("charref-huge", _doc(inner_t="<t id=\"1\" word=\"&#99999999999999999999;\"/>")),
    ("blank-after-lt", _doc(inner_t="< t id=\"1\"/>")),
    ("blank-after-lt-end", _doc(inner_t="<t id=\"1\">< /t>")),
    ("blank-after-slash-end", _doc(inner_t="<t id=\"1\"></ t>")),
    ("blank-in-empty-tag-end", _doc(inner_t="<t id=\"1\"/ >")),
    ("attr-without-value", _doc(inner_t="<t id=\"1\" word/>")),
    ("attr-without-quotes", _doc(inner_t="<t id=1 />")),
    ("attr-mixed-quotes", _doc(inner_t="<t id=\"1' word='w\"/>") .replace("word='w\"", "word=\"w'")),
    ("attr-unterminated", _doc(inner_t="<t id=\"1/>")),
    ("attr-in-end-tag", _doc(inner_t="<t id=\"1\"></t x=\"1\">")),
    ("attr-no-name", _doc(inner_t="<t =\"1\"/>")),
    ("attr-two-equals", _doc(inner_t="<t id==\"1\"/>")),
    ("name-digit", _doc(between="<1a/>")),
    ("name-minus", _doc(between="<-a/>")),
    ("name-dot", _doc(between="<.a/>")),
    ("attr-name-digit", _doc(inner_t="<t 1d=\"1\"/>")),
    ("attr-name-minus", _doc(inner_t="<t -d=\"1\"/>")),
    ("empty-name", _doc(between="<>")),
    ("empty-end-name", _doc(between="<x></>")),
    ("empty-doc", ""),
    ("ws-only", " \n"),
    ("decl-only", "<?xml version='1.0'?>\n"),
    ("ws-before-decl", _doc(decl=" <?xml version='1.0'?>\n")),
    ("nl-before-decl", _doc(decl="\n<?xml version='1.0'?>\n")),
    ("decl-twice", _doc(decl="<?xml version='1.0'?><?xml version='1.0'?>\n")),
    ("decl-in-the-middle", _doc(between="<?xml version='1.0'?>")),
    ("decl-after-root", _doc(post="<?xml version='1.0'?>")),
    ("decl-no-version", _doc(decl="<?xml encoding='utf-8'?>\n")),
    ("decl-unclosed", _doc(decl="<?xml version='1.0'>\n")),
    ("decl-uppercase", _doc(decl="<?XML version='1.0'?>\n")),
    ("decl-encoding-empty", _doc(decl="<?xml version='1.0' encoding=''?>\n")),
    ("decl-encoding-no-blank", _doc(decl="<?xml version='1.0'encoding='utf-8'?>\n")),
    ("lt-at-end", _doc(post="<")),
    ("slash-slash", _doc(inner_t="<t id=\"1\"//>")),
    ("colon-only-name", _doc(between="<:/>") ),
    ("unbound-prefix", _doc(between="<x:y/>")),
    ("unbound-prefix-attr", _doc(inner_t="<t id=\"1\" a:b=\"c\"/>")),
    ("comment-unclosed", _doc(between="<!-- c ")),
    ("comment-double-minus", _doc(between="<!-- a -- b -->")),
    ("cdata-unclosed", _doc(between="<![CDATA[ x ")),
    ("cdata-end-in-text", _doc(between="]]>")),
    ("pi-unclosed", _doc(between="<?pi x ")),
    ("doctype-after-root", _doc(post="<!DOCTYPE corpus>")),
]


# Texts on which the FIRST version of the model (wave 19, TT/IO/Xml.lean) and ElementTree disagreed (found by character-mutation
# fuzzing).  The model was corrected for both kinds before it was handed in: the name "xmlns" is outside the subset (refused), and
# the encoding name of the declaration must be an XML EncName.  The self-test below prints their state; the default-namespace
# texts are now also drawn as "xml-outside" cases (OUTSIDE_WELLFORMED), the EncName texts as ill-formed ones (ILLFORMED).
#   (name, text, Python's answer [python_answer], the model's answer now)
KNOWN_DISAGREEMENTS = [
    # a default namespace declaration has no ":" in it; ElementTree renames the element and everything below it to "{u}name",
    # so find('body') / findall('t') no longer see them (first model: `xmlns` read as an ordinary attribute)
    ("default-namespace-root", "<corpus xmlns='u'><body/></corpus>", "ERR:AttributeError", "ERR:Other"),
    ("default-namespace-body", "<corpus><body xmlns='u'/></corpus>", "ERR:AttributeError", "ERR:Other"),
    ("default-namespace-t", "<corpus><body><s id='1'><graph><terminals><t id='1' word='a'/><t xmlns='u' id='2' word='b'/></terminals>"
                            "<nonterminals/></graph></s></body></corpus>", "X49^49,97,n,n,n^", "ERR:Other"),
    # EncName is [A-Za-z][A-Za-z0-9._-]*: expat refuses the declaration (for str input as well as for bytes); the first model
    # took any non-empty run of [A-Za-z0-9._-]
    ("encoding-name-start-minus", "<?xml version='1.0' encoding='-x'?><corpus><body/></corpus>", "ERR:Other", "ERR:Other"),
    ("encoding-name-start-digit", "<?xml version='1.0' encoding='8'?><corpus><body/></corpus>", "ERR:Other", "ERR:Other"),
    ("encoding-name-start-underscore", "<?xml version='1.0' encoding='_x'?><corpus><body/></corpus>", "ERR:Other", "ERR:Other"),
]
OUTSIDE_WELLFORMED += [(n, t) for n, t, _, _ in KNOWN_DISAGREEMENTS[:3]]
ILLFORMED += [(n, t) for n, t, _, _ in KNOWN_DISAGREEMENTS[3:]]


def _is_illformed(text):
    try:
        ET.fromstring(text.encode("utf-8"))
    except ET.ParseError:
        return True
    return False


def outside_mutation(rng, text):
    """one random damage on a generated document: (name, text, must ElementTree refuse it)"""
    tags = [m for m in re.finditer(r"<(/?)([A-Za-z]+)([^<>]*)>", text)]
    kind = rng.choice(["comment", "cdata", "pi", "chardata", "hexref", "drop-end", "rename-end", "dup-attr", "glue-attrs", "raw-lt",
                       "bad-entity", "control", "charref0", "two-roots", "blank-after-lt", "cr-in-value"])
    m = rng.choice(tags)
    ins = {"comment": "<!--x-->", "cdata": "<![CDATA[]]>", "pi": "<?p?>", "chardata": rng.choice(["x", "&lt;", ".", "\u00a0"])}
    if kind in ins:
        # not before the root element's start tag for character data (that would be ill-formed rather than outside)
        pos = m.end()
        if kind == "chardata" and m.group(2) == "corpus" and m.group(1) == "/":
            pos = m.start()
        return kind, text[:pos] + ins[kind] + text[pos:], False
    vals = [v for v in re.finditer(r"=\"([^\"]*)\"", text)]
    v = rng.choice(vals)
    if kind == "hexref":
        return kind, text[:v.start(1)] + "&#x%x;" % rng.choice([65, 0x20ac, 10]) + text[v.start(1):], False
    if kind == "cr-in-value":
        return kind, text[:v.start(1)] + rng.choice(["\r", "\r\n", "a\rb"]) + text[v.start(1):], False
    if kind in ("raw-lt", "bad-entity", "control", "charref0"):
        bad = {"raw-lt": "<", "bad-entity": rng.choice(["&", "&x;", "&amp", "&#;", "&#x;", "&Lt;"]),
               "control": rng.choice(["\x01", "\x08", "\x0b", "\x1b", "\x00", "\ufffe", "\uffff"]),
               "charref0": rng.choice(["&#0;", "&#8;", "&#55296;", "&#65535;", "&#1114112;", "&#00;"])}[kind]
        pos = rng.randint(v.start(1), v.end(1))
        # (not into the middle of an entity of the written text)
        while pos > v.start(1) and "&" in text[v.start(1):pos] and ";" not in text[text.rindex("&", v.start(1), pos):pos]:
            pos -= 1
        return kind, text[:pos] + bad + text[pos:], True
    if kind == "two-roots":
        return kind, text + rng.choice(["<corpus/>", "\n<x></x>", "<body/>"]), True
    ends = [t for t in tags if t.group(1) == "/"]
    e = rng.choice(ends)
    if kind == "drop-end":
        return kind, text[:e.start()] + text[e.end():], True
    if kind == "rename-end":
        return kind, text[:e.start()] + "</" + e.group(2) + "x>" + text[e.end():], True
    if kind == "blank-after-lt":
        return kind, text[:m.start() + 1] + rng.choice([" ", "\n", "\t"]) + text[m.start() + 1:], True
    withattr = [t for t in tags if "=" in t.group(3)]
    a = rng.choice(withattr)
    am = re.search(r"\s([a-z]+)=(\"[^\"]*\"|'[^']*')", a.group(0))
    if kind == "dup-attr":
        pos = a.start() + am.end()
        return kind, text[:pos] + " " + am.group(1) + "=\"1\"" + text[pos:], True
    # glue-attrs: a second attribute directly after the delimiter of the first
    pos = a.start() + am.end()
    return "glue-attrs", text[:pos] + "zz=\"1\"" + text[pos:], True


# --------------------------------------------------------------------------------------------------------------
# cases
# --------------------------------------------------------------------------------------------------------------
def _line(text, expect, note=""):
    return Line("corr", "xml_parse", [proto.enc_s(text)], expect=expect, note=note)


def written_case(rng):
    text = written(rng)
    return Case("xml-written", {"text": text}, [_line(text, "X" + c03.xsents(text))])


def layout_case(rng):
    src = written(rng)
    root = parse_el(src)
    muts = vary_ok(rng, root) if rng.random() < 0.5 else []
    lines = []
    texts = []
    for _ in range(rng.randint(1, 3)):
        text = serialise(rng, root)
        texts.append(text)
        lines.append(_line(text, "X" + c03.xsents(text)))
    return Case("xml-layout", {"written": src, "mutations": muts, "texts": texts}, lines)


def struct_case(rng):
    while True:
        src = written(rng)
        root = parse_el(src)
        muts = vary_ok(rng, root) if rng.random() < 0.3 else []
        name = vary_fail(rng, root)
        if name is None:
            continue
        text = serialise(rng, root)
        expect = python_answer(text)
        # (a repeated <graph> / <terminals> may leave the first one intact: no failure then)
        if expect in ("ERR:AttributeError", "ERR:TypeError"):
            break
    return Case("xml-struct", {"written": src, "mutations": muts + [name], "text": text}, [_line(text, expect, note=name)])


def outside_case(rng):
    lines, desc = [], []
    if rng.random() < 0.5:
        pool = [(n, t, False) for n, t in OUTSIDE_WELLFORMED] + [(n, t, True) for n, t in ILLFORMED]
        picks = rng.sample(pool, 4)
    else:
        src = written(rng)      # (the mutations rely on the regular layout of the writer)
        # (a random damage that happens to leave the text well-formed - e.g. "&amp" put in front of ";..." - is dropped)
        picks = [m for m in (outside_mutation(rng, src) for _ in range(4)) if not m[2] or _is_illformed(m[1])][:3]
    for name, text, ill in picks:
        if ill:
            assert _is_illformed(text), ("ElementTree accepts a text listed as ill-formed", name, text)
        lines.append(_line(text, "ERR:Other", note=name + (" (ill-formed)" if ill else " (outside the subset)")))
        desc.append({"name": name, "illformed": ill, "text": text})
    return Case("xml-outside", {"inputs": desc}, lines)


def fixed_outside_cases():
    """every entry of the two lists once (deterministic)"""
    out = []
    for name, text in OUTSIDE_WELLFORMED:
        out.append(Case("xml-outside", {"inputs": [{"name": name, "illformed": False, "text": text}]},
                        [_line(text, "ERR:Other", note=name + " (outside the subset)")]))
    for name, text in ILLFORMED:
        assert _is_illformed(text), ("ElementTree accepts a text listed as ill-formed", name, text)
        out.append(Case("xml-outside", {"inputs": [{"name": name, "illformed": True, "text": text}]},
                        [_line(text, "ERR:Other", note=name + " (ill-formed)")]))
    return out


def xml_cases(rng, n):
    """n cases; the mix: 25 % written, 45 % layout, 10 % reader failures, 20 % outside"""
    out = []
    for _ in range(n):
        r = rng.random()
        if r < 0.25:
            out.append(written_case(rng))
        elif r < 0.70:
            out.append(layout_case(rng))
        elif r < 0.80:
            out.append(struct_case(rng))
        else:
            out.append(outside_case(rng))
    return out


if __name__ == "__main__":
    import sys
    import driver
    from core import case_rng
    n = int(sys.argv[1]) if len(sys.argv) > 1 else 300
    seed = sys.argv[2] if len(sys.argv) > 2 else "selftest"
    cases = xml_cases(case_rng(seed, "XML", 900000), n) + fixed_outside_cases()
    flat = [(c, l) for c in cases for l in c.lines]
    got = driver.run_lines([l.text() for _, l in flat])
    bad = [(c, l, g) for (c, l), g in zip(flat, got) if g != l.expect]
    groups = {}
    for c, l in flat:
        groups[c.group] = groups.get(c.group, 0) + 1
    print("%d cases, %d lines %s, %d mismatches" % (len(cases), len(flat), sorted(groups.items()), len(bad)))
    for c, l, g in bad[:8]:
        print("--- %s %s" % (c.group, l.note))
        print("text    :", repr(proto.dec_s(l.args[0]))[:3000])
        print("expected:", l.expect[:600])
        print("got     :", g[:600])
    texts = [t for _, t, _, _ in KNOWN_DISAGREEMENTS]
    got = driver.run_lines(["xml_parse\t" + proto.enc_s(t) for t in texts])
    for (name, t, py, then), g in zip(KNOWN_DISAGREEMENTS, got):
        now = python_answer(t)
        print("known disagreement %-32s python %s (listed %s) | model %s (listed %s)%s"
              % (name, now, py, g, then, "  -- now EQUAL" if now == g else ""))
    sys.exit(1 if bad else 0)
