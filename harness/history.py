"""Histories on the SAME objects.

Every property is stated for "every tree", and a tree the user holds may have any past: it may have been produced by one
of the readers (which leave their own bookkeeping in the node data), it may have been looked at before (navigation,
gap degree, grammar extraction, numbering), and it may have been changed in place by transformations since.  `aged`
produces such a tree from a generated one; the caller then runs its usual lines on the result, whose encoding is taken
from the object graph as it is afterwards.  Nothing here decides anything: it only widens the input class."""
import io
import cli
from impl import trees, transform, treeanalysis, treeinput, treeoutput, grammar, quiet, clone

READER_FORMATS = ["export", "export", "tigerxml", "brackets"]


def observe(tree):
    """call the observers a user may have called before; results are thrown away"""
    with quiet():
        try:
            nodes = list(trees.preorder(tree))
            list(trees.postorder(tree))
            for n in nodes:
                trees.children(n)
                trees.terminals(n)
                trees.has_children(n)
                trees.right_sibling(n)
                trees.left_sibling(n)
                treeanalysis.gap_degree_node(n)
                trees.terminal_blocks(n)
                list(trees.dominance(n))          # a generator: ask for all of it
            if len(nodes) > 1:
                trees.lca(nodes[-1], nodes[len(nodes) // 2])
                for n in nodes[1:4]:
                    list(trees.preorder(n))
                    trees.levels(n)
            trees.levels(tree)
            treeanalysis.has_gaps(tree)
            treeanalysis.gap_type(tree)
            treeanalysis.gap_degree(tree)
            grammar.extract(tree, {}, {})
        except Exception:
            pass


def _heads_split_raise(t):
    t = transform.negra_mark_heads(t)
    t = transform.boyd_split(t)
    return transform.raising(t)


def _heads_binarize(t):
    return transform.binarize(transform.negra_mark_heads(t))


MUTATORS = [
    ("root_attach", lambda t: transform.root_attach(t)),
    ("punctuation_root", lambda t: transform.punctuation_root(t)),
    ("punctuation_verylow", lambda t: transform.punctuation_verylow(t)),
    ("punctuation_symetrify", lambda t: transform.punctuation_symetrify(t)),
    ("heads+boyd_split+raising", _heads_split_raise),
    ("root_attach", lambda t: transform.root_attach(t)),
    ("punctuation_delete", lambda t: transform.punctuation_delete(t, quiet=True)),
    ("collapse_unary_chains", lambda t: transform.collapse_unary_chains(t)),
    ("add_topnode", lambda t: transform.add_topnode(t)),
]


def mutate(rng, tree, allowed=None):
    """change the tree in place through the transformation API; returns (new root, name) - the old root if the step
    refuses or empties the tree"""
    name, f = rng.choice([m for m in MUTATORS if allowed is None or m[0] in allowed])
    sid = tree.data.get('sid')
    if name == "collapse_unary_chains" and len(trees.unordered_terminals(tree)) < 2:
        return tree, name + ":skipped"          # a one-token sentence collapses to a bare token, which is no tree of the properties
    try:
        with quiet():
            r = f(tree)
    except Exception:
        return tree, name + ":refused"
    if r is None:
        return tree, name + ":none"
    if sid is not None and r.data.get('sid') is None:
        r.data['sid'] = sid
    return r, name


def via_reader(rng, tree, fmt=None):
    """the same tree as produced by one of the tool's readers from a file written by the tool's writer
    (falls back to the given object where the format cannot carry the tree)"""
    fmt = fmt or rng.choice(READER_FORMATS)
    c = clone(tree)
    c.data['sid'] = tree.data.get('sid') or 1
    try:
        with cli.Scratch() as sc:
            s = io.StringIO()
            with quiet():
                if fmt == "tigerxml":
                    treeoutput.tigerxml_begin(s)
                getattr(treeoutput, fmt)(c, s)
                if fmt == "tigerxml":
                    treeoutput.tigerxml_end(s)
            p = sc.write("t." + fmt, s.getvalue())
            with quiet():
                out = list(getattr(treeinput, fmt)(p, "utf-8"))
        if len(out) == 1 and len(trees.terminals(out[0])) == len(trees.terminals(tree)):
            return out[0], fmt
    except Exception:
        pass
    return tree, "api"


def aged(rng, tree, steps=None, allowed=None, reader=None):
    """(tree with a past, description of the past)"""
    past = []
    if reader is not False and (reader or rng.random() < 0.6):
        tree, src = via_reader(rng, tree, reader if isinstance(reader, str) else None)
        past.append("read:" + src)
    for _ in range(steps if steps is not None else rng.randint(1, 2)):
        if rng.random() < 0.85:
            observe(tree)
            past.append("observe")
        tree, name = mutate(rng, tree, allowed)
        past.append(name)
    return tree, past


def batch_read(rng, ts, fmt="export"):
    """all trees of ONE file written by the tool's writer, read completely (list(reader)) before anything is done with
    the first one - the usual way to hold a treebank in memory.  Returns the reader-made trees, or None where the
    format cannot carry the trees."""
    try:
        with cli.Scratch() as sc:
            s = io.StringIO()
            with quiet():
                if fmt == "tigerxml":
                    treeoutput.tigerxml_begin(s)
                for i, t in enumerate(ts):
                    c = clone(t)
                    c.data['sid'] = i + 1
                    getattr(treeoutput, fmt)(c, s)
                if fmt == "tigerxml":
                    treeoutput.tigerxml_end(s)
            p = sc.write("t." + fmt, s.getvalue())
            with quiet():
                out = list(getattr(treeinput, fmt)(p, "utf-8"))
        if len(out) == len(ts) and all(len(trees.terminals(a)) == len(trees.terminals(b)) for a, b in zip(out, ts)):
            return out
    except Exception:
        pass
    return None


PRE = {
    "add_topnode": lambda t: transform.add_topnode(t),
    "binarize": _heads_binarize,
    "split+raise": _heads_split_raise,
    "collapse+uncollapse": lambda t: transform.uncollapse_unary_chains(transform.collapse_unary_chains(t)),
    "punctuation_root": lambda t: transform.punctuation_root(t),
    "root_attach": lambda t: transform.root_attach(t),
    "punctuation_verylow": lambda t: transform.punctuation_verylow(t),
}


def pretransformed(rng, tree, allowed=None, p_reader=0.3):
    """'any well-formed tree' includes the trees other transformations (and the readers) have produced: returns
    (tree, past).  The caller takes the encoding of the result as the input of its case."""
    past = []
    sid = tree.data.get('sid') or 1
    tree.data['sid'] = sid
    if rng.random() < p_reader:
        tree, src = via_reader(rng, tree, "export")
        past.append("read:" + src)
    names = [n for n in PRE if allowed is None or n in allowed]
    for name in rng.sample(names, min(len(names), rng.randint(1, 2))):
        try:
            with quiet():
                r = PRE[name](tree)
        except Exception:
            past.append(name + ":refused")
            continue
        if r is None:
            continue
        if r.data.get('sid') is None:
            r.data['sid'] = sid
        tree = r
        past.append(name)
    return tree, past
