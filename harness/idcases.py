#!/venv/bin/python
"""C18 clauses 8/12 - the node-id model (TT/ProcIds.lean: `stamp`, `CallX.read`, `runHistoryX`) against `Tree.newid`.

`Tree.newid = itertools.count()` (trees.py) feeds the attribute `node.id` of every `Tree` object (NOT a key of the data
dict; `__eq__` / `__hash__` use it).  A history of reader calls is performed in ONE fresh Python process (this file run
as a script: JSON list of calls on stdin) and the id of every node of every delivered sentence is printed; the driver op
`ids_history*` (Driver/OpsIds.lean) runs `runHistoryX` on the same history.

What the readers do (found by reading treeinput.py and confirmed by the runs of `id_cases`):
  * brackets / discobrackets: a node is created at its opening bracket - parents before children, children in the order of
    the text, which is the storage order.  This IS the model's `stamp`: ids compared EXACTLY (`ids_history`).
  * export: `export_build_tree` creates a node, then recursively its children in the order of their LINES in the file
    (tokens first, then the `#5xx` lines), and only then sorts the children by leftmost token.  Parents before children,
    depth-first, but siblings in file-line order, not storage order: a sentence draws the same BLOCK of ids as in the
    model, distributed differently inside the sentence whenever a `#5xx` child stands left of a token child.
  * tigerxml: all `<t>` in document order, then all `<nt>` in document order, then the added VROOT (if any) - children
    before parents as a rule.  Again the same block per sentence, another distribution.  A sentence that is SKIPPED
    (several roots, a cycle, two incoming edges) has drawn its ids before it is dropped.  Since wave 19 (P9) the model
    counts them: `CallX.read (.ok ts) drawn` moves the counter by the nodes of `ts` AND by `drawn` = the ids of the skipped
    sentences (ids drawn by the call minus nodes delivered, `driver_args`), added AFTER the delivered sentences.  So the
    counter after the call and every later call agree exactly; inside the call the delivered sentences behind a skipped
    one have the implementation's block SIZES and ORDER but lie lower by the skipped ids: `skip_case` compares them after
    closing the gaps inside that call (`close_gaps`), and everything else exactly.
So every history gives: `ids_history_sorted` (the block of ids of every sentence, and the counter at the end) compared
exactly, `ids_history` exactly where all calls are bracket readers, and - on the implementation alone, which is what
`historyX_independent` says - every call of the history against the same call in a fresh process: equal up to `+ k`.
"""
import json
import os
import re
import subprocess
import sys

sys.dont_write_bytecode = True
HERE = os.path.dirname(os.path.abspath(__file__))
if HERE not in sys.path:
    sys.path.insert(0, HERE)

BRACKET_FORMATS = ("brackets", "discobrackets")


# ---------------------------------------------------------------------------------------------------------------------
# the fresh process
# ---------------------------------------------------------------------------------------------------------------------

def _counter(trees):
    """the next value of Tree.newid, without drawing it"""
    c = trees.Tree.newid
    m = re.match(r"count\((\d+)\)", repr(c))
    if m:
        return int(m.group(1))
    # not an itertools.count any more (seeded change C18-t09 makes it a cycle): peek at a copy; if the generator cannot be
    # copied the counter is unknown (-1: the comparison with the model then fails as a broken correspondence, it does not
    # crash the check)
    try:
        import copy
        import warnings
        with warnings.catch_warnings():
            warnings.simplefilter("ignore")
            return int(next(copy.copy(c)))
    except Exception:
        return -1


def _leafnums(node):
    if not node.children:
        n = node.data.get('num')
        return [n] if isinstance(n, int) else []
    return [x for c in node.children for x in _leafnums(c)]


def _walk(node, canon):
    out = [node.id]
    kids = list(node.children)
    if canon:
        kids = sorted(kids, key=lambda k: min(_leafnums(k) or [1000000000]))
    for k in kids:
        out.extend(_walk(k, canon))
    return out


def _run_history(calls):
    import tempfile
    import shutil
    import proto
    from impl import trees, treeinput, quiet
    start = _counter(trees)
    scratch = tempfile.mkdtemp(prefix="ttids_")
    res = []
    try:
        for i, c in enumerate(calls):
            fn = os.path.join(scratch, "src%d.%s" % (i, c["fmt"]))
            with open(fn, "w", encoding="utf-8") as f:
                f.write(c["text"])
            before = _counter(trees)
            try:
                with quiet():
                    got = list(getattr(treeinput, c["fmt"])(fn, "utf-8", quiet=True, **c.get("opts", {})))
                r = {"ok": [[t.data['sid'], _walk(t, True), _walk(t, False)] for t in got]}
            except Exception as e:          # noqa: BLE001
                r = {"err": proto.err_name(e)}
            r["drawn"] = _counter(trees) - before
            r["before"] = before
            res.append(r)
        return {"start": start, "results": res, "next": _counter(trees)}
    finally:
        shutil.rmtree(scratch, ignore_errors=True)


def main():
    print(json.dumps(_run_history(json.load(sys.stdin))))


# ---------------------------------------------------------------------------------------------------------------------
# the harness side
# ---------------------------------------------------------------------------------------------------------------------

def run_history(calls, hashseed=0):
    import cli
    env = dict(os.environ)
    env["PYTHONDONTWRITEBYTECODE"] = "1"
    env["PYTHONHASHSEED"] = str(hashseed)
    p = subprocess.run(cli.py_cmd() + [os.path.abspath(__file__)], input=json.dumps(calls).encode(),
                       stdout=subprocess.PIPE, stderr=subprocess.PIPE, env=env, timeout=300)
    if p.returncode != 0:
        raise RuntimeError("idcases process failed: %s" % p.stderr.decode()[-400:])
    return json.loads(p.stdout.decode().strip().split("\n")[-1])


def fmt_result(r, which):
    """the driver's notation; which = 'canon' | 'storage' | 'sorted'"""
    if "err" in r:
        # THAT the reader gave up is compared here, not the kind of exception: no property pins the kind of error for a
        # malformed export line (benign change P01 turns its IndexError into a ValueError), and the kinds the properties
        # do speak about are compared where they belong (C01, C03)
        return "ERR"
    if not r["ok"]:
        return "EMPTY"
    pick = {"canon": lambda s: s[1], "storage": lambda s: s[2], "sorted": lambda s: sorted(s[1])}[which]
    return "|".join("%d:%s" % (s[0], ",".join(str(i) for i in pick(s))) for s in r["ok"])


def fmt_history(h, which):
    return " # ".join([fmt_result(r, which) for r in h["results"]] + ["next=%d" % h["next"]])


def broken(rng, F, text):
    """a file the reader gives up on after it has created nodes (or None)"""
    if F in BRACKET_FORMATS:
        return text + rng.choice(["(S (NP (D a)", "(S (NP (D a) (N b)) (V", "(S (A a) b)"]) + "\n"
    if F == "export":
        return text + "#BOS 77\nwort\t--\tNN\n#EOS 77\n"          # too few fields in a later sentence
    return None


def make_call(rng, allow_broken=True):
    import proto
    import srccases
    from props import c03
    F, ts, text, opts, srcarg = srccases.make_source(rng)
    if allow_broken and rng.random() < 0.2:
        b = broken(rng, F, text)
        if b is not None:
            text, srcarg = b, proto.enc_s(b)
    return {"fmt": F, "text": text, "opts": opts, "srcarg": srcarg if F != "tigerxml" else c03.xsents(text)}


def driver_args(calls, h):
    import proto
    args = []
    for c, r in zip(calls, h["results"]):
        args += [c["fmt"], proto.enc_opts(c["opts"]), str(undelivered(r)), c["srcarg"]]
    return args


def undelivered(r):
    """the model's `drawn`: ids drawn by nodes the call created and did not deliver - all of a failing call, those of
       the skipped sentences of a call that succeeds"""
    if "err" in r:
        return r["drawn"]
    return r["drawn"] - sum(len(s[1]) for s in r["ok"])


def close_gaps(r):
    """the result of a call with the ids drawn by skipped sentences BETWEEN its delivered sentences taken out: every
       delivered sentence moved down by the ids that were drawn inside this call before it and belong to no delivered
       sentence (the form of the model, which adds the skipped ids behind the delivered sentences)"""
    if "err" in r:
        return r
    nxt, out = r["before"], []
    for s in r["ok"]:
        gap = min(s[1]) - nxt
        out.append([s[0], [x - gap for x in s[1]], [x - gap for x in s[2]]])
        nxt = max(s[1]) - gap + 1
    return dict(r, ok=out)


def skip_sentence(rng, text):
    """a TIGER-XML document in which one sentence got a second root (an <nt> without edges that nobody points to): the
       reader creates all its nodes and then skips it.  Returns (text, number of sentences) or None"""
    marks = [m.start() for m in re.finditer(r"[ \t]*</nonterminals>", text)]
    if not marks:
        return None
    at = rng.choice(marks)
    return text[:at] + '    <nt id="9%03d" cat="XX" />\n' % rng.randint(0, 999) + text[at:], len(marks)


def make_skip_call(rng):
    """a tigerxml reader call whose file has (at least) one sentence with several roots"""
    import srccases
    from props import c03
    while True:
        F, ts, text, opts, srcarg = srccases.make_source(rng)
        if F != "tigerxml":
            continue
        got = skip_sentence(rng, text)
        if got is None:
            continue
        text = got[0]
        if rng.random() < 0.3:
            again = skip_sentence(rng, text)
            if again is not None:
                text = again[0]
        return {"fmt": F, "text": text, "opts": opts, "srcarg": c03.xsents(text)}


def shift_of(whole, fresh):
    """k with whole = fresh + k on every node (None if there is none); results without nodes: 0"""
    if ("err" in whole) != ("err" in fresh):
        return None
    if "err" in whole:
        return 0 if whole["err"] == fresh["err"] and whole["drawn"] == fresh["drawn"] else None
    a = [i for s in whole["ok"] for i in s[1]]
    b = [i for s in fresh["ok"] for i in s[1]]
    if len(a) != len(b) or [s[0] for s in whole["ok"]] != [s[0] for s in fresh["ok"]]:
        return None
    if not a:
        return 0
    k = a[0] - b[0]
    return k if k >= 0 and all(x - y == k for x, y in zip(a, b)) else None


def id_case(rng, with_fresh=True, only=None):
    """one history of 2..5 reader calls.  Lines:
       corr ids_history_sorted  - the block of ids of every sentence and the final counter: model = implementation
       corr ids_history         - every node's id (histories of bracket readers only: there `stamp`'s order is the reader's)
       pred P.C18.eq            - implementation only: call i inside the history = call i in a fresh process, ids + k_i;
                                  ids of call i+1 all greater than those of call i, none twice (what the theorem's renaming keeps)"""
    import proto
    import cli
    from core import Case, Line
    n = rng.randint(2, 5)
    calls = []
    while len(calls) < n:
        c = make_call(rng)
        if only is None or c["fmt"] in only:
            calls.append(c)
    if rng.random() < 0.3:
        calls.insert(rng.randint(1, len(calls)), dict(calls[0]))          # the same file again, later
    send = [{"fmt": c["fmt"], "text": c["text"], "opts": c["opts"]} for c in calls]
    h = run_history(send)
    args = driver_args(calls, h)
    lines = []
    if h["start"] != 0:
        lines.append(Line("pred", "P.C18.eq", ["0", str(h["start"])], note="a fresh process has created nodes before the first call"))
    lines.append(Line("corr", "ids_history_sorted", args, fmt_history(h, "sorted"),
                      note="id blocks per sentence, " + "+".join(c["fmt"] for c in calls)))
    if all(c["fmt"] in BRACKET_FORMATS for c in calls):
        lines.append(Line("corr", "ids_history", args, fmt_history(h, "canon"), note="exact ids, bracket readers"))
        lines.append(Line("corr", "ids_history_storage", args, fmt_history(h, "storage"), note="exact ids in storage order, bracket readers"))
    # freshness / disjointness on the implementation
    seen, last, verdict = set(), -1, "ok"
    for i, r in enumerate(h["results"]):
        ids = [x for s in r.get("ok", []) for x in s[1]]
        if len(set(ids)) != len(ids) or seen & set(ids):
            verdict = "id twice in call %d" % i
        if ids and min(ids) <= last:
            verdict = "ids of call %d not above the earlier ones" % i
        seen |= set(ids)
        last = max(ids + [last])
    lines.append(Line("pred", "P.C18.eq", [proto.enc_s("ok"), proto.enc_s(verdict)], note="fresh and disjoint ids across the calls"))
    if with_fresh:
        fresh = cli.pmap(lambda c: run_history([c]), send, workers=4)
        for i, (r, f) in enumerate(zip(h["results"], fresh)):
            k = shift_of(r, f["results"][0])
            a = fmt_result(f["results"][0], "canon")
            b = fmt_result(r, "canon") if k is None else fmt_result(
                dict(r, ok=[[s[0], [x - k for x in s[1]], s[2]] for s in r["ok"]]) if "ok" in r else r, "canon")
            lines.append(Line("pred", "P.C18.eq", [proto.enc_s(a), proto.enc_s(b)],
                              note="call %d (%s): ids in the history = ids in a fresh process + %s" % (i, calls[i]["fmt"], k)))
    nontrivial = len([r for r in h["results"] if r.get("ok")]) >= 2
    return Case("ids-history", {"calls": [{"fmt": c["fmt"], "opts": c["opts"], "text": c["text"]} for c in calls]}, lines,
                nontrivial=nontrivial)


def skip_case(rng):
    """a history of 2..4 reader calls, at least one of them a TIGER-XML call with a skipped sentence (and that one possibly
       twice).  Lines:
       corr ids_history_sorted  - the implementation's blocks with the gaps INSIDE a call closed (`close_gaps`) and the
                                  final counter = the model's: block sizes, order, the start of every call, the counter
       pred P.C18.eq            - the witness property: some call drew more ids than it delivered nodes
       pred P.C18.eq            - the counter after the history = start + all ids drawn (implementation alone)"""
    import proto
    from core import Case, Line
    calls = [make_call(rng, allow_broken=False) for _ in range(rng.randint(1, 3))]
    sk = make_skip_call(rng)
    calls.insert(rng.randint(0, len(calls)), sk)
    if rng.random() < 0.5:
        calls.insert(rng.randint(0, len(calls)), dict(sk))
    send = [{"fmt": c["fmt"], "text": c["text"], "opts": c["opts"]} for c in calls]
    h = run_history(send)
    args = driver_args(calls, h)
    closed = dict(h, results=[close_gaps(r) for r in h["results"]])
    skipped = [undelivered(r) for r in h["results"] if "ok" in r]
    lines = [Line("corr", "ids_history_sorted", args, fmt_history(closed, "sorted"),
                  note="skipped sentence(s): blocks with in-call gaps closed, counter exact, " + "+".join(c["fmt"] for c in calls)),
             Line("pred", "P.C18.eq", [proto.enc_s("skipped ids"), proto.enc_s("skipped ids" if any(k > 0 for k in skipped) else "none skipped")],
                  note="a succeeding call drew ids for nodes it did not deliver: %s" % skipped),
             Line("pred", "P.C18.eq", [str(h["next"]), str(h["start"] + sum(r["drawn"] for r in h["results"]))],
                  note="counter = all ids drawn")]
    if closed["results"] == h["results"]:
        # every skipped sentence stands BEHIND the delivered ones of its call (or the call delivers nothing): exact blocks
        lines.append(Line("corr", "ids_history_sorted", args, fmt_history(h, "sorted"), note="skipped sentences last in their calls: exact blocks"))
    return Case("ids-skip", {"calls": [{"fmt": c["fmt"], "opts": c["opts"], "text": c["text"]} for c in calls]}, lines,
                nontrivial=any(k > 0 for k in skipped))


def id_cases(rng, n, with_fresh=True):
    """n histories of reader calls (every third one of bracket readers only, where the ids are compared node by node)"""
    import random
    out = []
    for i in range(n):
        sub = random.Random(rng.getrandbits(64))
        out.append(id_case(sub, with_fresh=with_fresh, only=BRACKET_FORMATS if i % 3 == 0 else None))
    for i in range(max(2, n // 4)):
        # wave 19 (P9): histories with a skipped TIGER-XML sentence (drawn AFTER the n histories above: their seeds stay)
        out.append(skip_case(random.Random(rng.getrandbits(64))))
    return out


if __name__ == "__main__":
    main()
