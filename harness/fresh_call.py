#!/venv/bin/python
"""Execute a list of call descriptors (JSON on stdin) in THIS process, one after the other, and print the
canonical result of each as a JSON list.  Used by C18: the same call list is run as one history and each
call alone in a fresh process."""
import io
import json
import os
import sys
sys.dont_write_bytecode = True
sys.path.insert(0, os.path.dirname(os.path.abspath(__file__)))
import proto  # noqa: E402
from impl import trees, transform, treeinput, treeoutput, grammar, grammaroutput, quiet  # noqa: E402
import gram  # noqa: E402


SHARED = {}


def run(call, scratch):
    op = call["op"]
    try:
        if op in ("substitute_terminals", "insert_terminals"):
            fn = os.path.join(scratch, call["file"])
            if not os.path.exists(fn) or open(fn, encoding="utf-8").read() != call["content"]:
                with open(fn, "w", encoding="utf-8") as f:
                    f.write(call["content"])
            t = proto.dec_tree(call["tree"])
            t.data['sid'] = call["sid"]
            params = {"terminalfile": fn}
            if call.get("quiet"):
                params["quiet"] = True
            with quiet():
                r = getattr(transform, op)(t, **params)
            return proto.enc_tree_checked(r)
        if op == "transform":
            t = proto.dec_tree(call["tree"])
            t.data['sid'] = call.get("sid", 1)
            with quiet():
                r = getattr(transform, call["name"])(t, **call.get("params", {}))
            return "NONE" if r is None else proto.enc_tree_checked(r)
        if op == "read":
            fn = os.path.join(scratch, "read_%s" % call["fmt"])
            with open(fn, "w", encoding="utf-8") as f:
                f.write(call["text"])
            with quiet():
                got = list(getattr(treeinput, call["fmt"])(fn, "utf-8", quiet=True, **call.get("opts", {})))
            return "EMPTY" if not got else "|".join("%d:%s" % (t.data['sid'], proto.enc_tree(t, canon=True)) for t in got)
        if op == "write":
            t = proto.dec_tree(call["tree"])
            t.data['sid'] = call.get("sid", 1)
            s = io.StringIO()
            with quiet():
                getattr(treeoutput, call["fmt"])(t, s, **call.get("opts", {}))
            return s.getvalue()
        if op == "grammar":
            ts = [proto.dec_tree(x) for x in call["trees"]]
            g, lex = {}, {}
            with quiet():
                for t in ts:
                    grammar.extract(t, g, lex)
                if call.get("mode") and call["mode"] != "treebank":
                    args = {"reordering": grammar.reordering_optimal if call["mode"] == "optimal" else grammar.reordering_none}
                    if call.get("markov"):
                        # "markov_key": the caller passes the SAME options object to every call of that key
                        key = call.get("markov_key")
                        if key:
                            key = key + json.dumps(call["markov"], sort_keys=True)   # same object only for equal settings
                        args["markov_opts"] = SHARED.setdefault(key, dict(call["markov"])) if key else call["markov"]
                    g = grammar.binarize(g, **args)
                dest = os.path.join(scratch, "g")
                out = []
                for _ in range(call.get("times", 1)):
                    getattr(grammaroutput, call["fmt"])(g, lex, dest, "utf-8", **call.get("opts", {}))
                    for ext in (".rcg", ".pmcfg", ".lex", ".gram", ".start", ".oc", ".OC"):
                        p = dest + ext
                        if os.path.exists(p):
                            lines = gram.file_lines(p)
                            if ext in (".start", ".oc", ".OC", ".lex"):
                                lines = sorted(lines)
                            out.append(ext + ":" + "\n".join(lines))
                            os.remove(p)
            return "\n".join(out)
        return "UNKNOWN-OP"
    except Exception as e:
        return proto.err_name(e)


def main():
    import tempfile
    import shutil
    calls = json.load(sys.stdin)
    scratch = tempfile.mkdtemp(prefix="ttfresh_")
    try:
        print(json.dumps([run(c, scratch) for c in calls]))
    finally:
        shutil.rmtree(scratch, ignore_errors=True)


if __name__ == "__main__":
    main()
