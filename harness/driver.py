"""Run the Lean model driver over a batch of protocol lines."""
import os
import subprocess

VERIF = os.path.dirname(os.path.dirname(os.path.abspath(__file__)))
LEAN_DIR = os.path.join(VERIF, "lean")
EXE = os.path.join(LEAN_DIR, ".lake", "build", "bin", "ttdriver")


def run_lines(lines):
    """lines: list of str (no newline). Returns list of output lines (same length)."""
    if not lines:
        return []
    data = ("\n".join(lines) + "\n").encode("utf-8")
    proc = subprocess.run([EXE], input=data, stdout=subprocess.PIPE, stderr=subprocess.PIPE,
                          cwd=LEAN_DIR)
    if proc.returncode != 0:
        raise RuntimeError("driver failed (%d): %s" % (proc.returncode, proc.stderr.decode()[-2000:]))
    out = proc.stdout.decode("utf-8").split("\n")
    if out and out[-1] == "":
        out.pop()
    if len(out) != len(lines):
        raise RuntimeError("driver returned %d lines for %d ops" % (len(out), len(lines)))
    return out
