"""Random and exhaustive tree generators.  Trees are built through the tree API only."""
import itertools
from impl import trees, mk_leaf, mk_node

LABELS = ["S", "VP", "NP", "PP", "AP", "CS", "AVP", "SBAR", "X", "NP-SBJ", "NP-SBJ-1", "VP=2", "CNP",
          "S-12", "NP-SBJ-10", "VP=23", "NP-LOC=11-3",      # indices of more than one digit
          "NP-1'", "NP-SBJ-1'", "VP'", "S=2'", "NP-SBJ=3-14'"]  # a head marker comes after the indices
PLAIN_LABELS = ["S", "VP", "NP", "PP", "AP", "CS", "AVP", "SBAR", "X", "CNP", "VZ"]
POS = ["NN", "VVFIN", "ART", "ADJA", "APPR", "ADV", "NE", "VAFIN", "KON", "PPER", "VVPP", "PRELS"]
EDGES = ["HD", "NK", "SB", "OA", "MO", "--", "OC", "-", "CJ"]
WORDS = ["der", "Hund", "bellt", "laut", "a", "b", "x<y", "R&D", "\"q\"", "it's", "(paren", "brk]",
         "straße", "été", "sevench", "eightchr", "fifteen_chars__", "sixteen_chars___",
         "w1", "w2", "w3", "Haus", "groß", "1990", "A-B", "x=y",
         # text that spells an XML entity or character reference: it is data, not markup
         "R&amp;D", "&lt;", "&#228;", "&amp;amp;", "&quot;x", "&#x41;",
         # words that look like numbers, like node references without the '#', or like keywords of the formats and options
         "0", "12", "500", "-1", "007", "None", "True", "rest", "VROOT", "TOP", "EMPTY",
         # words made of the letters that occur in the names of the bracket tokens (-LRB-, -RSB-, -LCB-), with and without punctuation characters
         "BBC", "CBS", "LLC", "S.", "B/C", "LRB", "-L-",
         # typographic punctuation that is NOT in the tool's inventories: ordinary tokens as far as the properties go
         "\u201e", "\u201c", "\u00ab", "\u2013", "\u2026", "\u00bb"]
PUNCT_WORDS = [",", ".", "\"", "'", "(", ")", "``", "''", ";", ":", "-", "--", "?", "!", "/", "...",
               "[", "]", "-LRB-", "-RRB-", "`", "{", "}"]
PUNCT_POS = {",": "$,", ".": "$.", "\"": "$(", "(": "$(", ")": "$("}


class Cfg(object):
    def __init__(self, **kw):
        self.n_min = 1
        self.n_max = 9
        self.disc = True          # allow discontinuous merges
        self.p_disc = 0.35
        self.p_unary = 0.15
        self.p_punct = 0.15
        self.p_root_direct = 0.3  # leave material directly under the root
        self.labels = LABELS
        self.edges = EDGES
        self.none_fields = True   # lemma/morph/edge may be None
        self.shuffle = True
        self.max_arity = 4
        self.words = WORDS
        self.punct_words = PUNCT_WORDS
        self.root_label = "VROOT"
        self.wrap_all = False     # root has exactly one constituent child spanning everything
        self.large = True         # occasionally 13..45 tokens
        self.pos = POS
        self.__dict__.update(kw)


def _leftmost(node):
    return min(t.data['num'] for t in trees.unordered_terminals(node))


def gen_tree(rng, cfg=None, n=None):
    cfg = cfg or Cfg()
    wide = 0
    if n is None:
        n = rng.randint(cfg.n_min, cfg.n_max)
        # now and then a long sentence: token numbers of two digits, many siblings, deep nesting
        if cfg.large and cfg.n_max >= 6 and rng.random() < 0.03:
            n = rng.randint(13, 45)
            wide = rng.choice([0, 0, 9, 13])
    items = []
    for i in range(1, n + 1):
        if rng.random() < cfg.p_punct:
            w = rng.choice(cfg.punct_words)
            pos = PUNCT_POS.get(w, "$(")
        else:
            w = rng.choice(cfg.words)
            pos = rng.choice(cfg.pos)
        lemma = morph = "--"
        edge = rng.choice(cfg.edges)
        if cfg.none_fields:
            r = rng.random()
            if r < 0.15:
                lemma = None
            elif r < 0.3:
                lemma = w.lower() if w.lower() else "--"
            r = rng.random()
            if r < 0.15:
                morph = None
            elif r < 0.3:
                morph = rng.choice(["Nom.Sg.Masc", "3.Sg.Pres.Ind", "Pos"])
            if rng.random() < 0.1:
                edge = None
        items.append(mk_leaf(i, pos, w, lemma, morph, edge))
    # unary nodes above tokens
    for i in range(len(items)):
        if rng.random() < cfg.p_unary:
            items[i] = _mk(rng, cfg, [items[i]])
    # bottom-up merging
    target = 1 if cfg.wrap_all else (1 if rng.random() > cfg.p_root_direct else rng.randint(1, max(1, min(4, len(items)))))
    guard = 0
    while len(items) > target and guard < 200:
        guard += 1
        k = rng.randint(2, min(max(cfg.max_arity, wide), len(items)))
        items.sort(key=_leftmost)
        if cfg.disc and rng.random() < cfg.p_disc:
            idx = sorted(rng.sample(range(len(items)), k))
        else:
            start = rng.randint(0, len(items) - k)
            idx = list(range(start, start + k))
        group = [items[i] for i in idx]
        items = [it for i, it in enumerate(items) if i not in idx]
        node = _mk(rng, cfg, group)
        if rng.random() < cfg.p_unary:
            node = _mk(rng, cfg, [node])
        items.append(node)
    if cfg.shuffle:
        rng.shuffle(items)
    root = mk_node(cfg.root_label, items, edge="--", lemma="--", morph="--")
    if cfg.shuffle and rng.random() < 0.08:
        # the extreme of "child lists are stored in any order": every list right to left
        def rev(n):
            n.children.sort(key=_leftmost, reverse=True)
            for c in n.children:
                if c.children:
                    rev(c)
        rev(root)
    return root


def _mk(rng, cfg, group):
    group = list(group)
    if cfg.shuffle:
        rng.shuffle(group)
    edge = rng.choice(cfg.edges)
    lemma = morph = "--"
    if cfg.none_fields and rng.random() < 0.1:
        edge = None
    return mk_node(rng.choice(cfg.labels), group, edge=edge, lemma=lemma, morph=morph)


def set_partitions(seq):
    """all set partitions of seq (list), blocks in order of smallest element"""
    if not seq:
        yield []
        return
    first, rest = seq[0], seq[1:]
    for part in set_partitions(rest):
        yield [[first]] + part
        for i in range(len(part)):
            yield part[:i] + [[first] + part[i]] + part[i + 1:]


def all_shapes(n, max_count=None):
    """All unordered tree shapes over tokens 1..n without unary nodes except optional root:
    yields nested lists; a shape is a list of children, child = int (token) or list."""
    def build(tokens):
        # all ways to form ONE node-or-token covering exactly `tokens`
        if len(tokens) == 1:
            yield tokens[0]
            return
        for part in set_partitions(tokens):
            if len(part) < 2:
                continue
            for combo in itertools.product(*[list(build(b)) for b in part]):
                yield list(combo)
    count = 0
    toks = list(range(1, n + 1))
    # root children: any partition (also a single block -> root unary over a node / token)
    for part in set_partitions(toks):
        for combo in itertools.product(*[list(build(b)) for b in part]):
            yield list(combo)
            count += 1
            if max_count and count >= max_count:
                return


def shape_to_tree(shape, rng=None, labels=None, edges=None, words=None):
    labels = labels or ["A", "B", "C", "D"]
    cnt = [0]

    def mk(s):
        if isinstance(s, int):
            w = words[s - 1] if words else "w%d" % s
            e = rng.choice(edges) if (rng and edges) else "--"
            return mk_leaf(s, "T%d" % s, w, "--", "--", e)
        kids = [mk(c) for c in s]
        if rng:
            rng.shuffle(kids)
        cnt[0] += 1
        e = rng.choice(edges) if (rng and edges) else "--"
        lab = rng.choice(labels) if rng else labels[cnt[0] % len(labels)]
        return mk_node(lab, kids, edge=e, lemma="--", morph="--")
    kids = [mk(c) for c in shape]
    if rng:
        rng.shuffle(kids)
    return mk_node("VROOT", kids, edge="--", lemma="--", morph="--")
