"""Access to the implementation under test: /repo's working tree, imported in-process."""
import os
import sys
import io
import contextlib

REPO = os.environ.get("VERIF_REPO", "/repo")
if REPO not in sys.path:
    sys.path.insert(0, REPO)

from trees import trees, transform, treeinput, treeoutput, treeanalysis  # noqa: E402
from trees import grammar, grammaranalysis, grammarconst, grammarinput, grammaroutput  # noqa: E402
from trees import transitions, transitionoutput, transformconst, misc  # noqa: E402

assert os.path.realpath(trees.__file__).startswith(os.path.realpath(REPO) + os.sep), \
    "trees imported from %s, not from %s" % (trees.__file__, REPO)


@contextlib.contextmanager
def quiet():
    """swallow stdout/stderr chatter of the implementation; yields (out, err) buffers"""
    out, err = io.StringIO(), io.StringIO()
    with contextlib.redirect_stdout(out), contextlib.redirect_stderr(err):
        yield out, err


def mk_leaf(num, label, word, lemma=None, morph=None, edge=None):
    data = trees.make_node_data()
    data['label'] = label
    data['word'] = word
    data['lemma'] = lemma
    data['morph'] = morph
    data['edge'] = edge
    data['num'] = num
    return trees.Tree(data)


def mk_node(label, kids, edge=None, lemma=None, morph=None, word=None):
    data = trees.make_node_data()
    data['label'] = label
    data['edge'] = edge
    data['lemma'] = lemma
    data['morph'] = morph
    data['word'] = word
    node = trees.Tree(data)
    for k in kids:
        node.children.append(k)
        k.parent = node
    return node


def clone(node):
    """deep copy through the tree API (fresh ids), keeping storage order"""
    new = trees.Tree(node.data)
    for c in node.children:
        cc = clone(c)
        new.children.append(cc)
        cc.parent = new
    return new


def tag_uids(root):
    """give every node a unique data['uid'] (storage preorder) so that specifications can speak
    about node identity across a transformation"""
    cnt = [0]

    def go(n):
        n.data['uid'] = cnt[0]
        cnt[0] += 1
        for c in n.children:
            go(c)
    go(root)
    return root
