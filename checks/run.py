#!/venv/bin/python
"""checks/run.py Cxx [--tier quick|thorough] [--replay path]"""
import importlib
import os
import sys
import warnings
warnings.filterwarnings("ignore", category=SyntaxWarning)     # /repo's own docstrings contain '\S'
sys.dont_write_bytecode = True
os.environ["PYTHONDONTWRITEBYTECODE"] = "1"
HERE = os.path.dirname(os.path.abspath(__file__))
VERIF = os.path.dirname(HERE)
sys.path.insert(0, os.path.join(VERIF, "harness"))


def main():
    if len(sys.argv) < 2:
        print("usage: run.py Cxx [--tier quick|thorough] [--replay path]")
        return 2
    prop = sys.argv[1].upper()
    try:
        import core
        mod = importlib.import_module("props.%s" % prop.lower())
    except Exception as e:  # infrastructure problem, never a violation
        import traceback
        traceback.print_exc()
        print("infrastructure error: %s" % e)
        return 2
    try:
        return core.main(mod, sys.argv[2:])
    except Exception as e:
        import traceback
        traceback.print_exc()
        print("infrastructure error: %s" % e)
        return 2


if __name__ == "__main__":
    sys.exit(main())
