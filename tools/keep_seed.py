#!/usr/bin/env python3
"""keep a confirmed seeded change under /verif/seeded/<name>/ : patch.diff, demo.py, notes.md, meta.json.
usage: tools/keep_seed.py <outdir> <name> <property> [checks to run...]"""
import json
import os
import re
import shutil
import subprocess
import sys
VERIF = os.path.dirname(os.path.dirname(os.path.abspath(__file__)))
src, name, prop = sys.argv[1:4]
checks = sys.argv[4:] or [prop]
dst = os.path.join(VERIF, "seeded", name)
os.makedirs(dst, exist_ok=True)
for f in ("patch.diff", "demo.py", "notes.md"):
    if os.path.exists(os.path.join(src, f)):
        shutil.copy(os.path.join(src, f), os.path.join(dst, f))
r = subprocess.run([os.path.join(VERIF, "tools", "try_seed.py"), dst] + checks, capture_output=True, text=True, cwd=VERIF)
out = r.stdout
print(out)
suite = re.search(r"test suite with the change: (.*)", out)
d1 = re.search(r"demo with the change: exit (\d+)", out)
d0 = re.search(r"demo on the clean tree: exit (\d+)", out)
caught = re.search(r"CAUGHT BY: (.*)", out)
per = {m.group(1): {"exit": int(m.group(2)), "violation_lines": m.group(3).strip()} for m in re.finditer(r"^(C\d\d) exit=(\d+) ?(.*)$", out, re.M)}
notes = open(os.path.join(dst, "notes.md")).read() if os.path.exists(os.path.join(dst, "notes.md")) else ""
meta = {
    "property": prop,
    "origin": "written by a sub-agent that saw only the property text and a scratch worktree of /repo (nothing from /verif)",
    "needs_to_manifest": notes[:1500],
    "confirmed": {
        "existing_suite_with_change": suite.group(1) if suite else None,
        "demo_exit_with_change": int(d1.group(1)) if d1 else None,
        "demo_exit_on_clean_tree": int(d0.group(1)) if d0 else None,
        "how": "git -C /repo apply patch.diff ; pytest ; demo.py /repo ; checks/run.py <id> --tier quick (VERIF_SEED=0) ; git -C /repo checkout -- . ; demo.py /repo",
    },
    "checks_run": per,
    "caught_by": caught.group(1).split() if caught and caught.group(1) != "nothing" else [],
}
json.dump(meta, open(os.path.join(dst, "meta.json"), "w"), indent=1)
print("kept", dst, "caught by", meta["caught_by"])
