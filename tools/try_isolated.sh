#!/bin/sh
# usage: tools/try_isolated.sh <dir with patch.diff> <scratch dir> Cxx [Cyy ...]
# applies the patch in a scratch worktree of /repo, runs the named checks from a scratch copy of the COMMITTED /verif
# against it and leaves both (and the replay files) in <scratch dir> for inspection.  Remove with:
#   git -C /repo worktree remove --force <scratch>/repo ; rm -rf <scratch>
P=$(realpath "$1"); S=$2; shift 2
mkdir -p "$S/verif" || exit 2
git -C /repo worktree add --detach "$S/repo" HEAD >/dev/null 2>&1 || exit 2
git -C "$S/repo" apply "$P/patch.diff" || exit 2
V=/verif
if [ -n "$ISO_WT" ]; then   # the working tree of /verif instead of its last commit
  rsync -a --exclude .git --exclude seeded --exclude benign --exclude evidence/replays --exclude lean/Scratch $V/ "$S/verif/"
else
  git -C $V archive HEAD -- . ':!seeded' ':!benign' | tar -x -C "$S/verif"
  rsync -a $V/lean/.lake "$S/verif/lean/"
fi
cd "$S/verif" || exit 2
for c in "$@"; do
  VERIF_REPO="$S/repo" VERIF_NO_EVIDENCE=1 VERIF_SEED=${VERIF_SEED:-0} checks/run.py $c --tier quick | tail -4 | cut -c1-300
done
