#!/venv/bin/python
"""Which lines and branches of /repo/trees/*.py do the checks' generated inputs actually execute?

    tools/impl_coverage.py [C01 C02 ...] [--tier quick]

Runs every check under coverage.py (in-process calls and the `treetools` subprocesses alike), combines
the data and writes  coverage/impl_coverage.json  and  coverage/SUMMARY.md : per source file and per
function the executed / missing lines.  This is a measurement of GENERATOR QUALITY for the correspondence
check (it bounds what the tie between model and code can see); it decides no property.
Scratch data lives in a temporary directory that is removed at the end."""
import ast
import json
import os
import shutil
import subprocess
import sys
import tempfile
from concurrent.futures import ThreadPoolExecutor

VERIF = os.path.dirname(os.path.dirname(os.path.abspath(__file__)))
REPO = os.environ.get("VERIF_REPO", "/repo")
PY = "/venv/bin/python"


def functions(path):
    tree = ast.parse(open(path).read())
    out = []

    def walk(node, prefix):
        for ch in ast.iter_child_nodes(node):
            if isinstance(ch, (ast.FunctionDef, ast.AsyncFunctionDef)):
                out.append((prefix + ch.name, ch.lineno, ch.end_lineno))
                walk(ch, prefix + ch.name + ".")
            elif isinstance(ch, ast.ClassDef):
                walk(ch, prefix + ch.name + ".")
    walk(tree, "")
    return out


def main():
    args = [a for a in sys.argv[1:] if not a.startswith("--")]
    tier = "quick"
    if "--tier" in sys.argv:
        tier = sys.argv[sys.argv.index("--tier") + 1]
        args = [a for a in args if a != tier]
    props = args or ["C%02d" % i for i in range(1, 21)]
    scratch = tempfile.mkdtemp(prefix="ttcov_")
    try:
        def one(c):
            d = os.path.join(scratch, c)
            os.makedirs(d)
            env = dict(os.environ, VERIF_COVERAGE=d, VERIF_NO_EVIDENCE="1")
            r = subprocess.run([PY, "-m", "coverage", "run", "-p", "--branch", "--source", os.path.join(REPO, "trees"),
                                "--data-file", os.path.join(d, ".coverage"),
                                os.path.join(VERIF, "checks", "run.py"), c, "--tier", tier],
                               cwd=VERIF, env=env, stdout=subprocess.PIPE, stderr=subprocess.STDOUT)
            subprocess.run([PY, "-m", "coverage", "combine", "-q", "--data-file", os.path.join(d, ".coverage")], cwd=d,
                           stdout=subprocess.PIPE, stderr=subprocess.STDOUT)
            return c, r.returncode
        with ThreadPoolExecutor(max_workers=4) as ex:
            rcs = dict(ex.map(one, props))
        import coverage
        per = {}
        union = {}
        for c in props:
            f = os.path.join(scratch, c, ".coverage")
            if not os.path.exists(f):
                continue
            data = coverage.CoverageData(basename=f)
            data.read()
            for mf in data.measured_files():
                rel = os.path.relpath(mf, REPO)
                lines = set(data.lines(mf) or [])
                per.setdefault(c, {})[rel] = sorted(lines)
                union.setdefault(rel, set()).update(lines)
        report = {"tier": tier, "check_exit_codes": rcs, "files": {}}
        md = ["# Implementation coverage of the checks' generated inputs (%s tier)\n" % tier,
              "Lines of `/repo/trees/*.py` executed while the twenty checks run (in-process calls and `treetools`",
              "subprocesses).  Measured by `tools/impl_coverage.py`; a measurement of generator quality, not a proof.\n"]
        for fn in sorted(os.listdir(os.path.join(REPO, "trees"))):
            if not fn.endswith(".py"):
                continue
            path = os.path.join(REPO, "trees", fn)
            rel = "trees/" + fn
            cov = coverage.Coverage(data_file=None)
            try:
                _, stmts, _, _ = cov.analysis(path)[:4]
            except Exception:
                stmts = []
            stmts = set(stmts)
            hit = union.get(rel, set()) & stmts
            fr = {"statements": len(stmts), "executed": len(hit), "functions": {}}
            md.append("\n## %s  (%d of %d statements)\n" % (rel, len(hit), len(stmts)))
            md.append("| function | statements | executed | missing lines |")
            md.append("|---|---|---|---|")
            for name, a, b in functions(path):
                fs = sorted(x for x in stmts if a <= x <= b)
                # nested functions' lines belong to the inner function too; fine for a summary
                miss = [x for x in fs if x not in hit]
                fr["functions"][name] = {"first": a, "last": b, "statements": len(fs), "executed": len(fs) - len(miss), "missing": miss}
                md.append("| %s | %d | %d | %s |" % (name, len(fs), len(fs) - len(miss), " ".join(map(str, miss)) or "-"))
            report["files"][rel] = fr
        # branches: combine everything once more and let coverage.py list the arcs that were never taken
        allf = os.path.join(scratch, "all.coverage")
        subprocess.run([PY, "-m", "coverage", "combine", "-q", "--keep", "--data-file", allf] +
                       [os.path.join(scratch, c, ".coverage") for c in props if os.path.exists(os.path.join(scratch, c, ".coverage"))],
                       cwd=scratch, stdout=subprocess.PIPE, stderr=subprocess.STDOUT)
        jf = os.path.join(scratch, "all.json")
        subprocess.run([PY, "-m", "coverage", "json", "-q", "--data-file", allf, "-o", jf], cwd=REPO,
                       stdout=subprocess.PIPE, stderr=subprocess.STDOUT)
        if os.path.exists(jf):
            jd = json.load(open(jf))
            md.append("\n## Branches never taken (from -> to line; negative = function exit)\n")
            for fpath, fd in sorted(jd.get("files", {}).items()):
                mb = fd.get("missing_branches") or []
                rel = os.path.relpath(os.path.join(REPO, fpath), REPO) if not os.path.isabs(fpath) else os.path.relpath(fpath, REPO)
                report["files"].setdefault(rel, {})["missing_branches"] = mb
                if mb:
                    md.append("* %s: %s" % (rel, " ".join("%d->%d" % (a, b) for a, b in mb)))
        os.makedirs(os.path.join(VERIF, "coverage"), exist_ok=True)
        json.dump(report, open(os.path.join(VERIF, "coverage", "impl_coverage.json"), "w"), indent=1)
        open(os.path.join(VERIF, "coverage", "SUMMARY.md"), "w").write("\n".join(md) + "\n")
        tot = sum(f["statements"] for f in report["files"].values())
        ex = sum(f["executed"] for f in report["files"].values())
        print("executed %d of %d statements of /repo/trees; exit codes %s" % (ex, tot, rcs))
    finally:
        shutil.rmtree(scratch, ignore_errors=True)


if __name__ == "__main__":
    main()
