#!/usr/bin/env python3
"""keep a seeded change under /verif/seeded/<name>/ WITHOUT touching /repo (the checks are run later, in isolation, by
tools/refresh_parallel.py).  usage: tools/keep_isolated.py <outdir> <name> <property>"""
import json
import os
import shutil
import sys
VERIF = os.path.dirname(os.path.dirname(os.path.abspath(__file__)))
src, name, prop = sys.argv[1:4]
dst = os.path.join(VERIF, "seeded", name)
os.makedirs(dst, exist_ok=True)
for f in ("patch.diff", "demo.py", "notes.md"):
    if os.path.exists(os.path.join(src, f)):
        shutil.copy(os.path.join(src, f), os.path.join(dst, f))
notes = open(os.path.join(dst, "notes.md")).read() if os.path.exists(os.path.join(dst, "notes.md")) else ""
meta = {
    "property": prop,
    "origin": "written by a sub-agent that saw only the property text and a scratch worktree of /repo (nothing from /verif)",
    "needs_to_manifest": notes[:1500],
    "confirmed": {"how": "scratch worktree of /repo: git apply patch.diff ; pytest ; demo.py <worktree> ; checks/run.py <id> --tier quick "
                         "(VERIF_SEED=0, VERIF_REPO=<worktree>, from a scratch copy of /verif) ; demo.py on the clean worktree first"},
    "checks_run": {},
    "caught_by": [],
}
json.dump(meta, open(os.path.join(dst, "meta.json"), "w"), indent=1)
print("kept", dst)
