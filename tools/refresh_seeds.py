#!/usr/bin/env python3
"""re-run the checks against every kept seeded change and refresh meta.json (caught_by, checks_run).
usage: tools/refresh_seeds.py [--all-checks] [name ...]"""
import json
import os
import re
import subprocess
import sys
VERIF = os.path.dirname(os.path.dirname(os.path.abspath(__file__)))
names = [a for a in sys.argv[1:] if not a.startswith("--")] or sorted(os.listdir(os.path.join(VERIF, "seeded")))
allc = "--all-checks" in sys.argv
for name in names:
    d = os.path.join(VERIF, "seeded", name)
    if not os.path.isdir(d):
        continue
    meta = json.load(open(os.path.join(d, "meta.json")))
    props = ["C%02d" % i for i in range(1, 21)] if allc else [meta["property"]] + [c for c in meta.get("also_run", [])]
    r = subprocess.run([os.path.join(VERIF, "tools", "try_seed.py"), d] + props, capture_output=True, text=True, cwd=VERIF)
    out = r.stdout
    per = {m.group(1): {"exit": int(m.group(2)), "violation_lines": m.group(3).strip()} for m in re.finditer(r"^(C\d\d) exit=(\d+) ?(.*)$", out, re.M)}
    meta.setdefault("checks_run", {}).update(per)
    meta["caught_by"] = sorted(p for p, v in meta["checks_run"].items() if v["exit"] == 1)
    suite = re.search(r"test suite with the change: (.*)", out)
    d1 = re.search(r"demo with the change: exit (\d+)", out)
    d0 = re.search(r"demo on the clean tree: exit (\d+)", out)
    meta["confirmed"].update({"existing_suite_with_change": suite.group(1) if suite else None,
                              "demo_exit_with_change": int(d1.group(1)) if d1 else None,
                              "demo_exit_on_clean_tree": int(d0.group(1)) if d0 else None})
    json.dump(meta, open(os.path.join(d, "meta.json"), "w"), indent=1)
    print(name, "caught by", meta["caught_by"])
