#!/usr/bin/env python3
"""Re-run the checks against every kept seeded change in ISOLATION and in parallel, and refresh meta.json.

    tools/refresh_parallel.py [--workers 6] [--all-checks] [--benign] [--head] [name ...]

/repo and /verif themselves are not touched while this runs: every worker owns a scratch git worktree of /repo
(the change is applied there) and a scratch copy of /verif (the generated constants and the Lean build are per
copy), both under a temporary directory that is removed at the end.  The checks are pointed at the worktree
with VERIF_REPO.  With --benign the directories under benign/ are run instead (expected: no check fires)."""
import json
import os
import queue
import re
import shutil
import subprocess
import sys
import tempfile
import threading

VERIF = os.path.dirname(os.path.dirname(os.path.abspath(__file__)))
PY = "/venv/bin/python"


def sh(cmd, **kw):
    return subprocess.run(cmd, capture_output=True, text=True, **kw)


def main():
    argv = sys.argv[1:]
    workers = 6
    if "--workers" in argv:
        i = argv.index("--workers")
        workers = int(argv[i + 1])
        del argv[i:i + 2]
    only = None
    if "--only" in argv:            # --only C03,C18 : restrict the checks that are run (e.g. the ones whose harness changed)
        i = argv.index("--only")
        only = argv[i + 1].split(",")
        del argv[i:i + 2]
    allc = "--all-checks" in argv
    benign = "--benign" in argv
    from_head = "--head" in argv
    base = "benign" if benign else "seeded"
    names = [a for a in argv if not a.startswith("--")] or sorted(os.listdir(os.path.join(VERIF, base)))
    names = [n for n in names if os.path.isdir(os.path.join(VERIF, base, n))]
    scratch = tempfile.mkdtemp(prefix="ttrefresh_")
    q = queue.Queue()
    for n in names:
        q.put(n)
    lock = threading.Lock()
    wts = []

    def worker(k):
        wt = os.path.join(scratch, "repo%d" % k)
        vc = os.path.join(scratch, "verif%d" % k)
        with lock:          # git takes a lock on the repository: one at a time
            r = sh(["git", "-C", "/repo", "worktree", "add", "--detach", wt, "HEAD"])
            if r.returncode != 0:
                print("cannot create worktree:", r.stderr)
                return
            wts.append(wt)
        if from_head:
            # the committed state of /verif (work in progress in the working tree is left out); the Lean build cache is reused
            os.makedirs(vc)
            subprocess.run("git -C %s archive HEAD -- . ':!seeded' ':!benign' | tar -x -C %s" % (VERIF, vc), shell=True)
            sh(["rsync", "-a", os.path.join(VERIF, "lean", ".lake"), os.path.join(vc, "lean") + "/"])
        else:
            sh(["rsync", "-a", "--exclude", ".git", "--exclude", "seeded", "--exclude", "benign", "--exclude", "evidence/replays",
                "--exclude", "lean/Scratch", VERIF + "/", vc + "/"])
        env = dict(os.environ, VERIF_REPO=wt, VERIF_NO_EVIDENCE="1", PYTHONDONTWRITEBYTECODE="1")
        env.setdefault("VERIF_SEED", "0")
        while True:
            try:
                name = q.get_nowait()
            except queue.Empty:
                break
            d = os.path.join(VERIF, base, name)
            meta = json.load(open(os.path.join(d, "meta.json")))
            props = ["C%02d" % i for i in range(1, 21)] if (allc or benign) else [meta["property"]] + list(meta.get("also_run", []))
            if only:
                props = only
            sh(["git", "-C", wt, "checkout", "--", "."])
            sh(["git", "-C", wt, "clean", "-fdq"])
            demo = os.path.join(d, "demo.py")
            d0 = sh([PY, demo, wt]).returncode if os.path.exists(demo) else None
            r = sh(["git", "-C", wt, "apply", os.path.join(d, "patch.diff")])
            if r.returncode != 0:
                with lock:
                    print(name, "PATCH DOES NOT APPLY", r.stderr.strip()[:200])
                continue
            t = sh([PY, "-m", "pytest", "-q", "-p", "no:cacheprovider"], cwd=wt)
            suite = t.stdout.strip().split("\n")[-1] if t.stdout.strip() else "no output"
            d1 = sh([PY, demo, wt]).returncode if os.path.exists(demo) else None
            per = {}
            for p in props:
                c = sh([os.path.join(vc, "checks", "run.py"), p, "--tier", "quick"], cwd=vc, env=env)
                viol = [l for l in c.stdout.split("\n") if l.startswith("VIOLATION")]
                per[p] = {"exit": c.returncode, "violation_lines": "; ".join(viol[:2])}
            if benign:
                if only:
                    meta.setdefault("checks_run", {}).update(per)
                else:
                    meta["checks_run"] = per
                meta["alarms"] = sorted(p for p, v in meta["checks_run"].items() if v["exit"] != 0)
            else:
                meta.setdefault("checks_run", {}).update(per)
                meta["caught_by"] = sorted(p for p, v in meta["checks_run"].items() if v["exit"] == 1)
            meta.setdefault("confirmed", {}).update({"existing_suite_with_change": suite, "demo_exit_with_change": d1,
                                                     "demo_exit_on_clean_tree": d0})
            json.dump(meta, open(os.path.join(d, "meta.json"), "w"), indent=1)
            with lock:
                if benign:
                    print(name, "alarms:", meta["alarms"], "| suite:", suite, flush=True)
                else:
                    print(name, "caught by", meta["caught_by"], {p: v["exit"] for p, v in per.items()}, "| suite:", suite,
                          "| demo", d1, "/ clean", d0, flush=True)

    try:
        ths = [threading.Thread(target=worker, args=(k,)) for k in range(min(workers, len(names)))]
        for t in ths:
            t.start()
        for t in ths:
            t.join()
    finally:
        for wt in wts:
            sh(["git", "-C", "/repo", "worktree", "remove", "--force", wt])
        sh(["git", "-C", "/repo", "worktree", "prune"])
        shutil.rmtree(scratch, ignore_errors=True)


if __name__ == "__main__":
    main()
