#!/usr/bin/env python3
"""Apply a seeded change to /repo, run checks, undo it.  usage: tools/try_seed.py <seed dir or patch> [Cxx ...] [--tier quick]
Prints one line per check: exit code, VIOLATION lines."""
import os
import subprocess
import sys

VERIF = os.path.dirname(os.path.dirname(os.path.abspath(__file__)))


def main():
    args = [a for a in sys.argv[1:] if not a.startswith("--")]
    tier = "quick"
    for a in sys.argv[1:]:
        if a.startswith("--tier="):
            tier = a.split("=")[1]
    src = args[0]
    patch = src if src.endswith(".diff") else os.path.join(src, "patch.diff")
    props = args[1:] or ["C%02d" % i for i in range(1, 21)]
    st = subprocess.run(["git", "-C", "/repo", "status", "--porcelain", "--untracked-files=no"], capture_output=True, text=True).stdout
    if st.strip():
        print("/repo is not clean:", st)
        return 2
    r = subprocess.run(["git", "-C", "/repo", "apply", os.path.abspath(patch)], capture_output=True, text=True)
    if r.returncode != 0:
        print("patch does not apply:", r.stderr)
        return 2
    results = {}
    try:
        t = subprocess.run(["/venv/bin/python", "-m", "pytest", "-q", "-p", "no:cacheprovider"], cwd="/repo", capture_output=True, text=True)
        print("test suite with the change:", t.stdout.strip().split("\n")[-1])
        import glob
        for f in glob.glob("/repo/tempdest*"):          # the suite's own scratch files, left behind when one of its tests stops early
            os.remove(f)
        demo = os.path.join(os.path.dirname(os.path.abspath(patch)), "demo.py")
        if os.path.exists(demo):
            d = subprocess.run(["/venv/bin/python", demo, "/repo"], capture_output=True, text=True)
            print("demo with the change: exit", d.returncode)
        for p in props:
            env = dict(os.environ)
            env.setdefault("VERIF_SEED", "0")
            env["VERIF_NO_EVIDENCE"] = "1"   # evidence/<id>.json describes the unchanged tree only
            c = subprocess.run([os.path.join(VERIF, "checks", "run.py"), p, "--tier", tier], cwd=VERIF, capture_output=True, text=True, env=env)
            viol = [l for l in c.stdout.split("\n") if l.startswith("VIOLATION")]
            results[p] = (c.returncode, viol)
            print("%s exit=%d %s" % (p, c.returncode, "; ".join(viol[:2])))
    finally:
        subprocess.run(["git", "-C", "/repo", "checkout", "--", "."], check=True)
        # restore generated constants for the clean tree
        subprocess.run(["/venv/bin/python", os.path.join(VERIF, "tools", "gen_consts.py")], cwd=VERIF, capture_output=True)
    if os.path.exists(demo):
        d = subprocess.run(["/venv/bin/python", demo, "/repo"], capture_output=True, text=True)
        print("demo on the clean tree: exit", d.returncode)
    caught = [p for p, (rc, v) in results.items() if rc == 1]
    print("CAUGHT BY:", " ".join(caught) if caught else "nothing")
    return 0


if __name__ == "__main__":
    sys.exit(main())
