#!/bin/sh
# Build the framework from files on disk only (offline).  The model and the driver must build; each
# property's theorem module is built on its own so that a failure in one of them is reported by that
# property's check (as a broken proof obligation) and does not take the other checks down.
cd "$(dirname "$0")/.." || exit 2
PYTHONDONTWRITEBYTECODE=1 /venv/bin/python tools/gen_consts.py || exit 1
cd lean || exit 2
flock .build.lock lake build TT ttdriver || exit 1
for f in TT/Props/*.lean; do
  [ "$(basename "$f")" = "All.lean" ] && continue
  m="TT.Props.$(basename "$f" .lean)"
  flock .build.lock lake build "$m" >/dev/null 2>&1 || echo "setup: $m does not build (its check will report it)"
done
exit 0
