#!/usr/bin/env python3
"""regenerate the catch matrix of DESIGN.md section 9 from seeded/*/meta.json and patch.diff
(between the markers <!-- MATRIX BEGIN --> and <!-- MATRIX END -->)."""
import json
import os
import re
VERIF = os.path.dirname(os.path.dirname(os.path.abspath(__file__)))
rows = []
for name in sorted(os.listdir(os.path.join(VERIF, "seeded"))):
    d = os.path.join(VERIF, "seeded", name)
    if not os.path.isdir(d):
        continue
    meta = json.load(open(os.path.join(d, "meta.json")))
    diff = open(os.path.join(d, "patch.diff")).read()
    files = sorted(set(re.findall(r"^\+\+\+ b/(\S+)", diff, re.M)))
    funcs = sorted(set(m for m in re.findall(r"^@@.*@@\s+(?:def|class)\s+(\w+)", diff, re.M)))
    title = ""
    notes = os.path.join(d, "notes.md")
    if os.path.exists(notes):
        title = open(notes).readline().strip("# \n")
        title = re.sub(r"^C\d\d\s*(seed(ed)?( change| bug)?)?\s*(\((second|third)[^)]*\))?\s*[:\-—–]*\s*", "", title, flags=re.I)[:110]
    hist = meta.get("history") or "caught at first run"
    caught = ", ".join(meta.get("caught_by", [])) or "NOT CAUGHT"
    rows.append("| %s | %s | %s | %s | %s | %s |" % (name, ", ".join(files), ", ".join(funcs) or "-", title.replace("|", "/"), caught, hist.replace("|", "/")))
table = ["| seeded change | file(s) | function(s) | what it does | caught by (quick) | history |", "|---|---|---|---|---|---|"] + rows
p = os.path.join(VERIF, "DESIGN.md")
s = open(p).read()
b, e = "<!-- MATRIX BEGIN -->", "<!-- MATRIX END -->"
assert b in s and e in s
s = s[:s.index(b) + len(b)] + "\n" + "\n".join(table) + "\n" + s[s.index(e):]
open(p, "w").write(s)
n = len(rows)
first = sum(1 for name in sorted(os.listdir(os.path.join(VERIF, "seeded"))) if os.path.isdir(os.path.join(VERIF, "seeded", name)) and not json.load(open(os.path.join(VERIF, "seeded", name, "meta.json"))).get("history"))
print("%d seeded changes, %d caught at first run" % (n, first))
