#!/usr/bin/env python3
"""Write MANIFEST.json from the property modules present under harness/props and tools/manifest_meta.json."""
import json
import os
import re
VERIF = os.path.dirname(os.path.dirname(os.path.abspath(__file__)))
meta = json.load(open(os.path.join(VERIF, "tools", "manifest_meta.json")))
props = [json.loads(l) for l in open(os.path.join(VERIF, "properties.jsonl"))]
checks, na = [], []
for p in props:
    pid = p["id"]
    m = meta["checks"].get(pid)
    propsf = os.path.join(VERIF, "lean", "TT", "Props", pid + ".lean")
    has_thm = os.path.exists(propsf) and re.search(r"^\s*theorem\s", open(propsf).read(), re.M)
    if m and has_thm and os.path.exists(os.path.join(VERIF, "harness", "props", pid.lower() + ".py")):
        checks.append({
            "property_id": pid,
            "quick_cmd": "checks/run.py %s --tier quick" % pid,
            "thorough_cmd": "checks/run.py %s --tier thorough" % pid,
            "evidence_file": "evidence/%s.json" % pid,
            "replay_cmd_template": "checks/run.py %s --replay {path}" % pid,
            "engine": "lean-model+correspondence",
            "level_claimed": {"category": "proof", "text": m["text"], "design_ref": m.get("design_ref", "DESIGN.md section 5 / %s" % pid)},
            "level_note": m["note"] + " " + meta["common_note"],
            "technique": m.get("technique", "Lean 4 theorems about a hand-written model + differential correspondence with /repo"),
        })
    else:
        na.append({"property_id": pid, "reason": meta["not_yet"].get(pid, "check not built yet in this round; no claim is made")})
manifest = {
    "version": 1,
    "setup_cmd": "sh tools/setup.sh",
    "hooks": {"guard": "VERIF_TREETOOLS", "enable": "no hooks: all observation is through public functions, files and the command line",
              "baseline_off_cmd": "cd /repo && /venv/bin/python -m pytest -q -p no:cacheprovider",
              "source_commits": [], "add_only": True},
    "engines": [{"name": "lean-model+correspondence", "path": "lean/ harness/ checks/run.py",
                 "serves_properties": [c["property_id"] for c in checks],
                 "kind_free_text": "Lean 4 model and theorems (lake build, #print axioms audit), Python differential harness driving /repo in-process and the compiled Lean driver over a line protocol"}],
    "checks": checks,
    "not_applicable": na,
    "notes": meta["notes"],
}
json.dump(manifest, open(os.path.join(VERIF, "MANIFEST.json"), "w"), indent=1)
print("MANIFEST.json: %d checks, %d not claimed" % (len(checks), len(na)))
