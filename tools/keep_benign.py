#!/usr/bin/env python3
"""keep a behaviour-preserving refactoring under /verif/benign/<name>/ and record what the checks say about it (they must
stay silent).  usage: tools/keep_benign.py <outdir> <name>"""
import json
import os
import re
import shutil
import subprocess
import sys
VERIF = os.path.dirname(os.path.dirname(os.path.abspath(__file__)))
src, name = sys.argv[1:3]
dst = os.path.join(VERIF, "benign", name)
os.makedirs(dst, exist_ok=True)
for f in ("patch.diff", "notes.md"):
    if os.path.exists(os.path.join(src, f)):
        shutil.copy(os.path.join(src, f), os.path.join(dst, f))
r = subprocess.run([os.path.join(VERIF, "tools", "try_seed.py"), dst], capture_output=True, text=True, cwd=VERIF)
out = r.stdout
print(out)
suite = re.search(r"test suite with the change: (.*)", out)
per = {m.group(1): {"exit": int(m.group(2)), "violation_lines": m.group(3).strip()} for m in re.finditer(r"^(C\d\d) exit=(\d+) ?(.*)$", out, re.M)}
diff = open(os.path.join(dst, "patch.diff")).read()
meta = {"kind": "behaviour-preserving refactoring written by a sub-agent (no access to /verif)",
        "lines_changed": sum(1 for l in diff.split("\n") if l[:1] in "+-" and l[:3] not in ("+++", "---")),
        "existing_suite_with_change": suite.group(1) if suite else None,
        "checks_run": per,
        "alarms": sorted(p for p, v in per.items() if v["exit"] != 0)}
json.dump(meta, open(os.path.join(dst, "meta.json"), "w"), indent=1)
print("kept", dst, "alarms:", meta["alarms"])
