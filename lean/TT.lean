import TT.Str
import TT.Tree
import TT.Label
import TT.Generated.Consts
import TT.Spec.Label
