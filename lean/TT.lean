import TT.Str
import TT.Tree
import TT.Label
import TT.Generated.Consts
import TT.Spec.Label
import TT.Nav
import TT.Spec.Nav
