import Driver.OpsAnalysis
import TT.Spec.Replay
import TT.TransSentence
namespace Driver
open TT TT.Tree TT.Spec

def encActs (l : List Action) : String := ",".intercalate (l.map fun a => encS a.toStr)
def decActs (s : String) : Option (List Action) :=
  if s == "" then some [] else (s.splitOn ",").mapM fun x => (decS x).bind parseAction

def runOpTrans (op : String) (args : List String) : String :=
  match op, args with
  | "topdown", [t] => withTree t fun t => match topdown t with | .ok l => encActs l | .error e => encErr e
  | "inorder", [t] => withTree t fun t => encActs (inorder t)
  | "gap", [t] => withTree t fun t => match gapOracle t with | .ok l => encActs l | .error e => encErr e
  | "plain_line", [pos, t, acts] => withTree t fun t =>
      match decActs acts with
      | some a => encS (plainLine (pos == "t") t a)
      | none => bad
  | "P.C10", [sys, t, acts] => withTree t fun t =>
      match decActs acts with
      | none => "FAIL unparsable-transition"
      | some a =>
        let r := match sys with
          | "topdown" => replayTopdown t a
          | "inorder" => replayInorder t a
          | _ => replayGap t a
        match r with
        | none => "FAIL replay-does-not-end-in-a-single-item"
        | some x => if agrees t x then "ok" else "FAIL replayed-tree-differs"
  | "P.C10.line", [pos, t, line] => withTree t fun t =>
      -- the written line: the token sequence (words, or tags on request) separated by single ASCII blanks, then " ||| "
      match decS line with
      | none => bad
      | some l =>
        let ls := String.ofList l
        match ls.splitOn " ||| " with
        | sent :: _ =>
          let want := t.terminals.map fun x => String.ofList (if pos == "t" then x.fields.label else x.fields.word.getD [])
          if sent.splitOn " " == want then "ok" else "FAIL written-sentence-is-not-the-token-sequence"
        | [] => "FAIL written-sentence-is-not-the-token-sequence"
  | "oracle_sentence", [t] => withTree t fun t =>
      -- what the oracles return beside the transitions: TT.oracleSentence (= Spec.sentenceOf, `oracleSentence_eq`)
      ",".intercalate ((oracleSentence t).map fun p => encOS p.1 ++ "/" ++ encS p.2)
  | "P.C10.sentence", [t, sent] => withTree t fun t =>
      let want := ",".intercalate (t.terminals.map fun l => encOS l.fields.word ++ "/" ++ encS l.fields.label)
      if sent == want then "ok" else "FAIL sentence"
  | _, _ => unknownOp

end Driver
