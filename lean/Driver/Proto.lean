/-
  Driver.Proto — line protocol: encoding of strings, options and trees.
  Strings travel as decimal code points joined by '.', "e" = empty, "n" = None.
  Trees travel in prefix notation, tokens separated by single spaces:
    L <num> <label> <word> <lemma> <morph> <edge> <head> <split> <hb> <bn> <uid>
    N <k>   <label> <word> <lemma> <morph> <edge> <head> <split> <hb> <bn> <uid>  child_1 .. child_k
-/
import TT.Label
namespace Driver
open TT

def encS (s : Str) : String :=
  if s.isEmpty then "e" else ".".intercalate (s.map (fun c => toString c.toNat))

def encOS : Option Str → String
  | none => "n"
  | some s => encS s

def decS (s : String) : Option Str :=
  if s = "e" then some []
  else (s.splitOn ".").mapM (fun d => d.toNat?.map Char.ofNat)

def decOS (s : String) : Option (Option Str) :=
  if s = "n" then some none else (decS s).map some

def encOB : Option Bool → String
  | none => "n" | some true => "t" | some false => "f"
def decOB (s : String) : Option (Option Bool) :=
  if s = "n" then some none else if s = "t" then some (some true)
  else if s = "f" then some (some false) else none
def encON : Option Nat → String
  | none => "n" | some k => toString k
def decON (s : String) : Option (Option Nat) :=
  if s = "n" then some none else s.toNat?.map some

def encFields (f : Fields) : String :=
  " ".intercalate [encS f.label, encOS f.word, encOS f.lemma, encOS f.morph, encOS f.edge,
    encOB f.head, encOB f.split, encOB f.headBlock, encON f.blockNumber, encON f.uid]

def decFields : List String → Option (Fields × List String)
  | l :: w :: le :: m :: e :: h :: sp :: hb :: bn :: ui :: rest => do
    let l ← decS l; let w ← decOS w; let le ← decOS le; let m ← decOS m; let e ← decOS e
    let h ← decOB h; let sp ← decOB sp; let hb ← decOB hb; let bn ← decON bn; let ui ← decON ui
    pure ({ label := l, word := w, lemma := le, morph := m, edge := e, head := h, split := sp,
            headBlock := hb, blockNumber := bn, uid := ui }, rest)
  | _ => none

partial def decTreeToks : List String → Option (Tree × List String)
  | "L" :: n :: rest => do
    let n ← n.toNat?
    let (f, rest) ← decFields rest
    pure (Tree.leaf n f, rest)
  | "N" :: k :: rest => do
    let k ← k.toNat?
    let (f, rest) ← decFields rest
    let rec go (k : Nat) (rest : List String) (acc : List Tree) : Option (List Tree × List String) :=
      match k with
      | 0 => some (acc.reverse, rest)
      | k + 1 => do
        let (t, rest) ← decTreeToks rest
        go k rest (t :: acc)
    let (ks, rest) ← go k rest []
    pure (Tree.node f ks, rest)
  | _ => none

def decTree (s : String) : Option Tree :=
  match decTreeToks (s.splitOn " ") with
  | some (t, []) => some t
  | _ => none

/-- canonical child order for output: by leftmost token, childless constituents last -/
def canonKey (t : Tree) : Nat :=
  match t.yield.head? with
  | some n => n
  | none => 1000000000

partial def encTreeWith (canon : Bool) : Tree → String
  | Tree.leaf n f => s!"L {n} {encFields f}"
  | Tree.node f ks =>
    let ks' := if canon then sortBy canonKey ks else ks
    " ".intercalate (s!"N {ks.length} {encFields f}" :: ks'.map (encTreeWith canon))

def encTree (t : Tree) : String := encTreeWith true t
def encTreeStorage (t : Tree) : String := encTreeWith false t

def encPath (p : Tree.Path) : String :=
  if p.isEmpty then "r" else "/".intercalate (p.map toString)
def decPath (s : String) : Option Tree.Path :=
  if s = "r" then some [] else (s.splitOn "/").mapM String.toNat?

def encErr (e : Err) : String := "ERR:" ++ e.toS

def encNats (l : List Nat) : String := ",".intercalate (l.map toString)
def decNats (s : String) : Option (List Nat) :=
  if s = "" then some [] else (s.splitOn ",").mapM String.toNat?

/-- option flags: comma separated `key` or `key=<encS value>` -/
def decOpts (s : String) : List (String × String) :=
  if s = "" || s = "-" then [] else
  (s.splitOn ",").map fun kv =>
    match kv.splitOn "=" with
    | [k, v] => (k, v)
    | _ => (kv, "")

def optHas (o : List (String × String)) (k : String) : Bool := o.any (·.1 = k)
def optStr (o : List (String × String)) (k : String) : Option Str :=
  match o.find? (·.1 = k) with
  | some (_, v) => decS v
  | none => none

def decOutOpts (s : String) : OutOpts :=
  let o := decOpts s
  { gf := optHas o "gf", gfSeparator := optStr o "gf_separator", gfTerminals := optHas o "gf_terminals",
    markHeads := optHas o "mark_heads_marking", splitMarking := optHas o "boyd_split_marking",
    splitNumbering := optHas o "boyd_split_numbering", emptyRoot := optHas o "brackets_emptyroot",
    skipDisco := optHas o "brackets_skipdisco", exportFour := optHas o "export_four",
    terminalsOne := optHas o "terminals_one", terminalsPos := optHas o "terminals_pos",
    posOnly := optHas o "pos_only" }

end Driver
