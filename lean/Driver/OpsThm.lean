import Driver.OpsTransform
import TT.Spec.Formats
import TT.IO.Read
import TT.Grammar.Output
import TT.Grammar.Extract
namespace Driver
open TT TT.Tree TT.Spec

/-- executable instances of theorem statements, used to test statements before proving them -/
def runOpThm (op : String) (args : List String) : String :=
  match op, args with
  | "thm", [name, t] => withTree t fun t =>
    let r : Bool := match name with
      | "uncollapse_collapse" => !(noCharInLabels '+' t) || Tree.beq (stripT (uncollapse (collapse t))) (stripT t)
      | "collapse_labels" => consLabels (collapse t) == collapsedLabels t
      | "collapse_no_unary" => !hasUnary (collapse t)
      | "unbinarize_binarize" =>
        (match binarize false t with
         | .ok t' => !(noAtLabels t) || Tree.beq (sortKids (unbinarize t')) (sortKids t)
         | .error _ => true)
      | "unbinarize_binarize_bare" =>
        (match binarize true t with
         | .ok t' => !(noAtLabels t) || Tree.beq (sortKids (unbinarize t')) (sortKids t)
         | .error _ => true)
      | "binarize_arity" => (match binarize false t with | .ok t' => maxArity t' ≤ 2 | .error _ => true)
      | "negra_oneHead" => oneHeadEach (negraMarkHeads t)
      | "negra_rule" => negraRuleOK (negraMarkHeads t)
      | "rules_oneHead_negra" => oneHeadEach (setHead false (rulesMarkAux Gen.HEAD_RULES_NEGRA t))
      | "rules_unique_negra" => uniqueListedOK Gen.HEAD_RULES_NEGRA (setHead false (rulesMarkAux Gen.HEAD_RULES_NEGRA t))
      | "rules_unique_ptb" => uniqueListedOK Gen.HEAD_RULES_PTB (setHead false (rulesMarkAux Gen.HEAD_RULES_PTB t))
      | "rootAttach_leaves" => (rootAttach t).leafNums.length == t.leafNums.length && WF (rootAttach t)
      | "rootAttach_parents" => !(uidsOK t) || parentsKept t (rootAttach t) (fun s => parentOfUid t (s.fields.uid.getD 0) == some t.fields.uid)
      | "rootAttach_content" => !(uidsOK t) || contentKept t (rootAttach t)
      | "verylow_post" => verylowPost (punctuationVerylow t) && WF (punctuationVerylow t)
      | "verylow_parents" => !(uidsOK t) || parentsKept t (punctuationVerylow t) (fun s => s.isLeaf && isPunctWord s)
      | "root_post" => rootPost (punctuationRoot t) && WF (punctuationRoot t)
      | "root_parents" => !(uidsOK t) || parentsKept t (punctuationRoot t) (fun s => s.isLeaf && isPunctWord s)
      | "sym_ok" => !(uidsOK t) || (symetrifyOK none t (punctuationSymetrify none t) && WF (punctuationSymetrify none t))
      | "sym_parents" => !(uidsOK t) || parentsKept t (punctuationSymetrify none t) (fun s => s.isLeaf && isPairPunctWord s)
      | "boyd_raise" =>
        (match boydSplit (negraMarkHeads t) with
         | .ok s => continuous (raising s) && sameSentence t (raising s) && bagEq (consLabels t) (consLabels (raising s))
                    && shape (raising s) == shape (contSpecRoot (negraMarkHeads t)) && splitOK (negraMarkHeads t) s
                    && (!(continuous t) || Tree.beq (sortKids (stripT (raising s))) (sortKids (stripT t)))
         | .error _ => false)
      | "raise_leaves" => (match boydSplit (negraMarkHeads t) with
         | .ok s => Tree.beqL (raising s).leaves s.leaves | .error _ => false)
      | "sibDistinct" => sibDistinct t
      | "own_brackets" =>
        if !(WF t && gapDegree t == 0 && BracketsOK t) then true else
        (match bracketsSub {} false t with
         | .ok s => (match readBrackets {} (s ++ ['\n']) with
            | .ok [(1, r)] => sameTree r (asReadBrackets t)
            | _ => false)
         | .error _ => false)
      | "own_export" =>
        let o : OutOpts := {}
        if !(WF t && ExportOK o t) then true else
        (match writeExport o 7 t with
         | .ok ls => (match readExport {} ((ls.map (· ++ ['\n'])).flatten) with
            | .ok [(7, r)] =>
              let strip := fun (x : Tree) => Tree.mapFields (fun s f => match s with | node _ _ => { f with word := none } | _ => f) x
              sameTree (strip r) (strip (carryExportRoot o t))
            | _ => false)
         | .error _ => false)
      | "dec_export" =>
        let o : OutOpts := { exportFour := true }
        if !(WF t && ExportOK o t) then true else
        (match writeExport o 7 t with
         | .ok ls => (match decExport true ls with
            | some s => s.sid == 7 && sameTree s.tree (carryExportRoot o t) && s.tokensFirst && s.numbersFrom500 && s.parentsResolve && s.childBelowParent
            | none => false)
         | .error _ => false)
      | "dec_tiger" =>
        if !(WF t) then true else
        (match decTiger (writeTiger 12 t) with
         | some s => strToNat? s.sid == some 12 && sameTree s.tree (carryTiger t)
         | none => false)
      | "rcg_lines" =>
        let (g, _) := extractAll [t]
        g.rules.all fun (f, l, c) => readRcgLine (rcgLine f l c) == some (f, l, c)
      | _ => false
    toString r
  | _, _ => unknownOp

end Driver
