import Driver.OpsNav
import TT.Spec.Transform
import TT.Transform.RootAttach
import TT.Transform.Misc
import TT.Transform.Traces
import TT.Transform.Slash
import TT.Spec.HeadRulesPinned
import TT.Spec.Pinned
import TT.Spec.RootAttachRef
import TT.Spec.More12d
import TT.Spec.Grammar
namespace Driver
open TT TT.Tree

/-- "name:key=val:flag" -/
structure TCall where
  name : String
  params : List (String × String)

def parseTCall (s : String) : TCall :=
  match s.splitOn ":" with
  | [] => { name := "", params := [] }
  | n :: ps => { name := n, params := ps.map fun kv => match kv.splitOn "=" with
      | [k, v] => (k, v) | _ => (kv, "") }

def TCall.has (c : TCall) (k : String) : Bool := c.params.any (·.1 == k)
def TCall.get (c : TCall) (k : String) : Option String := (c.params.find? (·.1 == k)).map (·.2)
def TCall.getS (c : TCall) (k : String) : Option Str := (c.get k).bind decS

/-- terminal-file requests "k,word,pos|k,word,pos" (pos may be "n") -/
def decReqs (s : String) : List (Nat × Str × Option Str) :=
  if s == "" then [] else
  (s.splitOn "|").filterMap fun r => match r.splitOn "," with
    | [k, w, p] => match k.toNat?, decS w, decOS p with
      | some k, some w, some p => some (k, w, p)
      | _, _, _ => none
    | _ => none

/-- apply one transformation of the model: error, dropped tree (`none`) or tree -/
def applyT (c : TCall) (t : Tree) : Except Err (Option Tree) :=
  match c.name with
  | "root_attach" => .ok (some (rootAttach t))
  | "negra_mark_heads" => .ok (some (negraMarkHeads t))
  | "mark_heads_by_rules" =>
    let preset := match c.get "mark_heads_preset" with
      | some "negra" => some Preset.negra | some "ptb" => some Preset.ptb
      | some _ => some Preset.other | none => none
    (markHeadsByRules preset (c.getS "mark_heads_rulefile") t).map some
  | "boyd_split" => (boydSplit t).map some
  | "raising" => .ok (some (raising t))
  | "add_topnode" => .ok (some (addTopnode t))
  | "punctuation_verylow" => .ok (some (punctuationVerylow t))
  | "punctuation_root" => .ok (some (punctuationRoot t))
  | "punctuation_symetrify" => .ok (some (punctuationSymetrify (c.getS "relc") t))
  | "punctuation_delete" => .ok (some (punctuationDelete t).1)
  | "binarize" => (binarize (c.has "bare_bin_labels") t).map some
  | "collapse_unary_chains" => .ok (some (collapse t))
  | "uncollapse_unary_chains" => .ok (some (uncollapse t))
  -- the requests are the lines of the terminal file for this sentence, in FILE order: the loader refuses a file that
  -- names an index twice (TT.parseTermFile), and the requests are applied in the order of their indices (TT.reqsFor)
  | "insert_terminals" =>
    let reqs := decReqs ((c.get "reqs").getD "")
    if !(reqs.map (·.1)).eraseDups.length == reqs.length then .error .valueError else
    .ok (some (insertTerminals ((sortBy (·.1) reqs).map fun (k, w, p) => (k, w, p.getD [])) t))
  | "substitute_terminals" =>
    let reqs := decReqs ((c.get "reqs").getD "")
    if !(reqs.map (·.1)).eraseDups.length == reqs.length then .error .valueError else
    .ok (some (substituteTerminals (sortBy (·.1) reqs) t))
  | "filter_by_length" =>
    let op := match c.get "filteroperator" with
      | some "lt" => FilterOp.lt | some "gt" => FilterOp.gt | some "eq" => FilterOp.eq | _ => FilterOp.other
    .ok (filterByLength op (((c.get "filtervalue").bind String.toNat?).getD 0) t)
  | "ptb_delete_traces" =>
    let keep := match c.get "keep" with
      | some k => (k.splitOn "!").filterMap decS
      | none => []
    -- `slash` as a flag: annotate for every trace label; `slash=A,B`: `params['slash'].split(',')`
    let slash : Option (List Str) := match c.get "slash" with
      | none => none
      | some "" => some []
      | some v => some ((v.splitOn ",").map String.toList)
    match ptbDeleteTracesSlash { keep := keep, keepall := c.has "keepall", keepcoindex := c.has "keepcoindex" } slash t with
    | .ok r => .ok (some r)
    | .error "ValueError" => .error .valueError
    | .error "IndexError" => .error .indexError
    | .error _ => .error .other
  | "delete_terminal" => .ok (some (deleteTerminal t (((c.get "k").bind String.toNat?).getD 0)))
  | _ => .error .other

def applySeq : List TCall → Tree → Except Err (Option Tree)
  | [], t => .ok (some t)
  | c :: cs, t =>
    match applyT c t with
    | .error e => .error e
    | .ok none => .ok none
    | .ok (some t') => applySeq cs t'

def encResult : Except Err (Option Tree) → String
  | .error e => encErr e
  | .ok none => "NONE"
  | .ok (some t) => encTree t

def okIf (b : Bool) (clause : String) : Option String := if b then none else some clause

/-- first failing clause -/
def firstFail (cs : List (Option String)) : String :=
  match cs.filterMap id with
  | [] => "ok"
  | c :: _ => "FAIL " ++ c

def consBag (t : Tree) : List Str := t.consLabels

/-- C04: well-formedness, sentence, label-bag law of one transformation -/
def predC04 (c : TCall) (a b : Tree) : String :=
  let common := [okIf (Spec.WF b) "not-well-formed",
                 okIf (a.leafNums.length == b.leafNums.length) "token-count"]
  let sent := okIf (Spec.sameSentence a b) "sentence-changed"
  let bag := fun (ex : List Str) => okIf (Spec.bagEqPlus (consBag b) (consBag a) ex) "label-bag"
  match c.name with
  | "add_topnode" => firstFail (common ++ [sent, bag ["TOP".toList]])
  | "boyd_split" => firstFail (common ++ [sent, okIf (Spec.splitOK a b) "one-node-per-block"])
  | "raising" =>
      let removed := (a.subtrees.filter fun s => removable s && s.fields.uid.isSome).map (·.fields.label)
      firstFail (common ++ [sent, okIf (Spec.bagEqPlus (consBag a) (consBag b) removed) "label-bag"])
  | "binarize" =>
      firstFail (common ++ [sent,
        okIf (Spec.bagEq ((consBag b).filter (fun l => l.head? != some '@')) (consBag a)) "label-bag",
        okIf (b.subtrees.all fun s => (s.fields.label.head? == some '@') → s.fields.uid.isNone) "at-node-not-fresh"])
  | "collapse_unary_chains" =>
      firstFail ([okIf (Spec.WFc b) "not-well-formed", okIf (a.leafNums.length == b.leafNums.length) "token-count",
        okIf (Spec.sameWords a b) "words-changed",
        okIf (Spec.bagEq (consBag b) (Spec.collapsedLabels a)) "label-bag"])
  | "uncollapse_unary_chains" => firstFail (common ++ [okIf (Spec.sameWords a b) "words-changed"])
  | _ => firstFail (common ++ [sent, bag []])

def runOpTransform (op : String) (args : List String) : String :=
  match op, args with
  | "apply", [calls, t] => withTree t fun t =>
      encResult (applySeq ((calls.splitOn ";").map parseTCall) t)
  | "punct_delete_lines", [t] => withTree t fun t =>
      ";".intercalate ((punctuationDelete t).2.map fun (n, w, l) => s!"{n},{encOS w},{encS l}")
  | "P.C04", [call, a, b] =>
    match decTree a, decTree b with
    | some a, some b => predC04 (parseTCall call) a b
    | _, _ => bad
  | "P.C04.seq", [a, b, collapsed] =>
    match decTree a, decTree b with
    | some a, some b => firstFail [okIf (if collapsed == "t" then Spec.WFc b else Spec.WF b) "not-well-formed",
        okIf (if collapsed == "t" then Spec.sameWords a b else Spec.sameSentence a b) "sentence-changed"]
    | _, _ => bad
  | "P.C05.pipe", [a, b] =>
    -- a: head-marked input (after optional root_attach), b: after boyd_split + raising
    match decTree a, decTree b with
    | some a, some b => firstFail [
        okIf (Spec.WF b) "not-well-formed",
        okIf (Spec.continuous b) "not-continuous",
        okIf (Spec.sameSentence a b) "sentence-changed",
        okIf (Spec.bagEq (consBag a) (consBag b)) "label-bag",
        okIf (Spec.shape b == Spec.shape (Spec.contSpecRoot a)) "differs-from-reference",
        okIf (!(Spec.continuous a) || Spec.shape a == Spec.shape b) "continuous-tree-changed"]
    | _, _ => bad
  | "P.C05.split", [a, b] =>
    match decTree a, decTree b with
    | some a, some b => firstFail [okIf (Spec.splitOK a b) "one-node-per-block",
        okIf (Spec.continuous b) "split-node-not-continuous"]
    | _, _ => bad
  | "P.C12", [a, b] =>
    match decTree a, decTree b with
    | some a, some b =>
      let rootUid := a.fields.uid
      firstFail [
        okIf (Spec.WF b) "not-well-formed",
        okIf (Spec.contentKept a b) "content-changed",
        okIf (Spec.parentsKept a b (fun s => Spec.parentOfUid a (s.fields.uid.getD 0) == some rootUid)) "non-root-child-moved",
        okIf (Spec.shape b == Spec.shape (rootAttach a)) "differs-from-reference",
        -- the set-based reference of the documented rule (parent maps and token sets only, TT/Spec/RootAttachRef.lean;
        -- `rootAttach_eq_ref` proves the model equal to it): every node of the output hangs where the reference says
        -- (the reference is cubic: sentences of more than 80 tokens are compared with the model only)
        okIf (a.leafNums.length > 80 || Spec.sameBag (Spec.parentMap none b) (Spec.rootAttachRef a)) "differs-from-set-based-reference"]
    | _, _ => bad
  | "P.C13", [call, a, b] =>
    match decTree a, decTree b with
    | some a, some b =>
      let c := parseTCall call
      let others := fun (free : Tree → Bool) => okIf (Spec.parentsKept a b free) "other-node-moved"
      match c.name with
      | "punctuation_verylow" => firstFail [okIf (Spec.WF b) "not-well-formed", okIf (Spec.contentKept a b) "content-changed",
          okIf (Spec.verylowPostT b) "punctuation-not-beside-left-neighbour",
          -- the sentence-initial token has no left neighbour and stays where it is (`verylow_parents'`)
          others (fun s => s.isLeaf && Spec.isPunctWordP s && s.num != a.leftmost)]
      | "punctuation_root" => firstFail [okIf (Spec.WF b) "not-well-formed", okIf (Spec.contentKept a b) "content-changed",
          okIf (Spec.rootPostP b) "punctuation-not-at-root",
          others (fun s => s.isLeaf && Spec.isPunctWordP s)]
      | "punctuation_symetrify" => firstFail [okIf (Spec.WF b) "not-well-formed", okIf (Spec.contentKept a b) "content-changed",
          okIf (Spec.symetrifyOKP (c.getS "relc") a b) "moved-token-not-paired",
          others (fun s => s.isLeaf && Spec.isPairPunctWordP s)]
      | _ => bad
    | _, _ => bad
  | "P.C15", [call, a, b] =>
    match decTree a, decTree b with
    | some a, some b =>
      let c := parseTCall call
      let base := [okIf (Spec.oneHeadEach b) "not-exactly-one-head", okIf (Spec.contentKept a b) "content-changed"]
      match c.name with
      | "negra_mark_heads" => firstFail (base ++ [okIf (Spec.negraRuleOK b) "negra-rule"])
      | "mark_heads_by_rules" =>
        let rules := match c.get "mark_heads_preset" with
          | some "negra" => Spec.PINNED_HEAD_RULES_NEGRA | some "ptb" => Spec.PINNED_HEAD_RULES_PTB | _ => []
        -- the specification's rule set is the pinned one, not the table regenerated from the code
        -- (the strict reading, without the escape for entries with an empty list: `presets_strict` proves it of the model)
        firstFail (base ++ [okIf (Spec.uniqueListedOK rules b) "unique-listed-child-not-head",
                            okIf (Spec.uniqueListedStrict rules b) "unique-listed-child-not-head-strict"])
      | _ => bad
    | _, _ => bad
  | "P.C14.binarize", [call, a, b] =>
    match decTree a, decTree b with
    | some a, some b =>
      let c := parseTCall call
      let p := parseLabel DEFAULT_GF_SEP
      firstFail [okIf (maxArity b ≤ 2) "arity-above-two",
        okIf (Spec.shape (unbinarize b) == Spec.shape a) "unbinarize-differs",
        okIf (Spec.contentKept a b) "content-changed",
        okIf (b.subtrees.all fun s => match s with
          | node f (_ :: _) => if f.uid.isNone then
              f.label.head? == some '@' else true
          | _ => true) "new-node-not-at",
        okIf (c.has "bare_bin_labels" → b.subtrees.all fun s => s.fields.uid.isSome || s.fields.label == ['@']) "not-bare",
        okIf (!(c.has "bare_bin_labels") → b.subtrees.all fun s => match s with
          | node f ks => ks.all fun k => if k.fields.uid.isNone && !k.isLeaf then
              k.fields.label == '@' :: (if f.label.head? == some '@' then f.label.drop 1
                else formatLabel false false { p f.label with coindex := [] }) else true
          | _ => true) "at-label"]
    | _, _ => bad
  | "P.C14.collapse", [a, b, c] =>
    -- a: input, b: collapsed, c: uncollapsed again
    match decTree a, decTree b, decTree c with
    | some a, some b, some c => firstFail [
        okIf (!hasUnary b) "unary-left",
        okIf (Spec.bagEq (consBag b) (Spec.collapsedLabels a)) "collapsed-labels",
        okIf (Spec.sameWords a b) "words-changed",
        okIf (Spec.skeleton c == Spec.skeleton a) "uncollapse-differs"]
    | _, _, _ => bad
  | "P.C04.words", [a, b, collapsed] =>
    -- the words (and, unless a chain was collapsed into the tags, the tags) of the sentence are unchanged, in order
    match decTree a, decTree b with
    | some a, some b => firstFail [okIf (if collapsed == "t" then Spec.sameWords a b else Spec.sameSentence a b) "sentence-changed"]
    | _, _ => bad
  | "P.post", [call, b] =>
    -- what must hold of the RESULT of `call` whatever came before it in a sequence: only post-conditions that are
    -- theorems for every well-formed input (verylow_post, root_post, collapse_no_unary, binarize_arity)
    match decTree b with
    | some b =>
      let c := parseTCall call
      match c.name with
      | "punctuation_verylow" => firstFail [okIf (Spec.WF b) "not-well-formed", okIf (Spec.verylowPostT b) "punctuation-not-beside-left-neighbour"]
      | "punctuation_root" => firstFail [okIf (Spec.WF b) "not-well-formed", okIf (Spec.rootPostP b) "punctuation-not-at-root"]
      | "collapse_unary_chains" => firstFail [okIf (Spec.WFc b) "not-well-formed", okIf (!hasUnary b) "unary-left"]
      | "binarize" => firstFail [okIf (Spec.WF b) "not-well-formed", okIf (maxArity b ≤ 2) "arity-above-two"]
      | _ => "ok"
    | none => bad
  | _, _ => unknownOp

end Driver
