import Driver.OpsGrammar
import TT.Spec.Formats
namespace Driver
open TT TT.Tree TT.Spec

def encExLines : Except Err (List Str) → String
  | .ok l => encLines l
  | .error e => encErr e

def runOpWrite (op : String) (args : List String) : String :=
  match op, args with
  | "write_export", [opts, sid, t] => withTree t fun t =>
      encExLines (writeExport (decOutOpts opts) (sid.toNat?.getD 0) t)
  | "write_brackets", [opts, t] => withTree t fun t =>
      match writeBrackets (decOutOpts opts) t with
      | .ok (some s) => encS s
      | .ok none => "SKIPPED"
      | .error e => encErr e
  | "write_discobrackets", [opts, t] => withTree t fun t =>
      match writeDisco (decOutOpts opts) t with | .ok s => encS s | .error e => encErr e
  | "write_terminals", [opts, t] => withTree t fun t =>
      match writeTerminals (decOutOpts opts) t with | .ok s => encS s | .error e => encErr e
  | "write_tigerxml", [sid, t] => withTree t fun t => encLines (writeTiger (sid.toNat?.getD 0) t)
  | "tiger_begin", [enc] => encLines (tigerBegin (if enc == "n" then none else decS enc))
  | "replace_parens", [s] => match decS s with | some s => encS (replaceParens s) | none => bad
  | "quoteattr", [s] => match decS s with | some s => encS (quoteattr s) | none => bad
  -- predicates: decode the implementation's output with the specification decoders -----------------
  | "P.C02.export", [opts, sid, t, out] => withTree t fun t =>
      let o := decOutOpts opts
      match decLines out with
      | none => bad
      | some lines =>
        match decExport o.exportFour lines with
        | none => "FAIL export-output-does-not-decode"
        | some s => firstFail [
            okIf (some s.sid == sid.toNat?) "sentence-id",
            okIf s.tokensFirst "tokens-not-first",
            okIf s.numbersFrom500 "constituents-not-numbered-uniquely-from-500",
            okIf s.parentsResolve "parent-reference-does-not-resolve",
            okIf s.childBelowParent "child-not-numbered-below-parent",
            okIf (sameTree s.tree (carryExportRoot o t)) "decoded-tree-differs"]
  | "P.C02.brackets", [opts, t, out] => withTree t fun t =>
      let o := decOutOpts opts
      match decS out with
      | none => bad
      | some line =>
        match decBrackets line with
        | none => "FAIL bracket-output-does-not-decode"
        | some d => firstFail [
            okIf (!(line.contains '\n')) "more-than-one-line",
            okIf (sameTree d (carryBrackets o true t)) "decoded-tree-differs",
            okIf (d.leaves.all fun l => !((l.fields.word.getD []).any fun c => c == '(' || c == ')')) "parenthesis-inside-token"]
  | "P.C02.refuse", [t, refused] => withTree t fun t =>
      if (refused == "t") == (t.subtrees.any fun s => !s.isLeaf && (Tree.blocksOf (sortBy id s.leafNums)).length > 1) then "ok"
      else "FAIL bracket-writer-guard"
  | "P.C02.disco", [opts, t, out] => withTree t fun t =>
      let o := decOutOpts opts
      match decS out with
      | none => bad
      | some line =>
        match decDisco line with
        | none => "FAIL discobracket-output-does-not-decode"
        | some d =>
          -- words come back from the sentence part unmapped; labels as in brackets
          let want := Tree.mapFields (fun s f => match s with
            | leaf n _ => { f with word := (t.findLeaf n).bind (·.fields.word) }
            | _ => f) (carryBrackets o true t)
          if sameTree d want then "ok" else "FAIL decoded-tree-differs"
  | "P.C02.terminals", [opts, t, out] => withTree t fun t =>
      let o := decOutOpts opts
      match decS out with
      | none => bad
      | some text =>
        let toks := t.terminals.map fun l =>
          if o.posOnly then l.fields.label
          else if o.terminalsPos then (l.fields.word.getD []) ++ (if o.terminalsOne then ['\t'] else ['/']) ++ l.fields.label
          else l.fields.word.getD []
        let got := if o.terminalsOne then (splitOnChar '\n' text) else (splitOnChar ' ' text)
        -- exactly the sentence, then the closing empty line
        if got == toks ++ (if o.terminalsOne then [[], []] else [['\n']]) then "ok" else "FAIL terminals-not-the-sentence"
  | "P.C02.tiger", [sid, t, out] => withTree t fun t =>
      match decLines out with
      | none => bad
      | some lines =>
        match decTiger lines with
        | none => "FAIL tigerxml-output-does-not-decode"
        | some s => firstFail [
            okIf (strToNat? s.sid == sid.toNat?) "sentence-id",
            okIf (lines.all rawAttrsOK) "unescaped-character-in-attribute",
            okIf (sameTree s.tree (carryTigerRoot t)) "decoded-tree-differs"]
  | _, _ => unknownOp

end Driver
