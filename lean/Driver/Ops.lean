import Driver.OpsProc
import Driver.OpsXml
import Driver.OpsIds
import Driver.OpsDir
namespace Driver

def runOp (op : String) (args : List String) : String :=
  let fs : List (String → List String → String) := [runOpLabel, runOpNav, runOpTransform, runOpThm, runOpEdit, runOpSplit, runOpAnalysis, runOpTrans, runOpGrammar, runOpWrite, runOpRead, runOpConvert, runOpProc, runOpDir, runOpXml, runOpIds]
  let rec go : List (String → List String → String) → String
    | [] => "UNKNOWN-OP " ++ op
    | f :: rest => let r := f op args; if r == unknownOp then go rest else r
  go fs

end Driver
