import Driver.OpsSplit
import TT.Analysis
import TT.Spec.More16d
namespace Driver
open TT TT.Tree

def decTrees (s : String) : Option (List Tree) :=
  if s == "" then some [] else (s.splitOn "|").mapM decTree

def encAssoc (l : List (Nat × Nat)) : String :=
  ",".intercalate ((sortBy (·.1) l).map fun (a, b) => s!"{a}:{b}")

def runOpAnalysis (op : String) (args : List String) : String :=
  match op, args with
  | "disco_order", [mode, t] => withTree t fun t =>
      match discoOrder (mode == "rightd") t with
      | .ok l => encNats l
      | .error e => encErr e
  | "gap_type_all", [t] => withTree t fun t =>
      ";".intercalate ((paths t).map fun p => match (t.get? p).map gapType with
        | some .none => "none" | some .pass => "pass" | some .source => "source" | none => "?")
  | "gap_stats", [ts] =>
    match decTrees ts with
    | some ts =>
      let s := ts.foldl GapStats.run {}
      s!"{GapStats.total s.perTree} {GapStats.total s.perNode} T {encAssoc s.perTree} N {encAssoc s.perNode}"
    | none => bad
  | "pos_tags", [ts] =>
    match decTrees ts with
    | some ts => toString (distinctCount (ts.foldl posTagsRun []))
    | none => bad
  | "P.C16.tags", [ts, out] =>
    -- out: "<tags collected> <different tags reported>" ('-' where not observed)
    match decTrees ts, out.splitOn " " with
    | some ts, [n, d] =>
      let tags := ts.flatMap fun t => t.terminals.map (·.fields.label)
      firstFail [okIf (n == "-" || n.toNat? == some (ts.map fun t => t.leafNums.length).sum) "one-tag-per-token",
        okIf (d == "-" || d.toNat? == some tags.eraseDups.length) "different-tags-of-the-file"]
    | _, _ => bad
  | "P.C16.node", [t, out] => withTree t fun t =>
      -- out: per storage path "b1|b2|..:deg" as returned by terminal_blocks / gap_degree_node
      let ps := paths t
      let outs := out.splitOn ";"
      if outs.length != ps.length then "FAIL arity" else
      firstFail ((ps.zip outs).map fun (p, o) =>
        match t.get? p, o.splitOn ":" with
        | some s, [bl, deg] =>
          let blocks := (bl.splitOn "|").map fun b => (decNats b).getD []
          let ys := sortBy id s.leafNums
          -- set-based: maximal runs of the sorted token positions
          let isRun := fun (b : List Nat) => (b.zip (b.drop 1)).all fun (x, y) => y == x + 1
          okIf (blocks.flatten == ys && blocks.all (fun b => !b.isEmpty && isRun b) &&
                ((blocks.zip (blocks.drop 1)).all fun (b, c) =>
                   (match b.getLast?, c.head? with | some x, some y => x + 1 < y | _, _ => false)) &&
                deg.toNat? == some (if s.isLeaf then 0 else blocks.length - 1))
            ("blocks-or-gap-degree-at-" ++ encPath p)
        | _, _ => some "bad-output")
  | "P.C16.tree", [t, deg] => withTree t fun t =>
      let degs := t.subtrees.map fun s => if s.isLeaf then 0 else (Tree.blocksOf (sortBy id s.leafNums)).length - 1
      if deg.toNat? == some (degs.foldl max 0) then "ok" else "FAIL tree-gap-degree-not-max"
  | "P.C16.notions", [t, deg, refused, cf] => withTree t fun t =>
      let d := t.gapDegree
      firstFail [okIf (deg.toNat? == some d) "gap-degree",
        okIf ((refused == "t") == (d > 0)) "bracket-writer-guard-disagrees",
        okIf ((cf == "t") == (d == 0)) "context-freeness-disagrees"]
  | "P.C16.disco", [t, left, rightd] => withTree t fun t =>
      match decNats left, decNats rightd with
      | some l, some r => firstFail [
          okIf (sortBy id l == t.yield) "left-not-a-permutation",
          okIf (sortBy id r == t.yield) "rightd-not-a-permutation",
          okIf (t.gapDegree > 0 || (l == t.yield && r == t.yield)) "not-identity-on-continuous-tree"]
      | _, _ => bad
  | "P.C16.stats", [ts, out] =>
    -- out: "<trees> <nodes> T d:c,.. N d:c,.."
    match decTrees ts, out.splitOn " " with
    | some ts, [nt, nn, "T", pt, "N", pn] =>
      let parse := fun (s : String) => if s == "" then [] else (s.splitOn ",").filterMap fun kv => match kv.splitOn ":" with
        | [a, b] => (match a.toNat?, b.toNat? with | some a, some b => some (a, b) | _, _ => none)
        | _ => none
      let pt := parse pt; let pn := parse pn
      let ncons := (ts.map fun t => (t.subtrees.filter fun s => !s.kids.isEmpty).length).sum
      firstFail [okIf (nt.toNat? == some ts.length) "tree-total",
        okIf (nn.toNat? == some ncons) "node-total",
        okIf ((pt.map (·.2)).sum == ts.length) "per-tree-counts-do-not-sum",
        okIf ((pn.map (·.2)).sum == ncons) "per-node-counts-do-not-sum",
        okIf (pt.all fun (d, c) => c == (ts.filter fun t => t.gapDegree == d).length) "per-tree-count-wrong",
        -- the named specification predicate (TT/Spec/More16d.lean; `gapStatsOK_model`): every degree that occurs is
        -- listed once with exactly the number of trees / constituents of that degree
        okIf (match nt.toNat?, nn.toNat? with
              | some a, some b => Spec.gapStatsOK ts a b pt pn
              | _, _ => false) "per-degree-count-wrong"]
    | _, _ => bad
  | _, _ => unknownOp

end Driver
