/-
  Driver.OpsIds — the node-id model of TT/ProcIds.lean (`stamp`, `CallX.read`, `runHistoryX`) on a history of reader
  calls, so that the harness (harness/idcases.py) can compare it with `Tree.newid` of the implementation.

    ids_history  fmt_1 opts_1 drawn_1 src_1  ...  fmt_k opts_k drawn_k src_k
      -> result_1 # ... # result_k # next=<counter after the history>
    result = ERR:<name> | EMPTY | sid:id,id,...|sid:id,id,...     (one entry per sentence; the ids of its nodes in
             preorder, children by leftmost token - the canonical order of `encTree`)

  `src_i` / `opts_i` are what `read_export` … take; `drawn_i` is the number of ids drawn by nodes the call created and did
  NOT deliver (an input of the model, `CallX.read`): all ids of a FAILING reader; for a reader that succeeds the ids of
  the sentences it skipped (TIGER-XML: several roots, a cycle, two incoming edges) = ids drawn by the call minus nodes
  delivered.  The model adds them after the delivered sentences of the call (`CallX.run`): the counter after every call
  is the implementation's; the blocks of delivered sentences BEHIND a skipped one inside the same call are lower than
  the implementation's by the skipped ids (harness/idcases.py compares those calls by block sizes + counter).  The counter after the history is read off a probe call appended to the history (a reader
  that delivers one single-node sentence): its node draws exactly `nextId`.
-/
import Driver.OpsProc
import TT.ProcIds
import TT.RunSrc
namespace Driver
open TT TT.Tree

/-- the ids of the nodes, preorder, children in the canonical output order of `encTree` -/
partial def uidsCanon : Tree → List String
  | Tree.leaf _ f => [encON f.uid]
  | Tree.node f ks => encON f.uid :: ((sortBy canonKey ks).map uidsCanon).flatten

/-- … in storage order (what `stamp` walks) -/
partial def uidsStorage : Tree → List String
  | Tree.leaf _ f => [encON f.uid]
  | Tree.node f ks => encON f.uid :: (ks.map uidsStorage).flatten

/-- the ids of a sentence in increasing order (which node has which id is forgotten, the block of ids is kept) -/
def uidsSorted (t : Tree) : List String :=
  let ns := (uidsStorage t).filterMap String.toNat?
  (sortBy id ns).map toString

def decIdCalls : List String → Option (List CallX)
  | [] => some []
  | fmt :: opts :: drawn :: src :: rest => do
    let s ← decSource fmt src
    let d ← drawn.toNat?
    let cs ← decIdCalls rest
    pure (CallX.read (readSrc (decInOpts opts) s) d :: cs)
  | _ => none

def encIdResult (walk : Tree → List String) : ResultX → String
  | .tree _ => "TREE"
  | .trees (.error _) => "ERR"   -- that the reader gave up, not the kind of exception (compared by C01 / C03)
  | .trees (.ok l) =>
    if l.isEmpty then "EMPTY" else "|".intercalate (l.map fun (sid, t) => s!"{sid}:" ++ ",".intercalate (walk t))

def runIdsHistory (walk : Tree → List String) (args : List String) : String :=
  match decIdCalls args with
  | none => bad
  | some cs =>
    let probe := CallX.read (.ok [(0, Tree.leaf 1 {})]) 0
    let rs := runHistoryX (fun _ => none) {} (cs ++ [probe])
    let next := match rs.getLast? with
      | some (.trees (.ok [(_, Tree.leaf _ f)])) => encON f.uid
      | _ => "?"
    " # ".intercalate ((rs.dropLast.map (encIdResult walk)) ++ ["next=" ++ next])

def runOpIds (op : String) (args : List String) : String :=
  match op with
  | "ids_history" => runIdsHistory uidsCanon args
  | "ids_history_storage" => runIdsHistory uidsStorage args
  | "ids_history_sorted" => runIdsHistory uidsSorted args
  | _ => unknownOp

end Driver
