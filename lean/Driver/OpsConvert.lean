import Driver.OpsRead
import TT.RunAnalysis
import TT.Run
import TT.RunSrc
import TT.RunCmd
namespace Driver
open TT TT.Tree TT.Spec

def destFmt? : String → Option DestFmt
  | "export" => some .export
  | "brackets" => some .brackets
  | "discobrackets" => some .discobrackets
  | "terminals" => some .terminals
  | "tigerxml" => some .tigerxml
  | _ => none

/-- `transform.run` (no split): the model is `TT.writeAll` / `TT.runFrom` (TT/Run.lean) -/
def writeAll (fmt : String) (o : OutOpts) (enc : Option Str) (ts : List (Nat × Tree)) : Except Err Str :=
  match destFmt? fmt with
  | some f => TT.writeAll f o enc ts
  | none => .error .other

def groupBy (start stop : Str → Bool) : List Str → List (List Str) → Option (List Str) → List (List Str)
  | [], acc, _ => acc.reverse
  | l :: rest, acc, none => if start l then (if stop l then groupBy start stop rest ([l] :: acc) none else groupBy start stop rest acc (some [l])) else groupBy start stop rest acc none
  | l :: rest, acc, some cur => if stop l then groupBy start stop rest ((l :: cur).reverse :: acc) none else groupBy start stop rest acc (some (l :: cur))

/-- decode a whole file written by one of the writers into (sid?, tree) per sentence -/
def decodeFile (fmt : String) (v4 : Bool) (lines : List Str) : Option (List (Option Nat × Tree)) :=
  match fmt with
  | "export" =>
    (groupBy (fun l => "#BOS".toList.isPrefixOf l) (fun l => "#EOS".toList.isPrefixOf l) lines [] none).mapM fun g =>
      (decExport v4 g).map fun s => (some s.sid, s.tree)
  | "brackets" => (lines.filter (· ≠ [])).mapM fun l => (decBrackets l).map fun t => (none, t)
  | "discobrackets" => (lines.filter (· ≠ [])).mapM fun l => (decDisco l).map fun t => (none, t)
  | "tigerxml" =>
    (groupBy (fun l => "<s ".toList.isPrefixOf l) (fun l => "</s>".toList.isPrefixOf l) lines [] none).mapM fun g =>
      (decTiger g).map fun s => (strToNat? s.sid, s.tree)
  | _ => none

/-- the source of a command: the text of the file, or the element structure of a TIGER-XML document -/
def decSource (srcfmt src : String) : Option Source :=
  match srcfmt with
  | "export" => (decS src).map .export
  | "brackets" => (decS src).map .brackets
  | "discobrackets" => (decS src).map .discobrackets
  | "tigerxml" => (decXSents src).map .tigerxml
  | _ => none

def encReport : Except Err AnalysisReport → String
  | .error e => encErr e
  | .ok (.gap nt nn pt pn) => s!"{nt} {nn} T {encAssoc pt} N {encAssoc pn}"
  | .ok (.tags n) => toString n
  | .ok (.sentences n) => toString n

def decWords (w : String) : Option (List Str) := if w == "" then some [] else (w.splitOn ",").mapM decS

def runOpConvert (op : String) (args : List String) : String :=
  match op, args with
  | "analysis_words", [task, srcfmt, words, src] =>
    -- as `analysis_src`, from the WORDS of `--src-opts` (TT.runAnalysisWords: options_dict, then what the readers make
    -- of the dict); OUTSIDE = a value of a kind the readers cannot use, not generated
    match decSource srcfmt src, analysisTask? task, decWords words with
    | some s, some tk, some ws => match TT.runAnalysisWords tk ws s with
      | some r => encReport r
      | none => "OUTSIDE"
    | _, _, _ => bad
  | "transitions_cmd", [srcfmt, words, sys, dwords, names, pwords, src] =>
    let sy : Option TransSys := match sys with
      | "topdown" => some .topdown | "inorder" => some .inorder | "gap" => some .gap | _ => none
    match decSource srcfmt src, sy, decWords words, decWords dwords, decWords names, decWords pwords with
    | some s, some sy, some ws, some dws, some ns, some pws =>
      match TT.runTransitionsCmd ns pws sy dws ws s with
      | some (.ok ls) => if ls.isEmpty then "EMPTY" else "|".intercalate (ls.map encS)
      | some (.error e) => encErr e
      | none => "OUTSIDE"
    | _, _, _, _, _, _ => bad
  | "grammar_cmd", [srcfmt, words, gramtype, mwords, destfmt, lig, src] =>
    -- `--markov` absent: "n"; given: its words
    let gt : Option GramType := match gramtype with
      | "treebank" => some .treebank | "leftright" => some .leftright | "optimal" => some .optimal | _ => none
    let mw : Option (Option (List Str)) := if mwords == "n" then some none else (decWords mwords).map some
    match decSource srcfmt src, gt, decWords words, mw with
    | some s, some gt, some ws, some mw =>
      match TT.runGrammarCmd gt mw ws s with
      | none => "OUTSIDE"
      | some (.error e) => encErr e
      | some (.ok (g, l)) =>
        let (a, b) := if destfmt == "pmcfg" then writePmcfg (lig == "t") g l else writeRcg (lig == "t") g l
        encLines a ++ " # " ++ (match b with | some b => encLines b | none => "none")
    | _, _, _, _ => bad
  | "split_cmd", [srcfmt, words, destfmt, dwords, enc, names, pwords, spec, src] =>
    -- `transform ... --split spec` from the words of the command line (TT.runSplitCmd): the text of every part
    match decSource srcfmt src, destFmt? destfmt, decWords words, decWords dwords, decWords names, decWords pwords, decS spec with
    | some s, some f, some ws, some dws, some ns, some pws, some sp =>
      match TT.runSplitCmd ns pws f dws (if enc == "n" then none else decS enc) sp ws s with
      | some (.ok parts) => if parts.isEmpty then "EMPTY" else "|".intercalate (parts.map encS)
      | some (.error e) => encErr e
      | none => "OUTSIDE"
    | _, _, _, _, _, _, _ => bad
  | "convert_cmd", [srcfmt, words, destfmt, dwords, enc, names, pwords, src] =>
    -- the whole `transform` command from the words of its command line: `--trans names --params pwords` (TT.runCmd:
    -- stepOf under ONE dict for all names), `--src-opts`, `--dest-opts`
    match decSource srcfmt src, destFmt? destfmt, decWords words, decWords dwords, decWords names, decWords pwords with
    | some s, some f, some ws, some dws, some ns, some pws =>
      match TT.runCmd ns pws f dws (if enc == "n" then none else decS enc) ws s with
      | some (.ok t) => encS t
      | some (.error e) => encErr e
      | none => "OUTSIDE"
    | _, _, _, _, _, _ => bad
  | "convert_words2", [srcfmt, words, destfmt, dwords, enc, calls, src] =>
    -- both option lists as words (TT.runWords2: outOptsOf for `--dest-opts`)
    match decSource srcfmt src, destFmt? destfmt, decWords words, decWords dwords with
    | some s, some f, some ws, some dws =>
      let cs := if calls == "" then [] else (calls.splitOn ";").map parseTCall
      match TT.runWords2 (cs.map fun c => applyT c) f dws (if enc == "n" then none else decS enc) ws s with
      | some (.ok t) => encS t
      | some (.error e) => encErr e
      | none => "OUTSIDE"
    | _, _, _, _ => bad
  | "convert_words", [srcfmt, words, destfmt, destopts, enc, src] =>
    match decSource srcfmt src, destFmt? destfmt, decWords words with
    | some s, some f, some ws =>
      match TT.runWords [] f (decOutOpts destopts) (if enc == "n" then none else decS enc) ws s with
      | some (.ok t) => encS t
      | some (.error e) => encErr e
      | none => "OUTSIDE"
    | _, _, _ => bad
  | "analysis_src", [task, srcfmt, srcopts, src] =>
    -- `treetools treeanalysis SRC TASK --src-format F --src-opts ...`: TT.runAnalysisSrc (TT/RunSrc.lean; theorems in
    -- TT/Props/C16Src.lean)
    match decSource srcfmt src, analysisTask? task with
    | some s, some tk => encReport (TT.runAnalysisSrc tk (decInOpts srcopts) s)
    | _, _ => bad
  | "transitions_src", [srcfmt, srcopts, sys, pos, calls, src] =>
    let cs := if calls == "" then [] else (calls.splitOn ";").map parseTCall
    let sy : Option TransSys := match sys with
      | "topdown" => some .topdown | "inorder" => some .inorder | "gap" => some .gap | _ => none
    match decSource srcfmt src, sy with
    | some s, some sy =>
      match TT.runTransitionsSrc (cs.map fun c => applyT c) sy (pos == "t") (decInOpts srcopts) s with
      | .ok ls => if ls.isEmpty then "EMPTY" else "|".intercalate (ls.map encS)
      | .error e => encErr e
    | _, _ => bad
  | "grammar_src", [srcfmt, srcopts, gramtype, markov, destfmt, lig, src] =>
    let gt : Option GramType := match gramtype with
      | "treebank" => some .treebank | "leftright" => some .leftright | "optimal" => some .optimal | _ => none
    match decSource srcfmt src, gt, decMarkov markov with
    | some s, some gt, some mo =>
      match TT.runGrammarSrc gt mo (decInOpts srcopts) s with
      | .error e => encErr e
      | .ok (g, l) =>
        let (a, b) := if destfmt == "pmcfg" then writePmcfg (lig == "t") g l else writeRcg (lig == "t") g l
        encLines a ++ " # " ++ (match b with | some b => encLines b | none => "none")
    | _, _, _ => bad
  | "analysis_cli", [task, src] =>
    -- the whole `treetools treeanalysis SRC TASK` on an export source: TT.runAnalysis (reader, the task's accumulator
    -- over the trees in file order, the numbers of the report; theorems in TT/Props/C16Run.lean), printed in the form the
    -- harness extracts from stdout
    match decS src, analysisTask? task with
    | some text, some tk =>
      match TT.runAnalysis tk text with
      | .error e => encErr e
      | .ok (.gap nt nn pt pn) => s!"{nt} {nn} T {encAssoc pt} N {encAssoc pn}"
      | .ok (.tags n) => toString n
      | .ok (.sentences n) => toString n
    | _, _ => bad
  | "convert", [srcfmt, srcopts, destfmt, destopts, enc, src] =>
    let io := decInOpts srcopts
    let trees : Option (Except Err (List (Nat × Tree))) := (decSource srcfmt src).map (readSrc io)
    match trees with
    | none => bad
    | some (.error e) => encErr e
    | some (.ok ts) => match writeAll destfmt (decOutOpts destopts) (if enc == "n" then none else decS enc) ts with
      | .ok s => encS s
      | .error e => encErr e
  | "convert_seq", [srcfmt, srcopts, destfmt, destopts, enc, calls, src] =>
    -- `treetools transform SRC DEST --trans c1 c2 ...`: every tree goes through the calls in the order given
    -- (each occurrence once); a tree for which a call returns None is not written
    let io := decInOpts srcopts
    let cs := if calls == "" then [] else (calls.splitOn ";").map parseTCall
    let trees : Option (Except Err (List (Nat × Tree))) := (decSource srcfmt src).map (readSrc io)
    match trees with
    | none => bad
    | some (.error e) => encErr e
    | some (.ok ts) =>
      match destFmt? destfmt with
      | none => bad
      | some f =>
        match TT.runFrom (cs.map fun c => applyT c) f (decOutOpts destopts) (if enc == "n" then none else decS enc) (.ok ts) with
        | .ok s => encS s
        | .error e => encErr e
  | "convert_split", [srcfmt, srcopts, destfmt, destopts, enc, calls, spec, src] =>
    -- `treetools transform SRC DEST --split spec ...`: the text of every part, in order (TT.runSplitFrom)
    let io := decInOpts srcopts
    let cs := if calls == "" then [] else (calls.splitOn ";").map parseTCall
    let trees : Option (Except Err (List (Nat × Tree))) := (decSource srcfmt src).map (readSrc io)
    match trees, destFmt? destfmt, decS spec with
    | some ts, some f, some sp =>
      match TT.runSplitFrom (cs.map fun c => applyT c) f (decOutOpts destopts) (if enc == "n" then none else decS enc) sp ts with
      | .ok parts => if parts.isEmpty then "EMPTY" else "|".intercalate (parts.map encS)
      | .error e => encErr e
    | _, _, _ => bad
  | "transitions_cli", [srcopts, sys, pos, calls, src] =>
    -- `treetools transitions SRC DEST sys --transform calls [--dest-opts pos]` on an export source: the lines written
    let cs := if calls == "" then [] else (calls.splitOn ";").map parseTCall
    let sy : Option TransSys := match sys with
      | "topdown" => some .topdown | "inorder" => some .inorder | "gap" => some .gap | _ => none
    match decS src, sy with
    | some text, some sy =>
      match TT.runTransitions (cs.map fun c => applyT c) sy (pos == "t") (readExport (decInOpts srcopts) text) with
      | .ok ls => if ls.isEmpty then "EMPTY" else "|".intercalate (ls.map encS)
      | .error e => encErr e
    | _, _ => bad
  | "grammar_cli", [srcopts, gramtype, markov, destfmt, lig, src] =>
    -- `treetools grammar SRC DEST gramtype [--markov ...] --dest-format rcg|pmcfg [--dest-opts lex_in_grammar]` on an export source
    let gt : Option GramType := match gramtype with
      | "treebank" => some .treebank | "leftright" => some .leftright | "optimal" => some .optimal | _ => none
    match decS src, gt, decMarkov markov with
    | some text, some gt, some mo =>
      match TT.runGrammarFrom gt mo (readExport (decInOpts srcopts) text) with
      | .error e => encErr e
      | .ok (g, l) =>
        let (a, b) := if destfmt == "pmcfg" then writePmcfg (lig == "t") g l else writeRcg (lig == "t") g l
        encLines a ++ " # " ++ (match b with | some b => encLines b | none => "none")
    | _, _, _ => bad
  | "P.C03", [srcfmt, destfmt, srcv4, destv4, src, dest] =>
    match decLines src, decLines dest with
    | some sl, some dl =>
      match decodeFile srcfmt (srcv4 == "t") sl with
      | none => "FAIL source-does-not-decode"
      | some strees =>
        if destfmt == "terminals" then
          let want := strees.map fun (_, t) => (t.terminals.map fun l => (l.fields.word.getD []) ++ [' ']).flatten
          if dl == want then "ok" else "FAIL terminals-not-the-sentences"
        else match decodeFile destfmt (destv4 == "t") dl with
          | none => "FAIL destination-does-not-decode"
          | some dtrees =>
            let o : OutOpts := { exportFour := destv4 == "t" }
            let carry := fun (t : Tree) => match destfmt with
              | "export" => carryExportRoot o t
              | "tigerxml" => carryTigerRoot t
              | _ => carryBrackets o true t
            let fixWords := fun (src d : Tree) => if destfmt == "discobrackets" then
                Tree.mapFields (fun s f => match s with | leaf n _ => { f with word := (src.findLeaf n).bind (·.fields.word) } | _ => f) d else d
            firstFail [
              okIf (dtrees.length == strees.length) "number-of-sentences",
              okIf ((strees.zip dtrees).all fun ((a, _), (b, _)) => a.isNone || b.isNone || a == b) "sentence-ids",
              okIf ((strees.zip dtrees).all fun ((_, s), (_, d)) =>
                  -- tigerxml keeps the explicit root's label; export and brackets name it VROOT / keep it
                  sameTree (normRoot d) (normRoot (fixWords s (carry s)))) "content-differs"]
    | _, _ => bad
  | _, _ => unknownOp
where
  normRoot (t : Tree) : Tree := match t with
    | node f ks => node { label := f.label } ks
    | x => x

end Driver
