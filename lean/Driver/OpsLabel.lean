import Driver.Proto
import TT.Spec.Label
namespace Driver
open TT

def labelToS (l : Label) : String :=
  " ".intercalate [encS l.label, encS l.gf, encS l.gfSep, encS l.coindex, encS l.gapindex,
    (if l.headmarker then "t" else "f"), (if l.isTrace then "t" else "f")]

def bad : String := "BAD-ARGS"
def unknownOp : String := "UNKNOWN-OP"

def runOpLabel (op : String) (args : List String) : String :=
  match op, args with
  | "echo_tree", [t] => match decTree t with | some t => encTree t | none => bad
  | "parse_label", [sep, s] =>
    match decS sep, decS s with
    | some sep, some s => labelToS (parseLabel sep s)
    | _, _ => bad
  | "format_parse", [sep, al, ag, s] =>
    match decS sep, decS s with
    | some sep, some s => encS (formatLabel (al = "t") (ag = "t") (parseLabel sep s))
    | _, _ => bad
  | "get_label", [opts, t] =>
    match decTree t with
    | some t => match getLabel (decOutOpts opts) t with
      | .ok s => encS s
      | .error e => encErr e
    | none => bad
  | "P.C20.roundtrip", [sep, al, ag, s, out] =>
    match decS sep, decS s, decS out with
    | some sep, some s, some out =>
      let p := Spec.decompose sep s
      if p.concat != s then "FAIL pieces-do-not-concatenate"
      else if out = Spec.render sep (al = "t") (ag = "t") p then "ok" else "FAIL roundtrip"
    | _, _, _ => bad
  | "P.C20.parts", [sep, s, lab] =>
    match decS sep, decS s, lab.splitOn " " with
    | some sep, some s, [l, gf, _gs, co, gap, hm, tr] =>
      match decS l, decS gf, decS co, decS gap with
      | some l, some gf, some co, some gap =>
        let p := Spec.decompose sep s
        if l.isEmpty || gf.isEmpty then "FAIL empty-part"
        else if !(co.isEmpty || pyIsDigit co) || !(gap.isEmpty || pyIsDigit gap) then "FAIL index-not-digits"
        else if (tr = "t") != isTraceLabel l then "FAIL trace-flag"
        else if (hm = "t") != !p.hmP.isEmpty then "FAIL headmark"
        else if co != p.coP.drop 1 || gap != p.gapP.drop 1 then "FAIL index-piece"
        else if l != (if p.cat.isEmpty then DEFAULT_LABEL else p.cat) then "FAIL category"
        else if gf != (if p.gfP.isEmpty then DEFAULT_EDGE else p.gfP.drop sep.length) then "FAIL function"
        else "ok"
      | _, _, _, _ => bad
    | _, _, _ => bad
  | "P.C20.erase", [sep, comp, s, out] =>
    match decS sep, decS s, decS out with
    | some sep, some s, some out =>
      let c := match comp with
        | "gapindex" => Spec.Comp.gap | "coindex" => Spec.Comp.co | "gf" => Spec.Comp.gf | _ => Spec.Comp.hm
      if out = Spec.render sep false false ((Spec.decompose sep s).erase c) then "ok" else "FAIL erase-" ++ comp
    | _, _, _ => bad
  | "P.C20.decor", [opts, t, out] =>
    match decTree t, decS out with
    | some t, some out =>
      if out = t.fields.label ++ Spec.decorations (decOutOpts opts) t then "ok" else "FAIL decorations"
    | _, _ => bad
  | _, _ => unknownOp

end Driver
