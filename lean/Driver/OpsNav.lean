import Driver.OpsLabel
import TT.Spec.Nav
import TT.Spec.More15d
import TT.Spec.More16d
namespace Driver
open TT TT.Tree

def encPaths (ps : List Path) : String := " ".intercalate (ps.map encPath)
def decPaths (s : String) : Option (List Path) :=
  if s = "" then some [] else (s.splitOn " ").mapM decPath
def encOPath : Option Path → String
  | none => "-" | some p => encPath p
def decOPath (s : String) : Option (Option Path) :=
  if s = "-" then some none else (decPath s).map some

def withTree (t : String) (k : Tree → String) : String :=
  match decTree t with | some t => k t | none => bad

def runOpNav (op : String) (args : List String) : String :=
  match op, args with
  | "wf", [t] => withTree t fun t => toString (Spec.WF t)
  | "children_all", [t] => withTree t fun t =>
      ";".intercalate ((paths t).map fun p => encNats (((t.get? p).map childOrder).getD []))
  | "terminals", [t] => withTree t fun t => encNats t.yield
  | "preorder", [t] => withTree t fun t => encPaths t.preorderP
  | "postorder", [t] => withTree t fun t => encPaths t.postorderP
  | "siblings", [t] => withTree t fun t =>
      ";".intercalate ((paths t).map fun p => encOPath (leftSibling t p) ++ "," ++ encOPath (rightSibling t p))
  | "dominance", [t] => withTree t fun t =>
      ";".intercalate ((paths t).map fun p => encPaths (dominancePaths p))
  | "lca_all", [t] => withTree t fun t =>
      let ps := paths t
      ";".intercalate (ps.flatMap fun p => ps.map fun q => encOPath (lca p q))
  | "levels", [t] => withTree t fun t =>
      ";".intercalate ((constituentsPre t).map fun (p, h, _) => encPath p ++ "=" ++ toString h)
  | "export_numbering", [t] => withTree t fun t =>
      ";".intercalate ((paths t).map fun p => encON (exportNum t p))
  | "blocks_all", [t] => withTree t fun t =>
      ";".intercalate ((paths t).map fun p => match t.get? p with
        | some s => "|".intercalate (s.blocks.map encNats) ++ ":" ++ toString s.gapDegreeNode
        | none => "?")
  | "gap_degree", [t] => withTree t fun t => toString t.gapDegree
  -- predicates on implementation output ------------------------------------------------------
  | "P.C19.children", [t, out] => withTree t fun t =>
      let outs := out.splitOn ";"
      let ps := paths t
      if outs.length != ps.length then "FAIL arity" else
      if (ps.zip outs).all (fun (p, o) => match t.get? p, decNats o with
          | some s, some ord => Spec.childrenOK s.kids ord
          | _, _ => false) then "ok" else "FAIL children-order"
  | "P.C19.terminals", [t, out] => withTree t fun t =>
      match decNats out with
      | some l => if l == List.range' 1 t.leafNums.length then "ok" else "FAIL terminals-order"
      | none => bad
  | "P.C19.preorder", [t, out] => withTree t fun t =>
      match decPaths out with
      | some ps => if Spec.preorderOK t ps then "ok" else "FAIL preorder"
      | none => bad
  | "P.C19.postorder", [t, out] => withTree t fun t =>
      match decPaths out with
      | some ps => if Spec.postorderOK t ps then "ok" else "FAIL postorder"
      | none => bad
  | "P.C19.siblings", [t, out] => withTree t fun t =>
      let ps := paths t
      let outs := (out.splitOn ";").map fun o => match o.splitOn "," with
        | [l, r] => ((decOPath l).getD none, (decOPath r).getD none)
        | _ => (none, none)
      if outs.length != ps.length then "FAIL arity" else
      -- the named specification predicate (TT/Spec/More15d.lean); `siblingsOK_model` proves it of the model
      if Spec.siblingsOK t ((ps.zip outs).map fun (p, l, r) => (p, l, r)) then "ok" else "FAIL siblings"
  | "P.C19.dominance", [t, out] => withTree t fun t =>
      let ps := paths t
      let outs := (out.splitOn ";").map decPaths
      if outs.length != ps.length then "FAIL arity" else
      -- the named specification predicate (TT/Spec/More16d.lean; `dominanceOK_model`, `dominanceOK_unique`)
      if outs.all (·.isSome) && Spec.dominanceOK t (ps.zip (outs.map (·.getD []))) then "ok" else "FAIL dominance"
  | "P.C19.lca", [t, out] => withTree t fun t =>
      let ps := paths t
      let pairs := ps.flatMap fun p => ps.map fun q => (p, q)
      let outs := (out.splitOn ";").map decOPath
      if outs.length != pairs.length then "FAIL arity" else
      if (pairs.zip outs).all (fun ((p, q), r) => match r with
          | some r => Spec.lcaOK p q r
          | none => false) then "ok" else "FAIL lca"
  | "P.C19.levels", [t, out] => withTree t fun t =>
      let ents := (out.splitOn ";").filter (· ≠ "")
      let cons := (paths t).filter fun p => match t.get? p with | some (node _ (_ :: _)) => true | _ => false
      if ents.length != cons.length then "FAIL levels-arity" else
      -- the named specification predicate (`levelsOK_model`): every constituent exactly once, with its level
      let rows := ents.map fun e => match e.splitOn "=" with
          | [p, h] => (match decPath p, h.toNat? with | some p, some h => some (p, h) | _, _ => none)
          | _ => none
      if rows.all (·.isSome) && Spec.levelsOK t (rows.filterMap id) then "ok" else "FAIL levels"
  | "P.C19.numbering", [t, out] => withTree t fun t =>
      let ps := paths t
      let outs := (out.splitOn ";").map decON
      if outs.length != ps.length then "FAIL arity" else
      -- the named specification predicate (TT/Spec/More16d.lean; `exportNumsOK_model`): tokens keep their numbers, the
      -- constituents are numbered 500.. level by level, left to right, above all their descendants
      if !(outs.all (·.isSome)) then "FAIL numbering-unreadable" else
      if Spec.exportNumsOK t (ps.zip (outs.map (·.getD none))) then "ok" else "FAIL numbering"
  | _, _ => unknownOp

end Driver
