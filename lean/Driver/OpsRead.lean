import Driver.OpsWrite
import TT.IO.Read
namespace Driver
open TT TT.Tree TT.Spec

def decInOpts (s : String) : InOpts :=
  let o := decOpts s
  { gfSplit := optHas o "gf_split", gfSeparator := optStr o "gf_separator", replaceParens := optHas o "replace_parens",
    emptyPos := optHas o "brackets_emptypos", firstId := (optStr o "brackets_firstid").bind strToNat?,
    continuous := optHas o "continuous", disco := optHas o "disco", discoReordered := optHas o "disco_reordered" }

def encSidTrees (l : List (Nat × Tree)) : String :=
  if l.isEmpty then "EMPTY" else "|".intercalate (l.map fun (sid, t) => s!"{sid}:" ++ encTree t)

def decSidTrees (s : String) : Option (List (Nat × Tree)) :=
  if s == "EMPTY" then some [] else (s.splitOn "|").mapM fun e =>
    match e.splitOn ":" with
    | [sid, t] => (do let sid ← sid.toNat?; let t ← decTree t; pure (sid, t))
    | _ => none

def encReadResult : Except Err (List (Nat × Tree)) → String
  | .ok l => encSidTrees l
  | .error e => encErr e

def decOSx (s : String) : Option Str := if s == "n" then none else decS s

/-- sentences "|", parts "^", items ";", fields "," ; edges "+" with label=idref -/
def decXSents (s : String) : Option (List XSent) :=
  if s == "" then some [] else (s.splitOn "|").mapM fun sent =>
    match sent.splitOn "^" with
    | [id, terms, nts] => (do
        let id ← decS id
        let terms ← (if terms == "" then some [] else (terms.splitOn ";").mapM fun t => match t.splitOn "," with
          | [i, w, p, m, l] => (do let i ← decS i; pure ({ id := i, word := decOSx w, pos := decOSx p, morph := decOSx m, lemma := decOSx l } : XTerm))
          | _ => none)
        let nts ← (if nts == "" then some [] else (nts.splitOn ";").mapM fun n => match n.splitOn "," with
          | [i, c, es] => (do
              let i ← decS i
              let es ← (if es == "" then some [] else (es.splitOn "+").mapM fun e => match e.splitOn "=" with
                | [l, r] => (do let r ← decS r; pure (decOSx l, r))
                | _ => none)
              pure ({ id := i, cat := decOSx c, edges := es } : XNt))
          | _ => none)
        pure ({ id := id, terms := terms, nts := nts } : XSent))
    | _ => none

mutual
/-- what a bracket reader must deliver for an abstract tree (labels and words only) under the options -/
def expectBr (o : InOpts) : Tree → Tree
  | leaf n f =>
    let (l, e) := if o.gfSplit then gfSplitLabel (o.gfSeparator.getD DEFAULT_GF_SEP) f.label else (f.label, DEFAULT_EDGE)
    let f' : Fields := { label := l, word := f.word, edge := some e, morph := some DEFAULT_MORPH }
    leaf n (if o.replaceParens then replaceParensFields f' else f')
  | node f ks =>
    if f.label.isEmpty then node { label := DEFAULT_ROOT } (expectBrL o ks)
    else
      let (l, e) := if o.gfSplit then gfSplitLabel (o.gfSeparator.getD DEFAULT_GF_SEP) f.label else (f.label, DEFAULT_EDGE)
      let f' : Fields := { label := l, edge := some e, morph := some DEFAULT_MORPH }
      node (if o.replaceParens then replaceParensFields f' else f') (expectBrL o ks)
def expectBrL (o : InOpts) : List Tree → List Tree
  | [] => []
  | t :: ts => expectBr o t :: expectBrL o ts
end

mutual
/-- export / TIGER-XML carry all five fields; the options act on label and edge -/
def expectFull (o : InOpts) (root : Bool) : Tree → Tree
  | leaf n f =>
    let (l, e) := if o.gfSplit then gfSplitLabel (o.gfSeparator.getD DEFAULT_GF_SEP) f.label else (f.label, f.edge.getD DEFAULT_EDGE)
    let f' : Fields := { f with label := l, edge := some e }
    leaf n (if o.replaceParens then replaceParensFields f' else f')
  | node f ks =>
    let (l, e) := if o.gfSplit && !root then gfSplitLabel (o.gfSeparator.getD DEFAULT_GF_SEP) f.label else (f.label, f.edge.getD DEFAULT_EDGE)
    let f' : Fields := { f with label := l, edge := some e }
    node (if o.replaceParens then replaceParensFields f' else f') (expectFullL o ks)
def expectFullL (o : InOpts) : List Tree → List Tree
  | [] => []
  | t :: ts => expectFull o false t :: expectFullL o ts
end

mutual
/-- TIGER-XML: as `expectFull`, but an ABSENT edge label stays absent (an `<edge>` without `label`: the code stores Python `None`,
    repair P11); the other formats always carry an edge column, there `expectFull` puts the default -/
def expectTiger (o : InOpts) (root : Bool) : Tree → Tree
  | leaf n f =>
    let (l, e) := if o.gfSplit then (fun (p : Str × Str) => (p.1, some p.2)) (gfSplitLabel (o.gfSeparator.getD DEFAULT_GF_SEP) f.label) else (f.label, f.edge)
    let f' : Fields := { f with label := l, edge := e }
    leaf n (if o.replaceParens then replaceParensFields f' else f')
  | node f ks =>
    let (l, e) := if o.gfSplit && !root then (fun (p : Str × Str) => (p.1, some p.2)) (gfSplitLabel (o.gfSeparator.getD DEFAULT_GF_SEP) f.label) else (f.label, if root then some (f.edge.getD DEFAULT_EDGE) else f.edge)
    let f' : Fields := { f with label := l, edge := e }
    node (if o.replaceParens then replaceParensFields f' else f') (expectTigerL o ks)
def expectTigerL (o : InOpts) : List Tree → List Tree
  | [] => []
  | t :: ts => expectTiger o false t :: expectTigerL o ts
end

def runOpRead (op : String) (args : List String) : String :=
  match op, args with
  | "read_brackets", [opts, text] =>
    match decS text with | some text => encReadResult (readBrackets (decInOpts opts) text) | none => bad
  | "read_export", [opts, text] =>
    match decS text with | some text => encReadResult (readExport (decInOpts opts) text) | none => bad
  | "read_tigerxml", [opts, xs] =>
    match decXSents xs with | some xs => encReadResult (readTiger (decInOpts opts) xs) | none => bad
  | "lex", [text] =>
    match decS text with
    | some text => ",".intercalate ((bracketLex text).map fun (t, c) => (match c with
        | .token => "T" | .ws => "W" | .lrb => "L" | .rrb => "R") ++ encS t)
    | none => bad
  | "expect_full", [opts, corpus] =>
    match decSidTrees corpus with
    | some corpus => encSidTrees (corpus.map fun (sid, t) => (sid, expectFull (decInOpts opts) true t))
    | none => bad
  -- a well-formed corpus written with some layout: the reader must deliver exactly the encoded trees
  | "P.C01.corpus", [fmt, opts, corpus, out] =>
    match decSidTrees corpus, decSidTrees out with
    | some corpus, some out =>
      let o := decInOpts opts
      let want := corpus.map fun (sid, t) => (sid, match fmt with
        | "brackets" => expectBr o t
        | "discobrackets" =>
          -- parentheses are replaced before the indices are mapped to the sentence: words stay as written
          Tree.mapFields (fun s f => match s with
            | leaf n _ => { f with word := (t.findLeaf n).bind (·.fields.word) }
            | _ => f) (expectBr o t)
        | "tigerxml" => expectTiger o true t
        | _ => expectFull o true t)
      -- the word slot of a constituent is not part of what a format carries (export stores "#5xx" there)
      let noConsWord := fun (t : Tree) => Tree.mapFields (fun s f => match s with
        | node _ _ => { f with word := none }
        | _ => f) t
      firstFail [
        okIf (out.length == corpus.length) "not-one-tree-per-sentence",
        okIf (out.map (·.1) == want.map (·.1)) "sentence-ids",
        okIf ((out.zip want).all fun ((_, a), (_, b)) => sameTree (noConsWord a) (noConsWord b)) "decoded-tree-differs",
        okIf (out.all fun (_, t) => WF t) "yielded-tree-not-well-formed"]
    | _, _ => if out.startsWith "ERR" then "FAIL well-formed-file-rejected" else bad
  -- arbitrary text: accepted groups must be what the specification grammar says; ill-formed groups are rejected
  | "P.C01.groups", [opts, text, out] =>
    match decS text with
    | none => bad
    | some text =>
      let o := decInOpts opts
      match specBrackets o.emptyPos text, decSidTrees out with
      | some ts, some got =>
        if got.length == ts.length && ((got.zip ts).all fun ((_, a), b) => sameTree (clearLemma a) b) then "ok"
        else "FAIL decoded-into-another-tree"
      | none, some _ => "FAIL ill-formed-group-accepted"
      | some _, none => if out.startsWith "ERR" then "FAIL well-formed-group-rejected" else bad
      | none, none => if out.startsWith "ERR" then "ok" else bad
  | _, _ => unknownOp
where
  clearLemma (t : Tree) : Tree := t

end Driver
