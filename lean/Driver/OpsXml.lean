import Driver.OpsRead
import TT.IO.Xml
namespace Driver
open TT TT.Tree TT.Xml

/-- the rendering `decXSents` (Driver/OpsRead.lean) reads: sentences "|", parts "^", items ";", fields ",", edges "+" label=idref -/
def encXSents (l : List XSent) : String :=
  "|".intercalate (l.map fun s =>
    "^".intercalate [encS s.id,
      ";".intercalate (s.terms.map fun t => ",".intercalate [encS t.id, encOS t.word, encOS t.pos, encOS t.morph, encOS t.lemma]),
      ";".intercalate (s.nts.map fun n => ",".intercalate [encS n.id, encOS n.cat,
        "+".intercalate (n.edges.map fun e => encOS e.1 ++ "=" ++ encS e.2)])])

/-- the generic element tree: name, attributes, children -/
partial def encXElem : XElem → String
  | .mk n as ks => "(" ++ encS n ++ " " ++ ",".intercalate (as.map fun a => encS a.1 ++ "=" ++ encS a.2) ++ " " ++
      "".intercalate (ks.map encXElem) ++ ")"

def runOpXml (op : String) (args : List String) : String :=
  match op, args with
  -- XML text -> element structure of the TIGER-XML reader (format of `decXSents`); "ERR:..." when refused
  | "xml_parse", [text] =>
    match decS text with
    | some text => (match parseXmlDoc text with | .ok l => "X" ++ encXSents l | .error e => encErr e)
    | none => bad
  -- XML text -> generic element tree
  | "xml_tree", [text] =>
    match decS text with
    | some text => (match parseXml text with | some e => encXElem e | none => "ERR:Other")
    | none => bad
  -- XML text -> the trees the reader delivers (text-level `read_tigerxml`)
  | "read_tigerxml_text", [opts, text] =>
    match decS text with
    | some text => encReadResult (readTigerText (decInOpts opts) text)
    | none => bad
  | _, _ => unknownOp

end Driver
