import Driver.OpsConvert
import TT.Proc
import TT.Options
namespace Driver
open TT TT.Tree

def runOpProc (op : String) (args : List String) : String :=
  match op, args with
  | "history", [fs, calls] =>
    let files : List (Str × Str) := if fs == "" then [] else (fs.splitOn ";").filterMap fun e => match e.splitOn ">" with
      | [n, c] => (match decS n, decS c with | some n, some c => some (n, c) | _, _ => none)
      | _ => none
    let fsf := fun (n : Str) => (files.find? (·.1 == n)).map (·.2)
    let cs : Option (List Call) := (if calls == "" then some [] else (calls.splitOn ";").mapM fun c => match c.splitOn "," with
      | ["S", fn, sid, t] => (do let fn ← decS fn; let sid ← sid.toNat?; let t ← decTree t; pure (Call.substitute fn sid t))
      | ["I", fn, sid, t] => (do let fn ← decS fn; let sid ← sid.toNat?; let t ← decTree t; pure (Call.insert fn sid t))
      | ["P", t] => (decTree t).map Call.pure
      | _ => none)
    match cs with
    | none => bad
    | some cs => "|".intercalate ((runHistory fsf {} cs).map fun r => match r with
        | .ok t => encTree t
        | .error e => encErr e)
  | "options_dict", [opts] =>
    match (if opts == "" then some [] else (opts.splitOn ",").mapM decS) with
    | some os => ";".intercalate ((optionsDict os).map fun (k, v) => encS k ++ "=" ++ (match v with
        | .flag => "T" | .int n => "I" ++ toString n | .str s => "S" ++ encS s))
    | none => bad
  | "P.C03.options", [opts, out] =>
    -- every key of the dictionary carries what its LAST occurrence in the list says: a flag (True), an integer for an
    -- all-digit value, the value itself otherwise (theorems optionsDict_lookup, parseOption_flag / _int / _str)
    match (if opts == "" then some [] else (opts.splitOn ",").mapM decS) with
    | some os =>
      let want := os.reverse.foldl (fun (acc : List (Str × OptVal)) o =>
        let (k, v) := parseOption o
        if acc.any (·.1 == k) then acc else acc ++ [(k, v)]) []
      let enc := fun (kv : Str × OptVal) => encS kv.1 ++ "=" ++ (match kv.2 with
        | .flag => "T" | .int n => "I" ++ toString n | .str s => "S" ++ encS s)
      let got := if out == "" then [] else out.splitOn ";"
      if got.length == want.length && want.all (fun kv => got.contains (enc kv)) then "ok" else "FAIL option-dictionary"
    | none => bad
  | "P.C18.eq", [a, b] => if a == b then "ok" else "FAIL results-differ"
  | _, _ => unknownOp

end Driver
