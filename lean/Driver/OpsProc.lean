import Driver.OpsConvert
import TT.Proc
import TT.Options
namespace Driver
open TT TT.Tree

def runOpProc (op : String) (args : List String) : String :=
  match op, args with
  | "history", [fs, calls] =>
    let files : List (Str × Str) := if fs == "" then [] else (fs.splitOn ";").filterMap fun e => match e.splitOn ">" with
      | [n, c] => (match decS n, decS c with | some n, some c => some (n, c) | _, _ => none)
      | _ => none
    let fsf := fun (n : Str) => (files.find? (·.1 == n)).map (·.2)
    let cs : Option (List Call) := (if calls == "" then some [] else (calls.splitOn ";").mapM fun c => match c.splitOn "," with
      | ["S", fn, sid, t] => (do let fn ← decS fn; let sid ← sid.toNat?; let t ← decTree t; pure (Call.substitute fn sid t))
      | ["I", fn, sid, t] => (do let fn ← decS fn; let sid ← sid.toNat?; let t ← decTree t; pure (Call.insert fn sid t))
      | ["P", t] => (decTree t).map Call.pure
      | _ => none)
    match cs with
    | none => bad
    | some cs => "|".intercalate ((runHistory fsf {} cs).map fun r => match r with
        | .ok t => encTree t
        | .error e => encErr e)
  | "options_dict", [opts] =>
    match (if opts == "" then some [] else (opts.splitOn ",").mapM decS) with
    | some os => ";".intercalate ((optionsDict os).map fun (k, v) => encS k ++ "=" ++ (match v with
        | .flag => "T" | .int n => "I" ++ toString n | .str s => "S" ++ encS s))
    | none => bad
  | "P.C18.eq", [a, b] => if a == b then "ok" else "FAIL results-differ"
  | _, _ => unknownOp

end Driver
