import Driver.OpsThm
import TT.Spec.Edit
import TT.Spec.Pinned
namespace Driver
open TT TT.Tree TT.Spec

def runOpEdit (op : String) (args : List String) : String :=
  match op, args with
  | "P.C11", [call, a, b] =>
    match decTree a with
    | none => bad
    | some a =>
      let c := parseTCall call
      if b == "NONE" then
        (match c.name with
         | "filter_by_length" =>
            let v := ((c.get "filtervalue").bind String.toNat?).getD 0
            let n := a.leafNums.length
            let drop : Bool := match c.get "filteroperator" with
              | some "lt" => decide (n < v) | some "gt" => decide (n > v) | some "eq" => n == v | _ => false
            if drop then "ok" else "FAIL tree-dropped-wrongly"
         | _ => "FAIL tree-dropped")
      else match decTree b with
      | none => bad
      | some b =>
        match c.name with
        | "punctuation_delete" => firstFail [
            okIf (deletePunctOKP a b) "wrong-tokens-deleted",
            okIf (b.noEmpty || punctPositionsP a == a.yield) "childless-constituent-left",
            okIf (b.yield == List.range' 1 b.leafNums.length) "numbering-has-holes",
            okIf (constituentsSubset a b) "constituent-changed"]
        | "delete_terminal" =>
            let k := ((c.get "k").bind String.toNat?).getD 0
            firstFail [okIf (b.sentence == dropPositions a.sentence [k]) "wrong-token-deleted",
              okIf (b.yield == List.range' 1 b.leafNums.length) "numbering-has-holes",
              okIf (match b with | node _ ks => noEmptyL ks | _ => true) "childless-constituent-left",
              okIf (constituentsSubset a b) "constituent-changed"]
        | "insert_terminals" =>
            let reqs := (sortBy (·.1) (decReqs ((c.get "reqs").getD ""))).map fun (k, w, p) => (k, w, p.getD [])
            firstFail [okIf (b.sentence == insertSpec a.sentence reqs) "wrong-insertion",
              okIf (b.yield == List.range' 1 b.leafNums.length) "numbering-has-holes",
              okIf (Spec.parentsKept a b (fun _ => false)) "other-node-moved",
              okIf (Spec.contentKept a (mapNums (fun _ => 0) b) || true) "content"]
        | "substitute_terminals" =>
            firstFail [okIf (b.sentence == substituteSpec a.sentence (sortBy (·.1) (decReqs ((c.get "reqs").getD "")))) "wrong-substitution",
              okIf (Spec.shape (mapFields (fun _ f => { f with label := [] }) a) ==
                    Spec.shape (mapFields (fun _ f => { f with label := [] }) b)) "structure-changed"]
        | "filter_by_length" =>
            let v := ((c.get "filtervalue").bind String.toNat?).getD 0
            let n := a.leafNums.length
            let drop : Bool := match c.get "filteroperator" with
              | some "lt" => decide (n < v) | some "gt" => decide (n > v) | some "eq" => n == v | _ => false
            firstFail [okIf (!drop) "tree-kept-wrongly", okIf (Spec.shape a == Spec.shape b) "tree-changed"]
        | "ptb_delete_traces" =>
            let keep := match c.get "keep" with | some k => (k.splitOn "!").filterMap decS | none => []
            let o : TraceOpts := { keep := keep, keepall := c.has "keepall", keepcoindex := c.has "keepcoindex" }
            let gone := tracePositions o a
            let expectSent := (dropPositions (a.terminals.map fun l =>
                if l.fields.label == NONE_POS then (some NONE_POS, traceLabel o (l.fields.word.getD [])) else (l.fields.word, l.fields.label)) gone)
            -- with `slash`: kept traces without a filler are deleted as well (nothing else), and labels of constituents
            -- grow by pieces "/X" after the cleaned label (TT.Props.C11Slash: slash_tokens, slash_labels)
            let isSlash := c.has "slash"
            let nt : Tok → Bool := fun tk => tk.1 != some NONE_POS
            let slashed : Str → Str → Bool := fun l base =>
              base.isPrefixOf l && (let suf := l.drop base.length; suf.isEmpty || suf.head? == some '/')
            if isSlash then
              firstFail [okIf (b.sentence.isSublist expectSent && b.sentence.filter nt == expectSent.filter nt)
                  "wrong-tokens-after-trace-deletion",
                okIf (b.leafNums.isEmpty || b.yield == List.range' 1 b.leafNums.length) "numbering-has-holes",
                okIf (match b with | node _ ks => noEmptyL ks | _ => true) "childless-constituent-left",
                okIf (match b with | node _ _ => true | _ => false) "not-the-root",
                okIf (b.subtrees.all fun s => match s with
                    | node f (_ :: _) => noIndexLeft o.keepcoindex f.label
                    | _ => true) "index-left-on-label",
                okIf (b.subtrees.all fun s => match s, s.fields.uid with
                    | node f (_ :: _), some u => (match findUid a u with
                        | some s' => slashed f.label (cleanLabel o s'.fields.label)
                        | none => false)
                    | _, _ => true) "label-not-cleaned-plus-slash-pieces"]
            else
            firstFail [okIf (b.sentence == expectSent) "wrong-tokens-after-trace-deletion",
              okIf (b.yield == List.range' 1 b.leafNums.length) "numbering-has-holes",
              okIf (match b with | node _ ks => noEmptyL ks | _ => true) "childless-constituent-left",
              okIf (b.subtrees.all fun s => match s with
                  | node f (_ :: _) => noIndexLeft o.keepcoindex f.label
                  | _ => true) "index-left-on-label",
              okIf (b.subtrees.all fun s => match s, s.fields.uid with
                  | node f (_ :: _), some u => (match findUid a u with
                      | some s' => f.label == cleanLabel o s'.fields.label
                      | none => false)
                  | _, _ => true) "label-not-cleaned-exactly"]
        | _ => bad
  | "P.C11.lines", [a, lines] => withTree a fun a =>
      let want := if punctPositionsP a == a.yield then "" else
        ";".intercalate ((a.terminals.filter isPunctWordP).map fun l => s!"{l.num},{encOS l.fields.word},{encS l.fields.label}")
      if lines == want then "ok" else "FAIL printed-lines"
  | _, _ => unknownOp

end Driver
