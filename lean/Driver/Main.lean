import Driver.Ops
open Driver

partial def loop (h : IO.FS.Stream) (out : IO.FS.Stream) : IO Unit := do
  let line ← h.getLine
  if line.isEmpty then return ()
  let line := (line.dropEndWhile (· == '\n')).toString
  let fields := line.splitOn "\t"
  let res := match fields with
    | op :: args => runOp op args
    | [] => "BAD-LINE"
  out.putStrLn res
  loop h out

def main : IO Unit := do
  let out ← IO.getStdout
  loop (← IO.getStdin) out
  out.flush
