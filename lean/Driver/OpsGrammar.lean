import Driver.OpsTrans
import TT.Spec.Grammar
import TT.RunGrammarFile
namespace Driver
open TT TT.Tree TT.Spec

def encFunc (f : Func) : String := ",".intercalate (f.map encS)
def decFunc (s : String) : Option Func := if s == "" then some [] else (s.splitOn ",").mapM decS
def encLin (l : Lin) : String :=
  if l.isEmpty then "-" else "/".intercalate (l.map fun a => ".".intercalate (a.map fun (i, j) => s!"{i}:{j}"))
def decLin (s : String) : Option Lin :=
  if s == "-" then some [] else (s.splitOn "/").mapM fun a =>
    if a == "" then some [] else (a.splitOn ".").mapM fun v => match v.splitOn ":" with
      | [i, j] => (match i.toInt?, j.toNat? with | some i, some j => some (i, j) | _, _ => none)
      | _ => none
def encVert : VertKey → String
  | .default => "V"
  | .ctx l => "T" ++ ",".intercalate (l.map encS)
def decVert (s : String) : Option VertKey :=
  if s == "V" then some .default
  else if s == "T" then some (.ctx [])
  else ((s.drop 1).toString.splitOn ",").mapM decS |>.map VertKey.ctx

def encGrammar (g : Grammar) : String :=
  ";".intercalate (g.entries.map fun (f, l, v, c) => s!"{encFunc f}|{encLin l}|{encVert v}|{c}")
def decGrammar (s : String) : Option Grammar :=
  if s == "" then some [] else
  (s.splitOn ";").foldlM (fun (g : Grammar) e => match e.splitOn "|" with
    | [f, l, v, c] => (do
        let f ← decFunc f; let l ← decLin l; let v ← decVert v; let c ← c.toNat?
        -- plain insertion keeping order (counts are given, not accumulated)
        pure (AList.upsert f (fun o => AList.upsert l (fun o2 => AList.upsert v (fun _ => c) (o2.getD [])) (o.getD [])) g))
    | _ => none) []
def encLexicon (l : Lexicon) : String :=
  ";".intercalate (l.map fun (w, tags) => encS w ++ ">" ++ ",".intercalate (tags.map fun (t, c) => s!"{encS t}:{c}"))
def decLexicon (s : String) : Option Lexicon :=
  if s == "" then some [] else
  (s.splitOn ";").mapM fun e => match e.splitOn ">" with
    | [w, tags] => (do
        let w ← decS w
        let tags ← (if tags == "" then some [] else (tags.splitOn ",").mapM fun tc => match tc.splitOn ":" with
          | [t, c] => (do let t ← decS t; let c ← c.toNat?; pure (t, c))
          | _ => none)
        pure (w, tags))
    | _ => none

def encLines (l : List Str) : String := if l.isEmpty then "-" else ",".intercalate (l.map encS)
def decLines (s : String) : Option (List Str) := if s == "-" then some [] else (s.splitOn ",").mapM decS

def decMarkov (s : String) : Option (Option MarkovOpts) :=
  if s == "-" then some none else
  match s.splitOn "," with
  | [v, h, nf] => (match v.toNat?, h.toNat? with
      | some v, some h => some (some { v := v, h := h, nofanout := nf == "t" })
      | _, _ => none)
  | _ => none

def decReord (s : String) : Reordering :=
  if s == "optimal" then .optimal else if s == "leftright" then .leftright else .none

def sortLines (l : List Str) : List Str :=
  -- insertion sort by lexicographic order on code points
  let le := fun (a b : Str) => (a.map Char.toNat) ≤ (b.map Char.toNat)
  l.foldr (fun x acc => let (lo, hi) := acc.span (fun y => !(le x y)); lo ++ x :: hi) []

/-- a lexicon as a bag of (word, tag, count) triples: the order of words and of the tags of a word is irrelevant -/
def lexTriples (l : Lexicon) : List (Str × Str × Nat) := l.flatMap fun (w, tags) => tags.map fun (t, c) => (w, t, c)
def sameLex (a b : Lexicon) : Bool := sameBag (lexTriples a) (lexTriples b)
def sortStrings (l : List String) : List String := (sortLines (l.map String.toList)).map String.ofList

def runOpGrammar (op : String) (args : List String) : String :=
  match op, args with
  | "canon_pmcfg", [gl, ll] =>
    -- canonical content of a PMCFG grammar file (+ lexicon file): the decoded rules and lexicon entries, sorted;
    -- used to compare two texts whose function / linearization numbering or line order may differ
    match decLines gl with
    | some gl =>
      (match decPmcfg gl with
       | some rules =>
         let rs := sortStrings (rules.map fun (f, l, c) => s!"{encFunc f}|{encLin l}|{c}")
         let lx := if ll == "none" then "none" else
           match decLines ll with
           | some ll => (match decLex ll with
               | some lx => ";".intercalate (sortStrings ((lexTriples lx).map fun (w, t, c) => s!"{encS w}>{encS t}:{c}"))
               | none => "FAIL lexicon-file-does-not-decode")
           | none => bad
         ";".intercalate rs ++ " # " ++ lx
       | none => "FAIL pmcfg-does-not-decode")
    | none => bad
  | "extract", [ts] =>
    match decTrees ts with
    | some ts => let (g, l) := extractAll ts; encGrammar g ++ " # " ++ encLexicon l
    | none => bad
  | "binarize", [reord, mo, g] =>
    match decGrammar g, decMarkov mo with
    | some g, some mo => encGrammar (binarizeGrammar (decReord reord) mo g)
    | _, _ => bad
  | "reordering_optimal", [f, l] =>
    match decFunc f, decLin l with
    | some f, some l => let (f', l') := reorderingOptimal f l; encFunc f' ++ "|" ++ encLin l'
    | _, _ => bad
  | "write_pmcfg", [lig, g, l] =>
    match decGrammar g, decLexicon l with
    | some g, some l => let (a, b) := writePmcfg (lig == "t") g l
                        encLines a ++ " # " ++ (match b with | some b => encLines b | none => "none")
    | _, _ => bad
  | "write_rcg", [lig, g, l] =>
    match decGrammar g, decLexicon l with
    | some g, some l => let (a, b) := writeRcg (lig == "t") g l
                        encLines a ++ " # " ++ (match b with | some b => encLines b | none => "none")
    | _, _ => bad
  | "write_lopar", [g, l] =>
    match decGrammar g, decLexicon l with
    | some g, some l => (match writeLopar g l with
        | .ok f => " # ".intercalate [encLines f.gram, encLines f.lex, encLines (sortLines f.start), encLines f.oc, encLines f.ocU]
        | .error e => encErr e)
    | _, _ => bad
  | "rcg_rewrite", [gl, ll] =>
    -- `treetools grammar G DEST treebank --src-format rcg --dest-format rcg`: TT.runGrammarFromFile (reader, then writer;
    -- theorems in TT/Props/C09Lopar.lean)
    match decLines gl, decLines ll with
    | some gl, some ll => (match TT.runGrammarFromFile gl ll with
        | .ok (a, b) => encLines a ++ " # " ++ (match b with | some b => encLines b | none => "none")
        | .error e => encErr e)
    | _, _ => bad
  | "read_rcg", [gl, ll] =>
    match decLines gl, decLines ll with
    | some gl, some ll => (match readRcg gl ll with
        | some (g, l) => encGrammar g ++ " # " ++ encLexicon l
        | none => "ERR:ValueError")
    | _, _ => bad
  -- predicates -----------------------------------------------------------------------------
  | "P.C06", [ts, g, l] =>
    match decTrees ts, decGrammar g, decLexicon l with
    | some ts, some g, some l => (match extractOK ts g l with | none => "ok" | some c => "FAIL " ++ c)
    | _, _, _ => bad
  | "fan_out", [l] =>
    match decLin l with
    | some l => ",".intercalate ((fanOut l).map toString)
    | none => bad
  | "P.C06.fanout", [l, vec] =>
    -- fan_out(lin): number of arguments of the left-hand side, then for every right-hand-side element the number of its variables
    match decLin l with
    | some l =>
      let refs := l.flatMap fun arg => arg.map (·.1)
      let k := (refs.map fun r => (r + 1).toNat).foldl max 0
      let want := l.length :: (List.range k).map fun (i : Nat) => refs.count (Int.ofNat i)
      if vec == ",".intercalate (want.map toString) then "ok" else "FAIL fan-out-vector"
    | none => bad
  | "is_contextfree", [g] =>
    match decGrammar g with
    | some g => if isContextFree g then "t" else "f"
    | none => bad
  | "P.C06.cf", [ts, cf] =>
    -- the grammar of a treebank is context-free exactly when every tree is continuous
    match decTrees ts with
    | some ts => if (cf == "t") == ts.all (fun t => gapDegree t == 0) then "ok" else "FAIL context-freeness-disagrees-with-the-trees"
    | none => bad
  | "P.C07.rule", [reord, mo, f, l, vert, res] =>
    -- one rule (func f, lin l, vertical context) and the binarized grammar `res` the implementation built from it
    match decFunc f, decLin l, decMarkov mo, decVert vert, decGrammar res with
    | some f, some l, some mo, some v, some res =>
      let (f', l') := reorder (decReord reord) f l
      let vs := match mo, v with | some o, v => vertOf o v | none, _ => []
      let chain := chainOf mo f' l' vs
      firstFail [
        okIf (res.all fun (fn, _) => fn.length ≤ 3) "rule-with-more-than-two-rhs-elements",
        okIf (sameBag (f'.drop 1) (f.drop 1) && f'.head? == f.head?) "reordering-not-a-permutation",
        okIf (chainComposesPos f' l') "chain-does-not-compose-to-the-rule",
        okIf (chain.all fun (cf, cl) => (gramCount res cf cl .default) > 0) "chain-rule-missing-from-result",
        okIf (f.length > 3 || gramCount res f' l' .default > 0) "small-rule-not-kept"]
    | _, _, _, _, _ => bad
  | "P.C07.unbin", [reord, g, res] =>
    -- deterministic binarization of a whole grammar: unique labels, each with one fan-out
    match decGrammar g, decGrammar res with
    | some g, some res =>
      let binSyms := (symbols res).filter fun x => x.head? == some '@' && !(symbols g).contains x
      firstFail [
        okIf (binSyms.all fun x => (res.filter fun (fn, _) => fn.head? == some x).length == 1) "binarization-label-defined-twice",
        okIf (binSyms.all fun x => ((res.filter fun (fn, _) => fn.head? == some x).flatMap fun (_, ls) => ls.map fun (l, _) => l.length).eraseDups.length ≤ 1) "binarization-label-with-two-fanouts",
        okIf (unbinOK (decReord reord) g res) "unbinarizing-does-not-recover-the-original-rules"]
    | _, _ => bad
  | "P.C08", [ts, g, l, roots] =>
    match decTrees ts, decGrammar g, decLexicon l with
    | some ts, some g, some l =>
      let rs := ts.map (·.fields.label)
      let _ := roots
      firstFail [okIf (nodeMassOK ts g) "per-label-count-not-node-count",
        okIf (massBalanced g l rs) "symbol-mass-not-balanced"]
    | _, _, _ => bad
  | "P.C08.file", [ts, gl, l] =>
    -- the count field of a written PMCFG file: the same two balances hold of what the file says
    match decTrees ts, decLines gl, decLexicon l with
    | some ts, some gl, some l =>
      match decPmcfg gl with
      | none => "FAIL pmcfg-does-not-decode"
      | some rules =>
        let g : Grammar := rules.foldl (fun acc (f, lin, c) => acc.add f lin .default c) []
        firstFail [okIf (nodeMassOK ts g) "per-label-count-not-node-count",
          okIf (massBalanced g l (ts.map (·.fields.label))) "symbol-mass-not-balanced"]
    | _, _, _ => bad
  | "P.C08.lexrules", [gl, l] =>
    -- lexical rules embedded in a written PMCFG grammar: TAG -> word carries exactly the count of that (word, tag) pair
    match decLines gl, decLexicon l with
    | some gl, some l =>
      match decPmcfg gl with
      | none => "FAIL pmcfg-does-not-decode"
      | some rules =>
        let bad := l.flatMap fun (w, tags) => tags.filterMap fun (t, c) =>
          let got := ((rules.filter fun (f, _, _) => f == [t, w]).map fun (_, _, n) => n).sum
          if got == c then none else some (t, w, c, got)
        if bad.isEmpty then "ok" else "FAIL lexical-rule-count"
    | _, _ => bad
  | "P.C09.pmcfg", [lig, g, l, gl, ll] =>
    match decGrammar g, decLexicon l, decLines gl with
    | some g, some l, some gl =>
      let want := (if lig == "t" then addLexRules g l else g).rules
      firstFail [
        okIf ((decPmcfg gl).map (sameBag want) == some true) "pmcfg-does-not-decode-to-grammar",
        okIf (lig == "t" || (match decLines ll with | some ll => (decLex ll).map (sameLex l) == some true | none => false)) "lexicon-file-does-not-decode"]
    | _, _, _ => bad
  | "P.C09.rcg", [lig, g, l, g2, l2] =>
    -- g2/l2: what the tool's own reader returned for the written files
    match decGrammar g, decLexicon l, decGrammar g2, decLexicon l2 with
    | some g, some l, some g2, some l2 =>
      let want := (if lig == "t" then addLexRules g l else g).rules
      firstFail [okIf (sameBag g2.rules want) "rcg-reread-differs",
        okIf (lig == "t" || sameLex l2 l) "lexicon-reread-differs"]
    | _, _, _, _ => bad
  | "P.C09.lopar", [g, l, files] =>
    match decGrammar g, decLexicon l, (files.splitOn " # ").mapM decLines with
    | some g, some l, some [gr, lx, st, oc, ocu] =>
      let lhses := (g.map fun (f, _) => f.head?.getD []).eraseDups
      let rhses := g.flatMap fun (f, _) => f.drop 1
      let starts := (lhses.filter fun s => !rhses.contains s).map fun s => (s, lhsMass g s)
      let tagsOf := fun (upper : Bool) =>
        let ws := l.filter fun (w, _) => ((w.head?.map pyIsUpperChar).getD false) == upper
        let tags := (ws.flatMap fun (_, t) => t.map (·.1)).eraseDups
        tags.map fun t => (t, (ws.map fun (_, tg) => (AList.get? t tg).getD 0).sum)
      firstFail [
        okIf ((decLoparGram gr).map (sameBag (g.rules.map fun (f, _, c) => (f, c))) == some true) "gram-file",
        okIf ((decLex lx).map (sameLex l) == some true) "lex-file",
        okIf ((decCountLines st).map (sameBag starts) == some true) "start-file",
        okIf ((decCountLines oc).map (sameBag (tagsOf false)) == some true) "oc-file",
        okIf ((decCountLines ocu).map (sameBag (tagsOf true)) == some true) "OC-file"]
    | _, _, _ => bad
  | _, _ => unknownOp

end Driver
