import Driver.OpsConvert
import TT.RunDir
/-! `convert_dir`: `treetools transform DIR ...` with a directory as source (TT.runDirCmd). -/
namespace Driver
open TT

def runOpDir (op : String) (args : List String) : String :=
  match op, args with
  | "convert_dir", [srcfmt, words, destfmt, dwords, enc, names, pwords, files] =>
    -- files: `name@source` joined by `&`, in the order of os.listdir; answer: `name@text` joined by `&`, then `#ok` or `#ERR:<kind>`
    let fl := if files == "" then some [] else (files.splitOn "&").mapM fun f =>
      match f.splitOn "@" with
      | [n, s] => (do let n ← decS n; let s ← decSource srcfmt s; pure (n, s))
      | _ => none
    match fl, destFmt? destfmt, decWords words, decWords dwords, decWords names, decWords pwords with
    | some fl, some f, some ws, some dws, some ns, some pws =>
      match TT.runDirCmd ns pws f dws (if enc == "n" then none else decS enc) ws fl with
      | some (outs, e) =>
        "&".intercalate (outs.map fun o => encS o.1 ++ "@" ++ encS o.2) ++ (match e with | none => "#ok" | some e => "#" ++ encErr e)
      | none => "OUTSIDE"
    | _, _, _, _, _, _ => bad
  | "convert_dir_split", _ =>
    match TT.runDirSplitCmd [] with
    | .error e => encErr e
    | .ok _ => "ok"
  | _, _ => unknownOp

end Driver
