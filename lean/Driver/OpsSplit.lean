import Driver.OpsEdit
import TT.Split
namespace Driver
open TT

def encExceptNats : Except Err (List Nat) → String
  | .ok l => "[" ++ encNats l ++ "]"
  | .error e => encErr e

def runOpSplit (op : String) (args : List String) : String :=
  match op, args with
  | "split_spec", [spec, size] =>
    match decS spec, size.toNat? with
    | some spec, some size => encExceptNats (parseSplitSpec spec size)
    | _, _ => bad
  | "P.C17.sizes", [spec, size, out] =>
    -- out: "[a,b,c]" as returned by the implementation
    match decS spec, size.toNat? with
    | some spec, some size =>
      let inner := ((out.drop 1).dropEnd 1).toString
      match decNats inner with
      | none => "FAIL negative-or-malformed-size"
      | some parts =>
        match parseParts (splitOnChar '_' spec) false with
        | none => "FAIL malformed-spec-accepted"
        | some ps =>
          let base := ps.map (baseSize size)
          firstFail [
            okIf (parts.sum == size) "sizes-do-not-sum-to-treebank-size",
            okIf (parts.length == ps.length) "number-of-parts",
            okIf (base.sum ≤ size) "oversized-spec-accepted",
            okIf (parts == (if base.sum == size then base
                            else addAt base ((restIdx ps).getD (firstMaxIdx base)) (size - base.sum))) "remainder-rule"]
    | _, _ => bad
  | "P.C17.reject", [spec, size] =>
    -- the implementation rejected: must be malformed or too large
    match decS spec, size.toNat? with
    | some spec, some size =>
      match parseParts (splitOnChar '_' spec) false with
      | none => "ok"
      | some ps => if (ps.map (baseSize size)).sum > size then "ok" else "FAIL valid-spec-rejected"
    | _, _ => bad
  | "distribute", [parts, n] =>
    match decNats parts, n.toNat? with
    | some ps, some n => "|".intercalate ((distribute ps (List.range n)).map encNats)
    | _, _ => bad
  | _, _ => unknownOp

end Driver
