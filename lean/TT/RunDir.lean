/-
  TT.RunDir — `treetools transform DIR DEST ...` with a DIRECTORY as source (trees/transform.py `run`, the branch
  `os.path.isdir(args.src)`): every file `f` that `os.listdir` yields is converted ON ITS OWN, with the same words of
  the command line, into `f.dest` (the DEST argument is not used); the files are worked through in the order of the
  listing, and the first file whose conversion raises ends the command (what was written for the files before it stays).
  With `--split` a directory is refused (`ValueError`) before anything is read.  A `.gz` file of the directory is read
  through `misc.gunzip` (export and bracket readers): the model's `Source` is the uncompressed content, so compression
  is transparent here and it is the correspondence check that runs directories of compressed files of different sizes.
  No Mathlib.
-/
import TT.RunCmd
namespace TT

/-- the files of the directory in listing order (name, content) ↦ the `.dest` files written (name, text), and the error
    that ended the command, if any.  `none`: the words are outside the model (as for `runCmd`). -/
def runDirCmd (names pwords : List Str) (fmt : DestFmt) (dwords : List Str) (enc : Option Str) (swords : List Str) :
    List (Str × Source) → Option (List (Str × Str) × Option Err)
  | [] => some ([], none)
  | (n, s) :: rest =>
    match runCmd names pwords fmt dwords enc swords s with
    | none => none
    | some (.error e) => some ([], some e)
    | some (.ok out) =>
      match runDirCmd names pwords fmt dwords enc swords rest with
      | none => none
      | some (outs, e) => some ((n ++ ".dest".toList, out) :: outs, e)

/-- `--split` with a directory: refused -/
def runDirSplitCmd (_files : List (Str × Source)) : Except Err (List Str) := .error .valueError

end TT
