/-
  `ptb_delete_traces` without the `slash` annotation (the slash branch only appends to labels
  on the filler/trace paths and is exercised by correspondence on the real code only).
-/
import TT.Transform.Punct
namespace TT
namespace Tree

def NONE_POS : Str := "-NONE-".toList

structure TraceOpts where
  keep : List Str := []
  keepall : Bool := false
  keepcoindex : Bool := false

/-- the cleaned trace label computed from the token's word -/
def traceLabel (o : TraceOpts) (w : Str) : Str :=
  let p := parseLabel DEFAULT_GF_SEP w
  formatLabel false false { p with coindex := (if o.keepcoindex then p.coindex else []), gapindex := [] }

/-- clean a constituent label: gap index always removed, co-index unless kept -/
def cleanLabel (o : TraceOpts) (l : Str) : Str :=
  let p := parseLabel DEFAULT_GF_SEP l
  formatLabel false false { p with gapindex := [], coindex := (if o.keepcoindex then p.coindex else []) }

/-- step 1: walk over the trace tokens (POS `-NONE-`) in sentence order, on the current tree;
    `k` is the ORIGINAL number, `off` the number of tokens deleted so far -/
def traceStep (o : TraceOpts) (acc : Tree × Nat) (k : Nat) : Tree × Nat :=
  let (cur, off) := acc
  let cn := k - off
  match cur.findLeaf cn with
  | none => acc
  | some l =>
    let tl := traceLabel o (l.fields.word.getD [])
    if o.keepall || o.keep.contains tl then
      (modifyLeaf cn (fun f => { f with label := tl, word := some NONE_POS }) cur, off)
    else (deleteTerminal cur cn, off + 1)

mutual
def cleanLabels (o : TraceOpts) : Tree → Tree
  | leaf n f => leaf n f
  | node f ks => if ks.isEmpty then node f [] else node { f with label := cleanLabel o f.label } (cleanLabelsL o ks)
def cleanLabelsL (o : TraceOpts) : List Tree → List Tree
  | [] => []
  | t :: ts => cleanLabels o t :: cleanLabelsL o ts
end

def ptbDeleteTraces (o : TraceOpts) (t : Tree) : Tree :=
  let traces := (t.terminals.filter fun l => l.fields.label == NONE_POS).map num
  let t1 := (traces.foldl (traceStep o) (t, 0)).1
  cleanLabels o t1

end Tree
end TT
