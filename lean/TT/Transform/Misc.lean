/-
  `add_topnode`, `substitute_terminals`, `insert_terminals`, `filter_by_length`.
  The terminal file is a parameter: the requests for this sentence, `(index, word, pos?)`,
  already sorted by index (the code iterates `sorted(..., key=int)`).
-/
import TT.Transform.Util
namespace TT
namespace Tree

def addTopnode (t : Tree) : Tree :=
  node { label := "TOP".toList, morph := some DEFAULT_MORPH, edge := some DEFAULT_EDGE,
         lemma := some DEFAULT_LEMMA } [t]

/-- `substitute_terminals` (after the repair: an out-of-range request is skipped also with `quiet`) -/
def substituteTerminals (reqs : List (Nat × Str × Option Str)) (t : Tree) : Tree :=
  let n := t.terminals.length
  reqs.foldl (fun cur (k, w, pos) =>
    if k ≥ 1 && k ≤ n then
      modifyLeaf k (fun f => { f with word := some w, label := pos.getD f.label }) cur
    else cur) t

def insertStep (cur : Tree) (req : Nat × Str × Str) : Tree :=
  let (k, w, pos) := req
  let n := cur.terminals.length
  if k > n + 1 || k == 0 then cur
  else
    let shifted := mapNums (fun m => if m ≥ k then m + 1 else m) cur
    appendToRoot' shifted (leaf k { label := pos, word := some w, morph := some DEFAULT_MORPH,
                                    lemma := some DEFAULT_LEMMA, edge := some DEFAULT_EDGE })
where appendToRoot' (t : Tree) (x : Tree) : Tree :=
  match t with
  | leaf n f => leaf n f
  | node f ks => node f (ks ++ [x])

def insertTerminals (reqs : List (Nat × Str × Str)) (t : Tree) : Tree := reqs.foldl insertStep t

inductive FilterOp | lt | gt | eq | other

/-- `filter_by_length`: `none` = the tree is dropped -/
def filterByLength (op : FilterOp) (v : Nat) (t : Tree) : Option Tree :=
  let n := t.terminals.length
  match op with
  | .lt => if n < v then none else some t
  | .gt => if n > v then none else some t
  | .eq => if n == v then none else some t
  | .other => some t

end Tree
end TT
