/-
  `transform.root_attach` as a fold over the root's children (snapshot taken at the start,
  identified by their leftmost token), each step working on the CURRENT tree.
-/
import TT.Transform.Util
namespace TT
namespace Tree

/-- the right-sibling skipping loop: returns `t_r` -/
def skipRight (focusMax : Nat) (tr : Nat) : List Tree → Nat
  | [] => tr
  | s :: rest =>
    if leftmost s < focusMax then skipRight focusMax tr rest
    else if leftmost s > focusMax + 1 then tr
    else skipRight (rightmost s) (rightmost s + 1) rest

mutual
/-- attach `c` below the lowest node whose tokens include both `tl` and `tr`
    (the `lca` of those two tokens) -/
def attachLowest (c : Tree) (tl tr : Nat) : Tree → Tree
  | leaf n f => leaf n f
  | node f ks =>
    if ks.any (fun k => k.hasLeaf tl && k.hasLeaf tr) then node f (attachLowestL c tl tr ks)
    else node f (ks ++ [c])
def attachLowestL (c : Tree) (tl tr : Nat) : List Tree → List Tree
  | [] => []
  | t :: ts =>
    if t.hasLeaf tl && t.hasLeaf tr then attachLowest c tl tr t :: ts
    else t :: attachLowestL c tl tr ts
end

/-- remove the first element satisfying `p` -/
def eraseFirst {α} (p : α → Bool) : List α → List α
  | [] => []
  | x :: xs => if p x then xs else x :: eraseFirst p xs

/-- one iteration of the loop for the root child whose leftmost token is `key` -/
def rootAttachStep (tmin tmax : Nat) (cur : Tree) (key : Nat) : Tree :=
  match cur with
  | leaf n f => leaf n f
  | node f ks =>
    match ks.find? (fun k => leftmost k == key) with
    | none => node f ks
    | some c =>
      let sorted := sortBy leftmost ks
      let right := (sorted.dropWhile (fun k => leftmost k != key)).drop 1
      let tl := leftmost c - 1
      let tr := skipRight (rightmost c) (rightmost c + 1) right
      if tl < tmin || tr > tmax then node f ks
      else attachLowest c tl tr (node f (eraseFirst (fun k => leftmost k == key) ks))

def rootAttach (t : Tree) : Tree :=
  let keys := (children t).map leftmost
  keys.foldl (rootAttachStep t.leftmost t.rightmost) t

end Tree
end TT
