/-
  `negra_mark_heads`, `mark_heads_by_rules`, `transformconst.get_headpos_by_rule`.
-/
import TT.Transform.Util
namespace TT
namespace Tree

def setHead (b : Bool) (t : Tree) : Tree := t.setFields fun f => { f with head := some b }

/-- index (in the ordered child list) chosen by the NeGra heuristic -/
def negraIndex (edges : List (Option Str)) : Nat :=
  let hd : Option Str := some "HD".toList
  let nk : Option Str := some "NK".toList
  match edges.idxOf? hd with
  | some i => i
  | none =>
    match edges.reverse.idxOf? nk with
    | some j => edges.length - 1 - j
    | none => 0

/-- the leftmost-token key of the child at position `i` of the ordered child list -/
def keyAt (ks : List Tree) (i : Nat) : Option Nat := ((sortBy leftmost ks)[i]?).map leftmost

mutual
def negraMarkAux : Tree → Tree
  | leaf n f => leaf n f
  | node f ks =>
    let key := keyAt ks (negraIndex ((sortBy leftmost ks).map (·.fields.edge)))
    node f (negraMarkAuxL key ks)
def negraMarkAuxL (key : Option Nat) : List Tree → List Tree
  | [] => []
  | t :: ts => setHead (some (leftmost t) == key) (negraMarkAux t) :: negraMarkAuxL key ts
end

def negraMarkHeads (t : Tree) : Tree := setHead false (negraMarkAux t)

/-! ### rule based -/

abbrev HeadRules := List (Str × List (Bool × List Str))

def lookupRules (rules : HeadRules) (cat : Str) : Option (List (Bool × List Str)) :=
  (rules.find? (·.1 == cat)).map (·.2)

/-- first index `i` (left to right) with `cats[i] = lab` -/
def findL (cats : List Str) (lab : Str) : Option Nat := cats.idxOf? lab
/-- last index with `cats[i] = lab` -/
def findR (cats : List Str) (lab : Str) : Option Nat :=
  (cats.reverse.idxOf? lab).map fun j => cats.length - 1 - j

/-- scan one rule entry: for each listed label in priority order, the first (resp. last) child
    carrying it -/
def scanEntry (ltr : Bool) (cats : List Str) : List Str → Option Nat
  | [] => none
  | lab :: rest =>
    match (if ltr then findL cats lab else findR cats lab) with
    | some i => some i
    | none => scanEntry ltr cats rest

/-- entries in order; an entry with an empty list decides at once -/
def scanRules (cats : List Str) : List (Bool × List Str) → Nat
  | [] => 0
  | (ltr, []) :: _ => if ltr then cats.length - 1 else 0
  | (ltr, labs) :: rest =>
    match scanEntry ltr cats labs with
    | some i => i
    | none => scanRules cats rest

/-- `get_headpos_by_rule(parent_label, children_label, rules)`; children categories are
    lower-cased and parsed (`parse_label(child.lower()).label.lower()`) -/
def headposByRule (rules : HeadRules) (parent : Str) (kids : List Str) : Nat :=
  match lookupRules rules (pyLower parent) with
  | none => 0
  | some ents =>
    scanRules (kids.map fun c => pyLower (parseLabel DEFAULT_GF_SEP (pyLower c)).label) ents

mutual
def rulesMarkAux (rules : HeadRules) : Tree → Tree
  | leaf n f => leaf n f
  | node f ks =>
    let sorted := sortBy leftmost ks
    let pos := headposByRule rules (parseLabel DEFAULT_GF_SEP f.label).label
      (sorted.map fun c => (parseLabel DEFAULT_GF_SEP c.fields.label).label)
    node f (rulesMarkAuxL rules (keyAt ks pos) ks)
def rulesMarkAuxL (rules : HeadRules) (key : Option Nat) : List Tree → List Tree
  | [] => []
  | t :: ts => setHead (some (leftmost t) == key) (rulesMarkAux rules t) :: rulesMarkAuxL rules key ts
end

inductive Preset | negra | ptb | other

/-- `mark_heads_by_rules`: `preset`/`rulefile` presence as the code tests it -/
def markHeadsByRules (preset : Option Preset) (rulefile : Option Str) (t : Tree) : Except Err Tree :=
  match preset, rulefile with
  | some _, some _ => .error .valueError
  | some .negra, none => .ok (setHead false (rulesMarkAux Gen.HEAD_RULES_NEGRA t))
  | some .ptb, none => .ok (setHead false (rulesMarkAux Gen.HEAD_RULES_PTB t))
  | some .other, none => .error .valueError
  | none, some rf => if rf.isEmpty then .ok (setHead false (rulesMarkAux [] t)) else .error .valueError
  | none, none => .error .valueError

end Tree
end TT
