/-
  TT.Transform.Util — functional counterparts of the in-place re-attachment idioms
  (`x.parent.children.remove(x); target.children.append(x); x.parent = target`).
  Tokens are identified by their number, which is unique in a well-formed tree.
-/
import TT.Nav
import TT.Label
import TT.Generated.Consts
namespace TT
namespace Tree

def isPunctWord (t : Tree) : Bool :=
  match t.fields.word with
  | some w => Gen.PUNCT.contains w
  | none => false

def isPairPunctWord (t : Tree) : Bool :=
  match t.fields.word with
  | some w => Gen.PAIRPUNCT.contains w
  | none => false

def hasLeaf (t : Tree) (k : Nat) : Bool := t.leafNums.contains k

/-- the token with number `k` -/
def findLeaf (t : Tree) (k : Nat) : Option Tree := t.leaves.find? (fun l => l.num == k)

mutual
/-- remove the token `k` (no pruning); returns the tree without it -/
def removeLeaf (k : Nat) : Tree → Tree
  | leaf n f => leaf n f
  | node f ks => node f (removeLeafL k ks)
def removeLeafL (k : Nat) : List Tree → List Tree
  | [] => []
  | leaf n f :: ts => if n = k then ts else leaf n f :: removeLeafL k ts
  | node f ks :: ts => node f (removeLeafL k ks) :: removeLeafL k ts
end

mutual
/-- append `x` to the children of the parent of token `j` -/
def appendBeside (j : Nat) (x : Tree) : Tree → Tree
  | leaf n f => leaf n f
  | node f ks =>
    if ks.any (fun k => k.isLeaf && k.num == j) then node f (ks ++ [x])
    else node f (appendBesideL j x ks)
def appendBesideL (j : Nat) (x : Tree) : List Tree → List Tree
  | [] => []
  | t :: ts => appendBeside j x t :: appendBesideL j x ts
end

mutual
/-- the parent (as a subtree) of token `j` -/
def parentOfLeaf (j : Nat) : Tree → Option Tree
  | leaf _ _ => none
  | node f ks =>
    if ks.any (fun k => k.isLeaf && k.num == j) then some (node f ks)
    else parentOfLeafL j ks
def parentOfLeafL (j : Nat) : List Tree → Option Tree
  | [] => none
  | t :: ts => match parentOfLeaf j t with
    | some p => some p
    | none => parentOfLeafL j ts
end

mutual
/-- storage path of the parent of token `j` -/
def parentPathOfLeaf (j : Nat) : Tree → Option Path
  | leaf _ _ => none
  | node _ ks =>
    if ks.any (fun k => k.isLeaf && k.num == j) then some []
    else parentPathOfLeafL j ks 0
def parentPathOfLeafL (j : Nat) : List Tree → Nat → Option Path
  | [], _ => none
  | t :: ts, i => match parentPathOfLeaf j t with
    | some p => some (i :: p)
    | none => parentPathOfLeafL j ts (i + 1)
end

mutual
/-- renumber tokens -/
def mapNums (g : Nat → Nat) : Tree → Tree
  | leaf n f => leaf (g n) f
  | node f ks => node f (mapNumsL g ks)
def mapNumsL (g : Nat → Nat) : List Tree → List Tree
  | [] => []
  | t :: ts => mapNums g t :: mapNumsL g ts
end

mutual
/-- apply `g` to the fields of every node -/
def mapFields (g : Tree → Fields → Fields) : Tree → Tree
  | leaf n f => leaf n (g (leaf n f) f)
  | node f ks => node (g (node f ks) f) (mapFieldsL g ks)
def mapFieldsL (g : Tree → Fields → Fields) : List Tree → List Tree
  | [] => []
  | t :: ts => mapFields g t :: mapFieldsL g ts
end

mutual
/-- apply `g` to the token number `k` -/
def modifyLeaf (k : Nat) (g : Fields → Fields) : Tree → Tree
  | leaf n f => if n = k then leaf n (g f) else leaf n f
  | node f ks => node f (modifyLeafL k g ks)
def modifyLeafL (k : Nat) (g : Fields → Fields) : List Tree → List Tree
  | [] => []
  | t :: ts => modifyLeaf k g t :: modifyLeafL k g ts
end

/-- the sentence: (word, POS) of the tokens in order -/
def sentence (t : Tree) : List (Option Str × Str) := t.terminals.map fun l => (l.fields.word, l.fields.label)

mutual
/-- labels of all constituents (nodes with the `node` constructor), storage preorder -/
def consLabels : Tree → List Str
  | leaf _ _ => []
  | node f ks => f.label :: consLabelsL ks
def consLabelsL : List Tree → List Str
  | [] => []
  | t :: ts => consLabels t ++ consLabelsL ts
end

end Tree
end TT
