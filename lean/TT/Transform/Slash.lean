/-
  `ptb_delete_traces(tree, slash=...)` — the slash-feature annotation branch of
  `trees/transform.py: ptb_delete_traces`, statement by statement.

  Object identity in the Python becomes:
  * a trace token is referred to by its token number (at the time it is recorded; see `traceIndexStep`)
    and, once the first loop is over, by the pair (number, storage path);
  * a constituent (filler) is referred to by its storage path in the tree as it is after the first two
    loops (`t2` below).  Nothing changes the STRUCTURE of the tree between the second loop and the end
    except `delete_terminal` in the "no filler for trace" block, and that block neither reads nor writes
    what the annotation loop reads and writes: `delete_terminal` removes nodes from `children` lists and
    renumbers tokens, it never touches a `parent` pointer or a label; the annotation loop walks `parent`
    pointers only (`lca`, `dominance`, `cursor = cursor.parent`) and appends to labels of constituents.
    A filler that was pruned by `delete_terminal` still has its `parent` pointer, so the walk goes
    through the tree as it was BEFORE the deletions.  The model therefore annotates first (all paths refer
    to `t2`) and deletes the filler-less traces afterwards; the result is the same object graph.
  * the two `defaultdict(list)` are insertion-ordered association lists (`IdxMap`).  Reading a missing key
    of a `defaultdict` creates it: the only such read is `fillers = index_to_nonterms[index]` inside the
    bottom-up resolution, after which both maps are REPLACED by the new ones, so the created entries are
    never seen; all other reads are of existing keys or `in` tests (which do not create).
  No Mathlib.
-/
import TT.Transform.Traces
namespace TT
namespace Tree

/-! ### insertion-ordered `defaultdict(list)` -/

abbrev IdxMap (α : Type) := List (Str × List α)

/-- `m[k].append(v)` -/
def IdxMap.push {α : Type} : IdxMap α → Str → α → IdxMap α
  | [], k, v => [(k, [v])]
  | (k', vs) :: rest, k, v =>
    if k' = k then (k', vs ++ [v]) :: rest else (k', vs) :: IdxMap.push rest k v

/-- `k in m` -/
def IdxMap.has {α : Type} (m : IdxMap α) (k : Str) : Bool := m.any (fun e => e.1 == k)

/-- `m[k]` (the empty list for a missing key) -/
def IdxMap.get {α : Type} (m : IdxMap α) (k : Str) : List α :=
  match m.find? (fun e => e.1 == k) with
  | some e => e.2
  | none => []

/-- all values, key by key -/
def IdxMap.vals {α : Type} (m : IdxMap α) : List α := m.flatMap (·.2)

/-- `d[k] = v` on an insertion-ordered dict -/
def odictSet {κ ν : Type} [BEq κ] : List (κ × ν) → κ → ν → List (κ × ν)
  | [], k, v => [(k, v)]
  | (k', v') :: rest, k, v => if k' == k then (k', v) :: rest else (k', v') :: odictSet rest k v

/-! ### first loop: the trace tokens, with `index_to_traces` -/

/-- what the first loop adds to `index_to_traces` for the trace with ORIGINAL number `k`
    (`st` is the state BEFORE `traceStep`): a kept trace with a non-empty co-index is recorded under that
    co-index.  It is recorded by its CURRENT number `k - off`; later deletions in this loop concern tokens
    to its right only, so that number is still its number when the loop is over. -/
def traceIndexStep (o : TraceOpts) (st : Tree × Nat) (m : IdxMap Nat) (k : Nat) : IdxMap Nat :=
  let cn := k - st.2
  match st.1.findLeaf cn with
  | none => m
  | some l =>
    let w := l.fields.word.getD []
    let co := (parseLabel DEFAULT_GF_SEP w).coindex
    if (o.keepall || o.keep.contains (traceLabel o w)) && !co.isEmpty then m.push co cn else m

/-- `traceStep` together with the index map -/
def traceStepI (o : TraceOpts) (acc : (Tree × Nat) × IdxMap Nat) (k : Nat) : (Tree × Nat) × IdxMap Nat :=
  (traceStep o acc.1 k, traceIndexStep o acc.1 acc.2 k)

/-! ### second loop: `index_to_nonterms` (the labels are cleaned by `cleanLabels`) -/

/-- constituents with children and a non-empty co-index, in `trees.preorder` order, by co-index -/
def nontermIndex (t : Tree) : IdxMap Path :=
  t.preorderP.foldl (fun m p =>
    match t.get? p with
    | some (node f (_ :: _)) =>
      let co := (parseLabel DEFAULT_GF_SEP f.label).coindex
      if co.isEmpty then m else m.push co p
    | _ => m) []

mutual
/-- storage path of the (first) token with number `k` -/
def leafPath (k : Nat) : Tree → Option Path
  | leaf n _ => if n = k then some [] else none
  | node _ ks => leafPathL k ks 0
def leafPathL (k : Nat) : List Tree → Nat → Option Path
  | [], _ => none
  | t :: ts, i =>
    match leafPath k t with
    | some p => some (i :: p)
    | none => leafPathL k ts (i + 1)
end

/-- a trace token: its number and its storage path in `t2` -/
abbrev TraceRef := Nat × Path

/-! ### "fillers not unique: resolving traces bottom-up" -/

/-- `for child in trees.children(cursor.parent): for filler in fillers: if child is filler: ...; break`:
    the first child of the node at `q` (in `children` order, `js` = its storage indices in that order)
    that is one of the fillers -/
def findChildFiller (q : Path) (fillers : List Path) : List Nat → Option Path
  | [] => none
  | j :: js => if fillers.contains (q ++ [j]) then some (q ++ [j]) else findChildFiller q fillers js

/-- storage indices of the children of the node at `q`, in `trees.children` order -/
def childOrderAt (t : Tree) (q : Path) : List Nat :=
  match t.get? q with
  | some x => childOrder x
  | none => []

/-- the outer `for filler in fillers` for one ancestor `q` (= `cursor.parent`): dominance if `q` is the
    filler at hand, otherwise the c-command scan of the children of `q` (which does not depend on the
    filler at hand); the first hit ends the loop -/
def tryAncestor (t : Tree) (q : Path) (fillers : List Path) : List Path → Option Path
  | [] => none
  | f :: fs =>
    if q = f then some f
    else match findChildFiller q fillers (childOrderAt t q) with
      | some c => some c
      | none => tryAncestor t q fillers fs

/-- `while cursor.parent is not None`: the proper ancestors of the trace, nearest first -/
def resolveUp (t : Tree) (fillers : List Path) : List Path → Option Path
  | [] => none
  | q :: qs =>
    match tryAncestor t q fillers fillers with
    | some f => some f
    | none => resolveUp t fillers qs

/-- proper ancestors of the node at `p`, nearest first (`cursor.parent`, its parent, ..., the root) -/
def ancestors (p : Path) : List Path := (dominancePaths p).drop 1

/-- the state of the resolution: `trace_filler` (an ordered dict trace ↦ (new index, filler)) and `new_index` -/
abbrev ResState := List (TraceRef × Nat × Path) × Nat

/-- `for trace in index_to_traces[index]` -/
def resolveTraces (t : Tree) (fillers : List Path) : ResState → List TraceRef → Except String ResState
  | st, [] => .ok st
  | (tf, ni), tr :: rest =>
    match resolveUp t fillers (ancestors tr.2) with
    | some f => resolveTraces t fillers (odictSet tf tr (ni, f), ni + 1) rest
    | none => .error "ValueError"          -- "no mapping found"

/-- `for index in index_to_traces` -/
def resolveIndices (t : Tree) (i2n : IdxMap Path) : ResState → IdxMap TraceRef → Except String ResState
  | st, [] => .ok st
  | st, (idx, trs) :: rest =>
    match resolveTraces t (i2n.get idx) st trs with
    | .ok st' => resolveIndices t i2n st' rest
    | .error e => .error e

/-- the whole block: new maps with one trace and one filler per fresh index -/
def resolveBottomUp (t : Tree) (i2t : IdxMap TraceRef) (i2n : IdxMap Path) :
    Except String (IdxMap TraceRef × IdxMap Path) :=
  match resolveIndices t i2n ([], 1) i2t with
  | .error e => .error e
  | .ok (tf, _) =>
    .ok (tf.foldl (fun m e => m.push (natToStr e.2.1) e.1) [],
         tf.foldl (fun m e => m.push (natToStr e.2.1) e.2.2) [])

/-! ### the annotation -/

mutual
/-- `node.data['label'] += s` for the constituent at a storage path (tokens are never annotated: every
    annotated node is a `parent` of some node) -/
def annotAt (s : Str) : Tree → Path → Tree
  | leaf n f, _ => leaf n f
  | node f ks, [] => node { f with label := f.label ++ s } ks
  | node f ks, i :: p => node f (annotAtL s ks i p)
def annotAtL (s : Str) : List Tree → Nat → Path → List Tree
  | [], _, _ => []
  | t :: ts, 0, p => annotAt s t p :: ts
  | t :: ts, i + 1, p => t :: annotAtL s ts i p
end

/-- `cursor = x; while cursor != goal: if cursor != x: annotate(cursor); cursor = cursor.parent`:
    the nodes that get annotated, in order -/
def between (x goal : Path) : List Path :=
  if x = goal then [] else (ancestors x).takeWhile (fun q => q != goal)

/-- `node.data['label']` of the node at a storage path -/
def labelAtPath (t : Tree) (p : Path) : Str :=
  match t.get? p with
  | some x => x.fields.label
  | none => []

/-- `goal = trees.lca(filler, trace)`; `if goal == None: if filler in trees.dominance(trace): goal = filler`
    (`none`: the `ValueError` "filler neither c-commands nor dominates") -/
def slashGoal (filler trace : Path) : Option Path :=
  match lca filler trace with
  | some g => some g
  | none => if (dominancePaths trace).contains filler then some filler else none

/-- one trace with its filler; `slash` = the label list (empty: all trace labels) -/
def annotateOne (slash : List Str) (t : Tree) (trace filler : Path) : Except String Tree :=
  if !slash.isEmpty && !slash.contains (parseLabel DEFAULT_GF_SEP (labelAtPath t trace)).label then .ok t
  else
    match slashGoal filler trace with
    | none => .error "ValueError"
    | some goal =>
      let annot : Str := '/' :: (parseLabel DEFAULT_GF_SEP (labelAtPath t filler)).label
      let t' := (between filler goal).foldl (fun acc p => annotAt annot acc p) t
      .ok ((between trace goal).foldl (fun acc p => annotAt annot acc p) t')

/-- `for coindex in index_to_traces: for trace in index_to_traces[coindex]`, flattened to
    (co-index, trace) pairs -/
def annotateAll (slash : List Str) (i2n : IdxMap Path) : Tree → List (Str × TraceRef) → Except String Tree
  | t, [] => .ok t
  | t, (co, tr) :: rest =>
    match i2n.get co with
    | [] => .error "IndexError"            -- unreachable: traces without filler were removed from the map
    | filler :: _ =>
      match annotateOne slash t tr.2 filler with
      | .ok t' => annotateAll slash i2n t' rest
      | .error e => .error e

/-! ### "no filler for trace, deleting it" -/

/-- `delete_terminal` for a list of token objects, given by their CURRENT numbers: deleting one token
    decrements the number of every token to its right, also of those still waiting in the list -/
def deleteListN : Nat → Tree → List Nat → Tree
  | 0, t, _ => t
  | _, t, [] => t
  | fuel + 1, t, n :: rest =>
    deleteListN fuel (deleteTerminal t n) (rest.map fun m => if m > n then m - 1 else m)

def deleteList (t : Tree) (nums : List Nat) : Tree := deleteListN nums.length t nums

/-- everything after the second loop -/
def slashPhase (slash : List Str) (t2 : Tree) (i2t : IdxMap TraceRef) (i2n : IdxMap Path) : Except String Tree :=
  -- uniqueness of fillers
  let maps : Except String (IdxMap TraceRef × IdxMap Path) :=
    if i2n.any (fun e => e.2.length > 1) then resolveBottomUp t2 i2t i2n else .ok (i2t, i2n)
  match maps with
  | .error e => .error e
  | .ok (i2t, i2n) =>
    -- traces without filler: deleted from the tree and from the map
    let toDelete := i2t.filter (fun e => !i2n.has e.1)
    let i2t' := i2t.filter (fun e => i2n.has e.1)
    match annotateAll slash i2n t2 (i2t'.flatMap fun e => e.2.map fun tr => (e.1, tr)) with
    | .error e => .error e
    | .ok t3 => .ok (deleteList t3 ((toDelete.flatMap (·.2)).map (·.1)))

/-- `slash = none`: parameter absent; `some []`: `slash` given as a flag (annotate for every trace label);
    `some ls`: only traces whose label (parsed, `.label` part) is in `ls` -/
def ptbDeleteTracesSlash (o : TraceOpts) (slash : Option (List Str)) (t : Tree) : Except String Tree :=
  match slash with
  | none => .ok (ptbDeleteTraces o t)
  | some ls =>
    let traces := (t.terminals.filter fun l => l.fields.label == NONE_POS).map num
    let st := traces.foldl (traceStepI o) ((t, 0), [])
    let t1 := st.1.1
    let i2n := nontermIndex t1
    let t2 := cleanLabels o t1
    let i2t : IdxMap TraceRef := st.2.map fun e => (e.1, e.2.map fun n => (n, (leafPath n t2).getD []))
    slashPhase ls t2 i2t i2n

end Tree
end TT
