/-
  `boyd_split` and `raising`.
  boyd_split: postorder; "each processed child returns the list of nodes replacing it".
  raising: every non-root node with `split && !head_block` is dissolved into its nearest
  surviving ancestor.
-/
import TT.Transform.Util
namespace TT
namespace Tree

/-- group an ordered child list into runs of adjacent children:
    a new block starts when `leftmost child > rightmost (previous child) + 1` -/
def groupAdjacent : List Tree → List (List Tree)
  | [] => []
  | [a] => [[a]]
  | a :: b :: rest =>
    match groupAdjacent (b :: rest) with
    | [] => [[a]]
    | blk :: blks => if leftmost b > rightmost a + 1 then [a] :: blk :: blks else (a :: blk) :: blks

/-- does this child make its block the head block -/
def carriesHead (c : Tree) : Bool :=
  c.fields.head == some true && (c.fields.split != some true || c.fields.headBlock == some true)

def numberBlocks (f : Fields) : Nat → List (List Tree) → List Tree
  | _, [] => []
  | i, blk :: blks =>
    node { f with split := some true, headBlock := some (blk.any carriesHead),
                  blockNumber := some (i + 1) } blk :: numberBlocks f (i + 1) blks

mutual
/-- the nodes that replace `t` after splitting (one per block), or an error
    (`ValueError "heads not marked?"` when a node to be split has no `head` key) -/
def boydNode : Tree → Except Err (List Tree)
  | leaf n f => .ok [leaf n { f with split := some false, headBlock := some true }]
  | node f ks =>
    match boydKids ks with
    | .error e => .error e
    | .ok ks' =>
      let blocks := groupAdjacent (sortBy leftmost ks')
      if blocks.length ≤ 1 then
        .ok [node { f with split := some false, headBlock := some true } ks']
      else if f.head.isNone then .error .valueError
      else .ok (numberBlocks f 0 blocks)
def boydKids : List Tree → Except Err (List Tree)
  | [] => .ok []
  | t :: ts =>
    match boydNode t, boydKids ts with
    | .ok a, .ok b => .ok (a ++ b)
    | .error e, _ => .error e
    | _, .error e => .error e
end

/-- `boyd_split(tree)`: the root itself is never split on a well-formed tree (the Python would
    fail with AttributeError on `parent.children`). -/
def boydSplit (t : Tree) : Except Err Tree :=
  match boydNode t with
  | .error e => .error e
  | .ok [t'] => .ok t'
  | .ok _ => .error .attributeError

def removable (t : Tree) : Bool :=
  match t with
  | leaf _ _ => false
  | node f _ => f.split == some true && f.headBlock == some false

mutual
/-- the nodes replacing `t` below its nearest surviving ancestor -/
def raiseNode : Tree → List Tree
  | leaf n f => [leaf n f]
  | node f ks => if removable (node f ks) then raiseKids ks else [node f (raiseKids ks)]
def raiseKids : List Tree → List Tree
  | [] => []
  | t :: ts => raiseNode t ++ raiseKids ts
end

/-- `raising(tree)`: the root stays whatever its flags -/
def raising (t : Tree) : Tree :=
  match t with
  | leaf n f => leaf n f
  | node f ks => node f (raiseKids ks)

end Tree
end TT
