/-
  `transform.binarize` and its inverse on the specification side (`unbinarize`).
-/
import TT.Transform.Util
namespace TT
namespace Tree

/-- the fresh `@` node's fields (`make_node_data_fill`) -/
def binFields (bare : Bool) (parentLabel : Str) : Fields :=
  let p := parseLabel DEFAULT_GF_SEP parentLabel
  let noCo := formatLabel false false { p with coindex := [] }
  { label := '@' :: (if bare then [] else noCo), word := some [], lemma := some DEFAULT_LEMMA,
    morph := some DEFAULT_MORPH, edge := some DEFAULT_EDGE, head := some true }

/-- build the chain for the ordered child list `rem` (length > 2) below a node;
    returns the two children of the node being filled.  `right` = direction already switched. -/
def binChain (bf : Fields) : (right : Bool) → (rem : List Tree) → (fuel : Nat) → Except Err (List Tree)
  | _, rem, 0 => .ok rem
  | right, rem, fuel + 1 =>
    if rem.length ≤ 2 then .ok rem
    else match rem with
      | [] => .ok []
      | r0 :: rest =>
        if r0.fields.head.isNone then .error .valueError
        else
          let right := right || r0.fields.head == some true
          let child := if right then rem.getLast?.getD r0 else r0
          let rem' := if right then rem.dropLast else rest
          match binChain bf right rem' fuel with
          | .error e => .error e
          | .ok inner => .ok [node bf inner, child]

mutual
def binarizeAux (bare : Bool) : Tree → Except Err Tree
  | leaf n f => .ok (leaf n f)
  | node f ks =>
    match binarizeAuxL bare ks with
    | .error e => .error e
    | .ok ks' =>
      if ks'.length ≤ 2 then .ok (node f ks')
      else
        let sorted := sortBy leftmost ks'
        -- after the repair: more than two children and no head mark at all is rejected
        if !(sorted.any fun c => c.fields.head == some true) then .error .valueError
        else match binChain (binFields bare f.label) false sorted sorted.length with
          | .error e => .error e
          | .ok two => .ok (node f two)
def binarizeAuxL (bare : Bool) : List Tree → Except Err (List Tree)
  | [] => .ok []
  | t :: ts =>
    match binarizeAux bare t, binarizeAuxL bare ts with
    | .ok a, .ok b => .ok (a :: b)
    | .error e, _ => .error e
    | _, .error e => .error e
end

def binarize (bare : Bool) (t : Tree) : Except Err Tree := binarizeAux bare t

def isBinNode (t : Tree) : Bool :=
  match t with
  | leaf _ _ => false
  | node f _ => f.label.head? == some '@'

mutual
/-- specification side: splice out every `@`-labelled constituent -/
def unbinNode : Tree → List Tree
  | leaf n f => [leaf n f]
  | node f ks => if isBinNode (node f ks) then unbinKids ks else [node f (unbinKids ks)]
def unbinKids : List Tree → List Tree
  | [] => []
  | t :: ts => unbinNode t ++ unbinKids ts
end

def unbinarize (t : Tree) : Tree :=
  match t with
  | leaf n f => leaf n f
  | node f ks => node f (unbinKids ks)

mutual
def maxArity : Tree → Nat
  | leaf _ _ => 0
  | node _ ks => max ks.length (maxArityL ks)
def maxArityL : List Tree → Nat
  | [] => 0
  | t :: ts => max (maxArity t) (maxArityL ts)
end

end Tree
end TT
