/-
  `punctuation_verylow`, `punctuation_root`, `punctuation_symetrify`, `delete_terminal`,
  `punctuation_delete`.
-/
import TT.Transform.Util
namespace TT
namespace Tree

/-- move token `i` below the parent of token `j` (remove, then append) -/
def moveLeafBeside (t : Tree) (i j : Nat) : Tree :=
  match t.findLeaf i with
  | some l => appendBeside j l (removeLeaf i t)
  | none => t

/-- are all children of the parent of token `i` punctuation tokens
    (`child.data['word'] in PUNCT` for every child, constituents included) -/
def parentAllPunct (t : Tree) (i : Nat) : Bool :=
  match parentOfLeaf i t with
  | some p => p.kids.all isPunctWord
  | none => false

def sameParent (t : Tree) (i j : Nat) : Bool := parentPathOfLeaf i t == parentPathOfLeaf j t

def verylowStep (cur : Tree) (i : Nat) : Tree :=
  if parentAllPunct cur i then cur
  else if sameParent cur i (i - 1) then cur
  else moveLeafBeside cur i (i - 1)

/-- `punctuation_verylow`: tokens are numbered 1..n, so "index i > 0" is "number > first" -/
def punctuationVerylow (t : Tree) : Tree :=
  let cands := (t.terminals.drop 1).filter isPunctWord |>.map num
  cands.foldl verylowStep t

/-- number of children of the parent of token `i` -/
def parentArity (t : Tree) (i : Nat) : Nat :=
  match parentOfLeaf i t with
  | some p => p.kids.length
  | none => 0

def appendToRoot (t : Tree) (x : Tree) : Tree :=
  match t with
  | leaf n f => leaf n f
  | node f ks => node f (ks ++ [x])

def rootStep (cur : Tree) (i : Nat) : Tree :=
  if parentArity cur i > 1 then
    match cur.findLeaf i with
    | some l => appendToRoot (removeLeaf i cur) l
    | none => cur
  else cur

/-- `punctuation_root` (after the repair: "more than one child" is tested when the token is moved) -/
def punctuationRoot (t : Tree) : Tree :=
  let cands := t.terminals.filter isPunctWord |>.map num
  cands.foldl rootStep t

/-! ### symetrify -/

structure SymState where
  cur : Tree
  done : List Nat

def wordIsPair (t : Tree) (k : Nat) : Bool :=
  match t.findLeaf k with
  | some l => isPairPunctWord l
  | none => false

/-- try to pull the candidate token `cand` into the parent of `i` -/
def symPull (first last : Nat) (s : SymState) (i : Nat) (left : Bool) : SymState :=
  match parentOfLeaf i s.cur with
  | none => s
  | some p =>
    let edge := if left then leftmost p else rightmost p
    if (left && edge == first) || (!left && edge == last) then s
    else
      let cand := if left then edge - 1 else edge + 1
      if wordIsPair s.cur cand && !s.done.contains cand && parentArity s.cur cand > 1 then
        { cur := moveLeafBeside s.cur cand i, done := s.done ++ [cand, i] }
      else s

def symStep (first last : Nat) (s : SymState) (i : Nat) : SymState :=
  if s.done.contains i then s
  else
    let s1 := symPull first last s i true
    if s1.done.contains i then s1
    else symPull first last s1 i false

/-- tokens that are paired punctuation or are followed by a token tagged `r` -/
def relcCands (r : Str) : List Tree → List Nat
  | [] => []
  | [x] => if isPairPunctWord x then [x.num] else []
  | x :: y :: rest =>
    (if isPairPunctWord x || y.fields.label == r then [x.num] else []) ++ relcCands r (y :: rest)

/-- `punctuation_symetrify(tree, relc=...)` (after the repair: a candidate that is the only child
    of its parent is not moved) -/
def punctuationSymetrify (relc : Option Str) (t : Tree) : Tree :=
  let terms := t.terminals
  let first := (terms.head?.map num).getD 0
  let last := (terms.getLast?.map num).getD 0
  let cands := match relc with
    | none => (terms.filter isPairPunctWord).map num
    | some r => relcCands r terms
  (cands.foldl (symStep first last) { cur := t, done := [] }).cur

/-! ### deleting tokens -/

mutual
/-- `delete_terminal`: remove token `k`, prune ancestors left without children (never the root:
    handled by the caller), shift the numbers above `k` down by one -/
def delLeaf (k : Nat) : Tree → Option Tree
  | leaf n f => if n = k then none else some (leaf (if n > k then n - 1 else n) f)
  | node f ks =>
    let ks' := delLeafL k ks
    if ks'.isEmpty && !ks.isEmpty then none else some (node f ks')
def delLeafL (k : Nat) : List Tree → List Tree
  | [] => []
  | t :: ts =>
    match delLeaf k t with
    | some t' => t' :: delLeafL k ts
    | none => delLeafL k ts
end

/-- on the root: the root itself is kept even when it ends up childless -/
def deleteTerminal (t : Tree) (k : Nat) : Tree :=
  match t with
  | leaf n f => leaf n f
  | node f ks => node f (delLeafL k ks)

/-- delete the tokens with the given ORIGINAL numbers (ascending) one after the other -/
def deleteMany (t : Tree) (nums : List Nat) : Tree :=
  (nums.foldl (fun (acc : Tree × Nat) k => (deleteTerminal acc.1 (k - acc.2), acc.2 + 1)) (t, 0)).1

/-- `punctuation_delete`: the tree and the lines printed (num, word, label of each removed token) -/
def punctuationDelete (t : Tree) : Tree × List (Nat × Option Str × Str) :=
  let removal := t.terminals.filter isPunctWord
  if removal.length == t.terminals.length then (t, [])
  else (deleteMany t (removal.map num), removal.map fun l => (l.num, l.fields.word, l.fields.label))

end Tree
end TT
