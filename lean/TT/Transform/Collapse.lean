/-
  `collapse_unary_chains` / `uncollapse_unary_chains`.
-/
import TT.Transform.Util
namespace TT
namespace Tree

def joinPlus (a b : Str) : Str := a ++ '+' :: b

mutual
def collapse : Tree → Tree
  | leaf n f => leaf n f
  | node f [k] => collapseInto f k
  | node f ks => node f (collapseL ks)
/-- `f` = fields of the top of the chain so far; absorb `t` into it -/
def collapseInto (f : Fields) : Tree → Tree
  | leaf n g => leaf n { f with label := joinPlus f.label g.label, word := g.word, lemma := g.lemma }
  | node g [k] => collapseInto { f with label := joinPlus f.label g.label } k
  | node g ks => node { f with label := joinPlus f.label g.label } (collapseL ks)
def collapseL : List Tree → List Tree
  | [] => []
  | t :: ts => collapse t :: collapseL ts
end

/-- wrap `inner` in unary nodes labelled `parts` (outermost first), all carrying `f`'s other fields -/
def wrapChain (f : Fields) : List Str → Tree → Tree
  | [], inner => inner
  | p :: ps, inner => node { f with label := p } [wrapChain f ps inner]

mutual
/-- `uncollapse_unary_chains` (after the repair: returns the topmost node) -/
def uncollapse : Tree → Tree
  | leaf n f =>
    let parts := splitOnChar '+' f.label
    wrapChain f parts.dropLast (leaf n { f with label := parts.getLast?.getD [] })
  | node f ks =>
    let parts := splitOnChar '+' f.label
    wrapChain f parts.dropLast (node { f with label := parts.getLast?.getD [] } (uncollapseL ks))
def uncollapseL : List Tree → List Tree
  | [] => []
  | t :: ts => uncollapse t :: uncollapseL ts
end

mutual
def hasUnary : Tree → Bool
  | leaf _ _ => false
  | node _ ks => ks.length == 1 || hasUnaryL ks
def hasUnaryL : List Tree → Bool
  | [] => false
  | t :: ts => hasUnary t || hasUnaryL ts
end

end Tree
end TT
