/-
  TT.TransSentence — what `transitions.topdown`, `transitions.inorder`, `transitions.gap` RETURN: the pair
  `(terminals, transitions)`, where
  `terminals = [(terminal.data['word'], terminal.data['label']) for terminal in trees.terminals(tree)]`
  is computed first and the transitions (`TT/Trans.lean`) afterwards.
-/
import TT.Trans
namespace TT
namespace Tree

/-- the comprehension `[(terminal.data['word'], terminal.data['label']) for terminal in ...]` over a list of tokens -/
def wordTagPairs : List Tree → List (Option Str × Str)
  | [] => []
  | l :: ls => (l.fields.word, l.fields.label) :: wordTagPairs ls

/-- the first component of the pair an oracle returns: (word, POS tag) of every token, in the order of
    `trees.terminals(tree)` (tokens sorted by number) -/
def oracleSentence (t : Tree) : List (Option Str × Str) := wordTagPairs t.terminals

/-- `transitions.topdown(tree)`: the sentence is computed first; when the loop over the nodes raises, that error is
    the result -/
def topdownS (t : Tree) : Except Err (List (Option Str × Str) × List Action) :=
  let s := oracleSentence t
  match topdown t with
  | .ok acts => .ok (s, acts)
  | .error e => .error e

/-- `transitions.inorder(tree)` -/
def inorderS (t : Tree) : List (Option Str × Str) × List Action := (oracleSentence t, inorder t)

/-- `transitions.gap(tree)` -/
def gapS (t : Tree) : Except Err (List (Option Str × Str) × List Action) :=
  let s := oracleSentence t
  match gapOracle t with
  | .ok acts => .ok (s, acts)
  | .error e => .error e

end Tree
end TT
