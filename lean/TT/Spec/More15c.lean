/-
  Specification-side definitions of wave 15 (tag w15c).

  The export format numbers the tokens of a sentence 1, 2, ... and its constituents #500 ... #999.  A sentence block with
  500 or more token lines is outside the format (a token would get a constituent's number); the theorems about what the
  export reader delivers (`TT.Props.C13More.readExport_clean`) are stated for files in which no sentence block is that long.
-/
import TT.Str
namespace TT.Spec
open TT

/-- a line as the export reader looks at it: without the white space around it -/
def exportStrip (l : Str) : Str := ((l.dropWhile pyIsSpace).reverse.dropWhile pyIsSpace).reverse

/-- the first field of the line has the form `#ddd`: the line describes a constituent -/
def exportConsLine (l : Str) : Bool :=
  match splitWs l with
  | w :: _ => w.length == 4 && w.head? == some '#' && pyIsDigit (w.drop 1)
  | [] => false

/-- the number of token lines among `ls` -/
def exportTokenLines (ls : List Str) : Nat := (ls.filter fun l => !exportConsLine l).length

/-- `insert_terminals` with a MIXED request list: the requests that pass the guard at their turn, `n` being the length of
    the sentence at that moment (a request with index 0 or more than one past the end is skipped and leaves the length as
    it is; an accepted one makes the sentence one token longer) -/
def acceptedFrom (n : Nat) : List (Nat × Str × Str) → List (Nat × Str × Str)
  | [] => []
  | (k, w, p) :: rest =>
    if k == 0 || k > n + 1 then acceptedFrom n rest else (k, w, p) :: acceptedFrom (n + 1) rest

end TT.Spec
