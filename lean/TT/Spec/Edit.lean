/-
  Specification side for C11 (token editing), stated on sentences (lists of tokens in order).
-/
import TT.Spec.Transform
import TT.Transform.Misc
import TT.Transform.Traces
namespace TT.Spec
open TT TT.Tree

/-- a token as the sentence shows it -/
abbrev Tok := Option Str × Str

/-- remove the tokens at the given 1-based positions -/
def dropPositions (s : List Tok) (ps : List Nat) : List Tok :=
  (s.zipIdx.filter fun (_, i) => !ps.contains (i + 1)).map (·.1)

/-- insert requests one after the other (ascending index): position `k` in the sentence as it is then;
    `k = 0` or `k > length + 1` is ignored -/
def insertSpec (s : List Tok) : List (Nat × Str × Str) → List Tok
  | [] => s
  | (k, w, p) :: rest =>
    if k == 0 || k > s.length + 1 then insertSpec s rest
    else insertSpec (s.take (k - 1) ++ [(some w, p)] ++ s.drop (k - 1)) rest

def substituteSpec (s : List Tok) (reqs : List (Nat × Str × Option Str)) : List Tok :=
  reqs.foldl (fun cur (k, w, p) =>
    if k ≥ 1 && k ≤ s.length then
      cur.zipIdx.map fun (tok, i) => if i + 1 == k then (some w, p.getD tok.2) else tok
    else cur) s

/-- positions (1-based) of the punctuation tokens -/
def punctPositions (t : Tree) : List Nat := (t.terminals.filter isPunctWord).map num

def deletePunctOK (a b : Tree) : Bool :=
  let ps := punctPositions a
  if ps.length == a.terminals.length then b.sentence == a.sentence
  else b.sentence == dropPositions a.sentence ps

/-- every constituent of `b` is one of `a` with the same content; no constituent of `b` is childless -/
def constituentsSubset (a b : Tree) : Bool :=
  b.subtrees.all fun s => match s, s.fields.uid with
    | node f _, some u => (match findUid a u with
        | some s' => !s'.isLeaf && content s'.fields == content f
        | none => false)
    | _, _ => true

/-- trace deletion: the tokens that must go -/
def tracePositions (o : TraceOpts) (t : Tree) : List Nat :=
  (t.terminals.filter fun l => l.fields.label == NONE_POS &&
      !(o.keepall || o.keep.contains (traceLabel o (l.fields.word.getD [])))).map num

def noIndexLeft (keepco : Bool) (l : Str) : Bool :=
  let p := parseLabel DEFAULT_GF_SEP l
  p.gapindex.isEmpty && (keepco || p.coindex.isEmpty)

end TT.Spec
