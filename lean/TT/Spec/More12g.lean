/-
  Specification-side definitions for the clause audit D (C17, C20): short, trusted statements of intent.
  No Mathlib.  The functions are computable; the grammar of split specifications (`PartText`, `WellFormedSpec`) is stated
  generatively, as a `Prop` (it is decided through `C17More2.parseParts_some_iff`).
-/
import TT.Spec.Label
import TT.Split
namespace TT.Spec
open TT

/-! ### C20: a label written from its five parts -/

/-- the text of a label with category `cat`, function `gf` (after the separator `-`), gap index `gap`, co-index `co`
    (digit strings, empty = absent) and head mark `hm`: `cat-gf=gap-co'` -/
def builtLabel (cat gf gap co : Str) (hm : Bool) : Str :=
  cat ++ '-' :: gf ++ (if gap.isEmpty then [] else '=' :: gap) ++ (if co.isEmpty then [] else '-' :: co) ++
    (if hm then ['\''] else [])

/-- the five components of a label, the category included -/
inductive Comp5 | cat | gap | co | gf | hm
deriving DecidableEq, Repr

def Pieces.erase5 (p : Pieces) : Comp5 → Pieces
  | .cat => { p with cat := [] }
  | .gap => { p with gapP := [] }
  | .co => { p with coP := [] }
  | .gf => { p with gfP := [] }
  | .hm => { p with hmP := [] }

/-- the component emptied on the parsed object, as a caller does it (category and function are reset to their defaults) -/
def eraseParsed5 (l : Label) : Comp5 → Label
  | .cat => { l with label := DEFAULT_LABEL }
  | .gap => { l with gapindex := [] }
  | .co => { l with coindex := [] }
  | .gf => { l with gf := DEFAULT_EDGE }
  | .hm => { l with headmarker := false }

/-! ### C17: the grammar of a split specification, and the text of a part -/

/-- one part of a split specification: `<digits>%`, `<digits>#` or the word `rest` -/
def PartText (s : Str) : Prop :=
  s = "rest".toList ∨ ∃ d : Str, pyIsDigit d = true ∧ (s = d ++ ['%'] ∨ s = d ++ ['#'])

/-- the grammar of `--split`: one or more parts joined by `_`, at most one of them `rest` -/
def WellFormedSpec (spec : Str) : Prop :=
  ∃ ss : List Str, ss ≠ [] ∧ (∀ s ∈ ss, PartText s) ∧ ss.count "rest".toList ≤ 1 ∧ spec = joinWith ['_'] ss

/-- the canonical text of a part -/
def renderPart : Part → Str
  | .pct p => natToStr p ++ ['%']
  | .abs n => natToStr n ++ ['#']
  | .rest => "rest".toList

end TT.Spec
