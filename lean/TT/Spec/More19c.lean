/-
  Spec.More19c — wave 19, C03: the bridge between the transformation sequences of `Spec.Steps` (`TStep`, `applySteps`,
  used by the C04 theorems) and the steps of the `transform` pipeline (`TT.Step`, `applySteps'`, `runFrom`), and the
  name / parameter reading of a `TStep` on the command line (`--trans NAMES --params WORDS`).
  Specification side only: short, no proofs.
-/
import TT.Run
import TT.RunCmd
import TT.Spec.Steps
namespace TT.Spec
open TT TT.Tree

/-- a structural transformation as a step of the `transform` pipeline: none of them ever drops a tree -/
def TStep.step (s : TStep) : Step := fun t => (s.apply t).map some

/-- the name of the transformation on the command line (`--trans`) -/
def TStep.name : TStep → Str
  | .rootAttach => "root_attach".toList
  | .negra => "negra_mark_heads".toList
  | .rules _ => "mark_heads_by_rules".toList
  | .boyd => "boyd_split".toList
  | .raising => "raising".toList
  | .topnode => "add_topnode".toList
  | .verylow => "punctuation_verylow".toList
  | .proot => "punctuation_root".toList
  | .sym _ => "punctuation_symetrify".toList
  | .binarize _ => "binarize".toList
  | .collapse => "collapse_unary_chains".toList
  | .uncollapse => "uncollapse_unary_chains".toList

/-- the parameter dict (`--params`, ONE dict for all transformations) says what the step's own parameter says:
    `mark_heads_preset:negra|ptb` without a rule file; `bare_bin_labels` present iff asked for; `relc:<label>` iff given -/
def TStep.fits (d : List (Str × OptVal)) : TStep → Prop
  | .rules p => optLookup d "mark_heads_rulefile".toList = none ∧
      ((p = .negra ∧ optLookup d "mark_heads_preset".toList = some (.str "negra".toList)) ∨
       (p = .ptb ∧ optLookup d "mark_heads_preset".toList = some (.str "ptb".toList)))
  | .binarize b => (optLookup d "bare_bin_labels".toList).isSome = b
  | .sym none => optLookup d "relc".toList = none
  | .sym (some r) => optLookup d "relc".toList = some (.str r)
  | _ => True

end TT.Spec
