/-
  Specification side, wave 19 (C01, discobracket reader with options): what `replace_parens`, `gf_split` and
  `disco_reordered` mean for a discobracket file.  Short, Mathlib-free, computable.
-/
import TT.Spec.More12h
namespace TT.Spec
open TT TT.Tree

/-- `replace_parens` in the DISCObracket reader: the replacement runs on the tree part, before the words are fetched from the
    sentence, so every field is treated as in the other readers EXCEPT the word of a token (a sentence word `-LRB-` stays as it is) -/
def replaceParensKeepWord (t : Tree) : Tree :=
  Tree.mapFields (fun s f => match s with
    | leaf _ _ => { replaceParensFields f with word := f.word }
    | node _ _ => replaceParensFields f) t

/-- `gf_split` on every node that carries an edge label, i.e. every node to which the file gives a label (all but a
    label-less PTB-style root) -/
def gfSplitLabelled (sep : Str) (t : Tree) : Tree :=
  Tree.mapFields (fun _ f =>
    if f.edge.isSome then { f with label := (gfSplitLabel sep f.label).1, edge := some (gfSplitLabel sep f.label).2 } else f) t

/-- the label-rewriting reader options as a post-processing of the option-free result of the DISCObracket reader -/
def discoPost (o : InOpts) (t : Tree) : Tree :=
  let t := if o.gfSplit then gfSplitLabelled (o.gfSeparator.getD DEFAULT_GF_SEP) t else t
  if o.replaceParens then replaceParensKeepWord t else t

/-- the word of a token under `disco_reordered`: `k-w`, `k` what the tree part has as the token's word (an index), `w` the
    word of the sentence at the token's OWN position `n` (constituents unchanged) -/
def reorderedWord (words : List Str) : Tree → Fields → Fields := fun s f => match s with
  | leaf n _ => { f with word := some (f.word.getD [] ++ '-' :: (words[n - 1]?).getD []) }
  | _ => f

/-- `disco_reordered`, one line `tree TAB sentence`: the tree part is read as a plain bracket tree (tokens numbered 1..n in
    the order in which they are written); the tokens keep these numbers, their words become `reorderedWord` -/
def decDiscoReordered (line : Str) : Option Tree :=
  match splitOnChar '\t' line with
  | [tr, sent] => (decBrackets tr).map (Tree.mapFields (reorderedWord (splitOnChar ' ' sent)))
  | _ => none

/-- side condition for `disco_reordered` beyond `DiscoLineOK`: the sentence has a word for every token position of the tree
    part (otherwise the code concatenates a string and the number 0 and stops with a `TypeError`) -/
def DiscoReorderedOK (line : Str) : Bool :=
  match splitOnChar '\t' line with
  | [tr, sent] =>
    (match decBrackets tr with
     | some t => t.leaves.all fun l => decide (1 ≤ l.num) && decide (l.num ≤ (splitOnChar ' ' sent).length)
     | none => false)
  | _ => false

end TT.Spec
