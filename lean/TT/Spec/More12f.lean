/-
  Specification side, wave 12 (C16 / C18).  Short definitions used in the STATEMENTS of TT/Props/C16Total.lean and
  TT/Props/C18Local.lean:
  * maximal contiguous runs of a SET of token positions, without sorting and without `blocksOf`; the `SentenceCount` task;
  * a grammar / lexicon as a finite map (`gramLookup`, `lexLookup`), what every grammar built by additions satisfies
    (`GramWF`, `Tight`, `LexWF`), "same finite map" (`SameMap`, `SameLex`);
  * where a discobracket text may be cut (`EndsNL`, `NoTrailWs`, `lineToks`).
  No Mathlib.
-/
import TT.Tree
import TT.Grammar.Basic
import TT.IO.Read
namespace TT.Spec
open TT TT.Tree

/-- the members of `s` whose successor is not in `s`: the right ends of the maximal contiguous runs of the
    set `s` (`s` enumerates the set, each member once, in any order) -/
def runEnds (s : List Nat) : List Nat := s.filter fun x => !s.contains (x + 1)

/-- `c` is a maximal contiguous run of the set `s`: `c` is `lo, lo+1, …, hi` (at least one number), all of
    them in `s`, and neither `lo - 1` nor `hi + 1` is in `s` -/
def isMaxRun (s c : List Nat) : Bool :=
  match c with
  | [] => false
  | lo :: _ =>
    c == List.range' lo c.length && c.all s.contains && (lo == 0 || !s.contains (lo - 1)) &&
      !s.contains (lo + c.length)

/-- the `SentenceCount` task of `treeanalysis`: `run` adds one per tree, `done` prints the number -/
def sentenceCountRun (n : Nat) (_t : Tree) : Nat := n + 1

/-! ### grammars and lexicons as finite maps (C18, "up to the order of lines") -/

/-- the grammar as a finite map: the stored count, `none` when (f, l, v) is not stored -/
def gramLookup (g : Grammar) (f : Func) (l : Lin) (v : VertKey) : Option Nat :=
  ((AList.get? f g).bind (AList.get? l)).bind (AList.get? v)

/-- what every grammar built by `Grammar.add` from the empty grammar satisfies: no key twice, no empty table -/
structure GramWF (g : Grammar) : Prop where
  funcs : (g.map (·.1)).Nodup
  lins : ∀ p ∈ g, (p.2.map (·.1)).Nodup ∧ p.2 ≠ []
  verts : ∀ p ∈ g, ∀ q ∈ p.2, (q.2.map (·.1)).Nodup ∧ q.2 ≠ []

/-- same finite map -/
def SameMap (g g' : Grammar) : Prop := ∀ f l v, gramLookup g f l v = gramLookup g' f l v

/-- no count 0 is stored (true of every grammar built by adding positive numbers) -/
def Tight (g : Grammar) : Prop := ∀ f l v, gramLookup g f l v ≠ some 0

/-- the lexicon as a finite map -/
def lexLookup (lex : Lexicon) (w t : Str) : Option Nat := (AList.get? w lex).bind (AList.get? t)
/-- no word twice, no tag twice under a word -/
def LexWF (lex : Lexicon) : Prop := (lex.map (·.1)).Nodup ∧ ∀ p ∈ lex, (p.2.map (·.1)).Nodup
/-- same finite map -/
def SameLex (lex lex' : Lexicon) : Prop := ∀ w t, lexLookup lex w t = lexLookup lex' w t

/-! ### the discobracket reader: where a text may be cut (C18) -/

/-- the last lexer token of `a` has text "\n" (or there is none): the last sentence line is terminated inside `a` -/
def EndsNL (a : List (Str × LexClass)) : Prop := a = [] ∨ ∃ pre c, a = pre ++ [(['\n'], c)]

/-- the text does not end with a whitespace character -/
def NoTrailWs (a : Str) : Prop := ∀ p c, a = p ++ [c] → pyIsSpace c = false

/-- the tokens of a complete sentence line `a0 ++ "\n"` as the lexer delivers them when a non-white character follows:
    the tokens of the text `a0 ++ "\n"` (the lexer does not emit the whitespace run "\n" still buffered at the end of
    that text) followed by the "\n" token -/
def lineToks (a0 : Str) : List (Str × LexClass) := bracketLex (a0 ++ ['\n']) ++ [(['\n'], LexClass.ws)]

end TT.Spec
