/-
  Specification-side definitions of wave 12 (C02-C05), written from the prose of the properties.
  Mathlib-free and computable.
-/
import TT.Spec.Steps
namespace TT.Spec
open TT TT.Tree

/-! ### discontinuity as a property of token SETS (C02: "the bracket writer refuses exactly the discontinuous trees") -/

/-- a set of token numbers has a gap: some number strictly between two members is not a member -/
def hasGap (ns : List Nat) : Bool :=
  ns.any fun a => ns.any fun c => (List.range c).any fun b => a < b && !ns.contains b

/-- a tree is discontinuous when the tokens below some node do not form an interval -/
def discontinuous (t : Tree) : Bool := t.subtrees.any fun s => hasGap s.leafNums


/-! ### the tag of a token after collapsing unary chains (C04: "up to the documented label concatenation") -/

mutual
/-- the nodes on the way from `t` down to the token number `k`, both included, top-down
    (`[]` when there is no such token below `t`) -/
def lineTo (k : Nat) : Tree → List Tree
  | leaf n f => if n = k then [leaf n f] else []
  | node f ks =>
    match lineToL k ks with
    | [] => []
    | l => node f ks :: l
def lineToL (k : Nat) : List Tree → List Tree
  | [] => []
  | t :: ts =>
    match lineTo k t with
    | [] => lineToL k ts
    | l => l
end

/-- a possible member of a unary chain: a token, or a constituent with exactly one child -/
def unaryLink (s : Tree) : Bool := s.isLeaf || s.kids.length == 1

/-- the tag of token `k` after `collapse_unary_chains`: the labels of the maximal unary chain that ends in
    the token (the longest lower end of the line from the root to the token that consists of unary
    constituents and the token itself), top-down, joined by '+' -/
def chainTag (t : Tree) (k : Nat) : Str :=
  List.intercalate ['+'] ((((lineTo k t).reverse.takeWhile unaryLink).reverse).map (·.fields.label))


/-! ### prerequisite-respecting sequences of structural transformations (C04) -/

/-- a head-marking step that cannot fail: the NeGra heuristic, or the head rules of one of the two presets -/
def TStep.marks : TStep → Bool
  | .negra => true
  | .rules .negra => true
  | .rules .ptb => true
  | _ => false

/-- `add_topnode` is the only step that adds a node without a `head` entry -/
def TStep.keepsHeadEntries : TStep → Bool
  | .topnode => false
  | _ => true

/-- is the prerequisite of the step met?
    `fresh`:  the step before was a head-marking step (every constituent has exactly one head child);
    `marked`: a head-marking step was applied and no `add_topnode` since (every node carries a `head` entry) -/
def TStep.allowed (fresh marked : Bool) : TStep → Bool
  | .rules p => (TStep.rules p).marks
  | .boyd => marked
  | .binarize _ => fresh
  | _ => true

/-- every step is allowed in the state the steps before it leave -/
def respectsFrom (fresh marked : Bool) : List TStep → Bool
  | [] => true
  | s :: ss => s.allowed fresh marked &&
      respectsFrom s.marks (s.marks || (marked && s.keepsHeadEntries)) ss

/-- prerequisite-respecting sequence of structural transformations: `mark_heads_by_rules` only with the presets
    `negra` / `ptb`; `boyd_split` only after some head marking with no `add_topnode` in between; `binarize` only
    immediately after a head marking -/
def Respects (steps : List TStep) : Bool := respectsFrom false false steps

end TT.Spec
