/-
  Specification side for C06-C09: rule instantiation, chain composition, mass balance,
  independent decoders for the PMCFG and LoPar file formats.
-/
import TT.Grammar.Extract
import TT.Grammar.Binarize
import TT.Grammar.Output
import TT.Spec.Nav
namespace TT.Spec
open TT TT.Tree

/-- instantiate a linearization with the blocks of the RHS elements -/
def instLin {α} (lin : Lin) (args : List (List (List α))) : Option (List (List α)) :=
  lin.mapM fun arg => (arg.mapM fun (p : Int × Nat) => (args[p.1.toNat]?).bind (·[p.2]?)).map List.flatten

/-- ordered, non-deleting, non-erasing: every (i, j), j < fanout_i, occurs exactly once, j increasing per i,
    no two adjacent variables of one element inside an argument -/
def wfLin (lin : Lin) (fanouts : List Nat) : Bool :=
  let vars := lin.flatten
  vars.all (fun (i, _) => 0 ≤ i && i.toNat < fanouts.length) &&
  ((List.range fanouts.length).all fun i =>
      (vars.filter fun (x, _) => x == (i : Int)).map (·.2) == List.range (fanouts[i]?.getD 0)) &&
  lin.all (fun arg => !arg.isEmpty && (arg.zip (arg.drop 1)).all fun (a, b) => a.1 != b.1)

/-- the rule of a constituent reconstructs its blocks from the children's blocks -/
def nodeRuleOK (s : Tree) (lin : Lin) : Bool :=
  let cs := sortBy minLeaf s.kids
  wfLin lin (cs.map fun c => c.blocks.length) &&
  instLin lin (cs.map Tree.blocks) == some s.blocks

mutual
/-- (constituent, ancestor path incl. itself, nearest first) in storage preorder -/
def consWithCtx (ctx : List Tree) : Tree → List (Tree × List Tree)
  | leaf _ _ => []
  | node f ks => if ks.isEmpty then [] else
      (node f ks, node f ks :: ctx) :: consWithCtxL (node f ks :: ctx) ks
def consWithCtxL (ctx : List Tree) : List Tree → List (Tree × List Tree)
  | [] => []
  | t :: ts => consWithCtx ctx t ++ consWithCtxL ctx ts
end

def specFunc (s : Tree) : Func := s.fields.label :: (sortBy minLeaf s.kids).map (·.fields.label)
def specVert (path : List Tree) : List Str := path.map fun a => a.fields.label ++ natToStr a.blocks.length

def gramCount (g : Grammar) (f : Func) (l : Lin) (v : VertKey) : Nat :=
  (((AList.get? f g).bind (AList.get? l)).bind (AList.get? v)).getD 0

def lexCount (lex : Lexicon) (w t : Str) : Nat := ((AList.get? w lex).bind (AList.get? t)).getD 0

/-- C06: the grammar/lexicon extracted from `ts` -/
def extractOK (ts : List Tree) (g : Grammar) (lex : Lexicon) : Option String :=
  let cons := ts.flatMap (consWithCtx [])
  let toks := ts.flatMap fun t => t.leaves
  -- every constituent has its rule, with its vertical context, reconstructing its blocks
  if !(cons.all fun (s, path) => match AList.get? (specFunc s) g with
        | some ls => ls.any fun (l, vs) => nodeRuleOK s l && (AList.get? (VertKey.ctx (specVert path)) vs).isSome
        | none => false) then some "constituent-without-matching-rule"
  -- every recorded linearization is the rule of some constituent
  else if !(g.all fun (f, ls) => ls.all fun (l, _) => cons.any fun (s, _) => specFunc s == f && nodeRuleOK s l)
    then some "rule-not-observed"
  -- counts: per (func, lin, vert) = number of constituents with that func, that vertical context and satisfying lin
  else if !(g.entries.all fun (f, l, v, c) =>
        c == (cons.filter fun (s, path) => specFunc s == f && VertKey.ctx (specVert path) == v && nodeRuleOK s l).length)
    then some "rule-count"
  else if (g.entries.map fun (_, _, _, c) => c).sum != cons.length then some "rule-count-total"
  -- fan-out of the LHS = number of blocks: implied by nodeRuleOK; lexicon: one occurrence per token
  else if !(toks.all fun l => lexCount lex (l.fields.word.getD []) l.fields.label ==
        (toks.filter fun m => m.fields.word == l.fields.word && m.fields.label == l.fields.label).length)
    then some "lexicon-count"
  else if (lex.flatMap fun (_, tags) => tags.map (·.2)).sum != toks.length then some "lexicon-count-total"
  -- context-free iff every tree is continuous
  else if isContextFree g != (ts.all fun t => t.subtrees.all fun s => s.gapDegreeNode == 0) then some "context-freeness"
  else none

/-! ### C07: chain composition -/

abbrev Atom := Nat × Nat

/-- formal blocks of RHS element `i` with fan-out `f` -/
def formalBlocks (i f : Nat) : List (List Atom) := (List.range f).map fun j => [(i, j)]

/-- the chain of binarization rules produced for one rule, in order (top first), position-wise -/
def chainOf (mo : Option MarkovOpts) (func : Func) (lin : Lin) (vert : List Str) : List (Func × Lin) :=
  ((binarizeRule mo func lin 1 vert {} []).2).flatMap fun (f, ls) => ls.map fun (l, _) => (f, l)

/-- evaluate a left-to-right chain bottom-up.  `rules` top first; rule k has RHS [element k, rest]
    except the last one which has RHS [element k, element k+1].  `elems` = formal blocks of the
    original RHS elements from position k on. -/
def evalChain : List Lin → List (List (List Atom)) → Option (List (List Atom))
  | [], _ => none
  | [l], elems => instLin l elems
  | l :: ls, e :: elems =>
    match evalChain ls elems with
    | some rest => instLin l [e, rest]
    | none => none
  | _ :: _ :: _, [] => none

/-- the original linearization read as blocks of atoms -/
def linAtoms (lin : Lin) : List (List Atom) := lin.map fun arg => arg.map fun (i, j) => (i.toNat, j)

/-- chain rules in construction order for a rule of rank >= 3 (deterministic labels make the dict order
    the construction order) compose to the original linearization -/
def chainComposes (func : Func) (lin : Lin) : Bool :=
  let fo := fanOut lin
  let elems := (List.range (func.length - 1)).map fun i => formalBlocks i (fo[i + 1]?.getD 0)
  if func.length ≤ 3 then true
  else
    let chain := chainOf none func lin []
    evalChain (chain.map (·.2)) elems == some (linAtoms lin) &&
    chain.all (fun (f, _) => f.length ≤ 3)

/-- the same for Markov labels, where the chain is taken position-wise from the construction -/
def chainLins (lin : Lin) : Nat → List Lin
  | 0 => [lin]
  | k + 1 => topLin lin :: chainLins (restLin lin) k

def chainComposesPos (func : Func) (lin : Lin) : Bool :=
  let fo := fanOut lin
  let elems := (List.range (func.length - 1)).map fun i => formalBlocks i (fo[i + 1]?.getD 0)
  if func.length ≤ 3 then true
  else evalChain (chainLins lin (func.length - 3)) elems == some (linAtoms lin)

/-! ### C07: un-binarizing a whole deterministic grammar -/

def sameBag {α} [BEq α] (a b : List α) : Bool :=
  a.length == b.length && a.all (fun x => a.count x == b.count x)


def isBinSym (x : Str) : Bool := x.head? == some '@'

/-- the (unique) rule that defines a binarization symbol -/
def findDef (res : Grammar) (x : Str) : Option (Func × Lin) :=
  (res.rules.find? fun (f, _, _) => f.head? == some x).map fun (f, l, _) => (f, l)

/-- the chain that starts at a rule: as long as the second right-hand-side element is a binarization symbol,
    continue with the rule defining it (fuel bounds the length) -/
def followChain (res : Grammar) : Nat → Func → Lin → List (Func × Lin)
  | 0, f, l => [(f, l)]
  | n + 1, f, l =>
    match f with
    | [_, _, y] =>
      if isBinSym y then
        match findDef res y with
        | some (f', l') => (f, l) :: followChain res n f' l'
        | none => [(f, l)]
      else [(f, l)]
    | _ => [(f, l)]

/-- compose a chain back into one rule over the original right-hand-side elements -/
def unbinChain (chain : List (Func × Lin)) : Option (Func × Lin) :=
  match chain with
  | [] => none
  | [(f, l)] => some (f, l)
  | (f0, _) :: _ =>
    let lhs := f0.head?.getD []
    let firsts := chain.map fun (f, _) => f[1]?.getD []
    let lastSecond := (chain.getLast?.map fun (f, _) => f[2]?.getD []).getD []
    let labels := firsts ++ [lastSecond]
    let fos := (chain.map fun (_, l) => (fanOut l)[1]?.getD 0) ++ [((chain.getLast?.map fun (_, l) => (fanOut l)[2]?.getD 0).getD 0)]
    let elems := fos.zipIdx.map fun (fo, i) => formalBlocks i fo
    match evalChain (chain.map (·.2)) elems with
    | some blocks => some (lhs :: labels, blocks.map fun arg => arg.map fun (i, j) => ((i : Int), j))
    | none => none

def aggregate (rs : List (Func × Lin × Nat)) : AList (Func × Lin) Nat :=
  rs.foldl (fun acc (f, l, c) => AList.upsert (f, l) (fun o => o.getD 0 + c) acc) []

/-- C07, whole grammar, deterministic labels: un-binarizing `res` gives back exactly the rules of `g`
    (after the reordering `r`), with their counts -/
def unbinOK (r : Reordering) (g res : Grammar) : Bool :=
  let tops := res.rules.filter fun (f, _, _) => !(isBinSym (f.head?.getD []))
  let recovered := tops.map fun (f, l, c) => ((unbinChain (followChain res res.rules.length f l)), c)
  let want := aggregate (g.rules.map fun (f, l, c) => let (f', l') := reorder r f l; (f', l', c))
  recovered.all (fun (x, _) => x.isSome) &&
  sameBag (aggregate (recovered.filterMap fun (x, c) => x.map fun (f, l) => (f, l, c))) want

/-! ### C08: mass balance -/

def lhsMass (g : Grammar) (x : Str) : Nat :=
  ((g.rules.filter fun (f, _, _) => f.head? == some x).map fun (_, _, c) => c).sum

def rhsMass (g : Grammar) (x : Str) : Nat :=
  (g.rules.map fun (f, _, c) => c * (f.drop 1).count x).sum

def tagMass (lex : Lexicon) (x : Str) : Nat := (lex.map fun (_, tags) => (AList.get? x tags).getD 0).sum

def symbols (g : Grammar) : List Str := (g.flatMap fun (f, _) => f).eraseDups

/-- for every symbol: rewriting mass + lexicon mass as tag = count-weighted RHS occurrences + root occurrences -/
def massBalanced (g : Grammar) (lex : Lexicon) (roots : List Str) : Bool :=
  (symbols g ++ roots ++ lex.flatMap (fun (_, tags) => tags.map (·.1))).eraseDups.all fun x =>
    lhsMass g x + tagMass lex x == rhsMass g x + roots.count x

/-- per original nonterminal: summed counts = number of nodes with that label -/
def nodeMassOK (ts : List Tree) (g : Grammar) : Bool :=
  let labels := ts.flatMap fun t => (t.subtrees.filter fun s => !s.kids.isEmpty).map (·.fields.label)
  labels.eraseDups.all fun x => lhsMass g x == labels.count x

end TT.Spec

namespace TT.Spec
open TT

/-! ### C09: independent decoders of the PMCFG and LoPar file formats -/

def dropPrefix? (p : Str) (s : Str) : Option Str := if p.isPrefixOf s then some (s.drop p.length) else none

/-- PMCFG: three lines per function (rule, linearization as sequence ids, count) then the sequence table -/
def decPmcfg (lines : List Str) : Option (List (Func × Lin × Nat)) :=
  let toks := lines.map splitWs
  let seqs : List (Str × List (Int × Nat)) := toks.filterMap fun t => match t with
    | name :: arrow :: vars => if arrow == "->".toList then
        some (name, vars.filterMap fun v => match splitOnChar ':' v with
          | [a, b] => (match strToNat? a, strToNat? b with | some a, some b => some ((a : Int), b) | _, _ => none)
          | _ => none) else none
    | _ => none
  let rules := toks.filterMap fun t => match t with
    | name :: colon :: lhs :: arrow :: rhs => if colon == ":".toList && arrow == "<-".toList then some (name, lhs :: rhs) else none
    | _ => none
  rules.mapM fun (name, func) => do
    let linIds ← toks.findSome? fun t => match t with
      | n :: eq :: ids => if n == name && eq == "=".toList then some ids else none
      | _ => none
    let lin ← linIds.mapM fun i => (seqs.find? (·.1 == i)).map (·.2)
    let count ← toks.findSome? fun t => match t with
      | [n, c] => if n == name then strToNat? c else none
      | _ => none
    pure (func, lin, count)

/-- lexicon file: word TAB tag count tag count ... -/
def decLex (lines : List Str) : Option Lexicon :=
  lines.foldlM (fun (lex : Lexicon) line =>
    match splitOnChar '\t' line with
    | [word, rest] =>
      let ws := splitWs rest
      if ws.length % 2 != 0 then none else
      (pairs ws).foldlM (fun l (tag, c) => (strToNat? c).map fun n => l.add word tag n) lex
    | _ => none) []

/-- LoPar grammar file: count lhs rhs... -/
def decLoparGram (lines : List Str) : Option (List (Func × Nat)) :=
  lines.mapM fun l => match splitWs l with
    | c :: lhs :: rhs => (strToNat? c).map fun n => (lhs :: rhs, n)
    | _ => none

def decCountLines (lines : List Str) : Option (List (Str × Nat)) :=
  lines.mapM fun l => match splitWs l with
    | [s, c] => (strToNat? c).map fun n => (s, n)
    | _ => none

end TT.Spec
