/-
  Specification side, wave 15 (C07 / C08): the rules one call of `binarize_rule` is expected to add, and the label
  offsets of the deterministic label generator.  Used in the STATEMENTS of `TT/Props/C07Exact.lean`.  No Mathlib.
-/
import TT.Spec.More12b
namespace TT.Spec
open TT

/-- the (function, linearization) pairs to which one call `binarize_rule(f, l, c, vert)` made in generator state `st`
    is expected to add `c`: the rule itself if it has at most two right-hand-side elements, else the chain `chainG`
    (`TT/Spec/More12b.lean`) with the labels `labelOf mo st` -/
def expectedAdds (mo : Option MarkovOpts) (st : GenState) (f : Func) (l : Lin) (vert : List Str) : List (Func × Lin) :=
  if f.length ≤ 3 then [(f, l)]
  else chainG f (labelOf mo st f vert (fanOut l)) (f.length - 3) 0 (f[0]?.getD []) l

/-- `offsetsFrom s [n0, n1, ...] = [s, s + n0, s + n0 + n1, ...]`: the number of the deterministic label generator
    before each rule, when rule `i` consumes `n_i` labels -/
def offsetsFrom : Nat → List Nat → List Nat
  | _, [] => []
  | s, n :: ns => s :: offsetsFrom (s + n) ns

/-- the linearization of a continuous rule whose right-hand-side elements are continuous and stand in their order:
    one argument, `(0,0) (1,0) ... (n-1,0)` - what extraction gives at a node of a continuous tree -/
def idLin (n : Nat) : Lin := [(List.range n).map fun (i : Nat) => ((i : Int), 0)]

end TT.Spec
