/-
  Specification side for C10: the three shift-reduce automata that EXECUTE a transition
  sequence over a sentence and rebuild a tree.  Conventions follow the suite's golden
  sequences: `topdown` is reversed preorder (the buffer is consumed from the LAST token,
  BINARY pops left := top, right := next); `gap` re-concatenates the deque onto the stack
  top-first (`d.reverse ++ s`).
-/
import TT.Trans
import TT.Spec.Nav
namespace TT.Spec
open TT TT.Tree

/-- rebuilt trees carry only: label, token number/word/POS, and the head side where the
    transition states it (`head = none` = unconstrained) -/
def mkNode (l : Str) (ks : List Tree) : Tree := node { label := l } ks
def withHead (b : Bool) (t : Tree) : Tree := t.setFields fun f => { f with head := some b }
def clearHead (t : Tree) : Tree := t.setFields fun f => { f with head := none }

/-- sentence tokens as fresh leaves -/
def tokenLeaves (t : Tree) : List Tree :=
  t.terminals.map fun l => leaf l.num { label := l.fields.label, word := l.fields.word }

/-- topdown automaton: stack top first -/
def tdStep (st : List Tree × List Tree) (a : Action) : Option (List Tree × List Tree) :=
  match a, st with
  | .shift, (stack, x :: buf) => some (x :: stack, buf)
  | .unary l, (x :: stack, buf) => some (mkNode l [clearHead x] :: stack, buf)
  | .binary left l, (x :: y :: stack, buf) =>
      some (mkNode l [withHead left x, clearHead y] :: stack, buf)
  | _, _ => none

def replayTopdown (t : Tree) (acts : List Action) : Option Tree :=
  match acts.foldlM tdStep ([], (tokenLeaves t).reverse) with
  | some ([x], []) => some x
  | _ => none

/-- inorder automaton: items are trees or projection marks -/
inductive Item where
  | tree (t : Tree)
  | mark (l : Str)

def popToMark : List Item → List Tree → Option (Str × List Tree × List Item)
  | [], _ => none
  | .mark l :: rest, acc => some (l, acc, rest)
  | .tree t :: rest, acc => popToMark rest (t :: acc)

def ioStep (st : List Item × List Tree) (a : Action) : Option (List Item × List Tree) :=
  match a, st with
  | .shift, (stack, x :: buf) => some (.tree x :: stack, buf)
  | .pj l, (.tree x :: stack, buf) => some (.mark l :: .tree x :: stack, buf)
  | .reduce, (stack, buf) =>
    match popToMark stack [] with
    | some (l, above, .tree first :: rest) =>
        some (.tree (mkNode l ((first :: above).map clearHead)) :: rest, buf)
    | _ => none
  | _, _ => none

def replayInorder (t : Tree) (acts : List Action) : Option Tree :=
  match acts.foldlM ioStep ([], tokenLeaves t) with
  | some ([.tree x], []) => some x
  | _ => none

/-- gap automaton -/
structure GCfg where
  s : List Tree
  d : List Tree
  b : List Tree

def gStep (c : GCfg) (a : Action) : Option GCfg :=
  match a with
  | .shift => match c.b with
    | x :: bs => some { s := c.d.reverse ++ c.s, d := [x], b := bs }
    | [] => none
  | .gap => match c.s with
    | x :: ss => if c.d.isEmpty then none else some { c with s := ss, d := c.d ++ [x] }
    | [] => none
  | .unary l => match c.d with
    | x :: ds => some { c with d := mkNode l [clearHead x] :: ds }
    | [] => none
  | .r left l => match c.s, c.d with
    | x :: ss, y :: ds => some { s := ds.reverse ++ ss, d := [mkNode l [withHead left x, clearHead y]], b := c.b }
    | _, _ => none
  | _ => none

def replayGap (t : Tree) (acts : List Action) : Option Tree :=
  match acts.foldlM gStep { s := [], d := [], b := tokenLeaves t } with
  | some { s := [], d := [x], b := [] } => some x
  | _ => none

mutual
/-- storage-order comparison used on normal forms -/
def agreesS : Tree → Tree → Bool
  | leaf n f, leaf m g => n == m && f.label == g.label && f.word == g.word &&
      (g.head.isNone || g.head == f.head)
  | node f ks, node g ls => f.label == g.label && (g.head.isNone || g.head == f.head) && agreesSL ks ls
  | _, _ => false
def agreesSL : List Tree → List Tree → Bool
  | [], [] => true
  | a :: as, b :: bs => agreesS a b && agreesSL as bs
  | _, _ => false
end

/-- the original `o` and the rebuilt `r` agree: same labels, same tokens (number, word, POS), same
    dominance, and every head side stated by a transition is the original one
    (both compared in normal form: children ordered by leftmost token) -/
def agrees (o r : Tree) : Bool := agreesS (sortKids o) (sortKids r)

def parseAction (s : Str) : Option Action :=
  let pre := fun (p : String) => p.toList.isPrefixOf s
  let rest := fun (p : String) => s.drop p.length
  if s = "SHIFT".toList then some .shift
  else if s = "REDUCE".toList then some .reduce
  else if s = "GAP".toList then some .gap
  else if pre "UNARY-" then some (.unary (rest "UNARY-"))
  else if pre "BINARY-LEFT-" then some (.binary true (rest "BINARY-LEFT-"))
  else if pre "BINARY-RIGHT-" then some (.binary false (rest "BINARY-RIGHT-"))
  else if pre "PJ-" then some (.pj (rest "PJ-"))
  else if pre "R-LEFT-" then some (.r true (rest "R-LEFT-"))
  else if pre "R-RIGHT-" then some (.r false (rest "R-RIGHT-"))
  else none

end TT.Spec
