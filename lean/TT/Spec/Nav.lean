/-
  Specification side for C19 / C16: set-based notions on trees addressed by storage paths,
  written without any sorting.
-/
import TT.Nav
namespace TT.Spec
open TT TT.Tree

/-- smallest element of a list of naturals (0 if empty) -/
def minNat : List Nat → Nat
  | [] => 0
  | [a] => a
  | a :: b :: r => min a (minNat (b :: r))

def maxNat : List Nat → Nat
  | [] => 0
  | a :: r => max a (maxNat r)

/-- leftmost token of a subtree, without sorting -/
def minLeaf (t : Tree) : Nat := minNat t.leafNums

def isPrefix : Path → Path → Bool
  | [], _ => true
  | _ :: _, [] => false
  | a :: as, b :: bs => a == b && isPrefix as bs

def properPrefix (p q : Path) : Bool := isPrefix p q && p.length < q.length

/-- a well-formed sentence tree with tokens 1..n: root is a constituent, no childless constituent,
    the token numbers are exactly 1..n (each once). -/
def WF (t : Tree) : Bool :=
  !t.isLeaf && t.noEmpty && (sortBy id t.leafNums == List.range' 1 t.leafNums.length) && !t.leafNums.isEmpty

/-- as `WF`, but a one-token sentence may be the bare token (what collapsing a unary root chain
    over a single token documents: "may not make sense for sentences of length one") -/
def WFc (t : Tree) : Bool :=
  match t with
  | leaf n _ => n == 1
  | node _ _ => WF t

def nodupB : List Nat → Bool
  | [] => true
  | a :: r => !r.contains a && nodupB r

/-- siblings have pairwise different leftmost tokens (true of every well-formed tree) -/
def sibDistinct (t : Tree) : Bool :=
  t.subtrees.all fun s => match s with
    | node _ ks => nodupB (ks.map leftmost)
    | leaf _ _ => true

/-- every node carries a uid and no uid occurs twice -/
def uidsOK (t : Tree) : Bool :=
  t.subtrees.all (fun s => s.fields.uid.isSome) && nodupB (t.subtrees.filterMap (·.fields.uid))

mutual
/-- normal form modulo storage order: children sorted by leftmost token at every node -/
def sortKids : Tree → Tree
  | leaf n f => leaf n f
  | node f ks => node f (sortBy leftmost (sortKidsL ks))
def sortKidsL : List Tree → List Tree
  | [] => []
  | t :: ts => sortKids t :: sortKidsL ts
end

mutual
/-- keep only what collapsing is documented to preserve: structure, labels, words and numbers of tokens -/
def stripT : Tree → Tree
  | leaf n f => leaf n { label := f.label, word := f.word }
  | node f ks => node { label := f.label } (stripTL ks)
def stripTL : List Tree → List Tree
  | [] => []
  | t :: ts => stripT t :: stripTL ts
end

mutual
/-- no label contains the character `c` -/
def noCharInLabels (c : Char) : Tree → Bool
  | leaf _ f => !f.label.contains c
  | node f ks => !f.label.contains c && noCharInLabelsL c ks
def noCharInLabelsL (c : Char) : List Tree → Bool
  | [] => true
  | t :: ts => noCharInLabels c t && noCharInLabelsL c ts
end

/-- no label starts with `@` -/
def noAtLabels (t : Tree) : Bool := t.subtrees.all fun s => s.fields.label.head? != some '@'

/-- `order` lists the storage indices of `ks` by increasing leftmost token -/
def childrenOK (ks : List Tree) (order : List Nat) : Bool :=
  -- a permutation of 0..k-1
  (sortBy id order == List.range ks.length) &&
  -- strictly increasing leftmost token
  (let keys := order.map fun i => (ks[i]?.map minLeaf).getD 0
   (keys.zip (keys.drop 1)).all fun (a, b) => a < b)

/-- every valid path exactly once, and every proper ancestor before its descendants -/
def preorderOK (t : Tree) (ps : List Path) : Bool :=
  (ps.length == (paths t).length) && (paths t).all (fun p => ps.contains p) &&
  (ps.zipIdx.all fun (p, i) => (ps.take i).all fun q => !(properPrefix p q)) &&
  -- siblings in order of leftmost token: if q, r are children of the same node and q before r then minLeaf q < minLeaf r
  (ps.zipIdx.all fun (p, i) => (ps.take i).all fun q =>
      if q.length == p.length && q.dropLast == p.dropLast && q != p then
        ((t.get? q).map minLeaf).getD 0 < ((t.get? p).map minLeaf).getD 0
      else true) &&
  -- a subtree is contiguous: between an ancestor-descendant pair only descendants of that ancestor
  (ps.zipIdx.all fun (p, i) =>
      let after := ps.drop (i + 1)
      let inside := after.takeWhile (fun q => isPrefix p q)
      (after.drop inside.length).all fun q => !(isPrefix p q))

def postorderOK (t : Tree) (ps : List Path) : Bool := preorderOKrev t ps
where preorderOKrev (t : Tree) (ps : List Path) : Bool :=
  (ps.length == (paths t).length) && (paths t).all (fun p => ps.contains p) &&
  (ps.zipIdx.all fun (p, i) => (ps.drop (i + 1)).all fun q => !(properPrefix p q)) &&
  (ps.zipIdx.all fun (p, i) => (ps.take i).all fun q =>
      if q.length == p.length && q.dropLast == p.dropLast && q != p then
        ((t.get? q).map minLeaf).getD 0 < ((t.get? p).map minLeaf).getD 0
      else true)

/-- lowest common dominator, `none` when one dominates the other -/
def lcaOK (p q : Path) (r : Option Path) : Bool :=
  if isPrefix p q || isPrefix q p then r == none
  else match r with
    | none => false
    | some c => isPrefix c p && isPrefix c q &&
        -- lowest: the next steps differ
        (p[c.length]? != q[c.length]?)

mutual
def depthsAux : Tree → Nat → List Nat
  | leaf _ _, d => [d]
  | node _ ks, d => depthsAuxL ks (d + 1)
def depthsAuxL : List Tree → Nat → List Nat
  | [], _ => []
  | t :: ts, d => depthsAux t d ++ depthsAuxL ts d
end

/-- longest downward path from `t` to a token -/
def longestDown (t : Tree) : Nat := maxNat (depthsAux t 0)

/-- export numbering: bijection onto 0 and 500..499+k; every constituent numbered above all
    constituents below it; within one level left to right. `nums` = (path, number) of all constituents -/
def numberingOK (t : Tree) (nums : List (Path × Nat)) : Bool :=
  let cons := (paths t).filter fun p => match t.get? p with | some (node _ (_ :: _)) => true | _ => false
  (nums.length == cons.length) && cons.all (fun p => (nums.map (·.1)).contains p) &&
  (sortBy id (nums.map (·.2)) == (if nums.isEmpty then [] else 0 :: List.range' 500 (nums.length - 1))) &&
  (nums.all fun (p, n) => (p == []) == (n == 0)) &&
  (nums.all fun (p, n) => nums.all fun (q, m) =>
      if properPrefix p q && p != [] then m < n else true) &&
  (nums.all fun (p, n) => nums.all fun (q, m) =>
      if p != [] && q != [] && p != q then
        let hp := ((t.get? p).map longestDown).getD 0
        let hq := ((t.get? q).map longestDown).getD 0
        if hp < hq then n < m
        else if hp == hq && ((t.get? p).map minLeaf).getD 0 < ((t.get? q).map minLeaf).getD 0 then n < m
        else true
      else true)

end TT.Spec
