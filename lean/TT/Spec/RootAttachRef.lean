/-
  Specification side for C12: a set-based reference of the documented rule of `root_attach`.

  The reference does not look at the tree as a recursive structure.  It sees
    * the parent map `pm : List (Nat × Option Nat)` ((node, its parent); nodes are named by their `uid`, the
      root has parent `none`), and
    * the token table `tok : List (Nat × Nat)` ((token number, node) for every token),
  and everything else - dominance, the token set of a node, the neighbours, the landing site - is derived from
  these two by going from a node to its parent.
-/
import TT.Spec.Transform
namespace TT.Spec
open TT TT.Tree

abbrev ParentMap := List (Nat × Option Nat)

/-- the parent of `v` (`none` for the root and for an unknown node) -/
def parentIn (pm : ParentMap) (v : Nat) : Option Nat := (pm.find? (·.1 == v)).bind (·.2)

/-- `u` dominates `v` (every node dominates itself): `u` is reached from `v` by going to the parent at most
    `n` times -/
def dominates (pm : ParentMap) : Nat → Nat → Nat → Bool
  | 0, u, v => u == v
  | n + 1, u, v => u == v || (match parentIn pm v with
      | some p => dominates pm n u p
      | none => false)

/-- the token set of `u`: the numbers of the tokens it dominates (no path is longer than the number of nodes) -/
def tokensOf (pm : ParentMap) (tok : List (Nat × Nat)) (u : Nat) : List Nat :=
  (tok.filter fun e => dominates pm pm.length u e.2).map (·.1)

/-- the end of the run of adjacent blocks that starts right after token `e`: as long as one of the `spans`
    (first token, last token) starts at the token after the current end, the run extends to its last token.
    (`n` bounds the number of rounds; a span is used at most once, so the number of spans is enough.) -/
def runEnd (spans : List (Nat × Nat)) : Nat → Nat → Nat
  | 0, e => e
  | n + 1, e => match spans.find? (fun s => s.1 == e + 1) with
    | some s => runEnd spans n s.2
    | none => e

/-- the documented rule for the root child `c`, on the current parent map -/
def refStep (tok : List (Nat × Nat)) (root : Option Nat) (tmin tmax : Nat) (pm : ParentMap) (c : Nat) : ParentMap :=
  let toks := tokensOf pm tok
  -- the children of the root as they are now, each with its first and last token
  let spans := (pm.filter fun e => e.2.isSome && e.2 == root).map fun e => (minNat (toks e.1), maxNat (toks e.1))
  -- left neighbour: the token before `c`; right neighbour: the token after `c` and after every adjacent root
  -- child on its right (there are fewer root children than nodes)
  let tl := minNat (toks c) - 1
  let tr := runEnd spans pm.length (maxNat (toks c)) + 1
  if tl < tmin || tr > tmax then pm
  else
    -- the nodes whose token set contains both neighbours ...
    let cands := (pm.map (·.1)).filter fun u => (toks u).contains tl && (toks u).contains tr
    -- ... and the lowest of them: the one that all of them dominate
    match cands.find? (fun u => cands.all fun v => dominates pm pm.length v u) with
    | some target => pm.map fun e => if e.1 == c then (c, some target) else e
    | none => pm

/-- `root_attach` by the documented rule: the children of the root (as they are at the start), by increasing
    first token, each on the current parent map.  The result is the new parent map. -/
def rootAttachRef (t : Tree) : ParentMap :=
  let pm0 := parentMap none t
  let tok := t.leaves.filterMap fun l => l.fields.uid.map fun u => (l.num, u)
  let nums := tok.map (·.1)
  let kids0 := (pm0.filter fun e => e.2.isSome && e.2 == t.fields.uid).map (·.1)
  let order := sortBy (fun k => minNat (tokensOf pm0 tok k)) kids0
  order.foldl (refStep tok t.fields.uid (minNat nums) (maxNat nums)) pm0

end TT.Spec
