/-
  Specification side, wave 12 (C10): the reader's view of a line written by `transitionoutput.plain`.
  Trusted statement of intent; no Mathlib; computable.
-/
import TT.Trans
import TT.Spec.Replay
namespace TT.Spec
open TT TT.Tree

/-- split at the FIRST occurrence of the (non-empty) separator `sep`: `s = a ++ sep ++ b` with no earlier
    occurrence (Python `s.split(sep, 1)` / `s.partition(sep)`); `none` if `sep` does not occur -/
def splitFirstSub (sep : Str) : Str → Option (Str × Str)
  | [] => none
  | x :: xs =>
    if sep.isPrefixOf (x :: xs) then some ([], (x :: xs).drop sep.length)
    else (splitFirstSub sep xs).map fun p => (x :: p.1, p.2)

/-- the separator between the sentence and the transitions -/
def lineSep : Str := " ||| ".toList

/-- the sentence an oracle returns next to the transitions: (word, POS tag) per token, in sentence order -/
def sentenceOf (t : Tree) : List (Option Str × Str) := t.terminals.map fun l => (l.fields.word, l.fields.label)

/-- the two head marks of a binary constituent: exactly one child is the head -/
def onePair : List Tree → Bool
  | [a, b] => (a.fields.head == some true && b.fields.head == some false) ||
              (a.fields.head == some false && b.fields.head == some true)
  | _ => true

/-- every constituent with two children marks exactly one of them as its head -/
def headsExactlyOne (t : Tree) : Bool := t.subtrees.all fun s => onePair s.kids

/-- in a binary constituent of a rebuilt tree where the transition states the head side of one child only, the
    sibling gets the other side -/
def fillPair : List Tree → List Tree
  | [a, b] =>
    match a.fields.head, b.fields.head with
    | some h, none => [a, withHead (!h) b]
    | none, some h => [withHead (!h) a, b]
    | _, _ => [a, b]
  | ks => ks

mutual
/-- complete the head sides of a rebuilt tree, bottom-up -/
def fillHeads : Tree → Tree
  | leaf n f => leaf n f
  | node f ks => node f (fillPair (fillHeadsL ks))
def fillHeadsL : List Tree → List Tree
  | [] => []
  | t :: ts => fillHeads t :: fillHeadsL ts
end

end TT.Spec
