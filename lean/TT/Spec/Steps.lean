/-
  Sequences of structural transformations (C04): a step either fails (prerequisite not met)
  or returns a tree.
-/
import TT.Spec.Transform
import TT.Transform.RootAttach
import TT.Transform.Misc
namespace TT.Spec
open TT TT.Tree

inductive TStep where
  | rootAttach | negra | rules (p : Preset) | boyd | raising | topnode
  | verylow | proot | sym (relc : Option Str) | binarize (bare : Bool) | collapse | uncollapse

def TStep.apply : TStep → Tree → Except Err Tree
  | .rootAttach, t => .ok (Tree.rootAttach t)
  | .negra, t => .ok (negraMarkHeads t)
  | .rules p, t => markHeadsByRules (some p) none t
  | .boyd, t => boydSplit t
  | .raising, t => .ok (Tree.raising t)
  | .topnode, t => .ok (addTopnode t)
  | .verylow, t => .ok (punctuationVerylow t)
  | .proot, t => .ok (punctuationRoot t)
  | .sym r, t => .ok (punctuationSymetrify r t)
  | .binarize b, t => Tree.binarize b t
  | .collapse, t => .ok (Tree.collapse t)
  | .uncollapse, t => .ok (Tree.uncollapse t)

def applySteps : List TStep → Tree → Except Err Tree
  | [], t => .ok t
  | s :: ss, t => match s.apply t with
    | .ok t' => applySteps ss t'
    | .error e => .error e

def TStep.isCollapse : TStep → Bool
  | .collapse => true | .uncollapse => true | _ => false

/-- (number, word) of every token in sentence order -/
def wordsOf (t : Tree) : List (Nat × Option Str) := t.terminals.map fun l => (l.num, l.fields.word)

end TT.Spec
