/-
  Specification-side definitions for the wave-12 theorems on C11 (trace deletion, terminal files),
  C14 (what the `@` nodes of binarization carry) and C15 (rule-based head marking without the
  escape clause).  Short, computable, Mathlib-free; used only in theorem statements.
-/
import TT.Spec.Edit
import TT.Spec.Label
import TT.Spec.Transform
import TT.Proc
namespace TT.Spec
open TT TT.Tree

/-! ### C11: trace deletion -/

/-- the sentence entry of a token after trace deletion: a trace token (POS `-NONE-`) shows `-NONE-` as its
    word and the cleaned trace label as its POS, every other token is unchanged -/
def traceTok (o : TraceOpts) (l : Tree) : Tok :=
  if l.fields.label == NONE_POS then (some NONE_POS, traceLabel o (l.fields.word.getD []))
  else (l.fields.word, l.fields.label)

/-- a label in the documented order (category, function, gap index, co-index, head mark) without a
    default literal: once the index pieces that trace deletion erases are gone, what is left does
    not itself end in something that reads as an index -/
def indexFree (keepco : Bool) (l : Str) : Bool :=
  let p := decompose DEFAULT_GF_SEP l
  let rest := if keepco then p.cat ++ p.gfP ++ p.coP ++ p.hmP else p.cat ++ p.gfP ++ p.hmP
  noDefaultLiteral DEFAULT_GF_SEP p &&
  (decompose DEFAULT_GF_SEP rest).gapP.isEmpty && (keepco || (decompose DEFAULT_GF_SEP rest).coP.isEmpty)

/-! ### C11: terminal files -/

/-- one row of a terminal file: sentence id, index, word, optional tag -/
abbrev Row := Nat × Nat × Str × Option Str

/-- the lines of a terminal file (a final empty line is dropped) -/
def fileLines (content : Str) : List Str :=
  let lines := splitOnChar '\n' content
  if lines.getLast? == some [] then lines.dropLast else lines

/-- the fields of one line, read without looking at any other line -/
def lineRow (line : Str) : Option Row :=
  match splitWs line with
  | s :: k :: w :: rest =>
    (match strToNat? s, strToNat? k with
     | some s, some k => some (s, k, w, rest.head?)
     | _, _ => none)
  | _ => none

/-- what identifies a request: sentence id and index -/
def rowKey (r : Row) : Nat × Nat := (r.1, r.2.1)

/-! ### C14: the fresh nodes of binarization; token tags after collapsing -/

mutual
/-- walking down from a constituent labelled `pl`: every `@`-labelled constituent reached through
    `@`-labelled constituents only carries exactly the fields `mk pl`; below any other constituent the
    same holds with that constituent's own label -/
def atFieldsOK (mk : Str → Fields) : Str → Tree → Bool
  | _, leaf _ _ => true
  | pl, node f ks =>
    if f.label.head? == some '@' then f == mk pl && atFieldsOKL mk pl ks
    else atFieldsOKL mk f.label ks
def atFieldsOKL (mk : Str → Fields) : Str → List Tree → Bool
  | _, [] => true
  | pl, t :: ts => atFieldsOK mk pl t && atFieldsOKL mk pl ts
end

/-- the documented `@` label: `@`, then (unless bare) the parent label without its co-index piece -/
def atLabel (bare : Bool) (parentLabel : Str) : Str :=
  '@' :: (if bare then [] else render DEFAULT_GF_SEP false false ((decompose DEFAULT_GF_SEP parentLabel).erase .co))

mutual
/-- POS tags of the tokens after collapsing, computed independently: a token at the end of a unary chain
    carries the '+'-join of the chain's labels (top-down) and its own tag, any other token keeps its tag -/
def tokenLabels : Tree → List Str
  | leaf _ f => [f.label]
  | node f ks => tokenChain f.label ks
def tokenChain (acc : Str) : List Tree → List Str
  | [leaf _ g] => [acc ++ '+' :: g.label]
  | [node g ks] => tokenChain (acc ++ '+' :: g.label) ks
  | ks => tokenLabelsL ks
def tokenLabelsL : List Tree → List Str
  | [] => []
  | t :: ts => tokenLabels t ++ tokenLabelsL ts
end

/-! ### C15: rule-based head marking -/

/-- the category piece of a label; the default category when that piece is empty -/
def catPiece (l : Str) : Str :=
  let p := decompose DEFAULT_GF_SEP l
  if p.cat.isEmpty then DEFAULT_LABEL else p.cat

/-- a child's category as the head rules compare it: decorations cut off and lower-cased
    (cut, lower-case, cut again, lower-case again: the order the code applies them in) -/
def ruleCat (l : Str) : Str := pyLower (catPiece (pyLower (catPiece l)))

/-- rule-based marking without any exception: whenever exactly one child's category is listed in the
    rule entries of the parent's category, that child is the head -/
def uniqueListedStrict (rules : HeadRules) (t : Tree) : Bool :=
  t.subtrees.all fun s => match s with
    | node f (k :: ks) =>
      (match lookupRules rules (pyLower (catPiece f.label)) with
       | none => true
       | some ents =>
         (match (k :: ks).filter (fun c => (ents.flatMap (·.2)).contains (ruleCat c.fields.label)) with
          | [c] => c.fields.head == some true
          | _ => true))
    | _ => true

end TT.Spec
