/-
  PINNED copy of the constant tables of /repo (trees.py, grammarconst.py, transformconst.py) at the commit the theorems
  were established for.  NOT regenerated.  `TT.Gen.*` (TT/Generated/Consts.lean) is regenerated from /repo on every run;
  `TT.Props.ConstsPinned.all_consts_pinned` states that the two coincide, so a changed constant breaks a proof obligation.
-/
import TT.Str
namespace TT.Pinned
open TT
def QUOTES : List Str := [("\"".toList : Str), ("'".toList : Str), ("''".toList : Str), ("`".toList : Str), ("``".toList : Str)]
def COMMA : List Str := [(".".toList : Str), (",".toList : Str), (";".toList : Str), ("?".toList : Str), ("!".toList : Str), ("--".toList : Str), (":".toList : Str), ("-".toList : Str), ("/".toList : Str), ("...".toList : Str)]
def PAIRPUNCT : List Str := [("\"".toList : Str), ("'".toList : Str), ("''".toList : Str), ("`".toList : Str), ("``".toList : Str), ("(".toList : Str), ("-LRB-".toList : Str), ("[".toList : Str), ("-LSB-".toList : Str), ("{".toList : Str), ("-LCB-".toList : Str), (")".toList : Str), ("-RRB-".toList : Str), ("]".toList : Str), ("-RSB-".toList : Str), ("}".toList : Str), ("-RCB-".toList : Str)]
def PUNCT : List Str := [("\"".toList : Str), ("'".toList : Str), ("''".toList : Str), ("`".toList : Str), ("``".toList : Str), ("(".toList : Str), ("-LRB-".toList : Str), ("[".toList : Str), ("-LSB-".toList : Str), ("{".toList : Str), ("-LCB-".toList : Str), (")".toList : Str), ("-RRB-".toList : Str), ("]".toList : Str), ("-RSB-".toList : Str), ("}".toList : Str), ("-RCB-".toList : Str), (".".toList : Str), (",".toList : Str), (";".toList : Str), ("?".toList : Str), ("!".toList : Str), ("--".toList : Str), (":".toList : Str), ("-".toList : Str), ("/".toList : Str), ("...".toList : Str)]
def BRACKETS : List (Str × Str) := [(("(".toList : Str), ("LRB".toList : Str)), (("-LRB-".toList : Str), ("LRB".toList : Str)), (("[".toList : Str), ("LSB".toList : Str)), (("-LSB-".toList : Str), ("LSB".toList : Str)), (("{".toList : Str), ("LCB".toList : Str)), (("-LCB-".toList : Str), ("LCB".toList : Str)), ((")".toList : Str), ("RRB".toList : Str)), (("-RRB-".toList : Str), ("RRB".toList : Str)), (("]".toList : Str), ("RSB".toList : Str)), (("-RSB-".toList : Str), ("RSB".toList : Str)), (("}".toList : Str), ("RCB".toList : Str)), (("-RCB-".toList : Str), ("RCB".toList : Str))]
def PHRASE_BRACKETS : List Str := [("(".toList : Str), (")".toList : Str)]
def DEFAULT_GF_SEPARATOR : Str := ("-".toList : Str)
def DEFAULT_COINDEX_SEPARATOR : Str := ("-".toList : Str)
def DEFAULT_GAPPING_SEPARATOR : Str := ("=".toList : Str)
def DEFAULT_HEAD_MARKER : Str := ("'".toList : Str)
def DEFAULT_WORD : Str := ("".toList : Str)
def DEFAULT_LEMMA : Str := ("--".toList : Str)
def DEFAULT_LABEL : Str := ("EMPTY".toList : Str)
def DEFAULT_MORPH : Str := ("--".toList : Str)
def DEFAULT_EDGE : Str := ("--".toList : Str)
def DEFAULT_ROOT : Str := ("VROOT".toList : Str)
def FIELDS : List Str := [("word".toList : Str), ("lemma".toList : Str), ("label".toList : Str), ("morph".toList : Str), ("edge".toList : Str), ("parent_num".toList : Str)]
def NUMBER_OF_FIELDS : Nat := 6
def G_PRAGMA : Str := (":".toList : Str)
def G_RULE : Str := (":".toList : Str)
def G_RULEARROW : Str := ("<-".toList : Str)
def G_LINEARIZATION : Str := ("=".toList : Str)
def G_SEQUENCE : Str := ("->".toList : Str)
def G_RCG_RULEARROW : Str := ("-->".toList : Str)
def G_DEFAULT_BINLABEL : Str := ("@".toList : Str)
def G_DEFAULT_BINSUFFIX : Str := ("X".toList : Str)
def G_DEFAULT_MARKOV_HORIZONTALSEP : Str := ("-".toList : Str)
def G_DEFAULT_MARKOV_VERTICALSEP : Str := ("^".toList : Str)
def G_DEFAULT_VERT : Str := ("VERT".toList : Str)
/-- head rules: (parent category, [(leftToRight, priority list)]) -/
def HEAD_RULES_PTB : List (Str × List (Bool × List Str)) := [
  (("adjp".toList : Str), [(true, [("nns".toList : Str), ("qp".toList : Str), ("nn".toList : Str), ("$".toList : Str), ("advp".toList : Str), ("jj".toList : Str), ("vbn".toList : Str), ("vbg".toList : Str), ("adjp".toList : Str), ("jjr".toList : Str), ("np".toList : Str), ("jjs".toList : Str), ("dt".toList : Str), ("fw".toList : Str), ("rbr".toList : Str), ("rbs".toList : Str), ("sbar".toList : Str), ("rb".toList : Str)])]),
  (("advp".toList : Str), [(false, [("rb".toList : Str), ("rbr".toList : Str), ("rbs".toList : Str), ("fw".toList : Str), ("advp".toList : Str), ("to".toList : Str), ("cd".toList : Str), ("jjr".toList : Str), ("jj".toList : Str), ("in".toList : Str), ("np".toList : Str), ("jjs".toList : Str), ("nn".toList : Str)])]),
  (("conjp".toList : Str), [(false, [("cc".toList : Str), ("rb".toList : Str), ("in".toList : Str)])]),
  (("frag".toList : Str), [(false, [])]),
  (("intj".toList : Str), [(true, [])]),
  (("lst".toList : Str), [(false, [("ls".toList : Str), (":".toList : Str)])]),
  (("nac".toList : Str), [(true, [("nn".toList : Str), ("nns".toList : Str), ("nnp".toList : Str), ("nnps".toList : Str), ("np".toList : Str), ("nac".toList : Str), ("ex".toList : Str), ("$".toList : Str), ("cd".toList : Str), ("qp".toList : Str), ("prp".toList : Str), ("vbg".toList : Str), ("jj".toList : Str), ("jjs".toList : Str), ("jjr".toList : Str), ("adjp".toList : Str), ("fw".toList : Str)])]),
  (("pp".toList : Str), [(false, [("in".toList : Str), ("to".toList : Str), ("vbg".toList : Str), ("vbn".toList : Str), ("rp".toList : Str), ("fw".toList : Str)])]),
  (("prn".toList : Str), [(true, [])]),
  (("prt".toList : Str), [(false, [("rp".toList : Str)])]),
  (("qp".toList : Str), [(true, [("$".toList : Str), ("in".toList : Str), ("nns".toList : Str), ("nn".toList : Str), ("jj".toList : Str), ("rb".toList : Str), ("dt".toList : Str), ("cd".toList : Str), ("ncd".toList : Str), ("qp".toList : Str), ("jjr".toList : Str), ("jjs".toList : Str)])]),
  (("rrc".toList : Str), [(false, [("vp".toList : Str), ("np".toList : Str), ("advp".toList : Str), ("adjp".toList : Str), ("pp".toList : Str)])]),
  (("s".toList : Str), [(true, [("to".toList : Str), ("in".toList : Str), ("vp".toList : Str), ("s".toList : Str), ("sbar".toList : Str), ("adjp".toList : Str), ("ucp".toList : Str), ("np".toList : Str)])]),
  (("sbar".toList : Str), [(true, [("whnp".toList : Str), ("whpp".toList : Str), ("whadvp".toList : Str), ("whadjp".toList : Str), ("in".toList : Str), ("dt".toList : Str), ("s".toList : Str), ("sq".toList : Str), ("sinv".toList : Str), ("sbar".toList : Str), ("frag".toList : Str)])]),
  (("sbarq".toList : Str), [(true, [("sq".toList : Str), ("s".toList : Str), ("sinv".toList : Str), ("sbarq".toList : Str), ("frag".toList : Str)])]),
  (("sinv".toList : Str), [(true, [("vbz".toList : Str), ("vbd".toList : Str), ("vbp".toList : Str), ("vb".toList : Str), ("md".toList : Str), ("vp".toList : Str), ("s".toList : Str), ("sinv".toList : Str), ("adjp".toList : Str), ("np".toList : Str)])]),
  (("sq".toList : Str), [(true, [("vbz".toList : Str), ("vbd".toList : Str), ("vbp".toList : Str), ("vb".toList : Str), ("md".toList : Str), ("vp".toList : Str), ("sq".toList : Str)])]),
  (("ucp".toList : Str), [(false, [])]),
  (("vp".toList : Str), [(true, [("to".toList : Str), ("vbd".toList : Str), ("vbn".toList : Str), ("md".toList : Str), ("vbz".toList : Str), ("vb".toList : Str), ("vbg".toList : Str), ("vbp".toList : Str), ("vp".toList : Str), ("adjp".toList : Str), ("nn".toList : Str), ("nns".toList : Str), ("np".toList : Str)])]),
  (("whadjp".toList : Str), [(true, [("cc".toList : Str), ("wrb".toList : Str), ("jj".toList : Str), ("adjp".toList : Str)])]),
  (("whadvp".toList : Str), [(false, [("cc".toList : Str), ("wrb".toList : Str)])]),
  (("whnp".toList : Str), [(true, [("wdt".toList : Str), ("wp".toList : Str), ("wp$".toList : Str), ("whadjp".toList : Str), ("whpp".toList : Str), ("whnp".toList : Str)])]),
  (("whpp".toList : Str), [(false, [("in".toList : Str), ("to".toList : Str), ("fw".toList : Str)])])]
def HEAD_RULES_NEGRA : List (Str × List (Bool × List Str)) := [
  (("s".toList : Str), [(false, [("vvfin".toList : Str), ("vvimp".toList : Str)]), (false, [("vp".toList : Str), ("cvp".toList : Str)]), (false, [("vmfin".toList : Str), ("vafin".toList : Str), ("vaimp".toList : Str)]), (false, [("s".toList : Str), ("cs".toList : Str)])]),
  (("vp".toList : Str), [(false, [("vvinf".toList : Str), ("vvizu".toList : Str), ("vvpp".toList : Str)]), (false, [("vz".toList : Str), ("vainf".toList : Str), ("vminf".toList : Str), ("vmpp".toList : Str), ("vapp".toList : Str), ("pp".toList : Str)])]),
  (("vz".toList : Str), [(false, [("vvinf".toList : Str), ("vainf".toList : Str), ("vminf".toList : Str), ("vvfin".toList : Str), ("vvizu".toList : Str)]), (true, [("prtzu".toList : Str), ("appr".toList : Str), ("ptkzu".toList : Str)])]),
  (("np".toList : Str), [(false, [("nn".toList : Str), ("ne".toList : Str), ("mpn".toList : Str), ("np".toList : Str), ("cnp".toList : Str), ("pn".toList : Str), ("car".toList : Str)])]),
  (("ap".toList : Str), [(false, [("adjd".toList : Str), ("adja".toList : Str), ("cap".toList : Str), ("aa".toList : Str), ("adv".toList : Str)])]),
  (("pp".toList : Str), [(true, [("kokom".toList : Str), ("appr".toList : Str), ("proav".toList : Str)])]),
  (("co".toList : Str), [(true, [])]),
  (("avp".toList : Str), [(false, [("adv".toList : Str), ("avp".toList : Str), ("adjd".toList : Str), ("proav".toList : Str), ("pp".toList : Str)])]),
  (("aa".toList : Str), [(false, [("adjd".toList : Str), ("adja".toList : Str)])]),
  (("cnp".toList : Str), [(false, [("nn".toList : Str), ("ne".toList : Str), ("mpn".toList : Str), ("np".toList : Str), ("cnp".toList : Str), ("pn".toList : Str), ("car".toList : Str)])]),
  (("cap".toList : Str), [(false, [("adjd".toList : Str), ("adja".toList : Str), ("cap".toList : Str), ("aa".toList : Str), ("adv".toList : Str)])]),
  (("cpp".toList : Str), [(false, [("appr".toList : Str), ("proav".toList : Str), ("pp".toList : Str), ("cpp".toList : Str)])]),
  (("cs".toList : Str), [(false, [("s".toList : Str), ("cs".toList : Str)])]),
  (("cvp".toList : Str), [(false, [("vz".toList : Str)])]),
  (("cvz".toList : Str), [(false, [("vz".toList : Str)])]),
  (("cavp".toList : Str), [(false, [("adv".toList : Str), ("avp".toList : Str), ("adjd".toList : Str), ("pwav".toList : Str), ("appr".toList : Str), ("ptkvz".toList : Str)])]),
  (("mpn".toList : Str), [(false, [("ne".toList : Str), ("fm".toList : Str), ("card".toList : Str)])]),
  (("nm".toList : Str), [(false, [("card".toList : Str), ("nn".toList : Str)])]),
  (("cac".toList : Str), [(false, [("appr".toList : Str), ("avp".toList : Str)])]),
  (("ch".toList : Str), [(false, [])]),
  (("mta".toList : Str), [(false, [("adja".toList : Str), ("adjd".toList : Str), ("nn".toList : Str)])]),
  (("ccp".toList : Str), [(false, [("avp".toList : Str)])]),
  (("dl".toList : Str), [(true, [])]),
  (("isu".toList : Str), [(false, [])]),
  (("ql".toList : Str), [(false, [])]),
  (("-".toList : Str), [(false, [("pp".toList : Str)])]),
  (("cd".toList : Str), [(false, [("cd".toList : Str)])]),
  (("nn".toList : Str), [(false, [("nn".toList : Str)])]),
  (("nr".toList : Str), [(false, [("nr".toList : Str)])]),
  (("vroot".toList : Str), [(true, [("$.".toList : Str), ("$".toList : Str)])])]
def INPUT_FORMATS : List Str := [("export".toList : Str), ("brackets".toList : Str), ("discobrackets".toList : Str), ("tigerxml".toList : Str)]
def INPUT_OPTIONS : List Str := [("brackets_emptypos".toList : Str), ("brackets_firstid".toList : Str), ("continuous".toList : Str), ("disco_reordered".toList : Str), ("gf_separator".toList : Str), ("gf_split".toList : Str), ("quiet".toList : Str), ("replace_parens".toList : Str)]
def OUTPUT_FORMATS : List Str := [("export".toList : Str), ("brackets".toList : Str), ("discobrackets".toList : Str), ("tigerxml".toList : Str), ("terminals".toList : Str)]
def OUTPUT_OPTIONS : List Str := [("boyd_split_marking".toList : Str), ("boyd_split_numbering".toList : Str), ("brackets_emptyroot".toList : Str), ("brackets_skipdisco".toList : Str), ("export_four".toList : Str), ("gf".toList : Str), ("gf_separator".toList : Str), ("gf_terminals".toList : Str), ("mark_heads_marking".toList : Str), ("terminals_one".toList : Str), ("terminals_pos".toList : Str)]
def TRANSFORMATIONS : List Str := [("root_attach".toList : Str), ("boyd_split".toList : Str), ("raising".toList : Str), ("add_topnode".toList : Str), ("substitute_terminals".toList : Str), ("insert_terminals".toList : Str), ("punctuation_delete".toList : Str), ("punctuation_verylow".toList : Str), ("punctuation_symetrify".toList : Str), ("punctuation_root".toList : Str), ("negra_mark_heads".toList : Str), ("mark_heads_by_rules".toList : Str), ("ptb_delete_traces".toList : Str), ("binarize".toList : Str), ("collapse_unary_chains".toList : Str), ("filter_by_length".toList : Str)]
end TT.Pinned
