/-
  Specification-side definitions of wave 15 (tag w15d): short, trusted statements of intent.  No Mathlib, computable.
  * C20: a label written from its five parts with an arbitrary one-character function separator;
  * C19: the check "left and right sibling are the neighbours in the ordered child list" as a named predicate on a table
    of answers (the content of the driver's inline check `P.C19.siblings`).
-/
import TT.Spec.Label
import TT.Spec.Nav
namespace TT.Spec
open TT TT.Tree

/-! ### C20 -/

/-- the text of a label with category `cat`, function `gf` after the one-character separator `sep`, gap index `gap`,
    co-index `co` (digit strings, empty = absent) and head mark `hm`: `cat<sep>gf=gap-co'` -/
def builtLabelSep (sep : Char) (cat gf gap co : Str) (hm : Bool) : Str :=
  cat ++ sep :: gf ++ (if gap.isEmpty then [] else '=' :: gap) ++ (if co.isEmpty then [] else '-' :: co) ++
    (if hm then ['\''] else [])

/-! ### C19: siblings -/

/-- one row of the table of answers: the address of a node, what `left_sibling` answered, what `right_sibling` answered
    (addresses; `none` = no such sibling) -/
abbrev SibRow := Path × Option Path × Option Path

/-- leftmost token of the node at `p` -/
def leftTokAt (t : Tree) (p : Path) : Nat := ((t.get? p).map minLeaf).getD 0

/-- `s` is the address of a sibling of the node at `p` (or of that node itself): same depth, same parent -/
def sibAddr (p s : Path) : Bool := s.length == p.length && s.dropLast == p.dropLast

/-- the table holds one row per node of `t` and, row by row:
    * a right sibling `q` answers `p` as ITS left sibling, is a sibling, its leftmost token is larger than that of `p`, and
      no sibling's leftmost token lies strictly between the two (`q` is the next one in the ordered child list);
    * no right sibling: `p` is the root, or no sibling has a larger leftmost token;
    * a left sibling `q` answers `p` as its right sibling; no left sibling: root, or no sibling has a smaller leftmost token. -/
def siblingsOK (t : Tree) (tbl : List SibRow) : Bool :=
  let ps := paths t
  let rightOf := fun (p : Path) => ((tbl.find? (·.1 == p)).map (·.2.2)).getD none
  let leftOf := fun (p : Path) => ((tbl.find? (·.1 == p)).map (·.2.1)).getD none
  tbl.map (·.1) == ps &&
  tbl.all fun (p, l, r) =>
    (match r with
     | some q => leftOf q == some p && sibAddr p q && leftTokAt t p < leftTokAt t q &&
         ps.all fun s => !sibAddr p s || !(leftTokAt t p < leftTokAt t s && leftTokAt t s < leftTokAt t q)
     | none => p == [] || ps.all fun s => !sibAddr p s || leftTokAt t s ≤ leftTokAt t p) &&
    (match l with
     | some q => rightOf q == some p
     | none => p == [] || ps.all fun s => !sibAddr p s || leftTokAt t p ≤ leftTokAt t s)

end TT.Spec
