/-
  Specification side for the transformation properties (C04, C05, C11-C15).
  Node identity is carried by `Fields.uid` (set by the harness, preserved by every
  transformation because node data is never rebuilt).
-/
import TT.Spec.Nav
import TT.Transform.Boyd
import TT.Transform.Binarize
import TT.Transform.Collapse
import TT.Transform.Heads
import TT.Transform.Punct
namespace TT.Spec
open TT TT.Tree

def bagEq (a b : List Str) : Bool :=
  a.length == b.length && a.all (fun x => a.count x == b.count x)

/-- `a` = `b` plus the extra labels `ex` (as multisets) -/
def bagEqPlus (a b ex : List Str) : Bool := bagEq a (b ++ ex)

mutual
/-- (uid of a node, uid of its parent) for every node that has a uid -/
def parentMap (par : Option Nat) : Tree → List (Nat × Option Nat)
  | leaf _ f => (match f.uid with | some u => [(u, par)] | none => [])
  | node f ks => (match f.uid with | some u => [(u, par)] | none => []) ++ parentMapL f.uid ks
def parentMapL (par : Option Nat) : List Tree → List (Nat × Option Nat)
  | [] => []
  | t :: ts => parentMap par t ++ parentMapL par ts
end

def parentOfUid (t : Tree) (u : Nat) : Option (Option Nat) :=
  ((parentMap none t).find? (·.1 == u)).map (·.2)

/-- the node carrying uid `u` -/
def findUid (t : Tree) (u : Nat) : Option Tree := t.subtrees.find? (fun s => s.fields.uid == some u)

/-- every uid of `a` occurs in `b` with the same parent, except those for which `free` holds -/
def parentsKept (a b : Tree) (free : Tree → Bool) : Bool :=
  (parentMap none a).all fun (u, p) =>
    match findUid a u with
    | some s => free s || parentOfUid b u == some p
    | none => true

/-- the observable content of a node that no structural transformation may touch -/
def content (f : Fields) : Str × Option Str × Option Str × Option Str × Option Str :=
  (f.label, f.word, f.lemma, f.morph, f.edge)

/-- all nodes with a uid carry the same label/word/lemma/morph/edge in `a` and `b` -/
def contentKept (a b : Tree) : Bool :=
  a.subtrees.all fun s => match s.fields.uid with
    | none => true
    | some u => match findUid b u with
      | some s' => content s.fields == content s'.fields && (s.isLeaf == s'.isLeaf) && (s.isLeaf → s.num == s'.num)
      | none => false

def continuous (t : Tree) : Bool := t.subtrees.all fun s => s.gapDegreeNode == 0

def sameSentence (a b : Tree) : Bool := a.sentence == b.sentence

def sameWords (a b : Tree) : Bool :=
  (a.terminals.map (·.fields.word)) == (b.terminals.map (·.fields.word))

/-- canonical shape string: structure, labels, words, numbers, uids (no other field) -/
partial def shape (t : Tree) : String :=
  match t with
  | leaf n f => s!"({String.ofList f.label} {n} {f.uid})"
  | node f ks => s!"({String.ofList f.label} {f.uid} " ++
      " ".intercalate ((sortBy (fun k => (k.yield.head?).getD 1000000) ks).map shape) ++ ")"

/-! ### C05 reference -/

def groupRuns : List (Bool × Tree) → List (List (Bool × Tree))
  | [] => []
  | [a] => [[a]]
  | a :: b :: rest =>
    match groupRuns (b :: rest) with
    | [] => [[a]]
    | blk :: blks => if leftmost b.2 > rightmost a.2 + 1 then [a] :: blk :: blks else (a :: blk) :: blks


mutual
/-- (kept node, material handed upward) -/
def contSpec : Tree → Tree × List Tree
  | leaf n f => (leaf n f, [])
  | node f ks =>
    let pool := contSpecL ks
    let runs := groupRuns (sortBy (fun x => leftmost x.2) pool)
    let keepIdx := (runs.findIdx? (fun r => r.any (·.1))).getD 0
    let keep := (runs[keepIdx]?).getD []
    let others := (runs.eraseIdx keepIdx).flatten
    (node f (keep.map (·.2)), others.map (·.2))
/-- pool of a child list: (is the kept node of the head child, tree) -/
def contSpecL : List Tree → List (Bool × Tree)
  | [] => []
  | t :: ts =>
    let r := contSpec t
    (t.fields.head == some true, r.1) :: (r.2.map fun u => (false, u)) ++ contSpecL ts
end
/-- the root keeps everything -/
def contSpecRoot (t : Tree) : Tree :=
  match t with
  | leaf n f => leaf n f
  | node f ks => node f ((contSpecL ks).map (·.2))

/-- after boyd_split alone: every original constituent (uid u) with k blocks is represented by
    exactly k nodes with that uid, continuous, their yields being the blocks in order
    (`block_number` = position), exactly one of them the head block when k > 1 -/
def splitOK (a b : Tree) : Bool :=
  a.subtrees.all fun s => match s, s.fields.uid with
    | node _ (_ :: _), some u =>
      let reps := b.subtrees.filter (fun x => x.fields.uid == some u)
      let blocks := s.blocks
      let repsSorted := sortBy leftmost reps
      reps.length == blocks.length &&
      (repsSorted.map (·.yield)) == blocks &&
      reps.all (fun r => r.fields.label == s.fields.label) &&
      (if blocks.length > 1 then
         reps.all (fun r => r.fields.split == some true) &&
         (repsSorted.zipIdx.all fun (r, i) => r.fields.blockNumber == some (i + 1)) &&
         (reps.filter (fun r => r.fields.headBlock == some true)).length == 1
       else reps.all (fun r => r.fields.split == some false))
    | _, _ => true

/-! ### C15 -/

/-- every constituent has exactly one child with head = true, all others head = false;
    the root is marked false -/
def oneHeadEach (t : Tree) : Bool :=
  t.fields.head == some false &&
  t.subtrees.all fun s => match s with
    | node _ (k :: ks) =>
      ((k :: ks).filter (fun c => c.fields.head == some true)).length == 1 &&
      (k :: ks).all (fun c => c.fields.head.isSome)
    | _ => true

/-- the NeGra heuristic stated on the ordered child list -/
def negraRuleOK (t : Tree) : Bool :=
  t.subtrees.all fun s => match s with
    | node _ (k :: ks) =>
      let cs := sortBy minLeaf (k :: ks)
      let isHD := fun (c : Tree) => c.fields.edge == some "HD".toList
      let isNK := fun (c : Tree) => c.fields.edge == some "NK".toList
      let want : Option Tree :=
        match cs.find? isHD with
        | some c => some c
        | none => match cs.reverse.find? isNK with
          | some c => some c
          | none => cs.head?
      (match want with
       | some c => c.fields.head == some true
       | none => false)
    | _ => true

/-- rule-based: whenever exactly one child's category is listed in the parent's rule entries,
    that child is the head -/
def uniqueListedOK (rules : HeadRules) (t : Tree) : Bool :=
  t.subtrees.all fun s => match s with
    | node f (k :: ks) =>
      match lookupRules rules (pyLower (parseLabel DEFAULT_GF_SEP f.label).label) with
      | none => true
      | some ents =>
        let listed := ents.flatMap (·.2)
        let cat := fun (c : Tree) => pyLower (parseLabel DEFAULT_GF_SEP (pyLower (parseLabel DEFAULT_GF_SEP c.fields.label).label)).label
        let hits := (k :: ks).filter fun c => listed.contains (cat c)
        (match hits with
         | [c] => -- an entry with an empty priority list placed before the entry listing `c` decides first
                  if (ents.takeWhile (fun e => !e.2.contains (cat c))).any (fun e => e.2.isEmpty) then true
                  else c.fields.head == some true
         | _ => true)
    | _ => true

/-! ### C13 -/

def tokenParentUid (t : Tree) (i : Nat) : Option Nat := (parentOfLeaf i t).bind (·.fields.uid)

def verylowPost (t : Tree) : Bool :=
  (t.terminals.drop 1).all fun l =>
    if isPunctWord l then
      sameParent t l.num (l.num - 1) || parentAllPunct t l.num
    else true

def rootPost (t : Tree) : Bool :=
  t.terminals.all fun l =>
    if isPunctWord l then
      parentPathOfLeaf l.num t == some [] || parentArity t l.num == 1
    else true

/-- tokens whose parent differs between `a` and `b` -/
def movedTokens (a b : Tree) : List Tree :=
  a.terminals.filter fun l => match l.fields.uid with
    | some u => parentOfUid a u != parentOfUid b u
    | none => false

/-- symetrify: moved tokens are paired punctuation, and the new parent directly contains another
    paired-punctuation token (or, with relc, a token followed by one tagged `relc`) -/
def symetrifyOK (relc : Option Str) (a b : Tree) : Bool :=
  (movedTokens a b).all fun l =>
    isPairPunctWord l &&
    (match parentOfLeaf l.num b with
     | some p => p.kids.any fun k => k.isLeaf && k.num != l.num &&
         (isPairPunctWord k ||
          (match relc with
           | some r => (match b.findLeaf (k.num + 1) with | some nx => nx.fields.label == r | none => false)
           | none => false))
     | none => false)

/-! ### C14 -/

/-- structure, labels, words only (what collapsing is documented to keep) -/
partial def skeleton (t : Tree) : String :=
  match t with
  | leaf n f => s!"({String.ofList f.label} {n} {f.word.map String.ofList})"
  | node f ks => s!"({String.ofList f.label} " ++
      " ".intercalate ((sortBy (fun k => (k.yield.head?).getD 1000000) ks).map skeleton) ++ ")"

mutual
/-- labels after collapsing, computed independently: every maximal unary chain contributes the
    '+'-join of its labels top-down -/
def collapsedLabels : Tree → List Str
  | leaf _ _ => []
  | node f ks => chainLabels f.label ks
def chainLabels (acc : Str) : List Tree → List Str
  | [leaf _ _] => []
  | [node g ks] => chainLabels (acc ++ '+' :: g.label) ks
  | ks => acc :: collapsedLabelsL ks
def collapsedLabelsL : List Tree → List Str
  | [] => []
  | t :: ts => collapsedLabels t ++ collapsedLabelsL ts
end

end TT.Spec
