/-
  Specification side, wave 12 (C01): side conditions and reference notions used by `TT/Props/C01Readers.lean`.
  Short, Mathlib-free, computable.
-/
import TT.Spec.Formats
import TT.IO.Read
import TT.Nav
namespace TT.Spec
open TT TT.Tree

/-- What the export format asks of the lines of one sentence (`#BOS` line, node lines, `#EOS` line) beyond the line
    grammar that `decExport` checks, for a reader that works line by line and tells the two column layouts apart by the
    fifth field:
    * a line contains no line break;
    * with the six-column layout (`v4`) the edge label is not a number;
    * no word starts with the end-of-sentence mark `#EOS`;
    * constituents are numbered from 500 (`#500` .. `#999`);
    * fewer than 500 tokens. -/
def ExportBlockOK (v4 : Bool) (ls : List Str) : Bool :=
  let body := ls.filterMap (decExpLine v4)
  ls.all (fun l => !l.contains '\n') &&
  body.all (fun e => (!v4 || !pyIsDigit e.edge) && !("#EOS".toList.isPrefixOf e.word) &&
    (match consNumber e.word with | some n => decide (500 ≤ n) | none => true)) &&
  decide ((body.filter fun e => (consNumber e.word).isNone).length < 500)

/-- `gf_split` in the bracket reader, said with the function of the TIGER-XML reader: every node that has a label in the
    file is treated by `gfSplitTree`; the only node without one is a label-less root (it has no edge label either) -/
def gfSplitRead (sep : Str) : Tree → Tree
  | .node f ks => if f.edge.isNone then .node f (gfSplitTreeL sep ks) else gfSplitTree sep (.node f ks)
  | t => gfSplitTree sep t

/-- `gf_split` in the export reader: `gfSplitTree` on every node below the virtual root (node 0 has no line in the file) -/
def gfSplitBelowRoot (sep : Str) : Tree → Tree
  | .node f ks => .node f (gfSplitTreeL sep ks)
  | t => t

/-- the sentence number on a `#BOS` line of an export file (second field), `none` for every other line -/
def bosId (line : Str) : Option Nat :=
  match splitWs line with
  | w :: n :: _ => if "#BOS".toList.isPrefixOf w then strToNat? n else none
  | _ => none

/-- the label-rewriting reader options (`gf_split`, then `replace_parens`) as a post-processing of the option-free result
    of the bracket reader -/
def bracketsPost (o : InOpts) (t : Tree) : Tree :=
  let t := if o.gfSplit then gfSplitRead (o.gfSeparator.getD DEFAULT_GF_SEP) t else t
  if o.replaceParens then replaceParensTree t else t

/-- side conditions on a discobracket line `tree TAB sentence` beyond what `decDisco` checks: the words of the sentence are
    non-empty and free of whitespace and parentheses (they are separated by single blanks); labels likewise (`BracketsOK`);
    every token index points into the sentence (1-based) -/
def DiscoLineOK (line : Str) : Bool :=
  match splitOnChar '\t' line with
  | [tr, sent] =>
    let words := splitOnChar ' ' sent
    words.all (fun w => fieldOK w && w.all (fun c => c != '(' && c != ')')) &&
    (match decBrackets tr with
     | some t => BracketsOK t && t.leaves.all (fun l => match l.fields.word.bind strToNat? with
         | some k => decide (1 ≤ k) && decide (k ≤ words.length)
         | none => false)
     | none => false)
  | _ => false

/-! ### TIGER-XML: the element structure of one written sentence, and what the reader makes of it -/

/-- the element structure (as ElementTree delivers it) of the `<s>` element that `writeTiger sid t` writes: one `<t>` per token
    in token order, one `<nt>` per constituent with one `<edge>` per child; identifiers are the export numbers -/
def xsentOf (sid : Nat) (t : Tree) : XSent :=
  let numOf := fun (p : Path) => (exportNum t p).getD 0
  let dflt := fun (x : Option Str) => x.getD "--".toList
  { id := natToStr sid,
    terms := t.terminals.map fun l =>
      { id := natToStr l.num, word := some (dflt l.fields.word), pos := some l.fields.label,
        morph := some (dflt l.fields.morph), lemma := some (dflt l.fields.lemma) },
    nts := (t.postorderP.filterMap fun p => match t.get? p with
        | some (node f (k :: ks)) => some (p, node f (k :: ks))
        | _ => none).map fun (p, s) =>
      { id := natToStr (numOf p), cat := some s.fields.label,
        edges := (childOrder s).map fun i =>
          let c := s.kids[i]?
          (some ((c.bind (·.fields.edge)).getD DEFAULT_EDGE),
           natToStr (match c with
            | some (leaf n _) => n
            | _ => numOf (p ++ [i]))) } }

mutual
/-- what the TIGER-XML reader delivers for the content the format holds (`carryTiger`): a constituent additionally carries
    the default lemma and morphology -/
def tigerRead : Tree → Tree
  | leaf n f => carryTiger (leaf n f)
  | node f ks =>
    node { label := f.label, lemma := some DEFAULT_LEMMA, morph := some DEFAULT_MORPH, edge := some (f.edge.getD DEFAULT_EDGE) } (tigerReadL ks)
def tigerReadL : List Tree → List Tree
  | [] => []
  | t :: ts => tigerRead t :: tigerReadL ts
end

/-- the whole sentence: the root has no edge label in the format; a root that is not labelled `VROOT` is put below a new one -/
def tigerReadTop (t : Tree) : Tree :=
  let c := (tigerRead t).setFields fun f => { f with edge := some DEFAULT_EDGE }
  if t.fields.label != DEFAULT_ROOT then
    node { label := DEFAULT_ROOT, morph := some DEFAULT_MORPH, edge := some DEFAULT_EDGE, lemma := some DEFAULT_LEMMA } [c]
  else c

end TT.Spec
