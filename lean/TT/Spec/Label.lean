/-
  Specification side for C20: a label string is cut into five LITERAL pieces
  (category, function part incl. separator, gap part incl. '=', co-index part incl. '-',
  head mark) whose concatenation is the string itself.  The property is then stated on
  pieces: formatting drops only the two default literals, erasing a component drops
  exactly its piece.
-/
import TT.Label
namespace TT.Spec
open TT

structure Pieces where
  cat : Str      -- category
  gfP : Str      -- separator ++ function, or []
  gapP : Str     -- '=' :: digits, or []
  coP : Str      -- '-' :: digits, or []
  hmP : Str      -- "'" or []
deriving DecidableEq, Repr

def Pieces.concat (p : Pieces) : Str := p.cat ++ p.gfP ++ p.gapP ++ p.coP ++ p.hmP

/-- cut off `<c><digits>` at the last `c` -/
def cutIndex (c : Char) (s : Str) : Str × Str :=
  match splitLast c s with
  | some (a, b) => if pyIsDigit b then (a, c :: b) else (s, [])
  | none => (s, [])

def decompose (sep : Str) (s : Str) : Pieces :=
  let (s1, hm) : Str × Str := if s.getLast? = some '\'' then (s.dropLast, ['\'']) else (s, [])
  let (s2, co) := cutIndex '-' s1
  let (s3, gap) := cutIndex '=' s2
  let (cat, gf) : Str × Str := match sep with
    | [c] => (match splitFirst c s3 with
        | some (a, b) => if !a.isEmpty && !b.isEmpty then (a, c :: b) else (s3, [])
        | none => (s3, []))
    | _ => (s3, [])
  { cat := cat, gfP := gf, gapP := gap, coP := co, hmP := hm }

/-- what formatting must give: the pieces, minus a category that is literally `EMPTY`
    and a function that is literally `--` (unless requested); an absent category/function is
    filled with the default when `always_*` asks for it. -/
def render (sep : Str) (alwaysLabel alwaysGf : Bool) (p : Pieces) : Str :=
  let cat := if p.cat.isEmpty then (if alwaysLabel then DEFAULT_LABEL else [])
             else if p.cat = DEFAULT_LABEL && !alwaysLabel then [] else p.cat
  let gf := if p.gfP.isEmpty then (if alwaysGf then sep ++ DEFAULT_EDGE else [])
            else if p.gfP = sep ++ DEFAULT_EDGE && !alwaysGf then [] else p.gfP
  cat ++ gf ++ p.gapP ++ p.coP ++ p.hmP

/-- no default literal occurs in the label -/
def noDefaultLiteral (sep : Str) (p : Pieces) : Bool :=
  p.cat ≠ DEFAULT_LABEL && p.gfP ≠ sep ++ DEFAULT_EDGE

inductive Comp | gap | co | gf | hm
deriving DecidableEq, Repr

def Pieces.erase (p : Pieces) : Comp → Pieces
  | .gap => { p with gapP := [] }
  | .co => { p with coP := [] }
  | .gf => { p with gfP := [] }
  | .hm => { p with hmP := [] }

/-- `label` with the component emptied, as the caller does it on the parsed object -/
def eraseParsed (l : Label) : Comp → Label
  | .gap => { l with gapindex := [] }
  | .co => { l with coindex := [] }
  | .gf => { l with gf := DEFAULT_EDGE }
  | .hm => { l with headmarker := false }

/-- decoration pieces of `get_label` -/
def decorations (o : OutOpts) (t : Tree) : Str :=
  let f := t.fields
  let edge := f.edge.getD DEFAULT_EDGE
  (if o.gf && edge.head? ≠ some '-' && (!t.kids.isEmpty || o.gfTerminals)
     then (o.gfSeparator.getD DEFAULT_GF_SEP) ++ edge else []) ++
  (if o.markHeads && f.head = some true then ['\''] else []) ++
  (if o.splitMarking && f.split = some true then ['*'] else []) ++
  (if o.splitNumbering && f.split = some true then natToStr (f.blockNumber.getD 0) else [])

end TT.Spec
