/-
  Specification side, wave 19 (C01 rows 7, 10): the TIGER-XML reader on FOREIGN element structures
  (arbitrary id strings, any order of `<nt>` elements, edges before or after the elements they point to).
  Short, Mathlib-free.  Nothing here refers to the reader model (`tigerBuild`, `tigerSentence`); `tigerPost` names the two label-rewriting options.
-/
import TT.IO.Read
import TT.Spec.Nav
namespace TT.Spec
open TT TT.Tree

/-- the id attributes of all `<t>` and `<nt>` elements of one `<s>` -/
def _root_.TT.XSent.ids (s : XSent) : List Str := s.terms.map (·.id) ++ s.nts.map (·.id)

/-- the `idref` attributes of all `<edge>` elements of one `<s>` -/
def _root_.TT.XSent.refs (s : XSent) : List Str := s.nts.flatMap fun nt => nt.edges.map (·.2)

/-- what a `<t>` element says about its token; `edge` = the value of the `label` attribute of the `<edge>` that points to it
    (`none` when that `<edge>` has no `label`: `edge.get('label')` is Python `None`); a `<t>` without `word` gives the text `None`
    (`str(node.get('word'))`) -/
def termFields (tm : XTerm) (edge : Option Str) : Fields :=
  { label := tm.pos.getD [], word := some (tm.word.getD "None".toList), morph := tm.morph, lemma := tm.lemma, edge := edge }

/-- what an `<nt>` element says about its constituent (no lemma / morphology attribute: the defaults) -/
def ntFields (x : XNt) (edge : Option Str) : Fields :=
  { label := x.cat.getD [], morph := some DEFAULT_MORPH, lemma := some DEFAULT_LEMMA, edge := edge }

mutual
/-- `IsXTree s i e t`: `t` is the tree of the element with id `i`, whose edge field is `e` (the `label` of the `<edge>` pointing to it).
    A token is the `n`-th `<t>` element (token numbers by position); a constituent is an `<nt>` element and its children
    are the trees of the targets of its `<edge>` elements, in the order of these elements. -/
def IsXTree (s : XSent) : Str → Option Str → Tree → Prop
  | i, e, .leaf n f => ∃ tm, 1 ≤ n ∧ s.terms[n - 1]? = some tm ∧ tm.id = i ∧ f = termFields tm e
  | i, e, .node f ks => ∃ x, x ∈ s.nts ∧ x.id = i ∧ f = ntFields x e ∧ IsXKids s x.edges ks
def IsXKids (s : XSent) : List (Option Str × Str) → List Tree → Prop
  | [], [] => True
  | ed :: es, k :: ks => IsXTree s ed.2 ed.1 k ∧ IsXKids s es ks
  | _, _ => False
end

/-- a root that is not labelled `VROOT` is put below a new `VROOT` -/
def vrootOf (d : Tree) : Tree :=
  if d.fields.label != DEFAULT_ROOT then
    .node { label := DEFAULT_ROOT, morph := some DEFAULT_MORPH, edge := some DEFAULT_EDGE, lemma := some DEFAULT_LEMMA } [d]
  else d

/-- the label-rewriting reader options (`gf_split`, then `replace_parens`), applied to the finished sentence tree -/
def tigerPost (o : InOpts) (t : Tree) : Tree :=
  let t := if o.gfSplit then gfSplitTree (o.gfSeparator.getD DEFAULT_GF_SEP) t else t
  if o.replaceParens then replaceParensTree t else t

/-- the decoder, as a relation: `t` is the sentence tree of `s` with root element `root`.  The `root` attribute of `<graph>`
    is NOT consulted (the Python discards it: "Root is found by looking for nodes with no parent"); the root element is the one
    no `<edge>` points to, and its edge field is the default `--`.  Functional on structures with distinct ids (`C01Tiger2.XDecodes_unique`). -/
def XDecodes (s : XSent) (root : Str) (t : Tree) : Prop :=
  root ∈ s.ids ∧ root ∉ s.refs ∧ ∃ d, IsXTree s root (some DEFAULT_EDGE) d ∧ t = vrootOf d

/-- well-formedness of an element structure with root element `root`:
    ids distinct; every idref resolves; the root has no incoming edge, every other element exactly one; acyclic, i.e. the
    elements can be numbered so that every `<edge>` goes from a larger to a smaller number. -/
structure XWF (s : XSent) (root : Str) : Prop where
  nodup : s.ids.Nodup
  resolves : ∀ r ∈ s.refs, r ∈ s.ids
  root_mem : root ∈ s.ids
  root_free : root ∉ s.refs
  one_edge : ∀ i ∈ s.ids, i ≠ root → s.refs.count i = 1
  acyclic : ∃ rk : Str → Nat, ∀ nt ∈ s.nts, ∀ e ∈ nt.edges, rk e.2 < rk nt.id

/-- the same, decidable, for a GIVEN numbering (used for examples) -/
def xwfB (s : XSent) (root : Str) (rk : Str → Nat) : Bool :=
  nodupStr s.ids && s.refs.all (fun r => s.ids.contains r) && s.ids.contains root && !s.refs.contains root &&
  s.ids.all (fun i => i == root || s.refs.count i == 1) &&
  s.nts.all (fun nt => nt.edges.all fun e => decide (rk e.2 < rk nt.id))
where nodupStr : List Str → Bool
  | [] => true
  | a :: r => !r.contains a && nodupStr r

/-- every `<edge>` has a `label` attribute.  (Without it the real code stores Python `None` as the child's edge label - what
    `IsXKids` says - and so does the reader model since repair P11, `C01Tiger2.exNoLabel`; the hypothesis is no longer needed
    by the `C01Tiger2` theorems.) -/
def XLabelled (s : XSent) : Prop := ∀ nt ∈ s.nts, ∀ e ∈ nt.edges, e.1.isSome = true

/-- no `<nt>` without `<edge>` (such an element is read as a childless constituent) -/
def XNoEmpty (s : XSent) : Prop := ∀ nt ∈ s.nts, nt.edges ≠ []

end TT.Spec
