/-
  Specification side for C07 (wave 12): the chain of rules expected for one rule of rank >= 3, for arbitrary labels,
  and the labels the two label generators are expected to hand out.  Used by `TT/Props/C07Sem.lean`.
-/
import TT.Spec.Grammar
namespace TT.Spec
open TT

/-- The left-to-right binarization chain of the rule `func[0] -> func[1] func[2] ...` with linearization `lin`.
    `chainG func lab n p h t` is the part of the chain that starts at the rule with left-hand side `h`, whose first
    right-hand-side element is the original element `p` (`func[p+1]`), whose linearization is `t`, and which needs `n`
    further binarization symbols; `lab q` is the symbol introduced at position `q`.
      rule:   h -> func[p+1] (lab p)      with `topLin t`   (element p kept, everything else is "the rest")
      then the chain of  (lab p) -> func[p+2] ...  with `restLin t`  (element p removed)
      last:   h -> func[p+1] func[p+2]    with `t` itself.
    The whole chain is `chainG func lab (func.length - 3) 0 func[0] lin`. -/
def chainG (func : Func) (lab : Nat → Str) : (n : Nat) → (p : Nat) → (h : Str) → (t : Lin) → List (Func × Lin)
  | 0, p, h, t => [([h, func[p + 1]?.getD [], func[p + 2]?.getD []], t)]
  | n + 1, p, h, t =>
    ([h, func[p + 1]?.getD [], lab p], topLin t) :: chainG func lab n (p + 1) (lab p) (restLin t)

/-- the symbol expected at position `p` of a rule binarized when the generator is in state `st`:
    deterministic labels are numbered on from the state, Markov labels are a function of the position alone -/
def labelOf (mo : Option MarkovOpts) (st : GenState) (func : Func) (vert : List Str) (fo : List Nat) (p : Nat) : Str :=
  match mo with
  | none => uniqueLabel (st.numb + p + 1)
  | some o => markovLabel o func p vert fo

end TT.Spec
