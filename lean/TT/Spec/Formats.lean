/-
  Specification side for C01-C03: independent decoders of the output formats, written from the
  format descriptions (Brants 1997 for export; one bracketed tree per line; TIGER-XML element
  structure), and the "carry" functions saying what each format can hold.
-/
import TT.IO.Write
import TT.Spec.Nav
import TT.Transform.Util
namespace TT.Spec
open TT TT.Tree

/-! ### what a format carries -/

/-- missing head / split information counts as "not a head", "not split" -/
def fillMarks (t : Tree) : Tree :=
  t.setFields fun f => { f with edge := some (f.edge.getD DEFAULT_EDGE), head := some (f.head.getD false),
                                split := some (f.split.getD false) }

/-- label as printed by a writer under the decoration options -/
def printedLabel (o : OutOpts) (t : Tree) : Str :=
  match getLabel o (t.setFields fun f => { f with edge := some (f.edge.getD DEFAULT_EDGE) }) with
  | .ok l => l
  | .error _ =>
    -- a decoration that was asked for applies to the nodes that carry the information: a node without head / split
    -- information is printed without that decoration (the writers of the unchanged tree refuse such a tree)
    match getLabel o (fillMarks t) with
    | .ok l => l
    | .error _ => t.fields.label

mutual
/-- the content an export file holds: decorated label, word, lemma (v4 only), morph, edge -/
def carryExport (o : OutOpts) : Tree → Tree
  | leaf n f => leaf n { label := printedLabel o (leaf n f), word := f.word, lemma := (if o.exportFour then some (f.lemma.getD DEFAULT_LEMMA) else some DEFAULT_LEMMA), morph := some (f.morph.getD DEFAULT_MORPH), edge := some (f.edge.getD DEFAULT_EDGE) }
  | node f ks => node { label := printedLabel o (node f ks), lemma := (if o.exportFour then some (f.lemma.getD DEFAULT_LEMMA) else some DEFAULT_LEMMA), morph := some (f.morph.getD DEFAULT_MORPH), edge := some (f.edge.getD DEFAULT_EDGE) } (carryExportL o ks)
def carryExportL (o : OutOpts) : List Tree → List Tree
  | [] => []
  | t :: ts => carryExport o t :: carryExportL o ts
end

/-- the root itself is not written in an export file (it is node 0, the virtual root) -/
def carryExportRoot (o : OutOpts) (t : Tree) : Tree :=
  match carryExport o t with
  | node _ ks => node { label := DEFAULT_ROOT, edge := some DEFAULT_EDGE } ks
  | x => x

mutual
/-- bracket formats hold labels and words only; parentheses inside tokens are mapped -/
def carryBrackets (o : OutOpts) (root : Bool) : Tree → Tree
  | leaf n f => leaf n { label := printedLabel o (leaf n (replaceParensFields f)), word := (f.word.map replaceParens) }
  | node f ks => node { label := (if root && o.emptyRoot then [] else printedLabel o (node f ks)) } (carryBracketsL o ks)
def carryBracketsL (o : OutOpts) : List Tree → List Tree
  | [] => []
  | t :: ts => carryBrackets o false t :: carryBracketsL o ts
end

mutual
def carryTiger : Tree → Tree
  | leaf n f => leaf n { label := f.label, word := some (f.word.getD "--".toList), lemma := some (f.lemma.getD "--".toList), morph := some (f.morph.getD "--".toList), edge := some (f.edge.getD DEFAULT_EDGE) }
  | node f ks => node { label := f.label, edge := some (f.edge.getD DEFAULT_EDGE) } (carryTigerL ks)
def carryTigerL : List Tree → List Tree
  | [] => []
  | t :: ts => carryTiger t :: carryTigerL ts
end

/-- TIGER-XML has no place for the root's own edge label (edge labels are attributes of the edges below a node) -/
def carryTigerRoot (t : Tree) : Tree :=
  match carryTiger t with
  | node f ks => node { f with edge := some DEFAULT_EDGE } ks
  | x => x

/-- equality modulo the order in which children are stored -/
def sameTree (a b : Tree) : Bool := Tree.beq (sortKids a) (sortKids b)

/-! ### export decoder -/

structure ExpNode where
  word : Str
  lemma : Str
  label : Str
  morph : Str
  edge : Str
  parent : Nat

def decExpLine (v4 : Bool) (line : Str) : Option ExpNode :=
  match splitWs line, v4 with
  | [w, l, m, e, p], false => (strToNat? p).map fun p => { word := w, lemma := DEFAULT_LEMMA, label := l, morph := m, edge := e, parent := p }
  | [w, le, l, m, e, p], true => (strToNat? p).map fun p => { word := w, lemma := le, label := l, morph := m, edge := e, parent := p }
  | _, _ => none

/-- `#ddd` -> ddd -/
def consNumber (w : Str) : Option Nat :=
  match w with
  | '#' :: d => if d.length == 3 then strToNat? d else none
  | _ => none

/-- build the subtree numbered `num` (tokens 1.., constituents 500..); fuel bounds the depth -/
def buildExp (toks : List (Nat × ExpNode)) (cons : List (Nat × ExpNode)) : Nat → Nat → Option Tree
  | 0, _ => none
  | fuel + 1, num =>
    if num < 500 && num != 0 then
      (toks.find? (·.1 == num)).map fun (_, e) =>
        leaf num { label := e.label, word := some e.word, lemma := some e.lemma, morph := some e.morph, edge := some e.edge }
    else
      let kidsNums := (toks.filter (·.2.parent == num)).map (·.1) ++ (cons.filter (·.2.parent == num)).map (·.1)
      match kidsNums.mapM (buildExp toks cons fuel) with
      | none => none
      | some ks =>
        if num == 0 then some (node { label := DEFAULT_ROOT, edge := some DEFAULT_EDGE } ks)
        else (cons.find? (·.1 == num)).map fun (_, e) =>
          node { label := e.label, lemma := some e.lemma, morph := some e.morph, edge := some e.edge } ks

structure ExpSentence where
  sid : Nat
  tree : Tree
  /-- structural facts of the file demanded by the property -/
  tokensFirst : Bool
  numbersFrom500 : Bool
  parentsResolve : Bool
  childBelowParent : Bool

def decExport (v4 : Bool) (lines : List Str) : Option ExpSentence := do
  let first ← lines.head?
  let last ← lines.getLast?
  let sid ← (match splitWs first with | [b, n] => if b == "#BOS".toList then strToNat? n else none | _ => none)
  let sid2 ← (match splitWs last with | [b, n] => if b == "#EOS".toList then strToNat? n else none | _ => none)
  if sid != sid2 then none else
  let body ← ((lines.drop 1).dropLast).mapM (decExpLine v4)
  let isCons := fun (e : ExpNode) => (consNumber e.word).isSome
  let toks := (body.filter (fun e => !isCons e)).zipIdx.map fun (e, i) => (i + 1, e)
  let cons := (body.filter isCons).filterMap fun e => (consNumber e.word).map fun n => (n, e)
  let tree ← buildExp toks cons (body.length + 2) 0
  pure { sid := sid, tree := tree,
         tokensFirst := (body.dropWhile (fun e => !isCons e)).all isCons,
         numbersFrom500 := cons.map (·.1) == List.range' 500 cons.length,
         parentsResolve := body.all (fun e => e.parent == 0 || (cons.any (·.1 == e.parent))),
         childBelowParent := cons.all (fun (n, e) => e.parent == 0 || n < e.parent) }

/-! ### bracket decoder (one tree per line, no whitespace inside labels and words) -/

mutual
/-- recursive descent over characters; returns the tree, the rest and the next token number.
    `fuel` bounds the recursion (the text length suffices). -/
def decBrNode : Nat → Str → Nat → Option (Tree × Str × Nat)
  | 0, _, _ => none
  | fuel + 1, '(' :: r, cnt =>
    let label := r.takeWhile (fun c => c != '(' && c != ')' && c != ' ')
    match r.drop label.length with
    | ' ' :: r2 =>
      let word := r2.takeWhile (fun c => c != ')')
      (match r2.drop word.length with
       | ')' :: r3 => some (leaf cnt { label := label, word := some word }, r3, cnt + 1)
       | _ => none)
    | '(' :: r2 =>
      (match decBrKids fuel ('(' :: r2) cnt [] with
       | some (ks, r', cnt') => some (node { label := label } ks, r', cnt')
       | none => none)
    | _ => none
  | _, _, _ => none
def decBrKids : Nat → Str → Nat → List Tree → Option (List Tree × Str × Nat)
  | 0, _, _, _ => none
  | fuel + 1, ')' :: r, cnt, acc => some (acc.reverse, r, cnt)
  | fuel + 1, '(' :: r, cnt, acc =>
    (match decBrNode fuel ('(' :: r) cnt with
     | some (k, r', cnt') => decBrKids fuel r' cnt' (k :: acc)
     | none => none)
  | _, _, _, _ => none
end

def decBrackets (line : Str) : Option Tree :=
  match decBrNode (2 * line.length + 2) line 1 with
  | some (t, [], _) => some t
  | _ => none

mutual
def renumberByWord : Tree → Option Tree
  | leaf _ f => (f.word.bind strToNat?).map fun n => leaf n f
  | node f ks => (renumberByWordL ks).map (node f)
def renumberByWordL : List Tree → Option (List Tree)
  | [] => some []
  | t :: ts => match renumberByWord t, renumberByWordL ts with
    | some a, some b => some (a :: b)
    | _, _ => none
end

/-- discobrackets: tree TAB sentence; token words are 1-based positions into the sentence -/
def decDisco (line : Str) : Option Tree :=
  match splitOnChar '\t' line with
  | [tr, sent] =>
    let words := splitOnChar ' ' sent
    (decBrackets tr).bind renumberByWord |>.map fun t =>
      Tree.mapFields (fun s f => match s with
        | leaf n _ => { f with word := some ((words[n - 1]?).getD []) }
        | _ => f) t
  | _ => none

/-! ### TIGER-XML decoder (line structured as the writer documents it; attribute values unescaped) -/

def unescapeAux : Nat → Str → Str
  | 0, s => s
  | _, [] => []
  | fuel + 1, '&' :: r =>
    let ent := r.takeWhile (· != ';')
    let rest := (r.drop ent.length).drop 1
    let c : Option Char :=
      if ent == "amp".toList then some '&' else if ent == "lt".toList then some '<'
      else if ent == "gt".toList then some '>' else if ent == "quot".toList then some '"'
      else if ent == "apos".toList then some '\'' else match ent with
        | '#' :: d => (strToNat? d).map Char.ofNat
        | _ => none
    (match c with | some c => c :: unescapeAux fuel rest | none => '&' :: unescapeAux fuel r)
  | fuel + 1, c :: r => c :: unescapeAux fuel r

def unescapeXml (s : Str) : Str := unescapeAux (s.length + 1) s

/-- attributes of one element line: name="value" or name='value' (fuel = line length) -/
def attrsAux : Nat → Str → List (Str × Str)
  | 0, _ => []
  | fuel + 1, s =>
    let s := s.dropWhile (fun c => c == ' ')
    let name := s.takeWhile (fun c => c != '=' && c != ' ' && c != '>' && c != '/')
    match s.drop name.length with
    | '=' :: q :: r =>
      if q == '"' || q == '\'' then
        let v := r.takeWhile (· != q)
        (name, unescapeXml v) :: attrsAux fuel ((r.drop v.length).drop 1)
      else []
    | [] => []
    | _ :: r => if name.isEmpty then attrsAux fuel r else attrsAux fuel (s.drop name.length)

def attrs (s : Str) : List (Str × Str) := attrsAux (s.length + 1) s

def attr (as : List (Str × Str)) (k : String) : Option Str := (as.find? (·.1 == k.toList)).map (·.2)

def stripLine (s : Str) : Str := s.dropWhile (· == ' ')

/-- well-formedness of attribute values in the raw line: no raw `<` and no raw delimiter inside a value -/
def rawAttrsOK (s : Str) : Bool :=
  -- after removing quoted values there must be no quote character left
  let rec go (s : Str) (fuel : Nat) : Bool :=
    match fuel, s with
    | 0, _ => false
    | _, [] => true
    | fuel + 1, c :: r =>
      if c == '"' || c == '\'' then
        let v := r.takeWhile (· != c)
        !(v.contains '<') && !(v.any fun x => x == '&' && false) && (r.drop v.length).head? == some c && go ((r.drop v.length).drop 1) fuel
      else go r fuel
  go s (s.length + 1)

structure TigerSentence where
  sid : Str
  tree : Tree

def decTiger (lines : List Str) : Option TigerSentence := do
  let ls := lines.map stripLine
  let sLine ← ls.find? (fun l => "<s ".toList.isPrefixOf l)
  let sid ← attr (attrs (sLine.drop 2)) "id"
  let tLines := ls.filter (fun l => "<t ".toList.isPrefixOf l)
  let toks ← tLines.mapM fun l => do
    let a := attrs (l.drop 2)
    let id ← attr a "id"; let w ← attr a "word"; let p ← attr a "pos"
    -- lemma and morphology are optional attributes: absent = the default
    pure (id, (w, (attr a "lemma").getD "--".toList, p, (attr a "morph").getD "--".toList))
  -- nonterminals with their edges, in file order
  let rec nts (ls : List Str) (cur : Option (Str × Str × List (Str × Str))) (acc : List (Str × Str × List (Str × Str))) :
      List (Str × Str × List (Str × Str)) :=
    match ls with
    | [] => acc.reverse
    | l :: rest =>
      if "<nt ".toList.isPrefixOf l then
        let a := attrs (l.drop 3)
        nts rest (some ((attr a "id").getD [], (attr a "cat").getD [], [])) acc
      else if "<edge ".toList.isPrefixOf l then
        let a := attrs (l.drop 5)
        match cur with
        | some (i, c, es) => nts rest (some (i, c, es ++ [((attr a "label").getD [], (attr a "idref").getD [])])) acc
        | none => nts rest cur acc
      else if "</nt>".toList.isPrefixOf l then
        match cur with
        | some x => nts rest none (x :: acc)
        | none => nts rest none acc
      else nts rest cur acc
  let ntList := nts ls none []
  let edgeOf := fun (id : Str) => (ntList.findSome? fun (_, _, es) => (es.find? (·.2 == id)).map (·.1))
  let rec build (fuel : Nat) (id : Str) : Option Tree :=
    match fuel with
    | 0 => none
    | fuel + 1 =>
      match toks.zipIdx.find? (fun (x, _) => x.1 == id) with
      | some ((_, (w, le, p, m)), i) =>
        some (leaf (i + 1) { label := p, word := some w, lemma := some le, morph := some m, edge := some ((edgeOf id).getD DEFAULT_EDGE) })
      | none =>
        match ntList.find? (fun x => x.1 == id) with
        | some (_, cat, es) =>
          (es.mapM fun (e : Str × Str) => build fuel e.2).map fun ks =>
            node { label := cat, edge := some ((edgeOf id).getD DEFAULT_EDGE) } ks
        | none => none
  -- root: the nonterminal that is nobody's child
  let roots := ntList.filter fun (x : Str × Str × List (Str × Str)) => (edgeOf x.1).isNone
  match roots with
  | [r] => (build (ntList.length + 2) r.1).map fun t => { sid := sid, tree := t }
  | _ => none

end TT.Spec

namespace TT.Spec
open TT TT.Tree

/-! ### specification grammar of bracketed treebank text (any whitespace layout)

  file  := (junk | group)*            junk = anything outside a group except "("
  group := "(" ws* label? body ")"     the root label may be empty
  body  := ws+ word ws*                (a token: label followed by whitespace and a word)
         | ws* (node ws*)+             (a constituent: one or more nodes)
  node  := "(" ws* label body ")"   |   "(" label ")"   (the latter only with brackets_emptypos: the label is the word)
-/

def isWsC (c : Char) : Bool := pyIsSpace c
def isTokC (c : Char) : Bool := !(pyIsSpace c) && c != '(' && c != ')'

def skipWs (s : Str) : Str := s.dropWhile isWsC

mutual
/-- parse one node starting at "(" ; returns (tree with token numbers from `cnt`, rest, next cnt) -/
def spNode (emptyPos root : Bool) : Nat → Str → Nat → Option (Tree × Str × Nat)
  | 0, _, _ => none
  | fuel + 1, '(' :: r, cnt =>
    let r1 := skipWs r
    let label := r1.takeWhile isTokC
    let r2 := r1.drop label.length
    if label.isEmpty && !root then none else
    -- "(label)" : empty POS
    match r2 with
    | ')' :: r3 =>
      if emptyPos && !label.isEmpty then
        some (leaf cnt { label := DEFAULT_LABEL, word := some label, edge := some DEFAULT_EDGE, morph := some DEFAULT_MORPH }, r3, cnt + 1)
      else none
    | _ =>
      let r3 := skipWs r2
      let hadWs := r3.length < r2.length
      match r3 with
      | '(' :: _ =>
        match spKids emptyPos fuel r3 cnt [] with
        | some (ks, rest, cnt') =>
          if ks.isEmpty then none
          else some (node (if label.isEmpty then { label := DEFAULT_ROOT } else { label := label, edge := some DEFAULT_EDGE, morph := some DEFAULT_MORPH }) ks, rest, cnt')
        | none => none
      | c :: _ =>
        if hadWs && isTokC c && !label.isEmpty then
          let word := r3.takeWhile isTokC
          match skipWs (r3.drop word.length) with
          | ')' :: r4 => some (leaf cnt { label := label, word := some word, edge := some DEFAULT_EDGE, morph := some DEFAULT_MORPH }, r4, cnt + 1)
          | _ => none
        else none
      | [] => none
  | _, _, _ => none
/-- nodes until the closing parenthesis of the parent -/
def spKids (emptyPos : Bool) : Nat → Str → Nat → List Tree → Option (List Tree × Str × Nat)
  | 0, _, _, _ => none
  | fuel + 1, s, cnt, acc =>
    match skipWs s with
    | ')' :: r => some (acc.reverse, r, cnt)
    | '(' :: r =>
      match spNode emptyPos false fuel ('(' :: r) cnt with
      | some (k, rest, cnt') => spKids emptyPos fuel rest cnt' (k :: acc)
      | none => none
    | _ => none
end

/-- all groups of a text; `none` when some group is ill-formed -/
def spGroups (emptyPos : Bool) : Nat → Str → List Tree → Option (List Tree)
  | 0, _, _ => none
  | _, [], acc => some acc.reverse
  | fuel + 1, '(' :: r, acc =>
    match spNode emptyPos true (2 * r.length + 4) ('(' :: r) 1 with
    | some (t, rest, _) => spGroups emptyPos fuel rest (t :: acc)
    | none => none
  | fuel + 1, _ :: r, acc => spGroups emptyPos fuel r acc

def specBrackets (emptyPos : Bool) (text : Str) : Option (List Tree) := spGroups emptyPos (2 * text.length + 2) text []

end TT.Spec

namespace TT.Spec
open TT TT.Tree

/-- a field that the column formats can hold: non-empty and free of whitespace -/
def fieldOK (s : Str) : Bool := !s.isEmpty && s.all (fun c => !pyIsSpace c)

/-- a tree the export format can represent under the options `o`: every printed field is non-empty and free
    of whitespace, no token is written like a constituent reference (`#ddd`), fewer than 500 constituents -/
def ExportOK (o : OutOpts) (t : Tree) : Bool :=
  (t.subtrees.all fun s =>
      fieldOK (printedLabel o s) && fieldOK (s.fields.morph.getD DEFAULT_MORPH) &&
      fieldOK (s.fields.edge.getD DEFAULT_EDGE) && fieldOK (s.fields.lemma.getD DEFAULT_LEMMA) &&
      (!s.isLeaf || (fieldOK (s.fields.word.getD []) && (consNumber (s.fields.word.getD [])).isNone))) &&
  (t.subtrees.filter fun s => !s.isLeaf).length < 500 &&
  (t.subtrees.all fun s => match getLabel o (s.setFields fun f => { f with edge := some (f.edge.getD DEFAULT_EDGE) }) with
      | .ok _ => true | .error _ => false)

/-- a tree the bracket formats can represent: labels and words non-empty, without whitespace and parentheses -/
def BracketsOK (t : Tree) : Bool :=
  t.subtrees.all fun s =>
    fieldOK s.fields.label && s.fields.label.all (fun c => c != '(' && c != ')') &&
    (!s.isLeaf || (match s.fields.word with
       | some w => fieldOK w && w.all (fun c => c != '(' && c != ')')
       | none => false))

/-- what the tool's own bracket reader delivers for a tree written by its bracket writer (no options) -/
def asReadBrackets : Tree → Tree
  | t => Tree.mapFields (fun s f => match s with
      | leaf _ _ => { label := f.label, word := f.word, edge := some DEFAULT_EDGE, morph := some DEFAULT_MORPH }
      | node _ _ => { label := f.label, edge := some DEFAULT_EDGE, morph := some DEFAULT_MORPH }) t

end TT.Spec
