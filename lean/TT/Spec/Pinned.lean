/-
  TT.Spec.Pinned — what "punctuation", "paired punctuation" and "the documented bracket names" MEAN in the properties
  (C11, C12, C13, C02): the inventories of trees.py at the commit the theorems were established for.  This file is NOT
  regenerated.  `Gen.PUNCT` etc. (regenerated from /repo on every run) are the implementation's inventories; the
  theorem `TT.Props.Pinned.consts_pinned` states that they coincide, and the post-conditions below - the ones the checks
  evaluate on the implementation's output - are phrased with the pinned inventories.
-/
import TT.Spec.Transform
import TT.Spec.Edit
namespace TT.Spec
open TT TT.Tree

def PINNED_QUOTES : List Str := [("\"".toList : Str), ("'".toList : Str), ("''".toList : Str), ("`".toList : Str), ("``".toList : Str)]
def PINNED_COMMA : List Str := [(".".toList : Str), (",".toList : Str), (";".toList : Str), ("?".toList : Str), ("!".toList : Str), ("--".toList : Str), (":".toList : Str), ("-".toList : Str), ("/".toList : Str), ("...".toList : Str)]
def PINNED_PAIRPUNCT : List Str := [("\"".toList : Str), ("'".toList : Str), ("''".toList : Str), ("`".toList : Str), ("``".toList : Str), ("(".toList : Str), ("-LRB-".toList : Str), ("[".toList : Str), ("-LSB-".toList : Str), ("{".toList : Str), ("-LCB-".toList : Str), (")".toList : Str), ("-RRB-".toList : Str), ("]".toList : Str), ("-RSB-".toList : Str), ("}".toList : Str), ("-RCB-".toList : Str)]
def PINNED_PUNCT : List Str := [("\"".toList : Str), ("'".toList : Str), ("''".toList : Str), ("`".toList : Str), ("``".toList : Str), ("(".toList : Str), ("-LRB-".toList : Str), ("[".toList : Str), ("-LSB-".toList : Str), ("{".toList : Str), ("-LCB-".toList : Str), (")".toList : Str), ("-RRB-".toList : Str), ("]".toList : Str), ("-RSB-".toList : Str), ("}".toList : Str), ("-RCB-".toList : Str), (".".toList : Str), (",".toList : Str), (";".toList : Str), ("?".toList : Str), ("!".toList : Str), ("--".toList : Str), (":".toList : Str), ("-".toList : Str), ("/".toList : Str), ("...".toList : Str)]
def PINNED_BRACKETS : List (Str × Str) := [(("(".toList : Str), ("LRB".toList : Str)), (("-LRB-".toList : Str), ("LRB".toList : Str)), (("[".toList : Str), ("LSB".toList : Str)), (("-LSB-".toList : Str), ("LSB".toList : Str)), (("{".toList : Str), ("LCB".toList : Str)), (("-LCB-".toList : Str), ("LCB".toList : Str)), ((")".toList : Str), ("RRB".toList : Str)), (("-RRB-".toList : Str), ("RRB".toList : Str)), (("]".toList : Str), ("RSB".toList : Str)), (("-RSB-".toList : Str), ("RSB".toList : Str)), (("}".toList : Str), ("RCB".toList : Str)), (("-RCB-".toList : Str), ("RCB".toList : Str))]

def isPunctWordP (t : Tree) : Bool :=
  match t.fields.word with
  | some w => PINNED_PUNCT.contains w
  | none => false

def isPairPunctWordP (t : Tree) : Bool :=
  match t.fields.word with
  | some w => PINNED_PAIRPUNCT.contains w
  | none => false

def parentAllPunctP (t : Tree) (i : Nat) : Bool :=
  match parentOfLeaf i t with
  | some p => p.kids.all isPunctWordP
  | none => false

def verylowPostP (t : Tree) : Bool :=
  (t.terminals.drop 1).all fun l =>
    if isPunctWordP l then
      sameParent t l.num (l.num - 1) || parentAllPunctP t l.num
    else true

/-- "a constituent consisting only of punctuation": all its children are punctuation TOKENS.  (The implementation looks at
    the `word` entry of every child, tokens and constituents alike; a constituent's `word` entry is not content - readers
    put `#5xx` or nothing there - so the property is stated on tokens.  `consWordsClean` is the condition under which the
    two readings coincide.) -/
def parentAllPunctT (t : Tree) (i : Nat) : Bool :=
  match parentOfLeaf i t with
  | some p => p.kids.all fun k => k.isLeaf && isPunctWordP k
  | none => false

def verylowPostT (t : Tree) : Bool :=
  (t.terminals.drop 1).all fun l =>
    if isPunctWordP l then
      sameParent t l.num (l.num - 1) || parentAllPunctT t l.num
    else true

/-- no constituent carries a `word` entry that is a punctuation mark -/
def consWordsClean (t : Tree) : Bool :=
  t.subtrees.all fun s => s.isLeaf || !(isPunctWordP s)

def rootPostP (t : Tree) : Bool :=
  t.terminals.all fun l =>
    if isPunctWordP l then
      parentPathOfLeaf l.num t == some [] || parentArity t l.num == 1
    else true

def symetrifyOKP (relc : Option Str) (a b : Tree) : Bool :=
  (movedTokens a b).all fun l =>
    isPairPunctWordP l &&
    (match parentOfLeaf l.num b with
     | some p => p.kids.any fun k => k.isLeaf && k.num != l.num &&
         (isPairPunctWordP k ||
          (match relc with
           | some r => (match b.findLeaf (k.num + 1) with | some nx => nx.fields.label == r | none => false)
           | none => false))
     | none => false)

def punctPositionsP (t : Tree) : List Nat := (t.terminals.filter isPunctWordP).map num

def deletePunctOKP (a b : Tree) : Bool :=
  let ps := punctPositionsP a
  if ps.length == a.terminals.length then b.sentence == a.sentence
  else b.sentence == dropPositions a.sentence ps

end TT.Spec
