/-
  Specification-side definitions of wave 16 (tag w16d): short, trusted statements of intent.  No Mathlib, computable.
  Checks that so far existed only as inline code of the driver, as NAMED predicates on the tables of answers:
  * C19 `dominanceOK` (driver `P.C19.dominance`): the dominance path of every node;
  * C19 `levelsOK` (driver `P.C19.levels`): the level (height) of every constituent;
  * C19 `exportNumsOK` (driver `P.C19.numbering`): the export number of every node - tokens keep theirs, the constituents'
    numbers meet `numberingOK`;
  * C16 `gapStatsOK` (driver `P.C16.stats`): the gap-degree statistics of a treebank, EVERY per-degree count of both tables.
-/
import TT.Spec.Nav
namespace TT.Spec
open TT TT.Tree

/-! ### C19: dominance -/

/-- `dom` is the dominance path of the node at `p`: it starts with the node itself, every next entry is the parent of the
    one before (the address without its last step), it ends with the root, and it has one entry per depth `0 .. |p|` -/
def domPathOK (p : Path) (dom : List Path) : Bool :=
  dom.head? == some p && dom.getLast? == some [] && dom.length == p.length + 1 &&
  (dom.zip (dom.drop 1)).all fun (a, b) => b == a.dropLast

/-- the table holds one row per node of `t` (address, answered dominance path), and every answer is right -/
def dominanceOK (t : Tree) (tbl : List (Path × List Path)) : Bool :=
  tbl.map (·.1) == paths t && tbl.all fun (p, dom) => domPathOK p dom

/-! ### C19: levels -/

/-- the node at `p` is a constituent with at least one child -/
def consAt (t : Tree) (p : Path) : Bool :=
  match t.get? p with | some (node _ (_ :: _)) => true | _ => false

/-- the table (address, level) lists every constituent of `t` and nothing else, each once (as many rows as constituents,
    every constituent among them), and the level of a row is the length of the longest way down to a token -/
def levelsOK (t : Tree) (tbl : List (Path × Nat)) : Bool :=
  let cons := (paths t).filter (consAt t)
  tbl.length == cons.length && cons.all (fun p => (tbl.map (·.1)).contains p) &&
  tbl.all fun (p, h) => (t.get? p).map longestDown == some h

/-! ### C19: export numbering, the whole table -/

/-- the table holds one row per node of `t` (address, answered number; `none` = no number): a token keeps its own number,
    and the numbers answered for the constituents with children meet `numberingOK` (a constituent without an answer is
    missing there, so the table fails) -/
def exportNumsOK (t : Tree) (tbl : List (Path × Option Nat)) : Bool :=
  tbl.map (·.1) == paths t &&
  (tbl.all fun (p, n) => match t.get? p with | some (leaf k _) => n == some k | _ => true) &&
  numberingOK t (tbl.filterMap fun (p, n) => if consAt t p then n.map fun k => (p, k) else none)

/-! ### C16: gap-degree statistics -/

/-- the constituents (nodes with children) of a treebank: every node once, in storage order (no sorting) -/
def consOf (ts : List Tree) : List Tree := ts.flatMap fun t => t.subtrees.filter fun s => !s.kids.isEmpty

/-- `tbl` (degree, count) is the table of the observed degrees `degs`: no degree is listed twice, a listed count is not 0
    and is the number of times the degree was observed, and every observed degree is listed -/
def degTableOK (degs : List Nat) (tbl : List (Nat × Nat)) : Bool :=
  nodupB (tbl.map (·.1)) &&
  (tbl.all fun (d, c) => 0 < c && c == degs.count d) &&
  degs.all fun d => (tbl.map (·.1)).contains d

/-- the report of the `GapDegree` task on the trees `ts`: number of trees, number of constituents, the per-tree table
    (degree `d`: number of trees of gap degree `d`) and the per-node table (degree `d`: number of constituents of gap
    degree `d`) -/
def gapStatsOK (ts : List Tree) (nTrees nNodes : Nat) (perTree perNode : List (Nat × Nat)) : Bool :=
  nTrees == ts.length && nNodes == (consOf ts).length &&
  degTableOK (ts.map gapDegree) perTree && degTableOK ((consOf ts).map gapDegreeNode) perNode

end TT.Spec
