/-
  Specification side for C11, slash annotation (wave 19): WHICH constituents receive WHICH `/X` piece.
  Nodes are referred to by their storage paths in the tree the annotation works on (the plain trace deletion);
  "q dominates p" is `isPrefix q p` (Spec/Nav.lean), "q properly dominates p" is "q is a proper prefix of p".
  Nothing here calls the model's path functions (`between`, `slashGoal`, `lca`, `dominancePaths`, `annotAt`).  No Mathlib.
-/
import TT.Spec.Nav
import TT.Label
namespace TT.Spec
open TT TT.Tree

/-- the nodes that properly dominate the node at `p`: its proper prefixes -/
def properAncestors (p : Path) : List Path := (List.range p.length).map p.take

/-- the nodes that receive the slash piece for a trace token and its filler: those that properly dominate the trace or
    properly dominate the filler, but do not dominate both (i.e. the nodes strictly inside the tree path from the trace
    to the filler, without its top node) -/
def slashPath (trace filler : Path) : List Path :=
  (properAncestors trace ++ properAncestors filler).filter fun q => !(isPrefix q trace && isPrefix q filler)

/-- the piece: `/` and the bare label of the filler (as the filler is labelled at that time) -/
def slashItem (fillerLabel : Str) : Str := '/' :: (parseLabel DEFAULT_GF_SEP fillerLabel).label

/-- one (trace, filler) pair, on the labelling `L` (storage path ↦ label): every node of `slashPath` gets the piece -/
def slashRound (L : Path → Str) (job : Path × Path) : Path → Str :=
  fun p => if p ∈ slashPath job.1 job.2 then L p ++ slashItem (L job.2) else L p

/-- all pairs, in the order of the annotation loop -/
def slashLabels (L : Path → Str) (jobs : List (Path × Path)) : Path → Str := jobs.foldl slashRound L

mutual
/-- the tree without the labels of its constituents (tokens keep everything) -/
def eraseConsLabels : Tree → Tree
  | leaf n f => leaf n f
  | node f ks => node { f with label := [] } (eraseConsLabelsL ks)
def eraseConsLabelsL : List Tree → List Tree
  | [] => []
  | t :: ts => eraseConsLabels t :: eraseConsLabelsL ts
end

end TT.Spec
