/-
  TT.Trans — `transitions.topdown`, `transitions.inorder`, `transitions.gap` (after the repair:
  the unary check precedes the termination test) and the `plain` writer line.
-/
import TT.Nav
import TT.Label
namespace TT

inductive Action where
  | shift
  | unary (l : Str)
  | binary (left : Bool) (l : Str)
  | pj (l : Str)
  | reduce
  | gap
  | r (left : Bool) (l : Str)
deriving DecidableEq, Repr

def Action.toStr : Action → Str
  | .shift => "SHIFT".toList
  | .unary l => "UNARY-".toList ++ l
  | .binary true l => "BINARY-LEFT-".toList ++ l
  | .binary false l => "BINARY-RIGHT-".toList ++ l
  | .pj l => "PJ-".toList ++ l
  | .reduce => "REDUCE".toList
  | .gap => "GAP".toList
  | .r true l => "R-LEFT-".toList ++ l
  | .r false l => "R-RIGHT-".toList ++ l

namespace Tree

/-- the transition emitted for one node in `topdown` -/
def topdownAct (t : Tree) : Except Err Action :=
  match sortBy leftmost t.kids with
  | [] => .ok .shift
  | [_] => .ok (.unary t.fields.label)
  | [a, _] => match a.fields.head with
    | some h => .ok (.binary h t.fields.label)
    | none => .error .valueError
  | _ => .error .valueError

/-- `topdown`: one transition per node in preorder, reversed -/
def topdown (t : Tree) : Except Err (List Action) :=
  (t.preorder.mapM topdownAct).map List.reverse

mutual
/-- `_inorder(tree)` for a constituent -/
def inorderAux : Tree → List Action
  | leaf _ _ => [.shift]            -- only reached through the child case below
  | node f ks =>
    match sortBy (·.1) (inorderK ks) with
    | [] => [.pj f.label, .reduce]   -- the Python raises IndexError here (childless constituent)
    | c :: cs => c.2 ++ [.pj f.label] ++ (cs.map (·.2)).flatten ++ [.reduce]
def inorderK : List Tree → List (Nat × List Action)
  | [] => []
  | t :: ts => (leftmost t, inorderAux t) :: inorderK ts
end

def inorder (t : Tree) : List Action := inorderAux t

/-! ### gap oracle: items are storage paths into the tree -/

structure GapCfg where
  s : List Path
  d : List Path
  b : List Path
  out : List Action   -- reversed

def parentP (p : Path) : Option Path := if p.isEmpty then none else some p.dropLast

def arityAt (t : Tree) (p : Path) : Nat := ((t.get? p).map (·.kids.length)).getD 0
def labelAt (t : Tree) (p : Path) : Str := ((t.get? p).map (·.fields.label)).getD []
def headAt (t : Tree) (p : Path) : Option Bool := (t.get? p).bind (·.fields.head)

/-- the unary loop: while the deque top has a parent with exactly one child, emit UNARY and climb -/
def unaryClimb (t : Tree) : Nat → GapCfg → GapCfg
  | 0, c => c
  | fuel + 1, c =>
    match c.d with
    | d0 :: ds =>
      match parentP d0 with
      | some p => if arityAt t p == 1
          then unaryClimb t fuel { c with d := p :: ds, out := .unary (labelAt t p) :: c.out }
          else c
      | none => c
    | [] => c

/-- one iteration of the `while True` body before the unary loop -/
def gapStep (t : Tree) (c : GapCfg) : Except Err GapCfg :=
  match c.s, c.d with
  | s0 :: ss, d0 :: ds =>
    if parentP d0 == parentP s0 then
      -- REDUCE
      match headAt t s0, headAt t d0, parentP s0 with
      | some h, some _, some p =>
        .ok { c with s := ds.reverse ++ ss, d := [p], out := .r h (labelAt t p) :: c.out }
      | _, _, _ => .error .valueError
    else
      match (s0 :: ss).findIdx? (fun n => parentP n == parentP d0) with
      | some i =>
        -- GAP x i
        .ok { c with s := (s0 :: ss).drop i, d := (d0 :: ds) ++ (s0 :: ss).take i,
                     out := List.replicate i .gap ++ c.out }
      | none => shiftStep c
  | [], d0 :: ds => ignore d0 ds (shiftStep c)
  | _, [] => shiftStep c
where
  shiftStep (c : GapCfg) : Except Err GapCfg :=
    match c.b with
    | x :: bs => .ok { c with s := c.d.reverse ++ c.s, d := [x], b := bs, out := .shift :: c.out }
    | [] => .error .indexError
  ignore (_ : Path) (_ : List Path) (r : Except Err GapCfg) := r

def gapLoop (t : Tree) : Nat → GapCfg → Except Err (List Action)
  | 0, _ => .error .other
  | fuel + 1, c =>
    match gapStep t c with
    | .error e => .error e
    | .ok c1 =>
      let c2 := unaryClimb t (t.size + 1) c1
      if c2.s.isEmpty && c2.b.isEmpty && c2.d.length == 1 then .ok c2.out.reverse
      else gapLoop t fuel c2

/-- storage paths of the tokens in sentence order -/
def terminalPaths (t : Tree) : List Path :=
  (sortBy (fun p => ((t.get? p).map num).getD 0)
    ((paths t).filter fun p => match t.get? p with | some (leaf _ _) => true | _ => false))

def gapOracle (t : Tree) : Except Err (List Action) :=
  gapLoop t (4 * t.size * t.size + 8) { s := [], d := [], b := terminalPaths t, out := [] }

/-- the line written by `transitionoutput.plain` -/
def plainLine (pos : Bool) (t : Tree) (acts : List Action) : Str :=
  joinWith [' '] (t.terminals.map fun l => if pos then l.fields.label else l.fields.word.getD []) ++
  " ||| ".toList ++ joinWith [' '] (acts.map Action.toStr)

end Tree
end TT
