/-
  TT.ProcIds — the process state of `TT/Proc.lean` EXTENDED by the node-id counter (`Tree.newid = itertools.count()`,
  trees.py:54-59: every node object draws the next id when it is created) and readers as calls that draw from it.
  `TT/Proc.lean` is untouched; `ProcStateX` carries a `ProcState` and the counter.  No Mathlib.
-/
import TT.Proc
namespace TT
open Tree

mutual
/-- every node of a freshly built tree draws the next id, parents before their children, children in storage order -/
def stamp (n : Nat) : Tree → Tree × Nat
  | .leaf k f => (.leaf k { f with uid := some n }, n + 1)
  | .node f ks => let r := stampL (n + 1) ks; (.node { f with uid := some n } r.1, r.2)
def stampL (n : Nat) : List Tree → List Tree × Nat
  | [] => ([], n)
  | t :: ts => let a := stamp n t; let b := stampL a.2 ts; (a.1 :: b.1, b.2)
end

mutual
/-- renaming of the node ids -/
def mapUid (g : Nat → Nat) : Tree → Tree
  | .leaf k f => .leaf k { f with uid := f.uid.map g }
  | .node f ks => .node { f with uid := f.uid.map g } (mapUidL g ks)
def mapUidL (g : Nat → Nat) : List Tree → List Tree
  | [] => []
  | t :: ts => mapUid g t :: mapUidL g ts
end

/-- the sentences a reader delivers, stamped one after the other -/
def stampAll (n : Nat) : List (Nat × Tree) → List (Nat × Tree) × Nat
  | [] => ([], n)
  | (sid, t) :: rest => let a := stamp n t; let b := stampAll a.2 rest; ((sid, a.1) :: b.1, b.2)

structure ProcStateX where
  base : ProcState := {}
  /-- the next value of `Tree.newid` -/
  nextId : Nat := 0

/-- what a call returns: one tree (transformations) or the sentences of a file (readers) -/
inductive ResultX where
  | tree (r : Except Err Tree)
  | trees (r : Except Err (List (Nat × Tree)))

inductive CallX where
  /-- the calls of `TT/Proc.lean` (they work on the nodes they are given) -/
  | base (c : Call)
  /-- a reader call: `src` is what the reader computes from the text and its options (`readExport io text`, …);
      `drawn` = the number of nodes the reader has created and NOT delivered: a reader that fails part-way has created
      `drawn` nodes before; a reader that succeeds has created `drawn` nodes for sentences it then SKIPPED (TIGER-XML:
      a sentence with several roots, a cycle or two incoming edges is dropped by `tigerxml_build_tree` after all its
      `<t>`/`<nt>` nodes have drawn their ids, treeinput.py `tigerxml`) -/
  | read (src : Except Err (List (Nat × Tree))) (drawn : Nat)

/-- (wave 19) a successful reader call also moves the counter by the `drawn` ids of the sentences it skipped.
    ABSTRACTED: the model adds them AFTER the delivered sentences have been stamped, the implementation draws them where
    the skipped sentence stands in the file.  So the counter after the call (and with it the ids of all LATER calls)
    agrees with the implementation; inside a call with a skipped sentence the delivered sentences behind it carry ids
    that are lower by the ids of the skipped ones before them (same block sizes, same order, every id fresh).  The
    history theorems (`historyX_independent`, `historyY_independent`) are up to renaming of the ids, for which only
    freshness matters. -/
def CallX.run (fs : Str → Option Str) (st : ProcStateX) : CallX → ResultX × ProcStateX
  | .base c => let r := c.run fs st.base; (.tree r.1, { st with base := r.2 })
  | .read (.ok ts) drawn => let r := stampAll st.nextId ts; (.trees (.ok r.1), { st with nextId := r.2 + drawn })
  | .read (.error e) drawn => (.trees (.error e), { st with nextId := st.nextId + drawn })

def runHistoryX (fs : Str → Option Str) : ProcStateX → List CallX → List ResultX
  | _, [] => []
  | st, c :: cs => let r := c.run fs st; r.1 :: runHistoryX fs r.2 cs

/-- the same result with every node id renamed by `g` -/
def ResultX.rename (g : Nat → Nat) : ResultX → ResultX
  | .tree r => .tree r
  | .trees r => .trees (r.map fun ts => ts.map fun p => (p.1, mapUid g p.2))

end TT
