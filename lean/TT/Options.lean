/-
  TT.Options — `misc.options_dict`: "key:value" strings to a dict (True for a bare key, int for all-digit values).
-/
import TT.Str
namespace TT

inductive OptVal where
  | flag                 -- True
  | int (n : Nat)
  | str (s : Str)
deriving DecidableEq, Repr

def stripWs (s : Str) : Str := (s.dropWhile pyIsSpace).reverse.dropWhile pyIsSpace |>.reverse

/-- one option string -> (key, value) -/
def parseOption (o : Str) : Str × OptVal :=
  if o.contains ':' then
    match splitOnChar ':' (stripWs o) with
    | k :: v :: _ => (k, match strToNat? v with | some n => .int n | none => .str v)
    | [k] => (k, .flag)
    | [] => ([], .flag)
  else (o, .flag)

/-- dict assignment: a later occurrence of a key overwrites the value, the position of the first occurrence is kept -/
def dictSet (d : List (Str × OptVal)) (k : Str) (v : OptVal) : List (Str × OptVal) :=
  if d.any (·.1 == k) then d.map fun (a, b) => if a == k then (a, v) else (a, b) else d ++ [(k, v)]

def optionsDict (opts : List Str) : List (Str × OptVal) :=
  opts.foldl (fun d o => let (k, v) := parseOption o; dictSet d k v) []

def optLookup (d : List (Str × OptVal)) (k : Str) : Option OptVal := (d.find? (·.1 == k)).map (·.2)

end TT
