/-
  TT.RunGrammarFile — `treetools grammar G DEST TYPE --src-format rcg ...` (`grammar.run`, trees/grammar.py): a grammar
  file `G.rcg` with its lexicon file `G.lex` as the INPUT of the grammar command.  The branch
  `args.src_format in grammar_inputformats` of `run` calls `grammarinput.rcg` (the reader, `readRcg`); what follows is
  shared with the tree branch (`TT.runGrammarFrom`): unless TYPE is `treebank` the grammar is binarized (left-to-right or
  optimal, with the markovization options), then grammar and lexicon are handed to the writer.  Nothing else is done
  between reader and writer: for TYPE `treebank` the command is the reader followed by the writer.
  A file the reader does not accept is a ValueError (the driver's convention for `readRcg = none`); this is exact for a
  count that is not a number (`int('x')`).  On other hand-made malformed files `readRcg` (fixed, compared with the Python
  on files the tool wrote) is coarser than `grammarinput.rcg`: a clause without `C:` or a blank line raises IndexError
  there, a clause of two tokens (`C:1 S1([0])`) is accepted there, a blank line of the `.lex` file raises IndexError and a
  non-numeric lexicon count ValueError there while `readLexLine` skips / reads 0.
  No Mathlib.
-/
import TT.Run
namespace TT

/-- what `grammar.run` does to the grammar between its source and the writer: nothing for `treebank`, else `binarize` -/
def applyGramType (gt : GramType) (mo : Option MarkovOpts) (g : Grammar) : Grammar :=
  match gt with
  | .treebank => g
  | .leftright => binarizeGrammar .leftright mo g
  | .optimal => binarizeGrammar .optimal mo g

/-- `treetools grammar G DEST TYPE [--markov ...] --src-format rcg` from the lines of `G.rcg` and `G.lex`: the grammar and
    lexicon that are handed to the writer (the twin of `runGrammarFrom` for a grammar file as the source) -/
def runGrammarFile (gt : GramType) (mo : Option MarkovOpts) (gl ll : List Str) : Except Err (Grammar × Lexicon) :=
  match readRcg gl ll with
  | some (g, lex) => .ok (applyGramType gt mo g, lex)
  | none => .error .valueError

/-- `treetools grammar G DEST treebank --src-format rcg --dest-format rcg`: the lines of `DEST.rcg` and of `DEST.lex`
    (the driver operation `rcg_rewrite`: the reader followed by the writer) -/
def runGrammarFromFile (gl ll : List Str) : Except Err (List Str × Option (List Str)) :=
  match readRcg gl ll with
  | some (g, l) => .ok (writeRcg false g l)
  | none => .error .valueError

end TT
