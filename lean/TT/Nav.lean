/-
  TT.Nav — path-producing versions of the traversals (nodes of the real object graph are
  identified with storage paths), `levels` and `compute_export_numbering`.
-/
import TT.Tree
namespace TT
namespace Tree

/-- flatten a keyed list after a stable sort by key -/
def flattenSorted {α} (l : List (Nat × List α)) : List α := ((sortBy (·.1) l).map (·.2)).flatten

mutual
def preorderP : Tree → List Path
  | leaf _ _ => [[]]
  | node _ ks => [] :: flattenSorted (preorderPK ks 0)
def preorderPK : List Tree → Nat → List (Nat × List Path)
  | [], _ => []
  | t :: ts, i => (leftmost t, (preorderP t).map (i :: ·)) :: preorderPK ts (i + 1)
end

mutual
def postorderP : Tree → List Path
  | leaf _ _ => [[]]
  | node _ ks => flattenSorted (postorderPK ks 0) ++ [[]]
def postorderPK : List Tree → Nat → List (Nat × List Path)
  | [], _ => []
  | t :: ts, i => (leftmost t, (postorderP t).map (i :: ·)) :: postorderPK ts (i + 1)
end

/-- storage indices of the children in `trees.children` order -/
def childOrder (t : Tree) : List Nat := orderedIdx t.kids

/-- `levels(tree)[0]` as an association list built in preorder: constituents (nodes with
    children) with their height.  -/
def constituentsPre (t : Tree) : List (Path × Nat × Nat) :=
  (t.preorderP.filterMap fun p =>
    match t.get? p with
    | some (node f (k :: ks)) => some (p, height (node f (k :: ks)), leftmost (node f (k :: ks)))
    | _ => none)

/-- `compute_export_numbering`: within each level sort (stably) by leftmost token, levels ascending,
    numbers from 500; finally the root gets 0.  Returned as (path, number) for every constituent. -/
def exportNumbering (t : Tree) : List (Path × Nat) :=
  let cs := constituentsPre t
  -- stable sort by leftmost first, then stable sort by level: = sort by (level, leftmost)
  let sorted := sortBy (fun x => x.2.1) (sortBy (fun x => x.2.2) cs)
  let numbered := (sorted.zipIdx).map fun (x, i) => (x.1, 500 + i)
  numbered.map fun (p, n) => if p = [] then (p, 0) else (p, n)

def exportNum (t : Tree) (p : Path) : Option Nat :=
  match t.get? p with
  | some (leaf n _) => some n
  | some (node _ _) => ((exportNumbering t).find? (·.1 = p)).map (·.2)
  | none => none

end Tree
end TT
