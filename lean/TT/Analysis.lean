/-
  TT.Analysis — `treeanalysis`: gap_type, disco_order, the three accumulating tasks.
-/
import TT.Nav
import TT.Label
namespace TT
namespace Tree

def hasGaps (t : Tree) : Bool := gapDegreeNode t > 0

inductive GapType | none | pass | source
deriving DecidableEq, Repr

/-- `gap_type` -/
def gapType (t : Tree) : GapType :=
  match t with
  | leaf _ _ => .none
  | node _ ks =>
    if ks.isEmpty then .none
    else if gapCount t.yield > 0 then .pass
    else if ks.any (fun k => !k.kids.isEmpty && hasGaps k) then .source
    else .none

mutual
/-- `disco_order(tree, mode)`: token numbers in the continuous reordering; `rightd = false` is mode
    'left'.  Children results are keyed by the child's leftmost token and ordered by it. -/
def discoOrder (rightd : Bool) : Tree → Except Err (List Nat)
  | leaf n _ => .ok [n]
  | node f ks =>
    match discoOrderK rightd ks with
    | .error e => .error e
    | .ok rs =>
      if rs.length > 2 then .error .valueError
      else
        let sorted := (sortBy (·.1) rs).map (·.2)
        match sorted with
        | [a, b] => if rightd && gapType (node f ks) == .source then .ok (b ++ a) else .ok (a ++ b)
        | [a] => .ok a
        | _ => .ok []
def discoOrderK (rightd : Bool) : List Tree → Except Err (List (Nat × List Nat))
  | [] => .ok []
  | t :: ts =>
    match discoOrder rightd t, discoOrderK rightd ts with
    | .ok a, .ok b => .ok ((leftmost t, a) :: b)
    | .error e, _ => .error e
    | _, .error e => .error e
end

end Tree

/-- the `GapDegree` task: association lists degree -> count -/
structure GapStats where
  perNode : List (Nat × Nat) := []
  perTree : List (Nat × Nat) := []
deriving Repr, DecidableEq

def bump (k : Nat) : List (Nat × Nat) → List (Nat × Nat)
  | [] => [(k, 1)]
  | (a, c) :: r => if a = k then (a, c + 1) :: r else (a, c) :: bump k r

def GapStats.run (s : GapStats) (t : Tree) : GapStats :=
  let degs := (t.preorder.filter fun x => !x.kids.isEmpty).map Tree.gapDegreeNode
  { perNode := degs.foldl (fun acc d => bump d acc) s.perNode,
    perTree := bump (degs.foldl max 0) s.perTree }

def GapStats.total (l : List (Nat × Nat)) : Nat := (l.map (·.2)).sum

/-- `PosTags`: the tags seen; `done` prints the number of different ones -/
def posTagsRun (acc : List Str) (t : Tree) : List Str := acc ++ t.terminals.map (·.fields.label)
def distinctCount (l : List Str) : Nat := l.eraseDups.length

end TT
