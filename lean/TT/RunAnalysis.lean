/-
  TT.RunAnalysis — `treeanalysis.run` (trees/treeanalysis.py): the whole `treetools treeanalysis SRC TASK` command.
  Read every sentence of the source, hand every tree, in file order, to the `run` of ONE instance of the task, then
  `done()` prints the summary.  The model answers the NUMBERS of that summary (the wording around them is matched by
  the harness with regular expressions).  No Mathlib.
-/
import TT.IO.Read
import TT.Analysis
import TT.Spec.More12f
namespace TT
open Tree

/-- the tasks of `treeanalysis.TASKS` -/
inductive AnalysisTask where
  | gapDegree | posTags | sentenceCount
deriving DecidableEq, Repr

/-- the task named on the command line (`globals()[args.task]`) -/
def analysisTask? : String → Option AnalysisTask
  | "GapDegree" => some .gapDegree
  | "PosTags" => some .posTags
  | "SentenceCount" => some .sentenceCount
  | _ => none

/-- what `done()` prints, as numbers -/
inductive AnalysisReport where
  /-- `GapDegree.done`: "%d trees, %d nodes", then one line per degree of the per-tree table and of the per-node table -/
  | gap (trees nodes : Nat) (perTree perNode : List (Nat × Nat))
  /-- `PosTags.done`: "%d different tags" -/
  | tags (different : Nat)
  /-- `SentenceCount.done`: "%d sentences" -/
  | sentences (n : Nat)
deriving DecidableEq, Repr

/-- `GapDegree.done` on the accumulated tables: the two totals are the sums of the listed counts -/
def gapReport (s : GapStats) : AnalysisReport :=
  .gap (GapStats.total s.perTree) (GapStats.total s.perNode) s.perTree s.perNode

/-- the task's accumulator over the trees in the order given, then its report -/
def analyse (task : AnalysisTask) (ts : List Tree) : AnalysisReport :=
  match task with
  | .gapDegree => gapReport (ts.foldl GapStats.run {})
  | .posTags => .tags (distinctCount (ts.foldl posTagsRun []))
  | .sentenceCount => .sentences (ts.foldl Spec.sentenceCountRun 0)

/-- `treeanalysis.run` from the sentences the reader yields (a reader error ends the command before `done`) -/
def runAnalysisFrom (task : AnalysisTask) (src : Except Err (List (Nat × Tree))) : Except Err AnalysisReport := do
  let r ← src
  pure (analyse task (r.map (·.2)))

/-- `treetools treeanalysis SRC TASK` on an export source (default reader options), from the text of the file -/
def runAnalysis (task : AnalysisTask) (text : Str) : Except Err AnalysisReport :=
  runAnalysisFrom task (readExport {} text)

end TT
