/-
  TT.Tree — the tree datatype and the navigation API of `trees/trees.py`
  (children, terminals, preorder, postorder, terminal_blocks, siblings, lca,
  dominance, levels).  Mutation in the Python becomes value passing; nodes are
  addressed by *storage paths* (index lists into `kids`).  No Mathlib.
-/
import TT.Str
namespace TT

/-- the `data` dict of a node.  `none` = Python `None` / key absent. -/
structure Fields where
  label : Str := []
  word : Option Str := none
  lemma : Option Str := none
  morph : Option Str := none
  edge : Option Str := none
  head : Option Bool := none
  split : Option Bool := none
  headBlock : Option Bool := none
  blockNumber : Option Nat := none
  /-- harness-only tag (`data['uid']`) that lets specifications speak about node identity -/
  uid : Option Nat := none
deriving DecidableEq, Repr, Inhabited

/-- `leaf num f` : a token (no children, `data['num'] = num`);
    `node f kids` : a constituent, `kids` in STORAGE order (`tree.children`).
    `node f []` (a childless constituent) is representable on purpose. -/
inductive Tree where
  | leaf (num : Nat) (f : Fields)
  | node (f : Fields) (kids : List Tree)
deriving Repr, Inhabited

namespace Tree

def fields : Tree → Fields
  | leaf _ f => f
  | node f _ => f

def kids : Tree → List Tree
  | leaf _ _ => []
  | node _ ks => ks

def isLeaf : Tree → Bool
  | leaf _ _ => true
  | node _ _ => false

def label (t : Tree) : Str := t.fields.label

def setFields (t : Tree) (g : Fields → Fields) : Tree :=
  match t with
  | leaf n f => leaf n (g f)
  | node f ks => node (g f) ks

mutual
/-- structural equality test (used by the driver; `Tree` has no derived `DecidableEq`) -/
def beq : Tree → Tree → Bool
  | leaf n f, leaf m g => n == m && f == g
  | node f ks, node g ls => f == g && beqL ks ls
  | _, _ => false
def beqL : List Tree → List Tree → Bool
  | [], [] => true
  | a :: as, b :: bs => beq a b && beqL as bs
  | _, _ => false
end

mutual
/-- all tokens below `t`, in storage order (`unordered_terminals`) -/
def leaves : Tree → List Tree
  | leaf n f => [leaf n f]
  | node _ ks => leavesL ks
def leavesL : List Tree → List Tree
  | [] => []
  | t :: ts => leaves t ++ leavesL ts
end

def num : Tree → Nat
  | leaf n _ => n
  | node _ _ => 0

/-- token numbers below `t`, storage order -/
def leafNums (t : Tree) : List Nat := t.leaves.map num

/-- `trees.terminals` : tokens sorted by number (stable) -/
def terminals (t : Tree) : List Tree := sortBy num t.leaves

/-- sorted token numbers -/
def yield (t : Tree) : List Nat := t.terminals.map num

/-- number of the leftmost token (`terminals(x)[0].data['num']`); 0 when there is none
    (the Python raises there; `WF` excludes it). -/
def leftmost (t : Tree) : Nat := (t.yield.head?).getD 0

def rightmost (t : Tree) : Nat := (t.yield.getLast?).getD 0

/-- `trees.children` : children ordered by leftmost token -/
def children (t : Tree) : List Tree := sortBy leftmost t.kids

mutual
/-- `trees.preorder`.  Structural trick: compute each child's traversal, keyed by the child's
    leftmost token, then stable-sort the keyed results (same order as sorting the children first). -/
def preorder : Tree → List Tree
  | leaf n f => [leaf n f]
  | node f ks => node f ks :: ((sortBy (·.1) (preorderK ks)).map (·.2)).flatten
def preorderK : List Tree → List (Nat × List Tree)
  | [] => []
  | t :: ts => (leftmost t, preorder t) :: preorderK ts
end

mutual
def postorder : Tree → List Tree
  | leaf n f => [leaf n f]
  | node f ks => ((sortBy (·.1) (postorderK ks)).map (·.2)).flatten ++ [node f ks]
def postorderK : List Tree → List (Nat × List Tree)
  | [] => []
  | t :: ts => (leftmost t, postorder t) :: postorderK ts
end

mutual
/-- all subtrees, storage order, root first -/
def subtrees : Tree → List Tree
  | leaf n f => [leaf n f]
  | node f ks => node f ks :: subtreesL ks
def subtreesL : List Tree → List Tree
  | [] => []
  | t :: ts => subtrees t ++ subtreesL ts
end

mutual
/-- no childless constituent anywhere -/
def noEmpty : Tree → Bool
  | leaf _ _ => true
  | node _ ks => !ks.isEmpty && noEmptyL ks
def noEmptyL : List Tree → Bool
  | [] => true
  | t :: ts => noEmpty t && noEmptyL ts
end

mutual
def size : Tree → Nat
  | leaf _ _ => 1
  | node _ ks => 1 + sizeL ks
def sizeL : List Tree → Nat
  | [] => 0
  | t :: ts => size t + sizeL ts
end

/-- maximal runs of consecutive numbers in a list (as `terminal_blocks` computes them:
    a new block starts when `a + 1 < b`) -/
def blocksOf : List Nat → List (List Nat)
  | [] => []
  | [a] => [[a]]
  | a :: b :: rest =>
    match blocksOf (b :: rest) with
    | [] => [[a]]
    | blk :: blks => if a + 1 < b then [a] :: blk :: blks else (a :: blk) :: blks

/-- `terminal_blocks`, as numbers -/
def blocks (t : Tree) : List (List Nat) := blocksOf t.yield

/-- `gap_degree_node` : number of `i` with `terms[i]+1 < terms[i+1]`; 0 for a token -/
def gapCount : List Nat → Nat
  | [] => 0
  | [_] => 0
  | a :: b :: rest => (if a + 1 < b then 1 else 0) + gapCount (b :: rest)

def gapDegreeNode (t : Tree) : Nat :=
  match t with
  | leaf _ _ => 0
  | node _ _ => gapCount t.yield

/-- `gap_degree` : max over preorder -/
def gapDegree (t : Tree) : Nat := (t.preorder.map gapDegreeNode).foldl max 0

/-! ### Paths (storage indices) -/

abbrev Path := List Nat

def get? : Tree → Path → Option Tree
  | t, [] => some t
  | leaf _ _, _ :: _ => none
  | node _ ks, i :: p =>
    match ks[i]? with
    | some k => get? k p
    | none => none

mutual
/-- all valid paths, preorder w.r.t. storage order -/
def paths : Tree → List Path
  | leaf _ _ => [[]]
  | node _ ks => [] :: pathsL ks 0
def pathsL : List Tree → Nat → List Path
  | [], _ => []
  | t :: ts, i => (paths t).map (i :: ·) ++ pathsL ts (i + 1)
end

/-- the ancestors of the node at `p`, nearest first, including itself: `dominance` (as paths) -/
def dominancePaths (p : Path) : List Path :=
  (List.range (p.length + 1)).reverse.map (p.take ·)

/-- index of `x` in the ordered child list of its parent, via the position of its storage index -/
def orderedIdx (ks : List Tree) : List Nat :=
  (sortBy (fun (p : Nat × Tree) => p.2.leftmost) ((List.range ks.length).zip ks)).map (·.1)

/-- `right_sibling` as a path -/
def rightSibling (t : Tree) (p : Path) : Option Path :=
  match p.getLast? with
  | none => none
  | some i =>
    match t.get? p.dropLast with
    | some par =>
      let ord := orderedIdx par.kids
      match ord.idxOf? i with
      | some k => (ord[k+1]?).map (fun j => p.dropLast ++ [j])
      | none => none
    | none => none

def leftSibling (t : Tree) (p : Path) : Option Path :=
  match p.getLast? with
  | none => none
  | some i =>
    match t.get? p.dropLast with
    | some par =>
      let ord := orderedIdx par.kids
      match ord.idxOf? i with
      | some 0 => none
      | some (k+1) => (ord[k]?).map (fun j => p.dropLast ++ [j])
      | none => none
    | none => none

def commonPrefix : Path → Path → Path
  | a :: as, b :: bs => if a = b then a :: commonPrefix as bs else []
  | _, _ => []

/-- `trees.lca` : none when one dominates the other (incl. equal) -/
def lca (p q : Path) : Option Path :=
  let c := commonPrefix p q
  if c.length = p.length || c.length = q.length then none else some c

mutual
/-- `levels` : height = longest downward path to a token (0 for a token) -/
def height : Tree → Nat
  | leaf _ _ => 0
  | node _ ks => 1 + heightL ks
def heightL : List Tree → Nat
  | [] => 0
  | t :: ts => max (height t) (heightL ts)
end

end Tree
end TT
