/-
  TT.RunSrc — the source side of the four commands: `getattr(treeinput, args.src_format)(args.src, args.src_enc,
  **misc.options_dict(args.src_opts))` (trees/transform.py `run`, trees/transitions.py `run`, trees/grammar.py `run`,
  trees/treeanalysis.py `run`).  Every command names its reader by `--src-format` and hands it the options of
  `--src-opts`; what the reader yields is then treated in the same way whatever reader it was (`runFrom`,
  `runSplitFrom`, `runTransitions`, `runGrammarFrom`, `runAnalysisFrom`).  Before wave 18 this dispatch lived in the
  driver (four copies of a `match srcfmt with`), outside the model; here it is a model function of its own, so that the
  command-level theorems can speak about every source format and every reader option record.
  A TIGER-XML source is its element structure (`List XSent`, as for `readTiger`; ElementTree is outside the model).
  No Mathlib.
-/
import TT.Run
import TT.RunAnalysis
import TT.Options
namespace TT
open Tree

/-- the content of the source file, as its reader sees it -/
inductive Source where
  | export (text : Str)
  | brackets (text : Str)
  | discobrackets (text : Str)
  | tigerxml (doc : List XSent)

/-- `getattr(treeinput, src_format)(src, enc, **opts)`: `treeinput.discobrackets` is `brackets` with `disco=True` -/
def readSrc (io : InOpts) : Source → Except Err (List (Nat × Tree))
  | .export text => readExport io text
  | .brackets text => readBrackets io text
  | .discobrackets text => readBrackets { io with disco := true } text
  | .tigerxml doc => readTiger io doc

/-- `treetools treeanalysis SRC TASK --src-format F --src-opts ...` -/
def runAnalysisSrc (task : AnalysisTask) (io : InOpts) (src : Source) : Except Err AnalysisReport :=
  runAnalysisFrom task (readSrc io src)

/-- `treetools transform SRC DEST --src-format F --src-opts ... --trans ...` without `--split` -/
def runSrc (steps : List Step) (fmt : DestFmt) (o : OutOpts) (enc : Option Str) (io : InOpts) (src : Source) :
    Except Err Str :=
  runFrom steps fmt o enc (readSrc io src)

/-- ... with `--split spec` -/
def runSplitSrc (steps : List Step) (fmt : DestFmt) (o : OutOpts) (enc : Option Str) (spec : Str) (io : InOpts)
    (src : Source) : Except Err (List Str) :=
  runSplitFrom steps fmt o enc spec (readSrc io src)

/-- `treetools transitions SRC DEST SYS --src-format F --src-opts ...` -/
def runTransitionsSrc (steps : List Step) (sys : TransSys) (pos : Bool) (io : InOpts) (src : Source) :
    Except Err (List Str) :=
  runTransitions steps sys pos (readSrc io src)

/-- `treetools grammar SRC DEST TYPE --src-format F --src-opts ...` (tree sources) -/
def runGrammarSrc (gt : GramType) (mo : Option MarkovOpts) (io : InOpts) (src : Source) :
    Except Err (Grammar × Lexicon) :=
  runGrammarFrom gt mo (readSrc io src)

/-! ### `--src-opts`: from the words of the command line to the reader's options

`**misc.options_dict(args.src_opts)` hands the dict to the reader as keyword arguments.  The readers test the PRESENCE of
the keys `gf_split`, `replace_parens`, `continuous`, `brackets_emptypos`, `disco_reordered` (and `quiet`, which only
concerns messages) - whatever the value, so `gf_split:0` switches the option ON; `disco` must be present and truthy;
`gf_separator` is used as it is and `brackets_firstid` as the first sentence number.  Values of a kind the readers cannot
use (a number or a bare key as separator, a non-number as first id) are outside the model (`none`); the harness does
not generate them. -/

def optTruthy : OptVal → Bool
  | .flag => true
  | .int n => n != 0
  | .str s => !s.isEmpty

def inOptsOf (d : List (Str × OptVal)) : Option InOpts :=
  let has := fun (k : String) => (optLookup d k.toList).isSome
  let sep : Option (Option Str) := match optLookup d "gf_separator".toList with
    | none => some none
    | some (.str s) => some (some s)
    | some _ => none
  let fid : Option (Option Nat) := match optLookup d "brackets_firstid".toList with
    | none => some none
    | some (.int n) => some (some n)
    | some _ => none
  match sep, fid with
  | some sep, some fid =>
    some { gfSplit := has "gf_split", gfSeparator := sep, replaceParens := has "replace_parens",
           emptyPos := has "brackets_emptypos", firstId := fid, continuous := has "continuous",
           disco := (optLookup d "disco".toList).any optTruthy, discoReordered := has "disco_reordered" }
  | _, _ => none

/-- `--dest-opts`: the writers and `trees.get_label` test the presence of their keys; the separator is
    `str(params['gf_separator'])` - a number is printed in decimal, a bare key is the text `True` -/
def outOptsOf (d : List (Str × OptVal)) : OutOpts :=
  let has := fun (k : String) => (optLookup d k.toList).isSome
  { gf := has "gf", gfTerminals := has "gf_terminals", markHeads := has "mark_heads_marking",
    gfSeparator := (optLookup d "gf_separator".toList).map fun
      | .str s => s
      | .int n => natToStr n
      | .flag => "True".toList,
    splitMarking := has "boyd_split_marking", splitNumbering := has "boyd_split_numbering",
    emptyRoot := has "brackets_emptyroot", skipDisco := has "brackets_skipdisco", exportFour := has "export_four",
    terminalsOne := has "terminals_one", terminalsPos := has "terminals_pos", posOnly := has "pos_only" }

/-- the reader named by the format on the content of the file, with the words of `--src-opts` -/
def readSrcWords (words : List Str) (src : Source) : Option (Except Err (List (Nat × Tree))) :=
  (inOptsOf (optionsDict words)).map fun io => readSrc io src

/-- `treetools treeanalysis SRC TASK --src-format F --src-opts words...` -/
def runAnalysisWords (task : AnalysisTask) (words : List Str) (src : Source) : Option (Except Err AnalysisReport) :=
  (readSrcWords words src).map (runAnalysisFrom task)

/-- `treetools transform SRC DEST --src-format F --src-opts words... --trans ...` -/
def runWords (steps : List Step) (fmt : DestFmt) (o : OutOpts) (enc : Option Str) (words : List Str) (src : Source) :
    Option (Except Err Str) :=
  (readSrcWords words src).map (runFrom steps fmt o enc)

/-- `treetools transform SRC DEST --src-format F --src-opts sw... --dest-format G --dest-opts dw...` -/
def runWords2 (steps : List Step) (fmt : DestFmt) (dwords : List Str) (enc : Option Str) (swords : List Str)
    (src : Source) : Option (Except Err Str) :=
  runWords steps fmt (outOptsOf (optionsDict dwords)) enc swords src

end TT
