/-
  TT.RunSrc — the source side of the four commands: `getattr(treeinput, args.src_format)(args.src, args.src_enc,
  **misc.options_dict(args.src_opts))` (trees/transform.py `run`, trees/transitions.py `run`, trees/grammar.py `run`,
  trees/treeanalysis.py `run`).  Every command names its reader by `--src-format` and hands it the options of
  `--src-opts`; what the reader yields is then treated in the same way whatever reader it was (`runFrom`,
  `runSplitFrom`, `runTransitions`, `runGrammarFrom`, `runAnalysisFrom`).  Before wave 18 this dispatch lived in the
  driver (four copies of a `match srcfmt with`), outside the model; here it is a model function of its own, so that the
  command-level theorems can speak about every source format and every reader option record.
  A TIGER-XML source is its element structure (`List XSent`, as for `readTiger`; ElementTree is outside the model).
  No Mathlib.
-/
import TT.Run
import TT.RunAnalysis
namespace TT
open Tree

/-- the content of the source file, as its reader sees it -/
inductive Source where
  | export (text : Str)
  | brackets (text : Str)
  | discobrackets (text : Str)
  | tigerxml (doc : List XSent)

/-- `getattr(treeinput, src_format)(src, enc, **opts)`: `treeinput.discobrackets` is `brackets` with `disco=True` -/
def readSrc (io : InOpts) : Source → Except Err (List (Nat × Tree))
  | .export text => readExport io text
  | .brackets text => readBrackets io text
  | .discobrackets text => readBrackets { io with disco := true } text
  | .tigerxml doc => readTiger io doc

/-- `treetools treeanalysis SRC TASK --src-format F --src-opts ...` -/
def runAnalysisSrc (task : AnalysisTask) (io : InOpts) (src : Source) : Except Err AnalysisReport :=
  runAnalysisFrom task (readSrc io src)

/-- `treetools transform SRC DEST --src-format F --src-opts ... --trans ...` without `--split` -/
def runSrc (steps : List Step) (fmt : DestFmt) (o : OutOpts) (enc : Option Str) (io : InOpts) (src : Source) :
    Except Err Str :=
  runFrom steps fmt o enc (readSrc io src)

/-- ... with `--split spec` -/
def runSplitSrc (steps : List Step) (fmt : DestFmt) (o : OutOpts) (enc : Option Str) (spec : Str) (io : InOpts)
    (src : Source) : Except Err (List Str) :=
  runSplitFrom steps fmt o enc spec (readSrc io src)

/-- `treetools transitions SRC DEST SYS --src-format F --src-opts ...` -/
def runTransitionsSrc (steps : List Step) (sys : TransSys) (pos : Bool) (io : InOpts) (src : Source) :
    Except Err (List Str) :=
  runTransitions steps sys pos (readSrc io src)

/-- `treetools grammar SRC DEST TYPE --src-format F --src-opts ...` (tree sources) -/
def runGrammarSrc (gt : GramType) (mo : Option MarkovOpts) (io : InOpts) (src : Source) :
    Except Err (Grammar × Lexicon) :=
  runGrammarFrom gt mo (readSrc io src)

end TT
