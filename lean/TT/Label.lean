/-
  TT.Label — `parse_label`, `format_label`, `get_label` of `trees/trees.py`.
-/
import TT.Tree
namespace TT

def DEFAULT_EDGE : Str := "--".toList
def DEFAULT_LABEL : Str := "EMPTY".toList
def DEFAULT_MORPH : Str := "--".toList
def DEFAULT_LEMMA : Str := "--".toList
def DEFAULT_ROOT : Str := "VROOT".toList
def DEFAULT_GF_SEP : Str := "-".toList

/-- the object returned by `parse_label` -/
structure Label where
  label : Str
  gf : Str
  gfSep : Str
  coindex : Str
  gapindex : Str
  headmarker : Bool
  isTrace : Bool
deriving DecidableEq, Repr

/-- strip a trailing head marker `'` -/
def stripHead (s : Str) : Bool × Str :=
  if s.getLast? = some '\'' then (true, s.dropLast) else (false, s)

/-- strip `<c><digits>` at the last occurrence of `c` (coindex `-`, gap index `=`) -/
def stripIndex (c : Char) (s : Str) : Str × Str :=
  match splitLast c s with
  | some (a, b) => if pyIsDigit b then (b, a) else ([], s)
  | none => ([], s)

/-- position of the first character `ch` with `[ch] = sep` (Python compares a character
    with the separator *string*, so only one-character separators ever match) -/
def splitGf (sep : Str) (s : Str) : Option (Str × Str) :=
  match sep with
  | [c] =>
    match splitFirst c s with
    | some (a, b) => if !a.isEmpty && !b.isEmpty then some (a, b) else none
    | none => none
  | _ => none

def isTraceLabel (l : Str) : Bool :=
  match l.head?, l.getLast? with
  | some a, some b => a = '*' && b = '*'
  | _, _ => false

def parseLabel (sep : Str) (s : Str) : Label :=
  let (hm, s1) := stripHead s
  let (co, s2) := stripIndex '-' s1
  let (gap, s3) := stripIndex '=' s2
  let (lab, gf) := match splitGf sep s3 with
    | some (a, b) => (a, b)
    | none => (s3, DEFAULT_EDGE)
  let lab := if lab.isEmpty then DEFAULT_LABEL else lab
  { label := lab, gf := gf, gfSep := sep, coindex := co, gapindex := gap,
    headmarker := hm, isTrace := isTraceLabel lab }

def formatLabel (alwaysLabel alwaysGf : Bool) (l : Label) : Str :=
  let lab := if l.label ≠ DEFAULT_LABEL || alwaysLabel then l.label else []
  let idx := (if l.gapindex.isEmpty then [] else '=' :: l.gapindex) ++
             (if l.coindex.isEmpty then [] else '-' :: l.coindex)
  let gf := if l.gf ≠ DEFAULT_EDGE || alwaysGf then l.gfSep ++ l.gf else []
  lab ++ gf ++ idx ++ (if l.headmarker then ['\''] else [])

/-- output options that decorate labels (`get_label`) and select writer behaviour -/
structure OutOpts where
  gf : Bool := false
  gfSeparator : Option Str := none
  gfTerminals : Bool := false
  markHeads : Bool := false
  splitMarking : Bool := false
  splitNumbering : Bool := false
  emptyRoot : Bool := false
  skipDisco : Bool := false
  exportFour : Bool := false
  terminalsOne : Bool := false
  terminalsPos : Bool := false
  posOnly : Bool := false
deriving DecidableEq, Repr, Inhabited

inductive Err where
  | valueError | typeError | attributeError | indexError | keyError | stopIteration | other
deriving DecidableEq, Repr, Inhabited

def Err.toS : Err → String
  | .valueError => "ValueError" | .typeError => "TypeError" | .attributeError => "AttributeError"
  | .indexError => "IndexError" | .keyError => "KeyError" | .stopIteration => "StopIteration"
  | .other => "Other"

/-- `get_label`: the decorated label.  `data['head']` / `data['split']` raise `KeyError`
    when the key is absent and the option asks for it. An absent edge counts as the default. -/
def getLabel (o : OutOpts) (t : Tree) : Except Err Str := do
  let f := t.fields
  let sep := o.gfSeparator.getD DEFAULT_GF_SEP
  let edge := f.edge.getD DEFAULT_EDGE
  let gfS : Str := if o.gf && !(edge.head? = some '-') && (!t.kids.isEmpty || o.gfTerminals)
    then sep ++ edge else []
  let hd ← if o.markHeads then
      (match f.head with | some b => pure (if b then ['\''] else []) | none => throw Err.keyError)
    else pure []
  let sm ← if o.splitMarking then
      (match f.split with | some b => pure (if b then ['*'] else []) | none => throw Err.keyError)
    else pure []
  let sn ← if o.splitNumbering then
      (match f.split with
       | some true => (match f.blockNumber with | some n => pure (natToStr n) | none => throw Err.keyError)
       | some false => pure []
       | none => throw Err.keyError)
    else pure []
  pure (f.label ++ gfS ++ hd ++ sm ++ sn)

end TT
