/-
  TT.Run — `transform.run` (trees/transform.py): read every sentence of the source, send it through the
  requested transformations in the order given (each occurrence once; a tree for which a step returns
  None is dropped), write what is left — into one file, or distributed over the parts of a split.
  No Mathlib.
-/
import TT.IO.Read
import TT.IO.Write
import TT.Split
import TT.Trans
import TT.Grammar.Extract
import TT.Grammar.Binarize
import TT.Grammar.Output
namespace TT
open Tree

inductive DestFmt where
  | export | brackets | discobrackets | terminals | tigerxml
deriving DecidableEq, Repr

/-- the text one tree contributes to the destination -/
def writeOne (fmt : DestFmt) (o : OutOpts) (sid : Nat) (t : Tree) : Except Err Str :=
  let nl : Str := ['\n']
  match fmt with
  | .export => (writeExport o sid t).map fun ls => (ls.map (· ++ nl)).flatten
  | .brackets => (writeBrackets o t).map fun r => match r with | some s => s ++ nl | none => []
  | .discobrackets => (writeDisco o t).map (· ++ nl)
  | .terminals => writeTerminals o t
  | .tigerxml => pure (((writeTiger sid t).map (· ++ nl)).flatten)

/-- `<fmt>_begin`, the trees, `<fmt>_end` -/
def writeAll (fmt : DestFmt) (o : OutOpts) (enc : Option Str) (ts : List (Nat × Tree)) : Except Err Str := do
  let body ← ts.mapM fun (sid, t) => writeOne fmt o sid t
  if fmt = .tigerxml then pure (((tigerBegin enc).map (· ++ ['\n'])).flatten ++ body.flatten ++ tigerEnd)
  else pure body.flatten

/-- one transformation step as the pipeline sees it -/
abbrev Step := Tree → Except Err (Option Tree)

/-- every step in the order given; stop at the first None -/
def applySteps' : List Step → Tree → Except Err (Option Tree)
  | [], t => .ok (some t)
  | f :: fs, t =>
    match f t with
    | .error e => .error e
    | .ok none => .ok none
    | .ok (some t') => applySteps' fs t'

/-- the trees that reach the writer, in source order -/
def transformAll (steps : List Step) : List (Nat × Tree) → Except Err (List (Nat × Tree))
  | [] => .ok []
  | (sid, t) :: rest =>
    match applySteps' steps t with
    | .error e => .error e
    | .ok none => transformAll steps rest
    | .ok (some t') => (transformAll steps rest).map ((sid, t') :: ·)

/-- `treetools transform SRC DEST --trans ...` without `--split`, from the sentences the reader yields -/
def runFrom (steps : List Step) (fmt : DestFmt) (o : OutOpts) (enc : Option Str)
    (src : Except Err (List (Nat × Tree))) : Except Err Str := do
  let ts ← src
  let ts' ← transformAll steps ts
  writeAll fmt o enc ts'

/-- ... with `--split spec`: the text of every part, in order -/
def runSplitFrom (steps : List Step) (fmt : DestFmt) (o : OutOpts) (enc : Option Str) (spec : Str)
    (src : Except Err (List (Nat × Tree))) : Except Err (List Str) := do
  let ts ← src
  let ts' ← transformAll steps ts
  let parts ← parseSplitSpec spec ts'.length
  (distribute parts ts').mapM (writeAll fmt o enc)

inductive TransSys where
  | topdown | inorder | gap
deriving DecidableEq, Repr

def oracle (sys : TransSys) (t : Tree) : Except Err (List Action) :=
  match sys with
  | .topdown => topdown t
  | .inorder => .ok (inorder t)
  | .gap => gapOracle t

/-- `treetools transitions SRC DEST SYSTEM --transform ...`: one line per tree.  (`transitions.run` has no case for a step
    that returns None; no such step is a sensible part of this command and none is generated.) -/
def runTransitions (steps : List Step) (sys : TransSys) (pos : Bool) (src : Except Err (List (Nat × Tree))) : Except Err (List Str) := do
  let ts ← src
  let ts' ← transformAll steps ts
  ts'.mapM fun (_, t) => (oracle sys t).map (plainLine pos t)

inductive GramType where
  | treebank | leftright | optimal
deriving DecidableEq, Repr

/-- the documented defaults of `--markov`: v 1, h 2 -/
def markovDefaults (v h : Option Nat) (nofanout : Bool) : MarkovOpts :=
  { v := v.getD 1, h := h.getD 2, nofanout := nofanout }

/-- `treetools grammar SRC DEST TYPE [--markov ...]` from the sentences the reader yields: the grammar and lexicon that
    are handed to the writer -/
def runGrammarFrom (gt : GramType) (mo : Option MarkovOpts) (src : Except Err (List (Nat × Tree))) : Except Err (Grammar × Lexicon) := do
  let ts ← src
  let (g, lex) := extractAll (ts.map (·.2))
  pure (match gt with
    | .treebank => g
    | .leftright => binarizeGrammar .leftright mo g
    | .optimal => binarizeGrammar .optimal mo g, lex)

end TT
