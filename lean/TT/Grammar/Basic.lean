/-
  TT.Grammar.Basic — grammar data (insertion-ordered association lists mirror Python dicts),
  `grammaranalysis.fan_out`, `is_contextfree`, `grammarconst.label_strip_fanout`.
-/
import TT.Nav
import TT.Label
import TT.Generated.Consts
namespace TT

/-- a linearization: one list per LHS argument of (RHS position, argument of that RHS element).
    Positions are `Int` because binarization shifts them through -1. -/
abbrev Lin := List (List (Int × Nat))
abbrev Func := List Str

inductive VertKey where
  | ctx (l : List Str)     -- vertical context tuple
  | default                -- the string "VERT"
deriving DecidableEq, Repr

abbrev AList (κ ν : Type) := List (κ × ν)

/-- `d[k] = f(d.get(k))`, keeping insertion order -/
def AList.upsert {κ ν} [DecidableEq κ] (k : κ) (f : Option ν → ν) : AList κ ν → AList κ ν
  | [] => [(k, f none)]
  | (a, v) :: r => if a = k then (a, f (some v)) :: r else (a, v) :: AList.upsert k f r

def AList.get? {κ ν} [DecidableEq κ] (k : κ) (l : AList κ ν) : Option ν :=
  (l.find? (fun p => p.1 = k)).map (·.2)

abbrev Grammar := AList Func (AList Lin (AList VertKey Nat))
abbrev Lexicon := AList Str (AList Str Nat)

/-- `grammar[func][lin][vert] += n` with all the `if not ... in` initialisations -/
def Grammar.add (g : Grammar) (func : Func) (lin : Lin) (vert : VertKey) (n : Nat) : Grammar :=
  AList.upsert func (fun o =>
    AList.upsert lin (fun o2 =>
      AList.upsert vert (fun o3 => o3.getD 0 + n) (o2.getD [])) (o.getD [])) g

def Lexicon.add (l : Lexicon) (word tag : Str) (n : Nat) : Lexicon :=
  AList.upsert word (fun o => AList.upsert tag (fun o2 => o2.getD 0 + n) (o.getD [])) l

/-- all (func, lin, vert, count) entries in dict iteration order -/
def Grammar.entries (g : Grammar) : List (Func × Lin × VertKey × Nat) :=
  g.flatMap fun (f, ls) => ls.flatMap fun (l, vs) => vs.map fun (v, c) => (f, l, v, c)

/-- (func, lin, summed count) in dict iteration order -/
def Grammar.rules (g : Grammar) : List (Func × Lin × Nat) :=
  g.flatMap fun (f, ls) => ls.map fun (l, vs) => (f, l, (vs.map (·.2)).sum)

/-- `fan_out(lin)`: [len(lin), occurrences of RHS 0, of RHS 1, ...] (as far as they occur) -/
def fanOut (lin : Lin) : List Nat :=
  let refs := lin.flatMap fun arg => arg.map (·.1)
  let k := (refs.map fun r => (r + 1).toNat).foldl max 0
  lin.length :: (List.range k).map fun (i : Nat) => refs.count (Int.ofNat i)

def isContextFree (g : Grammar) : Bool :=
  g.all fun (_, ls) => ls.all fun (l, _) => l.length ≤ 1

/-- strip trailing digits (`label_strip_fanout`); the Python raises IndexError on an all-digit label -/
def labelStripFanout (l : Str) : Str := (l.reverse.dropWhile Char.isDigit).reverse

end TT
