/-
  `grammar.extract` as a fold over events produced in preorder.
-/
import TT.Grammar.Basic
namespace TT
namespace Tree

/-- index (in the ordered child list) of the child covering token `n` -/
def coveringChild (cs : List Tree) (n : Nat) : Nat :=
  -- later children overwrite earlier ones in `term_map` (irrelevant on well-formed trees)
  ((cs.zipIdx.filter fun (c, _) => c.leafNums.contains n).getLast?.map (·.2)).getD 0

/-- collapse a block of tokens to the sequence of RHS positions, adjacent repeats merged -/
def collapseAdj : List Nat → List Nat
  | [] => []
  | [a] => [a]
  | a :: b :: r => if a = b then collapseAdj (b :: r) else a :: collapseAdj (b :: r)

/-- assign argument counters: state = per-RHS counter -/
def numberArgs (cnt : List Nat) : List Nat → List (Int × Nat) × List Nat
  | [] => ([], cnt)
  | p :: ps =>
    let c := cnt[p]?.getD 0
    let cnt' := cnt.set p (c + 1)
    let (rest, cnt'') := numberArgs cnt' ps
    (((p : Int), c) :: rest, cnt'')

def linOfBlocks (cs : List Tree) (cnt : List Nat) : List (List Nat) → Lin
  | [] => []
  | b :: bs =>
    let (arg, cnt') := numberArgs cnt (collapseAdj (b.map (coveringChild cs)))
    arg :: linOfBlocks cs cnt' bs

/-- the linearization extracted at a constituent -/
def linOf (t : Tree) : Lin :=
  let cs := sortBy leftmost t.kids
  linOfBlocks cs (List.replicate cs.length 0) t.blocks

def funcOf (t : Tree) : Func := t.fields.label :: (sortBy leftmost t.kids).map (·.fields.label)

/-- "%s%d" % (label, gap_degree_node + 1) -/
def vertLabel (t : Tree) : Str := t.fields.label ++ natToStr (gapDegreeNode t + 1)

inductive Event where
  | rule (func : Func) (lin : Lin) (vert : List Str)
  | lex (word : Str) (tag : Str)

mutual
/-- events of the subtree in preorder; `ctx` = vertical labels of the proper ancestors, nearest first -/
def events (ctx : List Str) : Tree → List Event
  | leaf _ f => [.lex (f.word.getD []) f.label]
  | node f ks =>
    if ks.isEmpty then [.lex (f.word.getD []) f.label]
    else
      let me := vertLabel (node f ks) :: ctx
      .rule (funcOf (node f ks)) (linOf (node f ks)) me :: flattenSorted (eventsK me ks)
def eventsK (ctx : List Str) : List Tree → List (Nat × List Event)
  | [] => []
  | t :: ts => (leftmost t, events ctx t) :: eventsK ctx ts
end

def applyEvent (st : Grammar × Lexicon) : Event → Grammar × Lexicon
  | .rule f l v => (st.1.add f l (.ctx v) 1, st.2)
  | .lex w t => (st.1, st.2.add w t 1)

/-- `extract(tree, grammar, lexicon)` -/
def extract (t : Tree) (st : Grammar × Lexicon) : Grammar × Lexicon :=
  (events [] t).foldl applyEvent st

def extractAll (ts : List Tree) : Grammar × Lexicon := ts.foldl (fun st t => extract t st) ([], [])

end Tree
end TT
