/-
  `grammaroutput.pmcfg`, `rcg`, `lopar` (file contents as lists of lines) and `grammarinput.rcg`.
-/
import TT.Grammar.Basic
namespace TT

def sp : Str := [' ']
def unwords (l : List Str) : Str := joinWith sp l

/-- the lexical rules added by `lex_in_grammar` (to a copy of the grammar) -/
def addLexRules (g : Grammar) (lex : Lexicon) : Grammar :=
  lex.foldl (fun acc (word, tags) =>
    tags.foldl (fun acc2 (tag, count) => acc2.add [tag, word] [[(0, 0)]] .default count) acc) g

def lexLines (lex : Lexicon) : List Str :=
  lex.map fun (word, tags) =>
    word ++ ['\t'] ++ unwords (tags.map fun (tag, c) => tag ++ sp ++ natToStr c)

def intToS (i : Int) : Str := (toString i).toList

/-- PMCFG: (grammar file lines, lexicon file lines or none with lex_in_grammar) -/
def writePmcfg (lexInGrammar : Bool) (g : Grammar) (lex : Lexicon) : List Str × Option (List Str) :=
  let g := if lexInGrammar then addLexRules g lex else g
  let step := fun (acc : List Str × Nat × AList (List (Int × Nat)) Nat) (r : Func × Lin × Nat) =>
    let (lines, fid, ids) := acc
    let (func, lin, count) := r
    let fn := "fun".toList ++ natToStr fid
    let (ids', names) := lin.foldl (fun (a : AList (List (Int × Nat)) Nat × List Str) ld =>
        match AList.get? ld a.1 with
        | some i => (a.1, a.2 ++ ["s".toList ++ natToStr i])
        | none => let i := a.1.length + 1
                  (a.1 ++ [(ld, i)], a.2 ++ ["s".toList ++ natToStr i])) (ids, [])
    (lines ++ [sp ++ fn ++ sp ++ Gen.G_RULE ++ sp ++ (func.head?.getD []) ++ sp ++ Gen.G_RULEARROW ++ sp ++ unwords (func.drop 1),
               sp ++ fn ++ sp ++ Gen.G_LINEARIZATION ++ (names.map fun n => sp ++ n).flatten,
               sp ++ fn ++ sp ++ natToStr count], fid + 1, ids')
  let (lines, _, ids) := g.rules.foldl step ([], 1, [])
  let seqs := ids.map fun (ld, i) =>
    sp ++ "s".toList ++ natToStr i ++ sp ++ Gen.G_SEQUENCE ++ sp ++ unwords (ld.map fun (a, b) => intToS a ++ [':'] ++ natToStr b)
  (lines ++ seqs, if lexInGrammar then none else some (lexLines lex))

/-- one RCG clause -/
def rcgLine (func : Func) (lin : Lin) (count : Nat) : Str :=
  -- number the variables left to right through the LHS arguments
  let numbered : List (List ((Int × Nat) × Nat)) × Nat := lin.foldl (fun acc arg =>
      let (out, n) := acc
      (out ++ [arg.zipIdx.map fun (v, i) => (v, n + i)], n + arg.length)) ([], 0)
  let lhsArgs := joinWith [','] (numbered.1.map fun arg => (arg.map fun (_, n) => ['['] ++ natToStr n ++ [']']).flatten)
  let allVars := numbered.1.flatten
  let k := func.length - 1
  let rhsOf := fun (i : Nat) =>
    -- arguments of RHS element i in order of their argument index
    let vs := sortBy (fun (x : (Int × Nat) × Nat) => x.1.2) (allVars.filter fun (v, _) => v.1 == (i : Int))
    (vs.length, joinWith [','] (vs.map fun (_, n) => ['['] ++ natToStr n ++ [']']))
  let lhs := (func.head?.getD []) ++ natToStr (max lin.length 1) ++ ['('] ++ lhsArgs ++ [')']
  let rhs := unwords ((List.range k).map fun i =>
    let (ar, args) := rhsOf i
    (func[i + 1]?.getD []) ++ natToStr ar ++ ['('] ++ args ++ [')'])
  "C:".toList ++ natToStr count ++ sp ++ lhs ++ sp ++ Gen.G_RCG_RULEARROW ++ sp ++ rhs

def writeRcg (lexInGrammar : Bool) (g : Grammar) (lex : Lexicon) : List Str × Option (List Str) :=
  let g := if lexInGrammar then addLexRules g lex else g
  (g.rules.map fun (f, l, c) => rcgLine f l c, if lexInGrammar then none else some (lexLines lex))

structure LoparFiles where
  gram : List Str
  lex : List Str
  start : List Str    -- set-like: order not significant
  oc : List Str
  ocU : List Str

def bumpS (k : Str) (n : Nat) (l : AList Str Nat) : AList Str Nat := AList.upsert k (fun o => o.getD 0 + n) l

/-- LoPar: refused for a grammar that is not context-free -/
def writeLopar (g : Grammar) (lex : Lexicon) : Except Err LoparFiles :=
  if !isContextFree g then .error .valueError else
  let lhses := (g.map fun (f, _) => f.head?.getD []).eraseDups
  let rhses := (g.flatMap fun (f, _) => f.drop 1)
  let starts := lhses.filter fun s => !rhses.contains s
  let startCounts := starts.map fun s =>
    (s, ((g.rules.filter fun (f, _, _) => f.head? == some s).map fun (_, _, c) => c).sum)
  let (ocl, ocu) := lex.foldl (fun (acc : AList Str Nat × AList Str Nat) (word, tags) =>
      if (word.head?.map pyIsUpperChar).getD false
      then (acc.1, tags.foldl (fun a (t, c) => bumpS t c a) acc.2)
      else (tags.foldl (fun a (t, c) => bumpS t c a) acc.1, acc.2)) ([], [])
  .ok { gram := g.rules.map fun (f, _, c) => natToStr c ++ sp ++ (f.head?.getD []) ++ sp ++ unwords (f.drop 1),
        lex := lexLines lex,
        start := startCounts.map fun (s, c) => s ++ sp ++ natToStr c,
        oc := ocl.map fun (t, c) => t ++ sp ++ natToStr c,
        ocU := ocu.map fun (t, c) => t ++ sp ++ natToStr c }

/-! ### RCG reader -/

/-- `pred = LABEL<digits>(args)` -> (label without arity, raw argument string) -/
def splitPred (p : Str) : Str × Str :=
  match splitFirst '(' p with
  | some (a, b) => (labelStripFanout a, b.dropLast)
  | none => (labelStripFanout p.dropLast, p)   -- find = -1: pred[:-1], pred[0:-1]

/-- "[0][1]" -> ["0","1"] (`lhsarg[1:-1].split('][')`) -/
def argElems (a : Str) : List Str :=
  let inner := (a.drop 1).dropLast
  let rec go : Str → Str → List Str
    | [], cur => [cur.reverse]
    | ']' :: '[' :: r, cur => cur.reverse :: go r []
    | c :: r, cur => go r (c :: cur)
  go inner []

/-- match one LHS variable against the next unused argument of each RHS predicate, first hit wins -/
def matchVar (rhsArgs : List (List Str)) (pos : List Nat) (v : Str) : Option (Nat × Nat) :=
  (List.range rhsArgs.length).findSome? fun i =>
    let args := rhsArgs[i]?.getD []
    let p := pos[i]?.getD 0
    if args.length == p then none
    else if ((args[p]?.getD []).drop 1).dropLast == v then some (i, p) else none

def readRcgLin (raw : List Str) : Lin :=
  let lhsArgs := splitOnChar ',' (raw.head?.getD [])
  let rhsArgs := (raw.drop 1).map (splitOnChar ',')
  let step := fun (acc : List (Int × Nat) × List Nat) (v : Str) =>
    match matchVar rhsArgs acc.2 v with
    | some (i, p) => (acc.1 ++ [((i : Int), p)], acc.2.set i (p + 1))
    | none => acc
  (lhsArgs.foldl (fun (acc : Lin × List Nat) a =>
      let (arg, pos') := (argElems a).foldl step ([], acc.2)
      (acc.1 ++ [arg], pos')) ([], List.replicate rhsArgs.length 0)).1

/-- one line of the .rcg file -/
def readRcgLine (line : Str) : Option (Func × Lin × Nat) :=
  match splitWs line with
  | c :: lhs :: _arrow :: rhs =>
    match (splitOnChar ':' c)[1]?.bind strToNat? with
    | some count =>
      let preds := (lhs :: rhs).map splitPred
      some (preds.map (·.1), readRcgLin (preds.map (·.2)), count)
    | none => none
  | _ => none

def pairs : List Str → List (Str × Str)
  | a :: b :: r => (a, b) :: pairs r
  | _ => []

def readLexLine (lex : Lexicon) (line : Str) : Lexicon :=
  match splitWs line with
  | word :: rest => (pairs rest).foldl (fun l (tag, c) => l.add word tag ((strToNat? c).getD 0)) lex
  | [] => lex

/-- `grammarinput.rcg`: counts are stored under the VERT key; a repeated (func, lin) is overwritten -/
def readRcg (gramLines lexLines : List Str) : Option (Grammar × Lexicon) := do
  let rules ← gramLines.mapM readRcgLine
  let g := rules.foldl (fun (acc : Grammar) (f, l, c) =>
    AList.upsert f (fun o => AList.upsert l (fun _ => [(VertKey.default, c)]) (o.getD [])) acc) []
  pure (g, lexLines.foldl readLexLine [])

end TT
