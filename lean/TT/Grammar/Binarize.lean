/-
  `grammar.linsub`, `binarize_rule`, the two label generators, `reordering_optimal`, `binarize`
  (after the repairs: counts are accumulated; nofanout keeps the rule's own count).
-/
import TT.Grammar.Basic
namespace TT

/-- per-value counter (`Counter`) -/
abbrev Cnt := AList Int Nat
def Cnt.bump (c : Cnt) (k : Int) : Cnt × Nat :=
  let n := (AList.get? k c).getD 0
  (AList.upsert k (fun o => o.getD 0 + 1) c, n)

inductive Dest where
  | val (v : Int)
  | split            -- dest yields None

/-- one argument of `linsub`: returns finished sublists, and the counter -/
def linsubArg (src : Int → Bool) (dest : Int → Dest) (replace : Bool) :
    List (Int × Nat) → List (Int × Nat) → Cnt → List (List (Int × Nat)) × Cnt
  | [], cur, c => ((if cur.isEmpty then [] else [cur.reverse]), c)
  | (p, _) :: rest, cur, c =>
    if src p then
      match dest p with
      | .val d =>
        if replace && (match cur with | (q, _) :: _ => q == d | [] => false) then
          linsubArg src dest replace rest cur c
        else
          let (c', n) := c.bump d
          linsubArg src dest replace rest ((d, n) :: cur) c'
      | .split =>
        let (out, c') := linsubArg src dest replace rest [] c
        ((if cur.isEmpty then out else cur.reverse :: out), c')
    else
      let (c', n) := c.bump p
      linsubArg src dest replace rest ((p, n) :: cur) c'

def linsubArgs (src : Int → Bool) (dest : Int → Dest) (replace : Bool) : Lin → Cnt → Lin
  | [], _ => []
  | a :: as, c =>
    let (out, c') := linsubArg src dest replace a [] c
    out ++ linsubArgs src dest replace as c'

def linsub (lin : Lin) (src : Int → Bool) (dest : Int → Dest) (replace : Bool) : Lin :=
  linsubArgs src dest replace lin []

/-- `sub_lin`: element 0 stays, all others become 1, adjacent 1s merged -/
def topLin (lin : Lin) : Lin := linsub lin (fun x => x > 0) (fun _ => .val 1) true
/-- drop element 0, shift the others down, split arguments where element 0 stood -/
def restLin (lin : Lin) : Lin :=
  linsub (linsub lin (fun x => x ≥ 0) (fun x => .val (x - 1)) false) (fun x => x == -1) (fun _ => .split) false

structure MarkovOpts where
  v : Nat
  h : Nat
  nofanout : Bool

/-- label generator state: the counter of the unique generator -/
structure GenState where
  numb : Nat := 0

def uniqueLabel (n : Nat) : Str := Gen.G_DEFAULT_BINLABEL ++ natToStr n ++ Gen.G_DEFAULT_BINSUFFIX

/-- `MarkovLabelGenerator.next(func, pos, vert, fanout)` -/
def markovLabel (o : MarkovOpts) (func : Func) (pos : Nat) (vert : List Str) (fanout : List Nat) : Str :=
  let vs := if o.v > 0 then ((vert.take o.v).map fun x => Gen.G_DEFAULT_MARKOV_VERTICALSEP ++ x).flatten else []
  -- horizontal: func[pos+1], func[pos], ... at most h of them, stopping at func[1]
  let idxs := (List.range (min o.h (pos + 1))).map fun k => pos + 1 - k
  let hs := if o.h > 0 then (idxs.map fun i =>
      Gen.G_DEFAULT_MARKOV_HORIZONTALSEP ++ (func[i]?.getD []) ++
        (if o.nofanout then [] else natToStr (fanout[i]?.getD 0))).flatten else []
  Gen.G_DEFAULT_BINLABEL ++ vs ++ hs ++ Gen.G_DEFAULT_BINSUFFIX

/-- next label: unique (deterministic) or Markov -/
def nextLabel (mo : Option MarkovOpts) (st : GenState) (func : Func) (pos : Nat) (vert : List Str)
    (fanout : List Nat) : Str × GenState :=
  match mo with
  | none => (uniqueLabel (st.numb + 1), { numb := st.numb + 1 })
  | some o => (markovLabel o func pos vert fanout, st)

/-- the middle part of the chain: positions 1 .. len(func)-4 -/
def binMid (mo : Option MarkovOpts) (func : Func) (vert : List Str) (fanout : List Nat) (cnt : Nat) :
    (i : Nat) → (steps : Nat) → (binLabel : Str) → (thisLin : Lin) → GenState → Grammar →
    Str × Lin × GenState × Grammar
  | _, 0, bl, tl, st, res => (bl, tl, st, res)
  | i, steps + 1, bl, tl, st, res =>
    let tl' := restLin tl
    let sub := topLin tl'
    let (nl, st') := nextLabel mo st func i vert fanout
    let res' := res.add [bl, func[i + 1]?.getD [], nl] sub .default cnt
    binMid mo func vert fanout cnt (i + 1) steps nl tl' st' res'

/-- `binarize_rule(func, lin, rule_cnt, vert, label_gen, result)` -/
def binarizeRule (mo : Option MarkovOpts) (func : Func) (lin : Lin) (cnt : Nat) (vert : List Str)
    (st : GenState) (res : Grammar) : GenState × Grammar :=
  if func.length ≤ 3 then (st, res.add func lin .default cnt)
  else
    let fanout := fanOut lin
    let sub := topLin lin
    let (bl, st1) := nextLabel mo st func 0 vert fanout
    let res1 := res.add [func[0]?.getD [], func[1]?.getD [], bl] sub .default cnt
    let (bl2, tl2, st2, res2) := binMid mo func vert fanout cnt 1 (func.length - 4) bl lin st1 res1
    let last := restLin tl2
    (st2, res2.add [bl2, func[func.length - 2]?.getD [], func[func.length - 1]?.getD []] last .default cnt)

/-! ### reordering -/

def linVars (l : Lin) : Nat := (l.map List.length).sum

/-- the greedy choice of one position among `pos` -/
def pickWinner (lin : Lin) : List Nat → (fmin : Nat) → (winner : Nat) → Nat
  | [], _, w => w
  | p :: ps, fmin, w =>
    let tl := linsub lin (fun x => x == (p : Int) - 1) (fun _ => .split) false
    if tl.length < fmin then pickWinner lin ps tl.length p
    else pickWinner lin ps fmin w   -- the tie-break branch of the code never changes the winner

def pickOrder (lin : Lin) : List Nat → Nat → List Nat
  | _, 0 => []
  | pos, fuel + 1 =>
    match pos with
    | [] => []
    | p0 :: _ =>
      let w := pickWinner lin pos 100000 p0
      w :: pickOrder lin (pos.filter (· != w)) fuel

/-- `reordering_optimal(func, lin)` -/
def reorderingOptimal (func : Func) (lin : Lin) : Func × Lin :=
  let k := func.length - 1
  let order := pickOrder lin ((List.range k).map (· + 1)) k
  let newfunc := (func[0]?.getD []) :: order.map fun o => func[o]?.getD []
  let varmap := fun (x : Int) => ((order.idxOf? (x + 1).toNat).getD 0 : Nat)
  (newfunc, lin.map fun arg => arg.map fun (x, j) => ((varmap x : Int), j))

/-! ### driver -/

inductive Reordering | none | leftright | optimal
deriving DecidableEq

def reorder (r : Reordering) (func : Func) (lin : Lin) : Func × Lin :=
  match r with
  | .optimal => reorderingOptimal func lin
  | _ => (func, lin)

def vertOf (o : MarkovOpts) : VertKey → List Str
  | .ctx l => if o.nofanout then l.map labelStripFanout else l
  | .default => []

/-- `binarize(grammar, reordering=..., markov_opts=...)` -/
def binarizeGrammar (r : Reordering) (mo : Option MarkovOpts) (g : Grammar) : Grammar :=
  match mo with
  | some o =>
    (g.entries.foldl (fun (acc : GenState × Grammar) (e : Func × Lin × VertKey × Nat) =>
        let (f, l, v, c) := e
        let (f', l') := reorder r f l
        binarizeRule mo f' l' c (vertOf o v) acc.1 acc.2) ({}, [])).2
  | none =>
    (g.rules.foldl (fun (acc : GenState × Grammar) (e : Func × Lin × Nat) =>
        let (f, l, c) := e
        let (f', l') := reorder r f l
        binarizeRule none f' l' c [] acc.1 acc.2) ({}, [])).2

end TT
