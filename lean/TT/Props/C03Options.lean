/-
  C03 (option parsing): `options_dict` gives every option the value the command line states; a later
  occurrence of a key wins.  (lookup theorems: see tools/agent_briefs/W3-SMALL.md)
-/
import TT.Options
import TT.Lemmas.GramOut
namespace TT.Props.C03Options
open TT

/-- a bare key is a flag -/
theorem parseOption_flag (k : Str) (hk : k.contains ':' = false) : parseOption k = (k, .flag) := by
  unfold parseOption
  split
  · rename_i h; rw [hk] at h; cases h
  · rfl

example : optionsDict ["quiet".toList, "gf_separator:#".toList, "brackets_firstid:12".toList, "gf_separator:=".toList]
    = [("quiet".toList, .flag), ("gf_separator".toList, .str ['=']), ("brackets_firstid".toList, .int 12)] := by decide

/-! ### helpers: the overwrite map, `find?`, keys -/

/-- the overwrite used by `dictSet` when the key is present -/
private def ow (k : Str) (v : OptVal) : Str × OptVal → Str × OptVal :=
  fun (a, b) => if a == k then (a, v) else (a, b)

private theorem ow_fst (k : Str) (v : OptVal) (p : Str × OptVal) : (ow k v p).1 = p.1 := by
  obtain ⟨a, b⟩ := p
  simp only [ow]; split <;> rfl

private theorem dictSet_eq (d : List (Str × OptVal)) (k : Str) (v : OptVal) :
    dictSet d k v = if d.any (·.1 == k) then d.map (ow k v) else d ++ [(k, v)] := rfl

private theorem lookup_map_self (k : Str) (v : OptVal) :
    ∀ d : List (Str × OptVal), d.any (·.1 == k) = true → optLookup (d.map (ow k v)) k = some v
  | [], h => by simp at h
  | (a, b) :: r, h => by
    by_cases e : a = k
    · subst e; simp [optLookup, ow]
    · have hr : r.any (·.1 == k) = true := by simpa [e] using h
      have ih := lookup_map_self k v r hr
      simp only [optLookup] at ih
      simp only [optLookup, List.map_cons, ow, beq_iff_eq, e, if_false]
      rw [List.find?_cons_of_neg (by simpa using e)]
      exact ih

private theorem lookup_map_other (k k' : Str) (v : OptVal) (h : k' ≠ k) :
    ∀ d : List (Str × OptVal), optLookup (d.map (ow k v)) k' = optLookup d k'
  | [] => rfl
  | (a, b) :: r => by
    have ih := lookup_map_other k k' v h r
    simp only [optLookup] at ih
    by_cases e : a = k'
    · subst e
      by_cases e2 : a = k
      · exact absurd e2 h
      · simp [optLookup, ow, e2]
    · have e' : ((a, b).1 == k') = false := by simpa using e
      have e'' : ((ow k v (a, b)).1 == k') = false := by rw [ow_fst]; exact e'
      simp only [optLookup, List.map_cons]
      rw [List.find?_cons_of_neg (by simpa using e''), List.find?_cons_of_neg (by simpa using e')]
      exact ih

private theorem find_none_of_any_false (k : Str) (d : List (Str × OptVal)) (h : ¬ d.any (·.1 == k) = true) :
    d.find? (·.1 == k) = none := by
  rw [List.find?_eq_none]
  intro x hx hk
  exact h (List.any_eq_true.mpr ⟨x, hx, hk⟩)

/-! ### `dictSet` and `optLookup` -/

theorem dictSet_lookup_self (d : List (Str × OptVal)) (k : Str) (v : OptVal) : optLookup (dictSet d k v) k = some v := by
  rw [dictSet_eq]
  split
  · rename_i h; exact lookup_map_self k v d h
  · rename_i h
    simp [optLookup, List.find?_append, find_none_of_any_false k d h]

example : optLookup (dictSet [("a".toList, .flag), ("b".toList, .int 3)] "b".toList (.str ['x'])) "b".toList
    = some (.str ['x']) := by decide

theorem dictSet_lookup_other (d : List (Str × OptVal)) (k k' : Str) (v : OptVal) (h : k' ≠ k) :
    optLookup (dictSet d k v) k' = optLookup d k' := by
  rw [dictSet_eq]
  split
  · exact lookup_map_other k k' v h d
  · have hk : (k == k') = false := by simpa using fun e => h e.symm
    simp only [optLookup, List.find?_append]
    cases hd : d.find? (·.1 == k') with
    | some x => simp
    | none => simp [hk]

example : optLookup (dictSet [("a".toList, .flag), ("b".toList, .int 3)] "b".toList (.str ['x'])) "a".toList
    = optLookup [("a".toList, .flag), ("b".toList, .int 3)] "a".toList := by decide

/-! ### `optionsDict` -/

private theorem snoc_ind {α : Type} {P : List α → Prop} (nil : P []) (snoc : ∀ l a, P l → P (l ++ [a])) :
    ∀ l, P l := by
  intro l
  rw [← List.reverse_reverse l]
  induction l.reverse with
  | nil => exact nil
  | cons a r ih => rw [List.reverse_cons]; exact snoc _ _ ih

theorem optionsDict_snoc (opts : List Str) (o : Str) :
    optionsDict (opts ++ [o]) = dictSet (optionsDict opts) (parseOption o).1 (parseOption o).2 := by
  simp [optionsDict, List.foldl_append]

/-- the last option with a given key decides its value -/
theorem optionsDict_last (opts : List Str) (o : Str) :
    optLookup (optionsDict (opts ++ [o])) (parseOption o).1 = some (parseOption o).2 := by
  rw [optionsDict_snoc]; exact dictSet_lookup_self _ _ _

example : optLookup (optionsDict (["gf_separator:#".toList, "quiet".toList] ++ ["gf_separator:=".toList]))
    "gf_separator".toList = some (.str ['=']) := by decide

/-- an option whose key differs from every later key keeps its value -/
theorem optionsDict_lookup (pre post : List Str) (o : Str) (h : ∀ p ∈ post, (parseOption p).1 ≠ (parseOption o).1) :
    optLookup (optionsDict (pre ++ [o] ++ post)) (parseOption o).1 = some (parseOption o).2 := by
  induction post using snoc_ind with
  | nil => simpa using optionsDict_last pre o
  | snoc post p ih =>
    rw [← List.append_assoc, optionsDict_snoc,
      dictSet_lookup_other _ _ _ _ (fun e => h p (by simp) e.symm)]
    exact ih (fun q hq => h q (by simp [hq]))

example : optLookup (optionsDict (["quiet".toList] ++ ["brackets_firstid:12".toList] ++ ["gf_separator:=".toList, "quiet".toList]))
    "brackets_firstid".toList = some (.int 12) := by decide

private theorem dictSet_keys_nodup (d : List (Str × OptVal)) (k : Str) (v : OptVal)
    (hd : (d.map (·.1)).Nodup) : ((dictSet d k v).map (·.1)).Nodup := by
  rw [dictSet_eq]
  split
  · have : (d.map (ow k v)).map (·.1) = d.map (·.1) := by
      rw [List.map_map]; exact List.map_congr_left (fun p _ => ow_fst k v p)
    rw [this]; exact hd
  · rename_i hn
    rw [List.map_append, List.nodup_append]
    refine ⟨hd, by simp, ?_⟩
    intro a ha b hb
    simp only [List.map_cons, List.map_nil, List.mem_singleton] at hb
    subst hb
    rintro rfl
    obtain ⟨x, hx, rfl⟩ := List.mem_map.mp ha
    exact hn (List.any_eq_true.mpr ⟨x, hx, by simp⟩)

/-- keys of the result are exactly the keys given, each once -/
theorem optionsDict_keys_nodup (opts : List Str) : ((optionsDict opts).map (·.1)).Nodup := by
  induction opts using snoc_ind with
  | nil => simp [optionsDict]
  | snoc opts o ih => rw [optionsDict_snoc]; exact dictSet_keys_nodup _ _ _ ih

example : ((optionsDict ["quiet".toList, "gf_separator:#".toList, "quiet".toList, "gf_separator:=".toList]).map (·.1))
    = ["quiet".toList, "gf_separator".toList] := by decide

/-- the other half of the doc comment: the keys of the result are exactly the keys given -/
theorem optionsDict_mem_keys (opts : List Str) (k : Str) :
    k ∈ (optionsDict opts).map (·.1) ↔ ∃ o ∈ opts, (parseOption o).1 = k := by
  induction opts using snoc_ind with
  | nil => simp [optionsDict]
  | snoc opts o ih =>
    rw [optionsDict_snoc, dictSet_eq]
    split
    · rename_i hany
      have : ((optionsDict opts).map (ow (parseOption o).1 (parseOption o).2)).map (·.1)
          = (optionsDict opts).map (·.1) := by
        rw [List.map_map]; exact List.map_congr_left (fun p _ => ow_fst _ _ p)
      rw [this, ih]
      constructor
      · rintro ⟨q, hq, e⟩; exact ⟨q, by simp [hq], e⟩
      · rintro ⟨q, hq, e⟩
        rcases List.mem_append.mp hq with hq | hq
        · exact ⟨q, hq, e⟩
        · simp only [List.mem_singleton] at hq
          subst hq
          obtain ⟨x, hx, hxk⟩ := List.any_eq_true.mp hany
          have : (parseOption q).1 ∈ (optionsDict opts).map (·.1) :=
            List.mem_map.mpr ⟨x, hx, by simpa using hxk⟩
          rw [e] at this
          exact ih.mp this
    · rw [List.map_append, List.mem_append, ih]
      constructor
      · rintro (⟨q, hq, e⟩ | hk)
        · exact ⟨q, by simp [hq], e⟩
        · simp only [List.map_cons, List.map_nil, List.mem_singleton] at hk
          exact ⟨o, by simp, hk.symm⟩
      · rintro ⟨q, hq, e⟩
        rcases List.mem_append.mp hq with hq | hq
        · exact Or.inl ⟨q, hq, e⟩
        · simp only [List.mem_singleton] at hq
          subst hq
          exact Or.inr (by simp [e])

/-! ### `key:digits` -/

/-- `key:digits` is read as an integer, `key:text` as a string (key and value without ':' and surrounding whitespace) -/
theorem parseOption_int (k : Str) (n : Nat) (hk : ':' ∉ k) (hk2 : stripWs (k ++ [':'] ++ natToStr n) = k ++ [':'] ++ natToStr n) :
    parseOption (k ++ [':'] ++ natToStr n) = (k, .int n) := by
  have hc : (k ++ [':'] ++ natToStr n).contains ':' = true := by simp
  have hs : splitOnChar ':' (k ++ [':'] ++ natToStr n) = [k, natToStr n] := by
    have := TT.Lemmas.GramOut.splitOnChar_one ':' k (natToStr n) hk
      (TT.Lemmas.GramOut.natToStr_not_mem ':' (by decide) n)
    simpa using this
  unfold parseOption
  rw [if_pos hc, hk2, hs]
  simp only [TT.Lemmas.GramOut.strToNat_natToStr]

example : parseOption ("brackets_firstid".toList ++ [':'] ++ natToStr 12) = ("brackets_firstid".toList, .int 12) :=
  parseOption_int _ 12 (by decide) (by decide)

/-- the companion: `key:text` with a non-numeric text is read as a string -/
theorem parseOption_str (k v : Str) (hk : ':' ∉ k) (hv : ':' ∉ v) (hd : pyIsDigit v = false)
    (hk2 : stripWs (k ++ [':'] ++ v) = k ++ [':'] ++ v) :
    parseOption (k ++ [':'] ++ v) = (k, .str v) := by
  have hc : (k ++ [':'] ++ v).contains ':' = true := by simp
  have hs : splitOnChar ':' (k ++ [':'] ++ v) = [k, v] := by
    simpa using TT.Lemmas.GramOut.splitOnChar_one ':' k v hk hv
  have hn : strToNat? v = none := by simp [strToNat?, hd]
  unfold parseOption
  rw [if_pos hc, hk2, hs]
  simp only [hn]

example : parseOption ("gf_separator".toList ++ [':'] ++ ['=']) = ("gf_separator".toList, .str ['=']) :=
  parseOption_str _ _ (by decide) (by decide) (by decide) (by decide)

end TT.Props.C03Options
