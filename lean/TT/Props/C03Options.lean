/-
  C03 (option parsing): `options_dict` gives every option the value the command line states; a later
  occurrence of a key wins.  (lookup theorems: see tools/agent_briefs/W3-SMALL.md)
-/
import TT.Options
namespace TT.Props.C03Options
open TT

/-- a bare key is a flag -/
theorem parseOption_flag (k : Str) (hk : k.contains ':' = false) : parseOption k = (k, .flag) := by
  unfold parseOption
  split
  · rename_i h; rw [hk] at h; cases h
  · rfl

example : optionsDict ["quiet".toList, "gf_separator:#".toList, "brackets_firstid:12".toList, "gf_separator:=".toList]
    = [("quiet".toList, .flag), ("gf_separator".toList, .str ['=']), ("brackets_firstid".toList, .int 12)] := by decide

end TT.Props.C03Options
