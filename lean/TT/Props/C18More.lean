/-
  C18 (more) — the bracket reader is sentence local: cutting the input after complete groups.
  Helper lemmas (fuel-free final state `brFinal`, state invariants, lexer cut) live in TT/Lemmas/More4.lean.
-/
import TT.IO.Read
import TT.Lemmas.Read
import TT.Lemmas.More4
namespace TT.Props.C18More
open TT TT.Lemmas.Read TT.Lemmas.More4

/-- what a successful run over `a` from a between-sentences state says about the state reached -/
theorem run_ok_final (o : InOpts) (a : List (Str × LexClass)) (st : BrState) (ra : List (Nat × Tree))
    (ha : brRun o st a = .ok ra) (hst : st.state = 0 ∧ st.level = 0) :
    ∃ s, brFinal o st a = .ok s ∧ s.state = 0 ∧ s.level = 0 ∧ s.out = ra.reverse ∧
      s.cnt = st.cnt + (ra.length - st.out.length) ∧
      (st.queue = [] ∧ st.termCnt = 1 → s.queue = [] ∧ s.termCnt = 1) := by
  rw [brRun_eq_final] at ha
  cases hf : brFinal o st a with
  | error e => rw [hf] at ha; cases ha
  | ok s =>
    rw [hf] at ha
    simp only [brEnd] at ha
    split at ha
    · cases ha
    · rename_i hl
      injection ha with ha
      have hl0 : s.level = 0 := by simpa using hl
      have hi : Inv0 s := brFinal_inv0 o a st s (by unfold Inv0; simp [hst.1, hst.2]) hf
      have hs0 : s.state = 0 := hi.2 hl0
      have hc := brFinal_cnt o a st s hf
      have hlen : ra.length = s.out.length := by rw [← ha]; simp
      refine ⟨s, rfl, hs0, hl0, by rw [← ha]; simp, by omega, ?_⟩
      intro hq
      exact brFinal_inv2 o a st s (fun _ => hq) hf hs0

/-- the bracket reader is sentence local: after complete groups it is back in its initial state except for the sentence counter
    (statement as given, except that the bound state needs its type written: `∃ st' : BrState`) -/
theorem brLoop_append (o : InOpts) (a b : List (Str × LexClass)) (st : BrState) (ra : List (Nat × Tree)) (fa fb : Nat)
    (hd : o.disco = false)
    (ha : brLoop o fa st a = .ok ra) (hst : st.state = 0 ∧ st.level = 0) (hfa : a.length < fa) (hfb : (a ++ b).length < fb) :
    ∃ st' : BrState, st'.state = 0 ∧ st'.level = 0 ∧ st'.cnt = st.cnt + (ra.length - st.out.length) ∧
      brLoop o fb st (a ++ b) = brLoop o fb { st' with out := ra.reverse } b := by
  rw [brLoop_eq_brRun o hd fa st a hfa] at ha
  obtain ⟨s, hf, hs0, hl0, hout, hcnt, _⟩ := run_ok_final o a st ra ha hst
  refine ⟨s, hs0, hl0, hcnt, ?_⟩
  have hb : b.length < fb := by simp at hfb; omega
  rw [brLoop_eq_brRun o hd fb st (a ++ b) hfb, brLoop_eq_brRun o hd fb _ b hb, brRun_append, hf, ← hout]

/-- the same without fuel, and with the state reached written out: when the run starts in the reader's fresh state
    (empty queue, token counter 1) the state after `a` is the fresh state with the counter advanced -/
theorem brRun_append_fresh (o : InOpts) (a b : List (Str × LexClass)) (cnt0 : Nat) (out0 ra : List (Nat × Tree))
    (ha : brRun o ⟨0, 0, [], 1, cnt0, out0⟩ a = .ok ra) :
    brRun o ⟨0, 0, [], 1, cnt0, out0⟩ (a ++ b) = brRun o ⟨0, 0, [], 1, cnt0 + (ra.length - out0.length), ra.reverse⟩ b := by
  obtain ⟨s, hf, hs0, hl0, hout, hcnt, hq⟩ := run_ok_final o a _ ra ha ⟨rfl, rfl⟩
  obtain ⟨hq1, hq2⟩ := hq ⟨rfl, rfl⟩
  rw [brRun_append, hf]
  obtain ⟨state, level, queue, termCnt, cnt, out⟩ := s
  simp only at hs0 hl0 hout hcnt hq1 hq2
  subst hs0 hl0 hout hcnt hq1 hq2
  rfl

/-- the tokens of both examples: `(A a)` and `(B (C c))` with a newline between -/
example : ∃ ra, brLoop {} 7 {} (bracketLex "(A a)\n".toList) = .ok ra ∧ ra.length = 1 ∧
    (bracketLex "(A a)\n".toList).length < 7 := ⟨_, rfl, rfl, by decide⟩

/-- COROLLARY for texts: if the text `a` alone is read successfully (so it ends between sentences — e.g. with a
    newline after a complete group), then reading `a ++ b` gives the trees of `a` followed by the trees of `b` read
    on its own with the sentence counter continued; errors of `b` are the errors of `a ++ b`.  Whatever the lexer
    still buffers at the cut (an unterminated word or whitespace run at the end of `a`) does not matter. -/
theorem readBrackets_append (o : InOpts) (hd : o.disco = false) (a b : Str) (ra : List (Nat × Tree))
    (ha : readBrackets o a = .ok ra) :
    readBrackets o (a ++ b) =
      match readBrackets { o with firstId := some (o.firstId.getD 1 + ra.length) } b with
      | .error e => .error e
      | .ok rb => .ok (ra ++ rb) := by
  have hrd : ∀ (o' : InOpts), o'.disco = false → ∀ x : Str,
      readBrackets o' x = brRun o' ⟨0, 0, [], 1, o'.firstId.getD 1, []⟩ (bracketLex x) := by
    intro o' hd' x
    unfold readBrackets
    exact brLoop_eq_brRun o' hd' _ _ _ (by omega)
  rw [hrd o hd] at ha
  obtain ⟨s, hf, hs0, hl0, hout, hcnt, hq⟩ := run_ok_final o _ _ ra ha ⟨rfl, rfl⟩
  obtain ⟨hq1, hq2⟩ := hq ⟨rfl, rfl⟩
  rw [hrd o hd, brRun_lex_append, hf]
  simp only [hs0, if_true]
  rw [hrd { o with firstId := some (o.firstId.getD 1 + ra.length) } hd,
    brRun_firstId o (some (o.firstId.getD 1 + ra.length))]
  have hp := brRun_out_prefix o ra.reverse (bracketLex b) ⟨0, 0, [], 1, o.firstId.getD 1 + ra.length, []⟩
  simp only [List.nil_append, List.reverse_reverse] at hp
  obtain ⟨state, level, queue, termCnt, cnt, out⟩ := s
  simp only [List.length_nil, Nat.sub_zero] at hs0 hl0 hout hcnt hq1 hq2
  subst hs0 hl0 hout hcnt hq1 hq2
  exact hp

/-- the case named in the brief: `a` ends with a newline after a complete group -/
example : ∃ ra, readBrackets {} "(A a)\n".toList = .ok ra ∧ ra.length = 1 ∧
    (readBrackets {} ("(A a)\n".toList ++ "(B (C c))\n".toList)).map (·.map (·.1)) = .ok [1, 2] ∧
    (readBrackets { firstId := some 2 } "(B (C c))\n".toList).map (·.map (·.1)) = .ok [2] :=
  ⟨_, rfl, rfl, rfl, rfl⟩

/-- the cut may even fall inside junk between the groups: `x` and `y` are glued to one junk word `xy` -/
example : ∃ ra, readBrackets {} "(A a) x".toList = .ok ra ∧ ra.length = 1 ∧
    (readBrackets {} ("(A a) x".toList ++ "y (B (C c))".toList)).map (·.map (·.1)) = .ok [1, 2] :=
  ⟨_, rfl, rfl, rfl⟩

/-- the hypothesis is needed: cut inside a group, `a` alone is rejected while `a ++ b` is fine -/
example : readBrackets {} "(A".toList = .error .valueError ∧
    (readBrackets {} ("(A".toList ++ " a)".toList)).map (·.map (·.1)) = .ok [1] := ⟨rfl, rfl⟩

/-- extra: reading is a homomorphism on successful pieces — both succeed, results concatenate, ids continue -/
theorem readBrackets_append_ok (o : InOpts) (hd : o.disco = false) (a b : Str) (ra rb : List (Nat × Tree))
    (ha : readBrackets o a = .ok ra)
    (hb : readBrackets { o with firstId := some (o.firstId.getD 1 + ra.length) } b = .ok rb) :
    readBrackets o (a ++ b) = .ok (ra ++ rb) := by
  rw [readBrackets_append o hd a b ra ha, hb]

end TT.Props.C18More
