/-
  The punctuation-only exception of C13 stated on TOKENS (`parentAllPunctT`, `verylowPostT` of TT/Spec/Pinned.lean) and its
  bridge to the reading of the implementation, which looks at the `word` entry of every child, tokens and constituents
  alike (`parentAllPunctP`, `verylowPostP`): the two coincide on trees in which no constituent carries a punctuation mark as
  its `word` entry (`consWordsClean`), and the transformations keep that condition.
  Helper lemmas: TT/Lemmas/More9.lean.
-/
import TT.Spec.Pinned
import TT.Props.Pinned
import TT.Lemmas.More9
namespace TT.Props.PinnedMore
open TT TT.Tree TT.Spec
open TT.Lemmas.More9

/-- example: `(S (NP (A 1) (, 2)) (VP (B 3) (" 4) (C 5)) (. 6))`, no constituent has a `word` entry -/
abbrev exT : Tree := TT.Props.C13.exT

/-- an UNCLEAN tree: the constituent `Y` carries `.` as its `word` entry;
    `(S (NP (A 1)) (X (, 2) (Y[word=.] (B 3))) (. 4))` -/
def exU : Tree :=
  node { label := "S".toList } [
    node { label := "NP".toList } [leaf 1 { label := "A".toList, word := some "a".toList }],
    node { label := "X".toList } [
      leaf 2 { label := ",".toList, word := some ",".toList },
      node { label := "Y".toList, word := some ".".toList } [leaf 3 { label := "B".toList, word := some "b".toList }]],
    leaf 4 { label := ".".toList, word := some ".".toList }]

/-- what `punctuation_verylow` makes of `exU`: `(S (NP (A 1)) (X (, 2) (Y[word=.] (B 3) (. 4))))` - token 4 is moved beside token 3,
    token 2 stays where it is because all children of `X` have a punctuation mark as `word` entry -/
def exU' : Tree :=
  node { label := "S".toList } [
    node { label := "NP".toList } [leaf 1 { label := "A".toList, word := some "a".toList }],
    node { label := "X".toList } [
      leaf 2 { label := ",".toList, word := some ",".toList },
      node { label := "Y".toList, word := some ".".toList } [
        leaf 3 { label := "B".toList, word := some "b".toList },
        leaf 4 { label := ".".toList, word := some ".".toList }]]]

theorem move_exU : moveLeafBeside exU 4 3 = exU' := by
  simp [moveLeafBeside, findLeaf, leaves, leavesL, removeLeaf, removeLeafL, appendBeside, appendBesideL, exU, exU', num, isLeaf]

theorem verylow_exU : punctuationVerylow exU = exU' := by
  have hc : ((exU.terminals.drop 1).filter isPunctWord).map num = [2, 4] := by decide
  have h1 : parentAllPunct exU 2 = true := by decide
  have h2 : parentAllPunct exU 4 = false := by decide
  have h3 : sameParent exU 4 3 = false := by decide
  simp only [punctuationVerylow, hc, List.foldl, verylowStep, h1, h2, h3, if_true, Bool.false_eq_true, if_false]
  exact move_exU

/-- on a tree whose constituents carry no punctuation `word`, a child is a punctuation token iff its `word` is a punctuation mark -/
theorem parentAllPunctT_eq_of_clean (t : Tree) (h : consWordsClean t = true) (i : Nat) : parentAllPunctT t i = parentAllPunctP t i := by
  unfold parentAllPunctT parentAllPunctP
  cases hp : parentOfLeaf i t with
  | none => rfl
  | some p =>
    simp only
    rw [Bool.eq_iff_iff]
    simp only [List.all_eq_true]
    refine forall₂_congr fun k hk => ?_
    rw [clean_kid t h k (parentOfLeaf_kid_mem_subtrees i t p k hp hk)]

example : consWordsClean exT = true ∧ parentAllPunctT exT 2 = false ∧ parentAllPunctP exT 2 = false := by decide
/-- the hypothesis is needed: in `exU` the parent of token 2 has the children `,` and `Y[word=.]` -/
example : WF exU = true ∧ consWordsClean exU = false ∧ parentAllPunctT exU 2 = false ∧ parentAllPunctP exU 2 = true := by decide

theorem verylowPostT_eq_of_clean (t : Tree) (h : consWordsClean t = true) : verylowPostT t = verylowPostP t := by
  unfold verylowPostT verylowPostP
  simp only [parentAllPunctT_eq_of_clean t h]

example : consWordsClean exT = true ∧ verylowPostT exT = false ∧ verylowPostP exT = false := by decide

/-- the transformation does not touch any `word` entry -/
theorem consWordsClean_verylow (t : Tree) (hwf : WF t = true) (h : consWordsClean t = true) : consWordsClean (punctuationVerylow t) = true := by
  have _ := hwf  -- not needed: see `consWordsClean_verylow_eq`
  rw [verylow_clean]; exact h

/-- stronger: on EVERY tree (well-formed or not) the condition is neither gained nor lost -/
theorem consWordsClean_verylow_eq (t : Tree) : consWordsClean (punctuationVerylow t) = consWordsClean t := verylow_clean t

theorem consWordsClean_root_eq (t : Tree) : consWordsClean (punctuationRoot t) = consWordsClean t := root_clean t

theorem consWordsClean_symetrify_eq (relc : Option Str) (t : Tree) : consWordsClean (punctuationSymetrify relc t) = consWordsClean t :=
  sym_clean relc t

example : WF exT = true ∧ consWordsClean exT = true := by decide
example : consWordsClean (punctuationVerylow exT) = true := consWordsClean_verylow exT (by decide) (by decide)
example : consWordsClean exU = false ∧ consWordsClean (punctuationVerylow exU) = false := by rw [verylow_exU]; decide

/-- C13, first clause, on tokens: after punctuation_verylow every non-initial punctuation token is a sister of its left neighbour token unless
    it sits in a constituent consisting only of punctuation TOKENS -/
theorem verylow_post_tokens (t : Tree) (hwf : WF t = true) (h : consWordsClean t = true) : verylowPostT (punctuationVerylow t) = true := by
  rw [verylowPostT_eq_of_clean _ (consWordsClean_verylow t hwf h)]
  exact TT.Props.Pinned.verylow_post_pinned t hwf

example : WF exT = true ∧ consWordsClean exT = true ∧ verylowPostT exT = false := by decide
example : verylowPostT (punctuationVerylow exT) = true := verylow_post_tokens exT (by decide) (by decide)
/-- the hypothesis `consWordsClean` is needed: on the well-formed `exU` the implementation leaves token 2 beside `Y[word=.]`,
    which satisfies the word-entry reading and not the token reading -/
example : WF exU = true ∧ verylowPostP (punctuationVerylow exU) = true ∧ verylowPostT (punctuationVerylow exU) = false := by
  rw [verylow_exU]; decide

theorem parentAllPunctT_imp (t : Tree) (i : Nat) (h : parentAllPunctT t i = true) : parentAllPunctP t i = true := by
  unfold parentAllPunctT at h
  unfold parentAllPunctP
  cases hp : parentOfLeaf i t with
  | none => rw [hp] at h; exact h
  | some p =>
    rw [hp] at h
    simp only [List.all_eq_true, Bool.and_eq_true] at h ⊢
    exact fun k hk => (h k hk).2

/-- the token reading is the stronger one: it implies the word-entry reading on every tree -/
theorem verylowPostT_imp (t : Tree) (h : verylowPostT t = true) : verylowPostP t = true := by
  unfold verylowPostT at h
  unfold verylowPostP
  simp only [List.all_eq_true] at h ⊢
  intro l hl
  have := h l hl
  split
  · rename_i hp
    rw [if_pos hp] at this
    simp only [Bool.or_eq_true] at this ⊢
    rcases this with h1 | h1
    · exact Or.inl h1
    · exact Or.inr (parentAllPunctT_imp t l.num h1)
  · rfl

example : verylowPostP (punctuationVerylow exT) = true :=
  verylowPostT_imp _ (verylow_post_tokens exT (by decide) (by decide))
/-- the converse fails (on an unclean tree) -/
example : verylowPostP exU' = true ∧ verylowPostT exU' = false := by decide

/-- trees whose constituents have no `word` entry at all (API-built, bracket reader) are clean -/
theorem consWordsClean_of_noWord (t : Tree) (h : ∀ s ∈ t.subtrees, s.isLeaf = false → s.fields.word = none) : consWordsClean t = true := by
  rw [clean_iff]
  intro s hs hl
  simp [isPunctWordP, h s hs hl]

example : ∀ s ∈ exT.subtrees, s.isLeaf = false → s.fields.word = none := by decide

/-- hence C13 on tokens for every well-formed tree whose constituents have no `word` entry -/
theorem verylow_post_tokens_of_noWord (t : Tree) (hwf : WF t = true)
    (h : ∀ s ∈ t.subtrees, s.isLeaf = false → s.fields.word = none) : verylowPostT (punctuationVerylow t) = true :=
  verylow_post_tokens t hwf (consWordsClean_of_noWord t h)

/-- readers that put a `#5xx` number there are covered as well: a `word` entry that is not a punctuation mark is harmless -/
theorem consWordsClean_of_nonPunct (t : Tree)
    (h : ∀ s ∈ t.subtrees, s.isLeaf = false → ∀ w, s.fields.word = some w → PINNED_PUNCT.contains w = false) : consWordsClean t = true := by
  rw [clean_iff]
  intro s hs hl
  unfold isPunctWordP
  cases hw : s.fields.word with
  | none => rfl
  | some w => exact h s hs hl w hw

end TT.Props.PinnedMore
