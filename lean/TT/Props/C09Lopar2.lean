/-
  C09, wave 17 (w17b): the rank bound 24 of `C09Lopar.binarizeGrammar_cf_optimal` (and of the two theorems that rest on it)
  is removed: binarizing a grammar of identity linearizations with the OPTIMAL reordering keeps it context-free, for
  right-hand sides of every length.  The greedy order of `reorderingOptimal` on `idLin n` is `1, n, 2, …, n-1`
  (`More17b.pickOrder_idLin`), the reordered linearization is the one argument `0 2 3 … n-1 1` (`More17b.optLin_shape`), and
  element 0 of every rest of it stands at an end (`More17b.optPos_peel`).  Helpers: `TT/Lemmas/More17b.lean`.
-/
import TT.Props.C09Lopar
import TT.Lemmas.More17b
namespace TT.Props.C09Lopar2
open TT TT.Tree TT.Spec TT.Lemmas.GramOut TT.Lemmas.Unbin TT.Lemmas.More12c TT.Props.C09Rcg TT.Props.C09Full
open TT.Props.C09Treebank TT.Props.C09Lopar
open TT.Props.C18Local (exTa exTb)

/-- `C09Lopar.binarizeGrammar_cf_optimal` without the rank bound: the optimal reordering keeps a grammar of identity
    linearizations context-free (it reorders `A1 ... An` to `A1 An A2 ... An-1`; element 0 of every rest stands at an
    end) -/
theorem binarizeGrammar_cf_optimal (mo : Option MarkovOpts) (g : Grammar)
    (hp : AllPairs Proper g) (hid : AllPairs (fun f l => l = idLin (f.length - 1)) g) :
    isContextFree (binarizeGrammar .optimal mo g) = true :=
  TT.Lemmas.More17b.binarizeGrammar_cf_optimal_all mo g hp hid

/-- a rule of rank 26 (beyond the table of wave 16) with the identity linearization -/
def exCf26 : Grammar :=
  [("S".toList :: (List.range 26).map fun i => [Char.ofNat (97 + i)], [(idLin 26, [(VertKey.default, 2)])])]

example : isContextFree (binarizeGrammar .optimal (some ⟨1, 2, false⟩) exCf26) = true :=
  binarizeGrammar_cf_optimal _ _ ((AllPairs_rules Proper _).2 (by decide +kernel))
    ((AllPairs_rules (fun f l => l = idLin (f.length - 1)) _).2 (by decide +kernel))

/-- the greedy order and the reordered linearization, every rank from 3 on -/
theorem reorderingOptimal_idLin (f : Func) (m : Nat) (hf : f.length = m + 4) :
    (reorderingOptimal f (idLin (m + 3))).2 = [(TT.Lemmas.More17b.optPos m).map fun x => (x, 0)] := by
  rw [← TT.Lemmas.More17b.optLin_shape]
  unfold TT.Lemmas.More16b.optLin
  apply TT.Lemmas.More16b.reorderingOptimal_snd_len
  rw [hf, List.length_replicate]

example : (reorderingOptimal ["S".toList, "A".toList, "B".toList, "C".toList, "D".toList, "E".toList] (idLin 5)).2 =
    [[(0, 0), (2, 0), (3, 0), (4, 0), (1, 0)]] := reorderingOptimal_idLin _ 2 rfl

/-- every reordering, every label mode: the binarized grammar of continuous well-formed trees is context-free (no bound on
    the number of children) -/
theorem binarizeGrammar_cf_treebank_all (ts : List Tree) (h : ∀ t ∈ ts, t.noEmpty = true ∧ t.leafNums.Nodup)
    (hc : ∀ t ∈ ts, continuous t = true) (r : Reordering) (mo : Option MarkovOpts) :
    isContextFree (binarizeGrammar r mo (extractAll ts).1) = true := by
  by_cases hr : r = .optimal
  · subst hr
    exact binarizeGrammar_cf_optimal mo _ (extractAll_proper ts h) (extractAll_idLin ts h hc)
  · exact binarizeGrammar_cf_treebank ts h hc r hr mo

/-- LoPar on the quantified domain, binarized grammar, EVERY reordering and label mode, no bound on the number of
    children: the writer accepts and the three files decode -/
theorem lopar_roundtrip_treebank_all (ts : List Tree) (h : TreebankOK ts) (hc : ∀ t ∈ ts, continuous t = true)
    (r : Reordering) (mo : Option MarkovOpts) :
    ∃ files, writeLopar (binarizeGrammar r mo (extractAll ts).1) (extractAll ts).2 = .ok files ∧
      decLoparGram files.gram = some ((binarizeGrammar r mo (extractAll ts).1).rules.map fun (f, _, c) => (f, c)) ∧
      decLex files.lex = some (extractAll ts).2 ∧
      decCountLines files.start =
        some ((((binarizeGrammar r mo (extractAll ts).1).map fun (f, _) => f.head?.getD []).eraseDups.filter fun s =>
          !((binarizeGrammar r mo (extractAll ts).1).flatMap fun (f, _) => f.drop 1).contains s).map fun s =>
            (s, lhsMass (binarizeGrammar r mo (extractAll ts).1) s)) :=
  TT.Props.C09Treebank.lopar_roundtrip_treebank_of_cf ts h r mo
    (binarizeGrammar_cf_treebank_all ts (fun t ht => ⟨(h t ht).1, (h t ht).2.1⟩) hc r mo)

example := lopar_roundtrip_treebank_all [exTa, exFlat, exTb] (by unfold TreebankOK; decide +kernel) (by decide)
  .optimal none

end TT.Props.C09Lopar2
