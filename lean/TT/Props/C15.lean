/-
  C15 — property theorems (being added; see tools/agent_briefs/C15.md)
-/
import TT.Spec.Transform
namespace TT.Props.C15
open TT TT.Tree TT.Spec

end TT.Props.C15
