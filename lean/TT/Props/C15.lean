/-
  C15 — head marking: the NeGra heuristic (`negra_mark_heads`) and rule based marking
  (`mark_heads_by_rules`) put exactly one head below every constituent, follow their documented
  choice, and change nothing but the head flag.
-/
import TT.Spec.Transform
import TT.Spec.HeadRulesPinned
import TT.Lemmas.Sort
import TT.Lemmas.Nav
import TT.Lemmas.WF
import TT.Lemmas.Heads
namespace TT.Props.C15
open TT TT.Tree TT.Spec TT.Lemmas.Heads

/-! ## example trees -/

/-- `(S (A/HD 3) (B/NK 1) (C/HD 2) (D/NK 4))`, children stored out of order: several HD, several NK.
    Ordered children: B/NK(1) C/HD(2) A/HD(3) D/NK(4); the leftmost HD is C. -/
def exHD : Tree :=
  node { label := "S".toList } [
    leaf 3 { label := "A".toList, edge := some "HD".toList },
    leaf 1 { label := "B".toList, edge := some "NK".toList },
    leaf 2 { label := "C".toList, edge := some "HD".toList },
    leaf 4 { label := "D".toList, edge := some "NK".toList }]

/-- several NK, no HD: the rightmost NK (token 3) is the head -/
def exNK : Tree :=
  node { label := "NP".toList } [
    leaf 3 { label := "A".toList, edge := some "NK".toList },
    leaf 1 { label := "B".toList, edge := some "NK".toList },
    leaf 2 { label := "C".toList, edge := some "MO".toList },
    leaf 4 { label := "D".toList, edge := some "MO".toList }]

/-- neither HD nor NK: the leftmost child (token 1) is the head; nested below a root -/
def exNone : Tree :=
  node { label := "VROOT".toList } [
    node { label := "X".toList, edge := some "MO".toList } [
      leaf 2 { label := "A".toList, edge := some "MO".toList },
      leaf 1 { label := "B".toList, edge := some "OA".toList }],
    leaf 3 { label := "C".toList, edge := some "--".toList }]

/-- `NP → ART NN PP`, stored out of order -/
def exNP : Tree :=
  node { label := "NP-SB".toList } [
    node { label := "PP".toList } [leaf 3 { label := "APPR".toList }, leaf 4 { label := "NN".toList }],
    leaf 2 { label := "NN".toList },
    leaf 1 { label := "ART".toList }]

/-- the token numbers of the children marked as head, per constituent in storage preorder -/
def headTokens (t : Tree) : List (List Nat) :=
  t.subtrees.filterMap fun s => match s with
    | node _ ks => some ((ks.filter (fun c => c.fields.head == some true)).map leftmost)
    | leaf _ _ => none

example : WF exHD = true ∧ WF exNK = true ∧ WF exNone = true ∧ WF exNP = true := by decide

/-! ## T1 / T2 NeGra heuristic -/

theorem negra_oneHead (t : Tree) (hne : t.noEmpty = true) (hsd : sibDistinct t = true) :
    oneHeadEach (negraMarkHeads t) = true := by
  have _ := hne
  rw [negraMarkHeads, negraMarkAux_eq]
  exact oneHeadEach_markG negIdx negIdx_lt t hsd

theorem negra_rule (t : Tree) (hne : t.noEmpty = true) (hsd : sibDistinct t = true) :
    negraRuleOK (negraMarkHeads t) = true := by
  have _ := hne; have _ := hsd
  rw [negraMarkHeads, negraMarkAux_eq, negraRuleOK_eq, all_subtrees_setHead _ negraRuleAt_setHead]
  exact all_subtrees_markG negIdx (fun _ => True) negraRuleAt (fun _ _ _ _ _ => trivial)
    negraRuleAt_setHead (fun _ _ => rfl) (fun f ks _ => negraRuleAt_markG f ks) t trivial

theorem negra_WF (t : Tree) (h : WF t = true) :
    oneHeadEach (negraMarkHeads t) = true ∧ negraRuleOK (negraMarkHeads t) = true :=
  ⟨negra_oneHead t (Lemmas.WF.WF_noEmpty t h) (Lemmas.WF.WF_sibDistinct t h),
   negra_rule t (Lemmas.WF.WF_noEmpty t h) (Lemmas.WF.WF_sibDistinct t h)⟩

/-- the rule itself needs no hypothesis at all (it only says that the wanted child is a head) -/
theorem negra_rule_unconditional (t : Tree) : negraRuleOK (negraMarkHeads t) = true := by
  rw [negraMarkHeads, negraMarkAux_eq, negraRuleOK_eq, all_subtrees_setHead _ negraRuleAt_setHead]
  exact all_subtrees_markG negIdx (fun _ => True) negraRuleAt (fun _ _ _ _ _ => trivial)
    negraRuleAt_setHead (fun _ _ => rfl) (fun f ks _ => negraRuleAt_markG f ks) t trivial

/-- exactly one head per constituent only needs distinct leftmost tokens among siblings -/
theorem negra_oneHead_of_sibDistinct (t : Tree) (hsd : sibDistinct t = true) :
    oneHeadEach (negraMarkHeads t) = true := by
  rw [negraMarkHeads, negraMarkAux_eq]
  exact oneHeadEach_markG negIdx negIdx_lt t hsd

example : exHD.noEmpty = true ∧ sibDistinct exHD = true := by decide
example : headTokens (negraMarkHeads exHD) = [[2]] := by decide
example : headTokens (negraMarkHeads exNK) = [[3]] := by decide
example : headTokens (negraMarkHeads exNone) = [[1], [1]] := by decide
example : oneHeadEach (negraMarkHeads exHD) = true ∧ negraRuleOK (negraMarkHeads exHD) = true := by decide
example : oneHeadEach (negraMarkHeads exNK) = true ∧ negraRuleOK (negraMarkHeads exNK) = true := by decide
example : oneHeadEach (negraMarkHeads exNone) = true ∧ negraRuleOK (negraMarkHeads exNone) = true := by
  decide
/-- `sibDistinct` cannot be dropped from `negra_oneHead`: two siblings with the same leftmost token
    (token number 1 used twice) are both marked -/
example : oneHeadEach (negraMarkHeads (node {} [leaf 1 {}, leaf 1 {}])) = false := by decide

/-! ## marking changes nothing but the head flag -/

theorem negra_leaves (t : Tree) : (negraMarkHeads t).leafNums = t.leafNums := by
  rw [negraMarkHeads, negraMarkAux_eq, leafNums_setHead, leafNums_markG]

theorem negra_consLabels (t : Tree) : consLabels (negraMarkHeads t) = consLabels t := by
  rw [negraMarkHeads, negraMarkAux_eq, consLabels_setHead, consLabels_markG]

theorem rules_leaves (rules : HeadRules) (t : Tree) :
    (setHead false (rulesMarkAux rules t)).leafNums = t.leafNums := by
  rw [rulesMarkAux_eq, leafNums_setHead, leafNums_markG]

theorem rules_consLabels (rules : HeadRules) (t : Tree) :
    consLabels (setHead false (rulesMarkAux rules t)) = consLabels t := by
  rw [rulesMarkAux_eq, consLabels_setHead, consLabels_markG]

example : (negraMarkHeads exNone).leafNums = [2, 1, 3] ∧
    consLabels (negraMarkHeads exNone) = ["VROOT".toList, "X".toList] := by decide

/-! ## T3 / T4 rule based, for an arbitrary rule table -/

theorem rules_oneHead (rules : HeadRules) (t : Tree) (hne : t.noEmpty = true) (hsd : sibDistinct t = true) :
    oneHeadEach (setHead false (rulesMarkAux rules t)) = true := by
  have _ := hne
  rw [rulesMarkAux_eq]
  exact oneHeadEach_markG (ruleIdx rules) (ruleIdx_lt rules) t hsd

theorem rules_unique_listed (rules : HeadRules) (t : Tree) (hne : t.noEmpty = true) (hsd : sibDistinct t = true) :
    uniqueListedOK rules (setHead false (rulesMarkAux rules t)) = true := by
  have _ := hne; have _ := hsd
  rw [rulesMarkAux_eq, uniqueListedOK_eq, all_subtrees_setHead _ (uniqueAt_setHead rules)]
  exact all_subtrees_markG (ruleIdx rules) (fun _ => True) (uniqueAt rules) (fun _ _ _ _ _ => trivial)
    (uniqueAt_setHead rules) (fun _ _ => rfl) (fun f ks _ => uniqueAt_markG rules f ks) t trivial

example : exNP.noEmpty = true ∧ sibDistinct exNP = true := by decide
/-- `NP → ART NN PP` with the NeGra preset: NN (token 2) is the head of NP; PP → APPR NN: APPR (token 3) -/
example : headTokens (setHead false (rulesMarkAux Gen.HEAD_RULES_NEGRA exNP)) = [[2], [3]] := by decide
example : oneHeadEach (setHead false (rulesMarkAux Gen.HEAD_RULES_NEGRA exNP)) = true ∧
    uniqueListedOK Gen.HEAD_RULES_NEGRA (setHead false (rulesMarkAux Gen.HEAD_RULES_NEGRA exNP)) = true := by
  decide

/-- the exception built into `uniqueListedOK` (an entry with an empty priority list placed before the entry
    that lists the child) never applies to the two presets: an entry with an empty list is always the only
    entry -/
theorem presets_empty_entry_alone :
    (∀ r ∈ Gen.HEAD_RULES_NEGRA, r.2.any (fun e => e.2.isEmpty) = true → r.2.length = 1) ∧
    (∀ r ∈ Gen.HEAD_RULES_PTB, r.2.any (fun e => e.2.isEmpty) = true → r.2.length = 1) := by
  decide

/-! ## T5 rejection -/

theorem rules_rejects (t : Tree) (rf : Str) :
    markHeadsByRules (some Preset.other) none t = .error .valueError ∧
    markHeadsByRules none none t = .error .valueError ∧
    markHeadsByRules (some Preset.negra) (some rf) t = .error .valueError ∧
    markHeadsByRules (some Preset.ptb) (some rf) t = .error .valueError :=
  ⟨rfl, rfl, rfl, rfl⟩

theorem rules_presets_ok (t : Tree) :
    markHeadsByRules (some Preset.negra) none t = .ok (setHead false (rulesMarkAux Gen.HEAD_RULES_NEGRA t)) ∧
    markHeadsByRules (some Preset.ptb) none t = .ok (setHead false (rulesMarkAux Gen.HEAD_RULES_PTB t)) :=
  ⟨rfl, rfl⟩

example : (match markHeadsByRules (some Preset.negra) none exNP with
    | .ok r => headTokens r | .error _ => []) = [[2], [3]] := by decide

/-- the rule tables in the code are the pinned presets the property speaks about (regenerated table = pinned table) -/
theorem presets_pinned :
    Gen.HEAD_RULES_PTB = PINNED_HEAD_RULES_PTB ∧ Gen.HEAD_RULES_NEGRA = PINNED_HEAD_RULES_NEGRA := by decide +kernel

end TT.Props.C15
