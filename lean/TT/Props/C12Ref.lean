/-
  C12, wave 12 — the right neighbour in set style, the edges and the whole fold, and the set-based reference.

  * `RunEnd` / `Spec.runEnd`: "the token after `c` and after every adjacent, not yet attached root child on its
    right" as a statement about the SET of spans of the root children; `skipRight_spec`, `rightNeighbour_spec`:
    the loop over the ordered right siblings computes it.
  * `attachLowest_target`: the receiving constituent is THE lowest one dominating both neighbours.
  * `rootAttach_processes`: in the fold every root child of the snapshot is found, at its turn, as a root child
    of the current tree (same uid, same first token); `rootAttach_edge_stays`, `rootAttach_meet_at_root_stays`:
    the "stays" clauses for the whole transformation.
  * `rootAttach_eq_ref`: on well-formed trees with distinct uids the parent map of `rootAttach t` is the parent
    map computed by the set-based reference `Spec.rootAttachRef`.
-/
import TT.Lemmas.More12e
namespace TT.Props.C12Ref
open TT TT.Tree TT.Spec TT.Props.C12Land TT.Lemmas.More12e

/-! ### the right neighbour -/

/-- `RunEnd spans e e'`: starting right after token `e`, the run of adjacent blocks ends at token `e'` -
    there is a chain of spans, each starting at the token after the end of the one before (the first right
    after `e`), the last one ends at `e'`, and no span starts right after `e'` -/
inductive RunEnd (spans : List (Nat × Nat)) : Nat → Nat → Prop
  | stop (e : Nat) (h : ∀ s ∈ spans, s.1 ≠ e + 1) : RunEnd spans e e
  | step (e e' : Nat) (s : Nat × Nat) (hs : s ∈ spans) (h1 : s.1 = e + 1) (h : RunEnd spans s.2 e') :
      RunEnd spans e e'

/-- `Spec.runEnd` computes the run end as soon as `n` is at least the number of spans that start after `e` -/
theorem runEnd_sound (spans : List (Nat × Nat)) (hw : ∀ s ∈ spans, s.1 ≤ s.2) : ∀ (n e : Nat),
    (spans.filter (fun s => decide (e < s.1))).length ≤ n → RunEnd spans e (runEnd spans n e)
  | 0, e, hn => by
    refine RunEnd.stop e ?_
    intro s hs h1
    have : s ∈ spans.filter (fun s => decide (e < s.1)) := List.mem_filter.2 ⟨hs, by simp; omega⟩
    have hl := List.length_pos_of_mem this
    omega
  | n + 1, e, hn => by
    simp only [runEnd]
    cases hf : spans.find? (fun s => s.1 == e + 1) with
    | none =>
      refine RunEnd.stop e ?_
      intro s hs h1
      have := List.find?_eq_none.1 hf s hs
      simp [h1] at this
    | some s =>
      have hs := List.mem_of_find?_eq_some hf
      have h1 : s.1 = e + 1 := by simpa using List.find?_some hf
      have h2 := hw s hs
      refine RunEnd.step e _ s hs h1 (runEnd_sound spans hw n s.2 ?_)
      have := length_filter_lt (fun x : Nat × Nat => decide (s.2 < x.1)) (fun x => decide (e < x.1)) spans
        (fun x _ hx => by simp at hx ⊢; omega) s hs (by simp; omega) (by simp; omega)
      omega

/-- with pairwise different first tokens the run end is unique -/
theorem RunEnd.unique {spans : List (Nat × Nat)} (hinj : ∀ a ∈ spans, ∀ b ∈ spans, a.1 = b.1 → a = b) :
    ∀ {e a b : Nat}, RunEnd spans e a → RunEnd spans e b → a = b := by
  intro e a b ha
  induction ha generalizing b with
  | stop e h =>
    intro hb
    cases hb with
    | stop _ _ => rfl
    | step _ _ s hs h1 _ => exact absurd h1 (h s hs)
  | step e e' s hs h1 _ ih =>
    intro hb
    cases hb with
    | stop _ h => exact absurd h1 (h s hs)
    | step _ _ s2 hs2 h12 h2 =>
      have : s = s2 := hinj s hs s2 hs2 (by rw [h1, h12])
      subst this
      exact ih h2

/-- **the skipping loop computes the run end** (statement about any ordered list of root children): on root
    children ordered by first token, with non-empty, pairwise disjoint token sets not containing `fm`,
    `skipRight` returns the token after the run of adjacent children that starts right after `fm` -/
theorem skipRight_spec (l : List Tree) (fm n : Nat) (hne : ∀ s ∈ l, s.leafNums ≠ [])
    (hs : l.Pairwise (fun a b => leftmost a < leftmost b)) (hd : (fm :: l.flatMap leafNums).Nodup)
    (hn : l.length ≤ n) : skipRight fm (fm + 1) l = runEnd (l.map span) n fm + 1 :=
  Lemmas.More12e.skipRight_spec l fm n hne hs hd hn

/-- a run of two: after token 2 come `(3 4)` and `5`, then a gap -/
example : skipRight 2 3 [node {} [leaf 3 {}, leaf 4 {}], leaf 5 {}, leaf 7 {}] = 6 ∧
    runEnd ([node {} [leaf 3 {}, leaf 4 {}], leaf 5 {}, leaf 7 {}].map span) 3 2 + 1 = 6 := by decide
example : (2 :: [node {} [leaf 3 {}, leaf 4 {}], leaf 5 {}, leaf 7 {}].flatMap leafNums).Nodup := by decide
/-- disjointness cannot be dropped: a child that starts AT the end (sharing its token) is run over by the loop -/
example : skipRight 3 4 [node {} [leaf 3 {}, leaf 4 {}]] = 5 ∧
    runEnd ([node {} [leaf 3 {}, leaf 4 {}]].map span) 1 3 + 1 = 4 := by decide
/-- the order cannot be dropped: the loop only looks to the right -/
example : skipRight 2 3 [leaf 4 {}, leaf 3 {}] = 3 ∧ runEnd ([leaf 4 {}, leaf 3 {}].map span) 2 2 + 1 = 5 := by decide

/-- **the right neighbour, set style** (one step of `root_attach`): for the root child `c` found under `key` in a
    tree without childless constituents and with pairwise different token numbers, the right neighbour used by
    the step is the token after the run end - determined by the SET of spans of all root children -/
theorem rightNeighbour_spec (f : Fields) (ks : List Tree) (key : Nat) (c : Tree)
    (hne : (node f ks).noEmpty = true) (hn : (node f ks).leafNums.Nodup)
    (hc : ks.find? (fun k => leftmost k == key) = some c) :
    ∃ e, RunEnd (ks.map span) (rightmost c) e ∧ rightNeighbour c (rightOf ks key) = e + 1 ∧
      e = runEnd (ks.map span) ks.length (rightmost c) ∧
      ∀ e', RunEnd (ks.map span) (rightmost c) e' → e' = e := by
  have hk := KidsOK.of_node hne hn
  have hw : ∀ s ∈ ks.map span, s.1 ≤ s.2 := by
    intro s hs
    obtain ⟨k, _, rfl⟩ := List.mem_map.1 hs
    exact span_le k
  have hsound := runEnd_sound (ks.map span) hw ks.length (rightmost c)
    (Nat.le_trans (List.length_filter_le _ _) (by simp))
  refine ⟨_, hsound, Lemmas.More12e.rightNeighbour_spec ks key c hk hc ks.length (Nat.le_refl _), rfl, ?_⟩
  intro e' he'
  have hd : ((ks.map span).map (·.1)).Nodup := by rw [map_span_fst]; exact hk.leftmost_nodup
  exact RunEnd.unique (eq_of_key_eq_of_nodup (fun s : Nat × Nat => s.1) _ hd) he' hsound

/-! ### the landing site -/

/-- **the receiving constituent is THE lowest constituent dominating both tokens**: it dominates both, none of
    its children does, every constituent dominating both dominates it; the parent map of the result is the parent
    map of the tree plus the entries of `c` under it -/
theorem attachLowest_target (c : Tree) (tl tr : Nat) (t : Tree) (hl : t.isLeaf = false) (hn : t.leafNums.Nodup)
    (hb : both tl tr t = true) (hne : tl ≠ tr) :
    ∃ p ∈ subtrees t, p.isLeaf = false ∧ both tl tr p = true ∧ (∀ k ∈ p.kids, both tl tr k = false) ∧
      (∀ q ∈ subtrees t, both tl tr q = true → p ∈ subtrees q) ∧
      ∀ par, (parentMap par (attachLowest c tl tr t)).Perm (parentMap par t ++ parentMap p.fields.uid c) :=
  Lands.target (attachLowest_lands c tl tr hne t hl) hn hb

/-- there is one lowest node only -/
theorem lowest_unique (tl tr : Nat) (t p p' : Tree) (hp : p ∈ subtrees t) (hp' : p' ∈ subtrees t)
    (hb : both tl tr p = true) (hb' : both tl tr p' = true)
    (h : ∀ q ∈ subtrees t, both tl tr q = true → p ∈ subtrees q)
    (h' : ∀ q ∈ subtrees t, both tl tr q = true → p' ∈ subtrees q) : p = p' :=
  subtrees_antisymm p p' (h p' hp' hb') (h' p hp hb)

/-- the hypotheses are met by the tree of `TT.Props.C12` with the token 3 taken out -/
example := attachLowest_target (leaf 3 { label := "C".toList, uid := some 5 }) 2 4
  (node C12.exT.fields (eraseFirst (fun k => leftmost k == 3) C12.exT.kids)) rfl (by decide) (by decide) (by decide)

/-- "… whose neighbours meet only at the root, stays" (one call of `attachLowest`) -/
theorem attachLowest_root (c : Tree) (tl tr : Nat) (f : Fields) (ks : List Tree)
    (h : ks.any (fun k => k.hasLeaf tl && k.hasLeaf tr) = false) :
    attachLowest c tl tr (node f ks) = node f (ks ++ [c]) := by
  simp [attachLowest, h]

/-! ### the sentence edges -/

/-- the right edge, one step -/
theorem rootAttachStep_edge_right (tmin tmax : Nat) (f : Fields) (ks : List Tree) (key : Nat) (c : Tree)
    (hc : ks.find? (fun k => leftmost k == key) = some c)
    (hedge : rightNeighbour c (rightOf ks key) > tmax) :
    rootAttachStep tmin tmax (node f ks) key = node f ks :=
  (rootAttachStep_lands tmin tmax f ks key c hc).1 (Or.inr hedge)

/-- a child that ends at the last token has its right neighbour outside the sentence -/
theorem rightNeighbour_gt (c : Tree) (right : List Tree) : rightNeighbour c right > rightmost c := by
  have := Lemmas.RootAttach.skipRight_ge right (rightmost c)
  simp only [rightNeighbour]; omega

theorem rootAttachStep_WF (tmin tmax : Nat) (cur : Tree) (key : Nat) (h : WF cur = true) :
    WF (rootAttachStep tmin tmax cur key) = true :=
  Lemmas.WF.WF_of_perm cur _ h ((C12.rootAttachStep_leaves tmin tmax cur key).map num)
    (C12.rootAttachStep_noEmpty tmin tmax cur key (Lemmas.WF.WF_noEmpty cur h))
    (by rw [Lemmas.RootAttach.rootAttachStep_isLeaf]; exact ((Lemmas.WF.WF_iff cur).1 h).1)

/-- every intermediate tree of the fold is well formed -/
theorem fold_WF (tmin tmax : Nat) (keys : List Nat) (t : Tree) (h : WF t = true) :
    WF (keys.foldl (rootAttachStep tmin tmax) t) = true :=
  Lemmas.RootAttach.foldl_invariant (fun cur => WF cur = true) _
    (fun b a hb => rootAttachStep_WF tmin tmax b a hb) keys t h

theorem KidInv_of_WF (t c cur : Tree) (h : WF cur = true)
    (hk : ∃ c' ∈ cur.kids, c'.fields = c.fields ∧ leftmost c' = leftmost c ∧ ∀ n ∈ c.leafNums, n ∈ c'.leafNums) :
    KidInv t c cur :=
  ⟨((Lemmas.WF.WF_iff cur).1 h).1, Lemmas.WF.WF_noEmpty cur h, Lemmas.WF.WF_nodup cur h, hk⟩

/-- **"a child at the sentence start or end stays", for the whole transformation**: a root child that contains
    the first or the last token of the sentence is a root child of `rootAttach t` (same data, same first token) -/
theorem rootAttach_edge_stays (t : Tree) (hwf : WF t = true) (c : Tree) (hc : c ∈ t.kids)
    (he : leftmost c = t.leftmost ∨ rightmost c = t.rightmost) :
    ∃ c' ∈ (rootAttach t).kids, c'.fields = c.fields ∧ leftmost c' = leftmost c := by
  have hcne : c.leafNums ≠ [] := by
    cases t with
    | leaf n f => simp [kids] at hc
    | node f ks =>
      exact Lemmas.WF.noEmpty_leafNums_ne_nil c
        (Lemmas.WF.noEmpty_of_mem_kids f ks c (Lemmas.WF.WF_noEmpty _ hwf) hc)
  have J0 : KidInv t c t := KidInv_of_WF t c t hwf ⟨c, hc, rfl, rfl, fun _ h => h⟩
  have J := KidInv.fold (WF_range t hwf).1 hcne ((children t).map leftmost) t J0 (fun _ _ => Or.inr he)
  obtain ⟨c', h1, h2, h3, _⟩ := J.kid
  exact ⟨c', h1, h2, h3⟩

/-- the same in terms of the parent map -/
theorem rootAttach_edge_parent (t : Tree) (hwf : WF t = true) (hu : uidsOK t = true) (c : Tree) (hc : c ∈ t.kids)
    (he : leftmost c = t.leftmost ∨ rightmost c = t.rightmost) (v : Nat) (hv : c.fields.uid = some v) :
    parentOfUid (rootAttach t) v = some t.fields.uid := by
  obtain ⟨c', hc'm, hc'f, _⟩ := rootAttach_edge_stays t hwf c hc he
  refine Lemmas.RootAttach.parentOfUid_of_mem _ (Lemmas.RootAttach.rootAttach_uids_nodup t hu) v _ ?_
  rw [mem_parentMap]
  refine Or.inr ⟨rootAttach t, Lemmas.WF.self_mem_subtrees _, c', hc'm, by rw [hc'f]; exact hv, ?_⟩
  exact (Lemmas.RootAttach.rootAttach_fields t).symm ▸ rfl

/-! ### the whole fold -/

/-- "processing them left to right": the snapshot is ordered by strictly increasing first token -/
theorem children_sorted (t : Tree) (hwf : WF t = true) :
    (children t).Pairwise (fun a b => leftmost a < leftmost b) := by
  cases t with
  | leaf n f => simp [children, kids, sortBy]
  | node f ks =>
    exact sortBy_strict leftmost ks
      (KidsOK.of_node (Lemmas.WF.WF_noEmpty _ hwf) (Lemmas.WF.WF_nodup _ hwf)).leftmost_nodup

/-- `rootAttach` is the fold of the step over the snapshot (definition, restated) -/
theorem rootAttach_fold (t : Tree) (pre : List Tree) (c : Tree) (post : List Tree)
    (hs : children t = pre ++ c :: post) :
    rootAttach t = (post.map leftmost).foldl (rootAttachStep t.leftmost t.rightmost)
      (rootAttachStep t.leftmost t.rightmost
        ((pre.map leftmost).foldl (rootAttachStep t.leftmost t.rightmost) t) (leftmost c)) := by
  unfold rootAttach
  simp only [hs, List.map_append, List.map_cons, List.foldl_append, List.foldl_cons]

/-- **every root child of the snapshot is processed once, at its turn, on the current tree**: when the children
    before `c` have been processed, the current tree is well formed with distinct uids, and the step for `c`
    finds, among the root's children, the node with the uid of `c` (it may have received material meanwhile,
    its first token is the same).  What the step then does to it is `C12Land.rootAttachStep_lands`. -/
theorem rootAttach_processes (t : Tree) (hwf : WF t = true) (hu : uidsOK t = true) (pre : List Tree) (c : Tree)
    (post : List Tree) (hs : children t = pre ++ c :: post) :
    ∃ f ks c', (pre.map leftmost).foldl (rootAttachStep t.leftmost t.rightmost) t = node f ks ∧
      WF (node f ks) = true ∧ uidsOK (node f ks) = true ∧ f = t.fields ∧
      ks.find? (fun k => leftmost k == leftmost c) = some c' ∧ c'.fields.uid = c.fields.uid ∧
      leftmost c' = leftmost c := by
  obtain ⟨r, hr⟩ := (UOK.of_uidsOK hu).has t (Lemmas.WF.self_mem_subtrees t)
  have I0 := Inv.init t hwf hu r hr
  rw [hs] at I0
  have I := Inv.fold (WF_range t hwf).1 (c :: post) pre I0
  have hwf' := fold_WF t.leftmost t.rightmost (pre.map leftmost) t hwf
  have hfields : ((pre.map leftmost).foldl (rootAttachStep t.leftmost t.rightmost) t).fields = t.fields :=
    Lemmas.RootAttach.foldl_invariant (fun cur => cur.fields = t.fields) _
      (fun b a hb => (Lemmas.RootAttach.rootAttachStep_fields _ _ b a).trans hb) _ t rfl
  cases hcur : (pre.map leftmost).foldl (rootAttachStep t.leftmost t.rightmost) t with
  | leaf n f => have := I.isNode; rw [hcur] at this; simp [isLeaf] at this
  | node f ks =>
    rw [hcur] at I hwf' hfields
    obtain ⟨c', hc'm, hc'u, hc'l⟩ := I.kids c List.mem_cons_self
    have hk := KidsOK.of_node I.ne I.nd
    have hcu : c.fields.uid = some (uidOf c) := by
      have hck : c ∈ t.kids := (mem_sortBy leftmost t.kids c).1 (by rw [children] at hs; rw [hs]; simp)
      obtain ⟨v, hv⟩ := (UOK.of_uidsOK hu).has c (kid_mem_subtrees t c hck)
      simp [uidOf, hv]
    exact ⟨f, ks, c', rfl, hwf', I.reads.uok.to_uidsOK, hfields,
      (find?_key_iff leftmost ks hk.leftmost_nodup (leftmost c) c').2 ⟨hc'm, hc'l⟩, hc'u.trans hcu.symm, hc'l⟩

/-- **"… or whose neighbours meet only at the root, stays", for the whole transformation**: if at the turn of
    `c` no other root child of the current tree dominates both neighbours, the node is a root child of
    `rootAttach t` -/
theorem rootAttach_meet_at_root_stays (t : Tree) (hwf : WF t = true) (pre : List Tree) (c : Tree) (post : List Tree)
    (hs : children t = pre ++ c :: post) (f : Fields) (ks : List Tree) (c' : Tree)
    (hcur : (pre.map leftmost).foldl (rootAttachStep t.leftmost t.rightmost) t = node f ks)
    (hfind : ks.find? (fun k => leftmost k == leftmost c) = some c')
    (hmeet : ∀ k ∈ eraseFirst (fun k => leftmost k == leftmost c) ks,
      both (leftmost c' - 1) (rightNeighbour c' (rightOf ks (leftmost c))) k = false) :
    ∃ c'' ∈ (rootAttach t).kids, c''.fields = c'.fields ∧ leftmost c'' = leftmost c' := by
  have hwf1 : WF (node f ks) = true := hcur ▸ fold_WF t.leftmost t.rightmost (pre.map leftmost) t hwf
  obtain ⟨hc'm, hc'l⟩ := find?_mem_key hfind
  have hc'ne : c'.leafNums ≠ [] :=
    Lemmas.WF.noEmpty_leafNums_ne_nil c' (Lemmas.WF.noEmpty_of_mem_kids f ks c' (Lemmas.WF.WF_noEmpty _ hwf1) hc'm)
  have hwf2 := rootAttachStep_WF t.leftmost t.rightmost (node f ks) (leftmost c) hwf1
  have hkid : c' ∈ (rootAttachStep t.leftmost t.rightmost (node f ks) (leftmost c)).kids := by
    rcases rootAttachStep_meet_at_root t.leftmost t.rightmost f ks (leftmost c) c' hfind hmeet with h | h
    · rw [h]; exact hc'm
    · rw [h]; simp [kids]
  have J0 := KidInv_of_WF t c' _ hwf2 ⟨c', hkid, rfl, rfl, fun _ h => h⟩
  have hkeys : ((children t).map leftmost).Nodup := by
    have := children_sorted t hwf
    rw [List.Nodup, List.pairwise_map]
    exact this.imp (fun h => Nat.ne_of_lt h)
  have J := KidInv.fold (tmax := t.rightmost) (WF_range t hwf).1 hc'ne (post.map leftmost) _ J0 (by
    intro key hkey
    left
    rw [hs] at hkeys
    simp only [List.map_append, List.map_cons, List.nodup_append, List.nodup_cons] at hkeys
    intro h
    exact hkeys.2.1.1 (by rw [← hc'l, ← h]; exact hkey))
  rw [rootAttach_fold t pre c post hs, hcur]
  obtain ⟨c'', h1, h2, h3, _⟩ := J.kid
  exact ⟨c'', h1, h2, h3⟩

/-! ### the set-based reference -/

/-- **on every well-formed tree (with distinct uids, the device by which node identity is expressed) the
    result equals that of the set-based reference of the documented rule**: the parent map of `rootAttach t` is
    the parent map computed by `Spec.rootAttachRef`, which sees only "who is whose parent" and "which node is
    which token" -/
theorem rootAttach_eq_ref (t : Tree) (h : WF t = true) (hu : uidsOK t = true) :
    (parentMap none (rootAttach t)).Perm (rootAttachRef t) :=
  (rootAttachRef_reads t h hu).perm.symm

/-- the same, node by node: every node has the parent the reference gives it -/
theorem rootAttach_ref_parent (t : Tree) (h : WF t = true) (hu : uidsOK t = true) (u : Nat) :
    parentOfUid (rootAttach t) u = ((rootAttachRef t).find? (·.1 == u)).map (·.2) := by
  have R := rootAttachRef_reads t h hu
  unfold parentOfUid
  congr 1
  have hn : ((parentMap none (rootAttach t)).map (·.1)).Nodup := (R.perm.map (·.1)).nodup R.keys_nodup
  exact find?_key_congr (fun e : Nat × Option Nat => e.1) _ _
    (eq_of_key_eq_of_nodup (fun e : Nat × Option Nat => e.1) _ hn) (fun x => (R.mem_iff x).symm) u

/-- together with `C12.rootAttach_content` (labels, words, lemmas, morphology, edges, kinds and numbers per uid)
    the parent map determines the tree up to the storage order of children -/
example (t : Tree) (h : WF t = true) (hu : uidsOK t = true) :
    (parentMap none (rootAttach t)).Perm (rootAttachRef t) ∧ contentKept t (rootAttach t) = true :=
  ⟨rootAttach_eq_ref t h hu, C12.rootAttach_content t hu⟩

/-- `(S#0 (A#1 1) (NP#2 (B#3 2) (F#4 6)) (C#5 3) (D#6 4) (E#7 5) (G#8 7))`: three consecutive unattached tokens in
    the gap of `NP`; each of them skips the ones after it and lands below `NP`; `A` and `G` are at the edges -/
def exRun : Tree :=
  node { label := "S".toList, uid := some 0 }
    [leaf 1 { label := "A".toList, uid := some 1 },
     node { label := "NP".toList, uid := some 2 }
       [leaf 2 { label := "B".toList, uid := some 3 }, leaf 6 { label := "F".toList, uid := some 4 }],
     leaf 3 { label := "C".toList, uid := some 5 },
     leaf 4 { label := "D".toList, uid := some 6 },
     leaf 5 { label := "E".toList, uid := some 7 },
     leaf 7 { label := "G".toList, uid := some 8 }]

example : WF exRun = true ∧ uidsOK exRun = true := by decide
example : rootAttachRef exRun = [(0, none), (1, some 0), (2, some 0), (3, some 2), (4, some 2), (5, some 2),
    (6, some 2), (7, some 2), (8, some 0)] := by decide
example : parentMap none (rootAttach exRun) = rootAttachRef exRun := by decide
example : WF C12.exT = true ∧ uidsOK C12.exT = true ∧ parentMap none (rootAttach C12.exT) = rootAttachRef C12.exT := by
  decide
/-- the right neighbour of `C` (token 3) in `exRun` is 6: the run `D E` is skipped -/
example : rightNeighbour (leaf 3 { label := "C".toList, uid := some 5 }) (rightOf exRun.kids 3) = 6 := by decide
example := rightNeighbour_spec exRun.fields exRun.kids 3 (leaf 3 { label := "C".toList, uid := some 5 })
  (by decide) (by decide) rfl
example : runEnd (exRun.kids.map span) exRun.kids.length 3 = 5 := by decide
/-- `C` (uid 5) is below `NP` (uid 2) in the result, as the reference says -/
example : parentOfUid (rootAttach exRun) 5 = some (some 2) ∧
    ((rootAttachRef exRun).find? (·.1 == 5)).map (·.2) = some (some 2) := by decide
/-- `A` (uid 1) starts the sentence: its parent is still the root (uid 0) -/
example : parentOfUid (rootAttach exRun) 1 = some exRun.fields.uid :=
  rootAttach_edge_parent exRun (by decide) (by decide) (leaf 1 { label := "A".toList, uid := some 1 })
    (by simp [exRun, kids]) (Or.inl (by decide)) 1 rfl

/-- `G` (token 7) ends the sentence of `exRun`: it is a root child of the result -/
example : ∃ c' ∈ (rootAttach exRun).kids, c'.fields = { label := "G".toList, uid := some 8 } ∧ leftmost c' = 7 :=
  rootAttach_edge_stays exRun (by decide) (leaf 7 { label := "G".toList, uid := some 8 }) (by simp [exRun, kids])
    (Or.inr (by decide))

/-- at the turn of `D` (token 4) in `exRun`, `C` has already been moved below `NP` -/
example : ∃ f ks c', ([1, 2, 3].foldl (rootAttachStep 1 7) exRun) = node f ks ∧ WF (node f ks) = true ∧
    uidsOK (node f ks) = true ∧ f = exRun.fields ∧ ks.find? (fun k => leftmost k == 4) = some c' ∧
    c'.fields.uid = some 6 ∧ leftmost c' = 4 :=
  rootAttach_processes exRun (by decide) (by decide)
    [leaf 1 { label := "A".toList, uid := some 1 },
     node { label := "NP".toList, uid := some 2 }
       [leaf 2 { label := "B".toList, uid := some 3 }, leaf 6 { label := "F".toList, uid := some 4 }],
     leaf 3 { label := "C".toList, uid := some 5 }]
    (leaf 4 { label := "D".toList, uid := some 6 })
    [leaf 5 { label := "E".toList, uid := some 7 }, leaf 7 { label := "G".toList, uid := some 8 }] rfl

/-- `(S (NP (A 1)) (B 2) (VP (C 3)))`: the neighbours 1 and 3 of `B` meet only at the root -/
def exMeet : Tree :=
  node { label := "S".toList, uid := some 0 }
    [node { label := "NP".toList, uid := some 1 } [leaf 1 { label := "A".toList, uid := some 2 }],
     leaf 2 { label := "B".toList, uid := some 3 },
     node { label := "VP".toList, uid := some 4 } [leaf 3 { label := "C".toList, uid := some 5 }]]

example : ∃ c'' ∈ (rootAttach exMeet).kids, c''.fields = { label := "B".toList, uid := some 3 } ∧ leftmost c'' = 2 :=
  rootAttach_meet_at_root_stays exMeet (by decide)
    [node { label := "NP".toList, uid := some 1 } [leaf 1 { label := "A".toList, uid := some 2 }]]
    (leaf 2 { label := "B".toList, uid := some 3 })
    [node { label := "VP".toList, uid := some 4 } [leaf 3 { label := "C".toList, uid := some 5 }]] rfl
    exMeet.fields exMeet.kids (leaf 2 { label := "B".toList, uid := some 3 }) rfl rfl (by decide)

/-- distinct uids cannot be dropped: when two nodes carry the same uid (here `A` and `C`, uid 1) the parent map
    itself is ambiguous -/
def exDupUid : Tree :=
  node { label := "S".toList, uid := some 0 }
    [leaf 1 { label := "A".toList, uid := some 1 },
     node { label := "NP".toList, uid := some 2 }
       [leaf 2 { label := "B".toList, uid := some 3 }, leaf 4 { label := "D".toList, uid := some 4 }],
     leaf 3 { label := "C".toList, uid := some 1 },
     leaf 5 { label := "E".toList, uid := some 6 }]
example : WF exDupUid = true ∧ uidsOK exDupUid = false ∧
    parentMap none (rootAttach exDupUid) =
      [(0, none), (1, some 0), (2, some 0), (3, some 2), (4, some 2), (1, some 2), (6, some 0)] ∧
    rootAttachRef exDupUid =
      [(0, none), (1, some 0), (2, some 0), (3, some 2), (4, some 2), (1, some 0), (6, some 0)] := by
  decide

/-- well-formedness cannot be dropped: with a token number occurring twice (`NP` and `VP` both over 2 and 4) "the
    lowest constituent dominating both neighbours" does not exist; the model takes the first, the reference none -/
def exDupTok : Tree :=
  node { label := "S".toList, uid := some 0 }
    [leaf 1 { label := "A".toList, uid := some 1 },
     node { label := "NP".toList, uid := some 2 }
       [leaf 2 { label := "B".toList, uid := some 3 }, leaf 4 { label := "D".toList, uid := some 4 }],
     leaf 3 { label := "C".toList, uid := some 5 },
     node { label := "VP".toList, uid := some 8 }
       [leaf 2 { label := "B".toList, uid := some 9 }, leaf 4 { label := "D".toList, uid := some 10 }],
     leaf 5 { label := "E".toList, uid := some 6 }]
example : WF exDupTok = false ∧ uidsOK exDupTok = true ∧ parentOfUid (rootAttach exDupTok) 5 = some (some 2) ∧
    ((rootAttachRef exDupTok).find? (·.1 == 5)).map (·.2) = some (some 0) := by
  decide

end TT.Props.C12Ref
