/-
  C18 / C03 / C09 / C10 at the level of the four commands WITH their source dispatch (wave 18, `TT/RunSrc.lean`):
  `treetools transform | transitions | grammar | treeanalysis SRC ... --src-format F --src-opts ...`.

  * `readSrc_*`: which reader a format names (definitional; `discobrackets` is `brackets` with `disco`).
  * `*_ok` / `*_error`: every command is a function of what the reader yields; a reader error is the command's error and
    nothing is written (`*_error`), whatever the steps, the destination, the transition system, the grammar type.
  * `*_same_trees`: what is produced depends only on the sentences the reader yields - two sources of whatever formats
    and reader options that are read as the same numbered trees give the same destination text, the same parts, the same
    transition lines, the same grammar and lexicon ("whatever reader the trees came from", C03; "depends only on that
    sentence, the options ...", C18).
  * `runTransitionsSrc_trees`, `runGrammarSrc_trees`: for these two commands (and `treeanalysis`, `C16Src`) even the
    sentence numbers do not matter.
  * `runTransitionsSrc_append_sources`, `runGrammarSrc_sum_sources`: sentence locality across SOURCES: when a third
    source is read as the concatenation of what two sources are read as, its transition file is the concatenation and
    its grammar is extracted from the concatenated treebank (the sum law of `C18.extractAll_append` applies to it).
-/
import TT.RunSrc
import TT.Props.C10Run
namespace TT.Props.C18Src
open TT TT.Tree

/-! ### the dispatch -/

theorem readSrc_export (io : InOpts) (text : Str) : readSrc io (.export text) = readExport io text := rfl
theorem readSrc_brackets (io : InOpts) (text : Str) : readSrc io (.brackets text) = readBrackets io text := rfl
theorem readSrc_discobrackets (io : InOpts) (text : Str) :
    readSrc io (.discobrackets text) = readBrackets { io with disco := true } text := rfl
theorem readSrc_tigerxml (io : InOpts) (doc : List XSent) : readSrc io (.tigerxml doc) = readTiger io doc := rfl

/-- the `disco` flag given on the command line does not matter for the discobracket format: the format sets it -/
theorem readSrc_discobrackets_flag (io : InOpts) (b : Bool) (text : Str) :
    readSrc { io with disco := b } (.discobrackets text) = readSrc io (.discobrackets text) := rfl

/-- the bracket format with the option `disco` IS the discobracket format -/
theorem readSrc_brackets_disco (io : InOpts) (text : Str) :
    readSrc { io with disco := true } (.brackets text) = readSrc io (.discobrackets text) := rfl

/-! ### every command is a function of what the reader yields -/

theorem runSrc_ok (steps : List Step) (fmt : DestFmt) (o : OutOpts) (enc : Option Str) (io : InOpts) (src : Source)
    (r : List (Nat × Tree)) (h : readSrc io src = .ok r) :
    runSrc steps fmt o enc io src = runFrom steps fmt o enc (.ok r) := by
  unfold runSrc; rw [h]

theorem runSplitSrc_ok (steps : List Step) (fmt : DestFmt) (o : OutOpts) (enc : Option Str) (spec : Str) (io : InOpts)
    (src : Source) (r : List (Nat × Tree)) (h : readSrc io src = .ok r) :
    runSplitSrc steps fmt o enc spec io src = runSplitFrom steps fmt o enc spec (.ok r) := by
  unfold runSplitSrc; rw [h]

theorem runTransitionsSrc_ok (steps : List Step) (sys : TransSys) (pos : Bool) (io : InOpts) (src : Source)
    (r : List (Nat × Tree)) (h : readSrc io src = .ok r) :
    runTransitionsSrc steps sys pos io src = runTransitions steps sys pos (.ok r) := by
  unfold runTransitionsSrc; rw [h]

theorem runGrammarSrc_ok (gt : GramType) (mo : Option MarkovOpts) (io : InOpts) (src : Source)
    (r : List (Nat × Tree)) (h : readSrc io src = .ok r) :
    runGrammarSrc gt mo io src = runGrammarFrom gt mo (.ok r) := by
  unfold runGrammarSrc; rw [h]

/-- a source the reader refuses: every command ends with the reader's error -/
theorem run_source_error (io : InOpts) (src : Source) (e : Err) (h : readSrc io src = .error e)
    (steps : List Step) (fmt : DestFmt) (o : OutOpts) (enc : Option Str) (spec : Str) (sys : TransSys) (pos : Bool)
    (gt : GramType) (mo : Option MarkovOpts) (task : AnalysisTask) :
    runSrc steps fmt o enc io src = .error e ∧ runSplitSrc steps fmt o enc spec io src = .error e ∧
      runTransitionsSrc steps sys pos io src = .error e ∧ runGrammarSrc gt mo io src = .error e ∧
      runAnalysisSrc task io src = .error e := by
  unfold runSrc runSplitSrc runTransitionsSrc runGrammarSrc runAnalysisSrc
  rw [h]
  exact ⟨rfl, rfl, rfl, rfl, rfl⟩

/-! ### whatever reader the trees came from -/

/-- two sources read as the same numbered trees: `transform` writes the same text and the same parts -/
theorem runSrc_same_trees (steps : List Step) (fmt : DestFmt) (o : OutOpts) (enc : Option Str) (spec : Str)
    (io₁ io₂ : InOpts) (s₁ s₂ : Source) (h : readSrc io₁ s₁ = readSrc io₂ s₂) :
    runSrc steps fmt o enc io₁ s₁ = runSrc steps fmt o enc io₂ s₂ ∧
      runSplitSrc steps fmt o enc spec io₁ s₁ = runSplitSrc steps fmt o enc spec io₂ s₂ := by
  unfold runSrc runSplitSrc; rw [h]; exact ⟨rfl, rfl⟩

/-- the steps look at the trees only: same trees in, same trees out (or the same error) -/
theorem transformAll_trees (steps : List Step) : ∀ (a b : List (Nat × Tree)), a.map (·.2) = b.map (·.2) →
    (transformAll steps a).map (List.map (·.2)) = (transformAll steps b).map (List.map (·.2))
  | [], [], _ => rfl
  | [], _ :: _, h => by simp at h
  | _ :: _, [], h => by simp at h
  | (i, s) :: a, (j, t) :: b, h => by
    simp only [List.map_cons, List.cons.injEq] at h
    obtain ⟨h1, h2⟩ := h
    subst h1
    have ih := transformAll_trees steps a b h2
    simp only [transformAll]
    cases applySteps' steps s with
    | error e => rfl
    | ok x =>
      cases x with
      | none => exact ih
      | some s' =>
        cases ha : transformAll steps a with
        | error e =>
          rw [ha] at ih
          cases hb : transformAll steps b with
          | error e' => rw [hb] at ih; simpa [Except.map] using ih
          | ok b' => rw [hb] at ih; simp [Except.map] at ih
        | ok a' =>
          rw [ha] at ih
          cases hb : transformAll steps b with
          | error e' => rw [hb] at ih; simp [Except.map] at ih
          | ok b' =>
            rw [hb] at ih
            simp only [Except.map, Except.ok.injEq] at ih
            simp [Except.map, ih]

/-- the line of a sentence does not depend on its number -/
theorem mapM_lineOf_trees (sys : TransSys) (pos : Bool) : ∀ (a b : List (Nat × Tree)), a.map (·.2) = b.map (·.2) →
    a.mapM (TT.Props.C10Run.lineOf sys pos) = b.mapM (TT.Props.C10Run.lineOf sys pos)
  | [], [], _ => rfl
  | [], _ :: _, h => by simp at h
  | _ :: _, [], h => by simp at h
  | (i, s) :: a, (j, t) :: b, h => by
    simp only [List.map_cons, List.cons.injEq] at h
    obtain ⟨h1, h2⟩ := h
    subst h1
    rw [List.mapM_cons, List.mapM_cons, mapM_lineOf_trees sys pos a b h2]
    rfl

/-- `transitions` looks at the trees only, not at the sentence numbers -/
theorem runTransitions_trees (steps : List Step) (sys : TransSys) (pos : Bool) (a b : List (Nat × Tree))
    (h : a.map (·.2) = b.map (·.2)) :
    runTransitions steps sys pos (.ok a) = runTransitions steps sys pos (.ok b) := by
  have ht := transformAll_trees steps a b h
  simp only [TT.Props.C10Run.runTransitions_ok]
  cases ha : transformAll steps a with
  | error e =>
    rw [ha] at ht
    cases hb : transformAll steps b with
    | error e' => rw [hb] at ht; simp only [Except.map, Except.error.injEq] at ht; rw [ht]
    | ok b' => rw [hb] at ht; simp [Except.map] at ht
  | ok a' =>
    rw [ha] at ht
    cases hb : transformAll steps b with
    | error e' => rw [hb] at ht; simp [Except.map] at ht
    | ok b' =>
      rw [hb] at ht
      simp only [Except.map, Except.ok.injEq] at ht
      show a'.mapM _ = b'.mapM _
      exact mapM_lineOf_trees sys pos a' b' ht

theorem runTransitionsSrc_trees (steps : List Step) (sys : TransSys) (pos : Bool) (io₁ io₂ : InOpts) (s₁ s₂ : Source)
    (r₁ r₂ : List (Nat × Tree)) (h₁ : readSrc io₁ s₁ = .ok r₁) (h₂ : readSrc io₂ s₂ = .ok r₂)
    (hs : r₁.map (·.2) = r₂.map (·.2)) :
    runTransitionsSrc steps sys pos io₁ s₁ = runTransitionsSrc steps sys pos io₂ s₂ := by
  rw [runTransitionsSrc_ok _ _ _ _ _ _ h₁, runTransitionsSrc_ok _ _ _ _ _ _ h₂]
  exact runTransitions_trees steps sys pos r₁ r₂ hs

/-- `grammar` looks at the trees only -/
theorem runGrammarSrc_trees (gt : GramType) (mo : Option MarkovOpts) (io₁ io₂ : InOpts) (s₁ s₂ : Source)
    (r₁ r₂ : List (Nat × Tree)) (h₁ : readSrc io₁ s₁ = .ok r₁) (h₂ : readSrc io₂ s₂ = .ok r₂)
    (hs : r₁.map (·.2) = r₂.map (·.2)) :
    runGrammarSrc gt mo io₁ s₁ = runGrammarSrc gt mo io₂ s₂ := by
  rw [runGrammarSrc_ok _ _ _ _ _ h₁, runGrammarSrc_ok _ _ _ _ _ h₂,
    TT.Props.C10Run.runGrammarFrom_ok, TT.Props.C10Run.runGrammarFrom_ok, hs]

/-! ### sentence locality across sources -/

/-- a source that is read as the concatenation of what two sources are read as: its transition file is the
    concatenation of theirs -/
theorem runTransitionsSrc_append_sources (steps : List Step) (sys : TransSys) (pos : Bool)
    (io₁ io₂ io₃ : InOpts) (s₁ s₂ s₃ : Source) (r₁ r₂ : List (Nat × Tree)) (l₁ l₂ : List Str)
    (h₁ : readSrc io₁ s₁ = .ok r₁) (h₂ : readSrc io₂ s₂ = .ok r₂) (h₃ : readSrc io₃ s₃ = .ok (r₁ ++ r₂))
    (ha : runTransitionsSrc steps sys pos io₁ s₁ = .ok l₁) (hb : runTransitionsSrc steps sys pos io₂ s₂ = .ok l₂) :
    runTransitionsSrc steps sys pos io₃ s₃ = .ok (l₁ ++ l₂) := by
  rw [runTransitionsSrc_ok _ _ _ _ _ _ h₁] at ha
  rw [runTransitionsSrc_ok _ _ _ _ _ _ h₂] at hb
  rw [runTransitionsSrc_ok _ _ _ _ _ _ h₃]
  exact TT.Props.C10Run.runTransitions_append steps sys pos r₁ r₂ l₁ l₂ ha hb

/-- ... its grammar and lexicon are those extracted from the two treebanks put together -/
theorem runGrammarSrc_sum_sources (gt : GramType) (mo : Option MarkovOpts)
    (io₁ io₂ io₃ : InOpts) (s₁ s₂ s₃ : Source) (r₁ r₂ : List (Nat × Tree))
    (_h₁ : readSrc io₁ s₁ = .ok r₁) (_h₂ : readSrc io₂ s₂ = .ok r₂) (h₃ : readSrc io₃ s₃ = .ok (r₁ ++ r₂)) :
    runGrammarSrc gt mo io₃ s₃ =
      .ok (TT.Props.C10Run.handedGrammar gt mo (extractAll (r₁.map (·.2) ++ r₂.map (·.2))).1,
        (extractAll (r₁.map (·.2) ++ r₂.map (·.2))).2) := by
  rw [runGrammarSrc_ok _ _ _ _ _ h₃, TT.Props.C10Run.runGrammarFrom_ok, List.map_append]

/-- non-vacuous: the bracket format under `disco` and the discobracket format are two such sources, for every text -/
example (gt : GramType) (mo : Option MarkovOpts) (steps : List Step) (sys : TransSys) (pos : Bool) (io : InOpts) (text : Str) :
    runGrammarSrc gt mo { io with disco := true } (.brackets text) = runGrammarSrc gt mo io (.discobrackets text) ∧
      runTransitionsSrc steps sys pos { io with disco := true } (.brackets text) =
        runTransitionsSrc steps sys pos io (.discobrackets text) := ⟨rfl, rfl⟩

end TT.Props.C18Src
