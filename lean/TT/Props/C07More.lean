/-
  C07 (more) — un-binarizing a whole deterministic grammar:
  "Without Markovization the binarization nonterminals are unique and each has a single fan-out,
   so un-binarizing recovers exactly the original rules."
-/
import TT.Spec.Grammar
import TT.Lemmas.GramBin
import TT.Lemmas.Unbin
namespace TT.Props.C07More
open TT TT.Spec TT.Lemmas.GramBin TT.Lemmas.Unbin

/-- hypotheses on the input grammar: every rule well formed (as in `chain_composes`), no original symbol looks
    like a binarization symbol, and (after the reordering) no two entries coincide -/
def GrammarOK (r : Reordering) (g : Grammar) : Prop :=
  (∀ e ∈ g.rules, (wfLin e.2.1 ((fanOut e.2.1).drop 1) = true ∧ (fanOut e.2.1).length = e.1.length) ∧
      ∀ x ∈ e.1, isBinSym x = false) ∧
  (g.rules.map fun (f, l, _) => reorder r f l).Nodup

/-- what the proof really uses (weaker than `GrammarOK`): no original symbol looks like a binarization symbol,
    and the rules that do get binarized (more than two right-hand-side elements) are ordered, non-deleting,
    non-erasing over their right-hand side (`CWF`: `wfLin` with the fan-out of element `i` read off as its number
    of variables).  Nothing is asked of the rules of rank <= 2, and entries may coincide after the reordering. -/
def GrammarOKmin (g : Grammar) : Prop :=
  ∀ e ∈ g.rules, (∀ x ∈ e.1, isBinSym x = false) ∧ (3 < e.1.length → CWF e.1 e.2.1)

instance (r : Reordering) (g : Grammar) : Decidable (GrammarOK r g) := by unfold GrammarOK; infer_instance
instance (f : Func) (l : Lin) : Decidable (CWF f l) := by unfold CWF; infer_instance
instance (g : Grammar) : Decidable (GrammarOKmin g) := by unfold GrammarOKmin; infer_instance

theorem GrammarOK_min (r : Reordering) (g : Grammar) (h : GrammarOK r g) : GrammarOKmin g := by
  intro e he
  obtain ⟨⟨hw, hl⟩, hnb⟩ := h.1 e he
  exact ⟨hnb, fun _ => CWF_of_wf e.1 e.2.1 hw hl⟩

/-- the hypotheses carry over to the reordered rules -/
theorem ROK_of_min (r : Reordering) (g : Grammar) (h : GrammarOKmin g) : ROK (reordered r g) := by
  intro e' he'
  unfold reordered at he'
  obtain ⟨e, he, rfl⟩ := List.mem_map.1 he'
  obtain ⟨hnb, hw⟩ := h e he
  refine ⟨NBF_reorder r e.1 e.2.1 hnb, ?_⟩
  intro h3
  simp only at h3 ⊢
  have hne : e.1 ≠ [] := by
    intro e0
    rw [e0] at h3
    cases r <;> simp [reorder, reorderingOptimal, pickOrder] at h3
  rw [reorder_length r e.1 e.2.1 hne] at h3
  exact CWF_reorder r e.1 e.2.1 hne (hw (by omega))

/-- main theorem under the weaker hypotheses -/
theorem unbinOK_binarize_min (r : Reordering) (g : Grammar) (h : GrammarOKmin g) :
    unbinOK r g (binarizeGrammar r none g) = true :=
  unbinOK_build r g (ROK_of_min r g h)

/-- C07, whole grammar, deterministic labels: un-binarizing `binarizeGrammar r none g` gives back exactly the rules
    of `g` (after the reordering `r`), with their counts -/
theorem unbinOK_binarize (r : Reordering) (g : Grammar) (h : GrammarOK r g) :
    unbinOK r g (binarizeGrammar r none g) = true :=
  unbinOK_binarize_min r g (GrammarOK_min r g h)

/-! ### stepping stones -/

theorem NB_of_min (r : Reordering) (g : Grammar) (h : GrammarOKmin g) : NB (reordered r g) :=
  ROK_NB _ (ROK_of_min r g h)

/-- binarization symbols are unique: each is defined by at most one rule of the result -/
theorem binSyms_unique (r : Reordering) (g : Grammar) (h : GrammarOK r g) (x : Str) (hx : isBinSym x = true) :
    ((binarizeGrammar r none g).rules.filter fun (f, _, _) => f.head? = some x).length ≤ 1 := by
  rw [binarizeGrammar_build]
  exact binSyms_unique' (reordered r g) (NB_of_min r g (GrammarOK_min r g h)) x hx

/-- ... and each has a single fan-out: two rules of the result with the same binarization symbol on the left are
    the same rule, so their linearizations have the same number of arguments -/
theorem binSyms_single_fanout (r : Reordering) (g : Grammar) (h : GrammarOK r g) (x : Str) (hx : isBinSym x = true)
    (e1 e2 : Func × Lin × Nat) (h1 : e1 ∈ (binarizeGrammar r none g).rules) (h2 : e2 ∈ (binarizeGrammar r none g).rules)
    (x1 : e1.1.head? = some x) (x2 : e2.1.head? = some x) :
    e1.1 = e2.1 ∧ e1.2.1 = e2.2.1 ∧ e1.2.1.length = e2.2.1.length := by
  rw [binarizeGrammar_build] at h1 h2
  have := binDef_unique (reordered r g) (NB_of_min r g (GrammarOK_min r g h)) x hx e1 e2 h1 h2 x1 x2
  simp only [keyOf, Prod.mk.injEq] at this
  exact ⟨this.1, this.2, by rw [this.2]⟩

/-- the result never lists one (function, linearization) pair twice -/
theorem result_rules_nodup (r : Reordering) (g : Grammar) :
    ((binarizeGrammar r none g).rules.map fun e => (e.1, e.2.1)).Nodup := by
  rw [binarizeGrammar_build]
  exact rules_keys_nodup _ (GN_build _ [] GN_nil)

/-- one rule binarized on its own (`chainOf`, labels from 1) is the chain `chainR` with label counter 0 -/
theorem chainOf_is_chain (f : Func) (l : Lin) (hf : ∀ x ∈ f, isBinSym x = false) (h3 : 3 < f.length) :
    chainOf none f l [] = chainR f (f.length - 3) 1 (f[0]?.getD []) l 0 :=
  chainOf_eq f l hf (by omega)

/-- following the chain from the top rule of a rule of rank >= 3 gives exactly `chainOf none f l []` up to the label
    numbers: for the rule `(f, l, c)` of `g`, reordered to `(f', l')`, there is a label offset `s` such that
    the result contains the rule `f'[0] -> f'[1] @(s+1)` with linearization `topLin l'`, following the chain
    from it gives `chainR f' _ 1 f'[0] l' s` (the same chain as `chainOf none f' l' []`, which is the one with
    `s = 0`: same linearizations, same symbols except that label `@(j)` reads `@(s+j)`), and composing that chain
    gives `(f', l')` back -/
theorem followChain_top (r : Reordering) (g : Grammar) (h : GrammarOK r g) (f : Func) (l : Lin) (c : Nat)
    (he : (f, l, c) ∈ g.rules) (h3 : 3 < f.length) :
    let f' := (reorder r f l).1
    let l' := (reorder r f l).2
    let res := binarizeGrammar r none g
    ∃ s : Nat,
      (∃ c', ([f'[0]?.getD [], f'[1]?.getD [], uniqueLabel (s + 1)], topLin l', c') ∈ res.rules) ∧
      followChain res res.rules.length [f'[0]?.getD [], f'[1]?.getD [], uniqueLabel (s + 1)] (topLin l') =
        chainR f' (f'.length - 3) 1 (f'[0]?.getD []) l' s ∧
      chainOf none f' l' [] = chainR f' (f'.length - 3) 1 (f'[0]?.getD []) l' 0 ∧
      (chainR f' (f'.length - 3) 1 (f'[0]?.getD []) l' s).map (·.2) = (chainOf none f' l' []).map (·.2) ∧
      unbinChain (chainR f' (f'.length - 3) 1 (f'[0]?.getD []) l' s) = some (f', l') := by
  intro f' l' res
  have hmin := GrammarOK_min r g h
  have hrok := ROK_of_min r g hmin
  have hnb := ROK_NB _ hrok
  have hmem : (f', l', c) ∈ reordered r g := List.mem_map.2 ⟨(f, l, c), he, rfl⟩
  obtain ⟨R1, R2, hR⟩ := List.append_of_mem hmem
  have hne : f ≠ [] := by intro e0; rw [e0] at h3; simp at h3
  have hlen : f'.length = f.length := reorder_length r f l hne
  have h3' : ¬ f'.length ≤ 3 := by omega
  obtain ⟨hnbf, hw⟩ := hrok _ hmem
  have hfc := followChain_long (reordered r g) R1 R2 (f', l', c) hR hnb h3'
  obtain ⟨k, hk⟩ : ∃ k, f'.length - 3 = k + 1 := ⟨f'.length - 4, by omega⟩
  have hco := chainOf_eq f' l' hnbf h3'
  refine ⟨total R1, ?_, ?_, hco, ?_, ?_⟩
  · show hasKey (binarizeGrammar r none g).rules _ _
    rw [binarizeGrammar_build, hasKey_build]
    left
    refine ⟨c, ?_⟩
    rw [hR, allAdds_append]
    apply List.mem_append_right
    simp only [allAdds, Nat.zero_add]
    apply List.mem_append_left
    unfold ruleAdds
    rw [if_neg h3']
    rw [hk]
    exact List.mem_map.2 ⟨_, List.mem_cons_self, rfl⟩
  · show followChain (binarizeGrammar r none g) (binarizeGrammar r none g).rules.length _ _ = _
    rw [binarizeGrammar_build]
    rw [hk] at hfc ⊢
    exact hfc
  · rw [hco, chainR_lins, chainR_lins]
  · exact unbinChain_chainR f' l' (f'.length - 3) (total R1) (by omega) (by omega) (hw h3')

set_option linter.unusedVariables false in
/-- rules of rank <= 2 are kept as they are (their count is added to the entry); holds for every grammar -/
theorem small_rule_kept (r : Reordering) (g : Grammar) (h : GrammarOK r g) (f : Func) (l : Lin) (c : Nat)
    (he : (f, l, c) ∈ g.rules) (hs : f.length ≤ 3) :
    let (f', l') := reorder r f l; gramCount (binarizeGrammar r none g) f' l' .default ≥ c := by
  show gramCount (binarizeGrammar r none g) (reorder r f l).1 (reorder r f l).2 .default ≥ c
  rw [binarizeGrammar_build]
  have hmem : ((reorder r f l).1, (reorder r f l).2, c) ∈ reordered r g := List.mem_map.2 ⟨(f, l, c), he, rfl⟩
  exact small_kept (reordered r g) _ hmem (reorder_length_le r f l hs)

/-! ### concrete instances -/

/-- S -> A B C D (fan-outs 2 1 2 1, left-hand side 2), S -> A B C D continuous (twice the same function, another
    linearization), A -> B C -/
def exF : Func := [['S'], ['A'], ['B'], ['C'], ['D']]
def exL1 : Lin := [[(0, 0), (2, 0), (1, 0)], [(3, 0), (0, 1), (2, 1)]]
def exL2 : Lin := [[(0, 0), (1, 0), (2, 0), (3, 0)]]
def exG : Grammar :=
  [(exF, [(exL1, [(.ctx [['S', '2']], 3)]), (exL2, [(.ctx [['S', '1']], 1), (.default, 3)])]),
   ([['A'], ['B'], ['C']], [([[(0, 0), (1, 0)]], [(.ctx [['A', '1']], 2)])])]

theorem exG_ok_none : GrammarOK .none exG := by decide +kernel
theorem exG_ok_optimal : GrammarOK .optimal exG := by decide +kernel

example : unbinOK .none exG (binarizeGrammar .none none exG) = true := unbinOK_binarize _ _ exG_ok_none
example : unbinOK .optimal exG (binarizeGrammar .optimal none exG) = true := unbinOK_binarize _ _ exG_ok_optimal
example : ((binarizeGrammar .none none exG).rules.filter fun (f, _, _) => f.head? = some (uniqueLabel 3)).length ≤ 1 :=
  binSyms_unique _ _ exG_ok_none _ (isBinSym_uniqueLabel 3)
example : gramCount (binarizeGrammar .none none exG) [['A'], ['B'], ['C']] [[(0, 0), (1, 0)]] .default ≥ 2 :=
  small_rule_kept .none exG exG_ok_none [['A'], ['B'], ['C']] [[(0, 0), (1, 0)]] 2 (by decide +kernel) (by decide)
example : ∃ s : Nat, followChain (binarizeGrammar .none none exG) (binarizeGrammar .none none exG).rules.length
      [['S'], ['A'], uniqueLabel (s + 1)] (topLin exL2) = chainR exF 2 1 ['S'] exL2 s := by
  obtain ⟨s, _, h, _⟩ := followChain_top .none exG exG_ok_none exF exL2 4 (by decide +kernel) (by decide)
  exact ⟨s, h⟩
/-- a grammar outside `GrammarOK` (the same entry twice, a rule of rank 1 with a deleting linearization) that the
    weaker hypotheses still cover -/
def exG2 : Grammar := [(exF, [(exL1, [(.default, 2)])]), ([['X'], ['Y']], [([], [(.default, 1)])]), (exF, [(exL1, [(.default, 5)])])]
example : unbinOK .optimal exG2 (binarizeGrammar .optimal none exG2) = true :=
  unbinOK_binarize_min _ _ (by decide +kernel)

/-! ### the hypotheses cannot simply be dropped -/

/-- an original symbol that coincides with an issued label (`@1X`): the chain of the second rule is continued
    into the first rule -/
def exBad1 : Grammar :=
  [([['S'], ['A'], uniqueLabel 1], [([[(0, 0), (1, 0)]], [(.default, 1)])]), (exF, [(exL1, [(.default, 3)])])]
example : unbinOK .none exBad1 (binarizeGrammar .none none exBad1) = false := by decide +kernel

/-- a rule of rank 4 whose linearization is not ordered (second variable of element 0 before the first) -/
def exBad2 : Grammar := [(exF, [([[(0, 1), (1, 0), (0, 0), (2, 0), (3, 0)]], [(.default, 1)])])]
example : unbinOK .none exBad2 (binarizeGrammar .none none exBad2) = false := by decide +kernel

end TT.Props.C07More
