/-
  C07 (more) — un-binarizing a whole deterministic grammar
-/
import TT.Spec.Grammar
import TT.Lemmas.GramBin
import TT.Lemmas.Unbin
namespace TT.Props.C07More
open TT TT.Spec

end TT.Props.C07More
