/-
  C12 — root_attach: property theorems (see tools/agent_briefs/C12.md)
-/
import TT.Spec.Transform
import TT.Transform.RootAttach
import TT.Lemmas.WF
import TT.Lemmas.RootAttach
namespace TT.Props.C12
open TT TT.Tree TT.Spec

/-- `(S#0 (A#1 1) (NP#2 (B#3 2) (D#4 4)) (C#5 3) (E#6 5))`: the token 3 sits between the two tokens of `NP`;
    root_attach moves it below `NP`. -/
def exT : Tree :=
  node { label := "S".toList, uid := some 0 }
    [leaf 1 { label := "A".toList, uid := some 1 },
     node { label := "NP".toList, uid := some 2 }
       [leaf 2 { label := "B".toList, uid := some 3 }, leaf 4 { label := "D".toList, uid := some 4 }],
     leaf 3 { label := "C".toList, uid := some 5 },
     leaf 5 { label := "E".toList, uid := some 6 }]

/-- the expected result -/
def exR : Tree :=
  node { label := "S".toList, uid := some 0 }
    [leaf 1 { label := "A".toList, uid := some 1 },
     node { label := "NP".toList, uid := some 2 }
       [leaf 2 { label := "B".toList, uid := some 3 }, leaf 4 { label := "D".toList, uid := some 4 },
        leaf 3 { label := "C".toList, uid := some 5 }],
     leaf 5 { label := "E".toList, uid := some 6 }]

example : (rootAttach exT).beq exR = true := by decide
example : WF exT = true := by decide
example : exT.noEmpty = true := by decide
example : uidsOK exT = true := by decide

/-! ### attachLowest -/

/-- `attachLowest` only adds `c`: tokens of the result = tokens of the tree plus tokens of `c` -/
theorem attachLowest_leaves (c : Tree) (tl tr : Nat) (f : Fields) (ks : List Tree) (h : tl ≠ tr) :
    (attachLowest c tl tr (node f ks)).leaves.Perm ((node f ks).leaves ++ c.leaves) :=
  Lemmas.RootAttach.attachLowest_additive Lemmas.RootAttach.additive_leaves c tl tr h _ rfl

example : ((attachLowest (leaf 3 {}) 2 4 (node {} [leaf 1 {}, node {} [leaf 2 {}, leaf 4 {}]])).leaves.map num)
    = [1, 2, 4, 3] := by decide

/-- the hypothesis `tl ≠ tr` of `attachLowest_leaves` cannot be dropped: below a token `c` is lost -/
example : (attachLowest (leaf 3 {}) 2 2 (node {} [leaf 2 {}])).leaves.map num = [2] := by decide

/-- where it lands: `lowestSpanning` describes the node that receives `c` -/
theorem attachLowest_noEmpty (c : Tree) (tl tr : Nat) (t : Tree) (h : t.noEmpty = true) (hc : c.noEmpty = true) :
    (attachLowest c tl tr t).noEmpty = true :=
  Lemmas.RootAttach.attachLowest_noEmpty c tl tr hc t h

theorem attachLowest_consLabels (c : Tree) (tl tr : Nat) (f : Fields) (ks : List Tree) (h : tl ≠ tr) :
    (consLabels (attachLowest c tl tr (node f ks))).Perm (consLabels (node f ks) ++ consLabels c) :=
  Lemmas.RootAttach.attachLowest_additive Lemmas.RootAttach.additive_consLabels c tl tr h _ rfl

/-! ### one step -/

/-- in `rootAttachStep` the two tokens handed to `attachLowest` are always different (`tl < tr`):
    either nothing happens or one root child is taken out and attached again -/
theorem rootAttachStep_cases (tmin tmax : Nat) (cur : Tree) (key : Nat) :
    rootAttachStep tmin tmax cur key = cur ∨
    ∃ f ks c tl tr, cur = node f ks ∧ ks.find? (fun k => leftmost k == key) = some c ∧ tl < tr ∧
      rootAttachStep tmin tmax cur key =
        attachLowest c tl tr (node f (eraseFirst (fun k => leftmost k == key) ks)) :=
  Lemmas.RootAttach.rootAttachStep_cases tmin tmax cur key

/-- the step keeps the token multiset, the constituent-label multiset, noEmpty -/
theorem rootAttachStep_leaves (tmin tmax : Nat) (cur : Tree) (key : Nat) :
    (rootAttachStep tmin tmax cur key).leaves.Perm cur.leaves :=
  Lemmas.RootAttach.rootAttachStep_additive Lemmas.RootAttach.additive_leaves tmin tmax cur key

theorem rootAttachStep_consLabels (tmin tmax : Nat) (cur : Tree) (key : Nat) :
    (consLabels (rootAttachStep tmin tmax cur key)).Perm (consLabels cur) :=
  Lemmas.RootAttach.rootAttachStep_additive Lemmas.RootAttach.additive_consLabels tmin tmax cur key

theorem rootAttachStep_noEmpty (tmin tmax : Nat) (cur : Tree) (key : Nat) (h : cur.noEmpty = true) :
    (rootAttachStep tmin tmax cur key).noEmpty = true :=
  Lemmas.RootAttach.rootAttachStep_noEmpty tmin tmax cur key h

example : (rootAttachStep 1 5 exT 3).beq exR = true := by decide

/-! ### the whole transformation -/

theorem rootAttach_leaves (t : Tree) : (rootAttach t).leaves.Perm t.leaves :=
  Lemmas.RootAttach.rootAttach_additive Lemmas.RootAttach.additive_leaves t

theorem rootAttach_consLabels (t : Tree) : (consLabels (rootAttach t)).Perm (consLabels t) :=
  Lemmas.RootAttach.rootAttach_additive Lemmas.RootAttach.additive_consLabels t

theorem rootAttach_noEmpty (t : Tree) (h : t.noEmpty = true) : (rootAttach t).noEmpty = true :=
  Lemmas.RootAttach.rootAttach_noEmpty t h

theorem rootAttach_isNode (t : Tree) (h : t.isLeaf = false) : (rootAttach t).isLeaf = false := by
  rw [Lemmas.RootAttach.rootAttach_isLeaf]; exact h

example : exT.isLeaf = false := rfl

theorem rootAttach_WF (t : Tree) (h : WF t = true) : WF (rootAttach t) = true :=
  Lemmas.WF.WF_of_perm t (rootAttach t) h ((rootAttach_leaves t).map num)
    (rootAttach_noEmpty t (Lemmas.WF.WF_noEmpty t h))
    (rootAttach_isNode t ((Lemmas.WF.WF_iff t).1 h).1)

theorem rootAttach_sentence (t : Tree) (h : WF t = true) : sentence (rootAttach t) = sentence t :=
  Lemmas.WF.sentence_of_leaves_perm t (rootAttach t) (rootAttach_leaves t) (Lemmas.WF.WF_nodup t h)

example : sentence (rootAttach exT) = sentence exT := by decide

/-- a child at the sentence start or end stays -/
theorem rootAttachStep_edge (tmin tmax : Nat) (f : Fields) (ks : List Tree) (key : Nat) (c : Tree)
    (hc : ks.find? (fun k => leftmost k == key) = some c) (hedge : leftmost c - 1 < tmin) :
    rootAttachStep tmin tmax (node f ks) key = node f ks := by
  simp only [rootAttachStep, hc, hedge, decide_true, Bool.true_or, if_true]

example : rootAttachStep 1 5 exT 1 = exT :=
  rootAttachStep_edge 1 5 _ _ 1 (leaf 1 { label := "A".toList, uid := some 1 }) (by rfl) (by decide)

/-- the root's fields never change and no root child that is not processed disappears -/
theorem rootAttach_root_fields (t : Tree) : (rootAttach t).fields = t.fields :=
  Lemmas.RootAttach.rootAttach_fields t

/-! ### node identity (uids) -/

/-- the multiset of node signatures (data, kind, number) is unchanged -/
theorem rootAttach_sigs (t : Tree) :
    ((subtrees (rootAttach t)).map Lemmas.RootAttach.sig).Perm ((subtrees t).map Lemmas.RootAttach.sig) :=
  Lemmas.RootAttach.rootAttach_additive Lemmas.RootAttach.additive_sigs t

/-- hardest: with distinct uids, every node whose parent is not the root keeps its parent, and node contents are unchanged -/
theorem rootAttach_content (t : Tree) (hu : uidsOK t = true) : contentKept t (rootAttach t) = true :=
  Lemmas.RootAttach.rootAttach_contentKept t hu

example : contentKept exT (rootAttach exT) = true := by decide

/-- `attachLowest` alone: the parent map of the result is the parent map of the tree plus the entries of `c`
    under its new parent `q` -/
theorem attachLowest_parentMap (c : Tree) (tl tr : Nat) (f : Fields) (ks : List Tree) (h : tl ≠ tr)
    (par : Option Nat) :
    ∃ q, (parentMap par (attachLowest c tl tr (node f ks))).Perm (parentMap par (node f ks) ++ parentMap q c) :=
  Lemmas.RootAttach.attachLowest_parentMap c tl tr h _ rfl par

/-- one step keeps the parent entry of every node that is not a child of the root -/
theorem rootAttachStep_parentMap (tmin tmax : Nat) (cur : Tree) (key : Nat) :
    ∀ e ∈ parentMap none cur, e.2 ≠ cur.fields.uid → e ∈ parentMap none (rootAttachStep tmin tmax cur key) :=
  Lemmas.RootAttach.rootAttachStep_parentMap tmin tmax cur key

/-- (the hypothesis `hwf` is not needed) -/
theorem rootAttach_parents (t : Tree) (hu : uidsOK t = true) (hwf : WF t = true) :
    parentsKept t (rootAttach t) (fun s => parentOfUid t (s.fields.uid.getD 0) == some t.fields.uid) = true :=
  have _ := hwf
  Lemmas.RootAttach.rootAttach_parentsKept t hu

example : parentsKept exT (rootAttach exT)
    (fun s => parentOfUid exT (s.fields.uid.getD 0) == some exT.fields.uid) = true := by decide
/-- the statement is not vacuous on the example: the token 3 (uid 5) is moved below `NP` (uid 2), the tokens
    of `NP` keep their parent -/
example : parentOfUid exT 5 = some (some 0) ∧ parentOfUid (rootAttach exT) 5 = some (some 2) ∧
    parentOfUid exT 3 = some (some 2) ∧ parentOfUid (rootAttach exT) 3 = some (some 2) := by decide

end TT.Props.C12
