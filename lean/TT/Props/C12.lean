/-
  C12 — property theorems (being added; see tools/agent_briefs/C12.md)
-/
import TT.Spec.Transform
namespace TT.Props.C12
open TT TT.Tree TT.Spec

end TT.Props.C12
