/-
  C01Disco2 — wave 16, C01 row 10 for discobrackets: well-formedness of what the discobracket reader yields.

  * `readDisco_WF`       under the hypotheses of `C01Readers.readDisco_spec`, when the token indices of every line are a
                         permutation of 1..n (`IndicesPerm`), every yielded tree is `WFc`; `hperm` necessary (example)
  * `decBr_noEmpty`, `decBrackets_noEmpty`, `decDisco_noEmpty`   the strict one-line decoder never delivers a childless constituent
  * `renumberByWord_noEmpty`, `shapeMap_mapFields`, `mapM_opt_length`   helpers
  NOT done here: `readDisco_opts` (the reader under `disco_reordered` / `gf_split` / `replace_parens`), see the wave report.
-/
import TT.Props.C01Disco
namespace TT.Props.C01Disco2
open TT TT.Tree TT.Spec
open TT.Lemmas.Run TT.Lemmas.ExportRT TT.Lemmas.WF TT.Lemmas.More12h TT.Props.C01Readers

/-! ## the strict one-line bracket decoder never delivers a childless constituent -/

theorem decBr_noEmpty : ∀ (f : Nat),
    (∀ s cnt t rest cnt', decBrNode f s cnt = some (t, rest, cnt') → t.noEmpty = true) ∧
    (∀ s cnt acc ks rest cnt', decBrKids f s cnt acc = some (ks, rest, cnt') → (∀ k ∈ acc, k.noEmpty = true) →
      (∀ k ∈ ks, k.noEmpty = true) ∧ acc.length ≤ ks.length ∧ (s.head? = some '(' → acc.length < ks.length)) := by
  intro f
  induction f with
  | zero => exact ⟨fun s cnt t rest cnt' h => by simp [decBrNode] at h, fun s cnt acc ks rest cnt' h => by simp [decBrKids] at h⟩
  | succ f ih =>
    constructor
    · intro s cnt t rest cnt' h
      cases s with
      | nil => simp [decBrNode] at h
      | cons c r =>
        by_cases hc : c = '('
        · subst hc
          simp only [decBrNode] at h
          split at h
          · split at h
            · simp only [Option.some.injEq, Prod.mk.injEq] at h
              rw [← h.1]; rfl
            · cases h
          · rename_i r2 heq
            cases hk : decBrKids f ('(' :: r2) cnt [] with
            | none => rw [hk] at h; cases h
            | some v =>
              obtain ⟨ks, r', cnt1⟩ := v
              rw [hk] at h
              simp only [Option.some.injEq, Prod.mk.injEq] at h
              rw [← h.1]
              obtain ⟨h1, _, h3⟩ := ih.2 _ _ _ _ _ _ hk (by simp)
              have hlen := h3 rfl
              rw [noEmpty_node]
              refine ⟨?_, h1⟩
              intro e; rw [e] at hlen; simp at hlen
          · cases h
        · exfalso
          unfold decBrNode at h
          split at h
          · cases h
          · rename_i heq; injection heq with h1; exact hc h1
          · cases h
    · intro s cnt acc ks rest cnt' h hacc
      cases s with
      | nil => simp [decBrKids] at h
      | cons c r =>
        by_cases hc1 : c = ')'
        · subst hc1
          simp only [decBrKids, Option.some.injEq, Prod.mk.injEq] at h
          obtain ⟨rfl, _, _⟩ := h
          refine ⟨fun k hk => hacc k (List.mem_reverse.1 hk), by simp, fun h => by simp at h⟩
        · by_cases hc2 : c = '('
          · subst hc2
            simp only [decBrKids] at h
            cases hn : decBrNode f ('(' :: r) cnt with
            | none => rw [hn] at h; cases h
            | some v =>
              obtain ⟨k, r', cnt1⟩ := v
              rw [hn] at h
              have hk := ih.1 _ _ _ _ _ hn
              obtain ⟨h1, h2, _⟩ := ih.2 _ _ _ _ _ _ h (by
                intro x hx
                rcases List.mem_cons.1 hx with rfl | hx
                · exact hk
                · exact hacc x hx)
              simp only [List.length_cons] at h2
              exact ⟨h1, by omega, fun _ => by omega⟩
          · exfalso
            unfold decBrKids at h
            split at h
            · cases h
            · rename_i heq; injection heq with h1; exact hc1 h1
            · rename_i heq; injection heq with h1; exact hc2 h1
            · cases h

theorem decBrackets_noEmpty (s : Str) (t : Tree) (h : decBrackets s = some t) : t.noEmpty = true := by
  obtain ⟨r, c', _, h2⟩ := decBrackets_some s t h
  exact (decBr_noEmpty _).1 _ _ _ _ _ h2

/-- renumbering the tokens keeps the shape -/
theorem renumberByWord_noEmpty (t : Tree) : ∀ t', renumberByWord t = some t' → t'.noEmpty = t.noEmpty := by
  induction t using tree_ind with
  | hl n f =>
    intro t' h
    rw [renumberByWord] at h
    cases hw : f.word.bind strToNat? with
    | none => rw [hw] at h; cases h
    | some k => rw [hw] at h; simp only [Option.map_some, Option.some.injEq] at h; rw [← h]; rfl
  | hn f ks ih =>
    intro t' h
    rw [renumberByWord_node] at h
    cases hl : renumberByWordL ks with
    | none => rw [hl] at h; cases h
    | some ks' =>
      rw [hl] at h
      simp only [Option.map_some, Option.some.injEq] at h
      rw [← h]
      have key : ∀ (ks ks' : List Tree), (∀ k ∈ ks, ∀ t', renumberByWord k = some t' → t'.noEmpty = k.noEmpty) →
          renumberByWordL ks = some ks' → ks'.isEmpty = ks.isEmpty ∧ noEmptyL ks' = noEmptyL ks := by
        intro ks
        induction ks with
        | nil => intro ks' _ h; simp only [renumberByWordL, Option.some.injEq] at h; rw [← h]; exact ⟨rfl, rfl⟩
        | cons k ks ihk =>
          intro ks' hh h
          rw [renumberByWordL] at h
          cases h1 : renumberByWord k with
          | none => rw [h1] at h; cases h
          | some a =>
            cases h2 : renumberByWordL ks with
            | none => rw [h1, h2] at h; cases h
            | some b =>
              rw [h1, h2] at h
              simp only [Option.some.injEq] at h
              rw [← h]
              have := ihk b (fun x hx => hh x (List.mem_cons_of_mem _ hx)) h2
              exact ⟨rfl, by simp only [noEmptyL, hh k List.mem_cons_self a h1, this.2]⟩
      obtain ⟨e1, e2⟩ := key ks ks' ih hl
      simp only [noEmpty, e1, e2]

theorem mapM_opt_length {α β : Type} (f : α → Option β) : ∀ (l : List α) (r : List β), l.mapM f = some r → r.length = l.length
  | [], r, h => by
    simp only [List.mapM_nil, pure, Option.some.injEq] at h
    subst h; rfl
  | a :: l, r, h => by
    rw [List.mapM_cons] at h
    cases h1 : f a with
    | none => simp [h1] at h
    | some b =>
      cases h2 : l.mapM f with
      | none => simp [h1, h2] at h
      | some bs =>
        simp only [h1, h2, Option.bind_eq_bind, Option.bind_some, pure, Option.some.injEq] at h
        subst h
        simp [mapM_opt_length f l bs h2]

theorem shapeMap_mapFields (g : Tree → Fields → Fields) : ShapeMap (mapFields g) where
  leaf n f := ⟨g (leaf n f) f, by simp [mapFields]⟩
  node f ks := ⟨g (node f ks) f, by simp only [mapFields, mapFieldsL_eq]⟩

/-- a decoded discobracket line has no childless constituent -/
theorem decDisco_noEmpty (l : Str) (t : Tree) (h : decDisco l = some t) (hok : DiscoLineOK l = true) : t.noEmpty = true := by
  obtain ⟨r, sent, t0, t1, c', _, hdec, _, _, _, hren, rfl⟩ := (lineFacts_of l t h hok).ex
  rw [(shapeMap_mapFields _).good.noEmpty_eq, renumberByWord_noEmpty t0 t1 hren]
  exact (decBr_noEmpty _).1 _ _ _ _ _ hdec

/-- what the format asks of the token indices of a line for the tree to be a sentence tree: they are 1..n, each once -/
def IndicesPerm (t : Tree) : Bool := sortBy id t.leafNums == List.range' 1 t.leafNums.length

/-- `readDisco_WF` (C01 row 10): under the hypotheses of `readDisco_spec`, when the token indices of every line are a
    permutation of 1..n, every tree the discobracket reader yields is well formed (`WFc`: a one-token line `(NN 1)` is the bare
    token, as for plain brackets).  `DiscoLineOK` alone does not ask this (an index may occur twice or be missing: example). -/
theorem readDisco_WF (o : InOpts) (hg : o.gfSplit = false) (hr : o.replaceParens = false) (hd : o.disco = true)
    (hdr : o.discoReordered = false) (ls : List Str) (ts : List Tree) (h : ls.mapM decDisco = some ts)
    (hok : ∀ l ∈ ls, DiscoLineOK l = true) (hperm : ∀ t ∈ ts, IndicesPerm t = true) :
    ∃ rs, readBrackets o (textOf ls) = .ok rs ∧ rs.length = ls.length ∧ ∀ x ∈ rs, WFc x.2 = true := by
  refine ⟨_, readDisco_spec o hg hr hd hdr ls ts h hok, ?_, ?_⟩
  · simp [mapM_opt_length decDisco ls ts h]
  · intro x hx
    have hx2 : x.2 ∈ ts.map asReadBrackets := (List.of_mem_zip hx).2
    obtain ⟨t, ht, e⟩ := List.mem_map.1 hx2
    rw [← e]
    obtain ⟨l, hl, hdl⟩ := mapM_mem_out decDisco ls ts h t ht
    have hne := decDisco_noEmpty l t hdl (hok l hl)
    have hp := hperm t ht
    unfold IndicesPerm at hp
    cases t with
    | leaf n f =>
      obtain ⟨f', e'⟩ := goodMap_asRead.leaf n f
      rw [e']
      simp only [leafNums_leaf] at hp
      simpa [WFc, sortBy, insertBy] using hp
    | node f ks =>
      have hwf : WF (node f ks) = true := by
        unfold WF
        simp only [isLeaf, hne, hp, Bool.not_false, Bool.true_and, Bool.not_eq_true']
        have := noEmpty_leafNums_ne_nil _ hne
        cases hl : (node f ks).leafNums with
        | nil => exact absurd hl this
        | cons a b => rfl
      have := goodMap_WF goodMap_asRead _ hwf
      obtain ⟨f', ks', e', _⟩ := goodMap_asRead.node f ks
      rw [e'] at this ⊢
      exact this

/-- `exDisco` (C01Readers): a discontinuous line and a second line -/
example : ∃ rs, readBrackets { disco := true } (textOf exDisco) = .ok rs ∧ rs.length = exDisco.length ∧ ∀ x ∈ rs, WFc x.2 = true :=
 by
  have hs : (exDisco.mapM decDisco).isSome = true := by decide +kernel
  obtain ⟨ts, hts⟩ := Option.isSome_iff_exists.1 hs
  refine readDisco_WF { disco := true } rfl rfl rfl rfl exDisco ts hts (by decide +kernel) ?_
  have hall : ((exDisco.mapM decDisco).getD []).all IndicesPerm = true := by decide +kernel
  rw [hts] at hall
  simpa using hall

/-- `hperm` cannot be dropped: `DiscoLineOK` accepts a line that uses index 1 twice and never index 2; the reader yields a tree
    that is not well formed -/
example : (["(S(A 1)(B 1))\tx y".toList].all DiscoLineOK = true) ∧
    ((readBrackets { disco := true } (textOf ["(S(A 1)(B 1))\tx y".toList])).toOption.map fun rs => rs.map fun x => WFc x.2) = some [false] := by
  decide +kernel

end TT.Props.C01Disco2

