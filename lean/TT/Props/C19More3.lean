/-
  C19, clauses 4 (dominance), 6 (levels) and 7 (export numbering), wave 16: the checks of the implementation's `dominance`,
  `levels` and export-number answers, which so far existed (wholly or in part) only as inline code of the driver
  (`P.C19.dominance`, `P.C19.levels`, the token part and the selection of rows of `P.C19.numbering`), as NAMED
  specification predicates `Spec.dominanceOK`, `Spec.levelsOK`, `Spec.exportNumsOK` (TT/Spec/More16d.lean) — and the
  theorems that they hold of the model's own answers.
-/
import TT.Spec.More16d
import TT.Props.C19
namespace TT.Props.C19More3
open TT TT.Tree TT.Spec TT.Lemmas.Nav

/-! ### dominance -/

/-- the model's table of answers: for every node, in the order of `paths`, its dominance path -/
def dominanceTable (t : Tree) : List (Path × List Path) := (paths t).map fun p => (p, dominancePaths p)

/-- a list whose every next entry is `f` of the one before passes the pairwise check on `zip l (drop 1 l)` -/
theorem chain_of_getElem {α} [BEq α] [LawfulBEq α] (f : α → α) (l : List α)
    (h : ∀ i, i + 1 < l.length → l[i + 1]? = (l[i]?).map f) :
    ((l.zip (l.drop 1)).all fun (a, b) => b == f a) = true := by
  rw [List.all_eq_true]
  rintro ⟨a, b⟩ hab
  obtain ⟨i, hi⟩ := List.getElem?_of_mem hab
  rw [List.getElem?_zip_eq_some] at hi
  obtain ⟨h1, h2⟩ := hi
  simp only [List.getElem?_drop] at h2
  have hlt : i + 1 < l.length := by
    have := (List.getElem?_eq_some_iff.1 h2).1
    omega
  have := h i hlt
  rw [Nat.add_comm 1 i] at h2
  rw [h1, h2] at this
  simp only [Option.map_some, Option.some.injEq] at this
  simp [this]

/-- one answer of the model -/
theorem domPathOK_model (p : Path) : domPathOK p (dominancePaths p) = true := by
  obtain ⟨h1, h2, h3, h4⟩ := TT.Props.C19.dominance_shape p
  unfold domPathOK
  rw [h1, h2, h3, chain_of_getElem List.dropLast _ h4]
  simp

/-- MAIN: the predicate that judges the implementation's `dominance` answers holds of the model's answers, for every
    tree (no hypothesis) -/
theorem dominanceOK_model (t : Tree) : dominanceOK t (dominanceTable t) = true := by
  unfold dominanceOK dominanceTable
  simp only [Bool.and_eq_true, beq_iff_eq, List.all_eq_true, List.map_map]
  refine ⟨by simp [Function.comp_def], ?_⟩
  intro row hrow
  obtain ⟨p, _, rfl⟩ := List.mem_map.1 hrow
  exact domPathOK_model p

/-- what the predicate says, read off an answer that passes: the `i`-th entry is the address cut to its first `|p| - i`
    steps, i.e. the answer IS the list of all ancestors, nearest first -/
theorem domPathOK_getElem (p : Path) (dom : List Path) (h : domPathOK p dom = true) :
    ∀ i, i ≤ p.length → dom[i]? = some (p.take (p.length - i)) := by
  unfold domPathOK at h
  simp only [Bool.and_eq_true, beq_iff_eq, List.all_eq_true] at h
  obtain ⟨⟨⟨hh, _⟩, hl⟩, hc⟩ := h
  intro i
  induction i with
  | zero => intro _; rw [← List.head?_eq_getElem?, hh]; simp
  | succ i ih =>
    intro hi
    have hi' := ih (by omega)
    have hb : (dom.drop 1)[i]? = some (dom[i + 1]'(by omega)) := by
      rw [List.getElem?_drop, Nat.add_comm 1 i]; exact List.getElem?_eq_getElem _
    have hm : (p.take (p.length - i), dom[i + 1]'(by omega)) ∈ dom.zip (dom.drop 1) :=
      List.mem_of_getElem? (List.getElem?_zip_eq_some.2 ⟨hi', hb⟩)
    have := hc _ hm
    simp only at this
    rw [List.getElem?_eq_getElem (by omega), this, List.dropLast_eq_take, List.take_take, List.length_take]
    congr 2
    omega

/-- a table that passes is the model's table: the predicate pins the answers completely -/
theorem dominanceOK_unique (t : Tree) (tbl : List (Path × List Path)) (h : dominanceOK t tbl = true) :
    tbl = dominanceTable t := by
  unfold dominanceOK at h
  simp only [Bool.and_eq_true, beq_iff_eq, List.all_eq_true] at h
  obtain ⟨hps, hall⟩ := h
  unfold dominanceTable
  rw [← hps, List.map_map]
  symm
  conv => rhs; rw [← List.map_id tbl]
  apply List.map_congr_left
  rintro ⟨p, dom⟩ hrow
  have hd := hall _ hrow
  simp only [Function.comp_apply, id, Prod.mk.injEq, true_and]
  have hlen : dom.length = p.length + 1 := by
    have := hd; unfold domPathOK at this
    simp only [Bool.and_eq_true, beq_iff_eq] at this
    exact this.1.2
  apply List.ext_getElem?
  intro i
  by_cases hi : i ≤ p.length
  · rw [domPathOK_getElem p dom hd i hi, domPathOK_getElem p _ (domPathOK_model p) i hi]
  · rw [List.getElem?_eq_none (by rw [TT.Props.C19.dominance_shape p |>.2.2.1]; omega),
      List.getElem?_eq_none (by omega)]

/-! ### levels -/

/-- the model's table of answers: the constituents in the order `levels` meets them (preorder), each with its level -/
def levelsTable (t : Tree) : List (Path × Nat) := (constituentsPre t).map fun x => (x.1, x.2.1)

theorem consAt_eq (t : Tree) : consAt t = isCons t := rfl

theorem levelsTable_map_fst (t : Tree) : (levelsTable t).map (·.1) = (preorderP t).filter (isCons t) := by
  rw [← constituentsPre_map_fst]; simp [levelsTable]

/-- MAIN: the predicate that judges the implementation's `levels` answers holds of the model's answers, for every tree
    without childless constituents (every well-formed tree) -/
theorem levelsOK_model (t : Tree) (h : t.noEmpty = true) : levelsOK t (levelsTable t) = true := by
  unfold levelsOK
  simp only [Bool.and_eq_true, beq_iff_eq, List.all_eq_true, consAt_eq, levelsTable_map_fst]
  have hperm := (preorderP_perm_paths t).filter (isCons t)
  refine ⟨⟨?_, ?_⟩, ?_⟩
  · rw [← hperm.length_eq, ← levelsTable_map_fst, List.length_map]
  · intro p hp
    rw [List.contains_iff_mem]
    exact hperm.symm.subset hp
  · intro row hrow
    obtain ⟨x, hx, rfl⟩ := List.mem_map.1 hrow
    obtain ⟨s, hg, _, hh, _⟩ := constituentsPre_entry t x hx
    simp only [hg, Option.map_some, Option.some.injEq, hh]
    exact (TT.Props.C19.height_longest s (noEmpty_get? x.1 t s h hg)).symm

/-- every well-formed tree -/
theorem levelsOK_WF (t : Tree) (h : WF t = true) : levelsOK t (levelsTable t) = true :=
  levelsOK_model t (WF_root t h).2

/-! ### export numbering: the whole table of answers -/

/-- the model's table of answers: for every node, in the order of `paths`, its number in the export format -/
def exportNumTable (t : Tree) : List (Path × Option Nat) := (paths t).map fun p => (p, exportNum t p)

theorem all_perm {α} (f : α → Bool) {l l' : List α} (h : l.Perm l') : l.all f = l'.all f := by
  rw [Bool.eq_iff_iff, List.all_eq_true, List.all_eq_true]
  exact ⟨fun H x hx => H x (h.mem_iff.2 hx), fun H x hx => H x (h.mem_iff.1 hx)⟩

/-- `numberingOK` does not look at the order of the rows -/
theorem numberingOK_of_perm (t : Tree) (nums nums' : List (Path × Nat)) (h : nums.Perm nums')
    (hok : numberingOK t nums = true) : numberingOK t nums' = true := by
  unfold numberingOK at hok ⊢
  simp only [Bool.and_eq_true] at hok ⊢
  obtain ⟨⟨⟨⟨⟨h1, h2⟩, h3⟩, h4⟩, h5⟩, h6⟩ := hok
  have hfst : ∀ p, (nums'.map (·.1)).contains p = (nums.map (·.1)).contains p :=
    fun p => ((h.map (·.1)).contains_eq).symm
  refine ⟨⟨⟨⟨⟨by rw [← h.length_eq]; exact h1, ?_⟩, ?_⟩, ?_⟩, ?_⟩, ?_⟩
  · simp only [hfst]; exact h2
  · rw [beq_iff_eq] at h3 ⊢
    have hnd : ((nums.map (·.2)).map id).Nodup := by
      rw [List.map_id]
      refine ((TT.sortBy_perm id (nums.map (·.2))).nodup_iff).1 ?_
      rw [h3]
      split
      · exact List.nodup_nil
      · refine List.nodup_cons.2 ⟨?_, List.nodup_range'⟩
        intro hm; have := List.mem_range'_1.1 hm; omega
    rw [← TT.sortBy_perm_eq id _ _ (h.map (·.2)) hnd, h3, h.isEmpty_eq, h.length_eq]
  · rw [← all_perm _ h]; exact h4
  · rw [← all_perm _ h]
    rw [List.all_eq_true] at h5 ⊢
    intro x hx
    rw [← all_perm _ h]; exact h5 x hx
  · rw [← all_perm _ h]
    rw [List.all_eq_true] at h6 ⊢
    intro x hx
    rw [← all_perm _ h]; exact h6 x hx

theorem find_key_of_mem_nodup {α β} [DecidableEq α] : ∀ (l : List (α × β)) (a : α) (b : β), (l.map (·.1)).Nodup →
    (a, b) ∈ l → l.find? (fun x => decide (x.1 = a)) = some (a, b)
  | [], _, _, _, h => by cases h
  | (a', b') :: r, a, b, hn, h => by
    rw [List.map_cons, List.nodup_cons] at hn
    rw [List.find?_cons]
    rcases List.mem_cons.1 h with h | h
    · cases h; simp
    · have hne : a' ≠ a := by
        rintro rfl
        exact hn.1 (List.mem_map.2 ⟨_, h, rfl⟩)
      simp only [hne, decide_false]
      exact find_key_of_mem_nodup r a b hn.2 h

/-- the number the model answers for a constituent with children is its entry in `exportNumbering` -/
theorem exportNum_of_isCons (t : Tree) (p : Path) (h : isCons t p = true) :
    exportNum t p = ((exportNumbering t).find? (fun x => decide (x.1 = p))).map (·.2) := by
  unfold isCons at h
  unfold exportNum
  split at h <;> simp_all

/-- the constituent rows of the model's table, as `numberingOK` wants them -/
def consRow (t : Tree) (p : Path) : Option (Path × Nat) :=
  if consAt t p then (exportNum t p).map fun k => (p, k) else none

theorem consRow_some (t : Tree) (p : Path) (x : Path × Nat) (h : consRow t p = some x) :
    x.1 = p ∧ x ∈ exportNumbering t := by
  unfold consRow at h
  by_cases hc : consAt t p = true
  · rw [if_pos hc, exportNum_of_isCons t p hc] at h
    simp only [Option.map_map, Option.map_eq_some_iff, Function.comp_apply] at h
    obtain ⟨y, hy, rfl⟩ := h
    have h1 := List.find?_some hy
    simp only [decide_eq_true_eq] at h1
    have h2 := List.mem_of_find?_eq_some hy
    refine ⟨rfl, ?_⟩
    rw [← h1]; exact h2
  · rw [if_neg hc] at h; cases h

theorem consRow_of_mem (t : Tree) (x : Path × Nat) (h : x ∈ exportNumbering t) :
    x.1 ∈ paths t ∧ consRow t x.1 = some x := by
  have hm : x.1 ∈ TT.Props.C19.constituents t :=
    (TT.Props.C19.numbering_paths_perm t).subset (List.mem_map.2 ⟨x, h, rfl⟩)
  obtain ⟨hp, hc⟩ := List.mem_filter.1 hm
  refine ⟨hp, ?_⟩
  unfold consRow
  rw [if_pos (show consAt t x.1 = true from hc), exportNum_of_isCons t x.1 hc,
    find_key_of_mem_nodup _ x.1 x.2 (TT.Props.C19.numbering_paths_nodup t) h]
  rfl

theorem filterMap_map_fst {α β} (g : α → Option (α × β)) (hg : ∀ a x, g a = some x → x.1 = a) : ∀ l : List α,
    (l.filterMap g).map (·.1) = l.filter fun a => (g a).isSome
  | [] => rfl
  | a :: l => by
    rw [List.filterMap_cons, List.filter_cons]
    cases h : g a with
    | none => simpa using filterMap_map_fst g hg l
    | some x => simp [hg a x h, filterMap_map_fst g hg l]

theorem nodup_of_map {α β} (f : α → β) (l : List α) (h : (l.map f).Nodup) : l.Nodup := by
  rw [List.Nodup, List.pairwise_map] at h
  exact h.imp fun hne he => hne (congrArg f he)

theorem consRows_perm (t : Tree) : ((paths t).filterMap (consRow t)).Perm (exportNumbering t) := by
  refine (List.perm_ext_iff_of_nodup ?_ (nodup_of_map (·.1) _ (TT.Props.C19.numbering_paths_nodup t))).2 ?_
  · apply nodup_of_map (·.1)
    rw [filterMap_map_fst _ (fun a x h => (consRow_some t a x h).1)]
    exact (paths_nodup t).filter _
  · intro x
    rw [List.mem_filterMap]
    constructor
    · rintro ⟨p, _, hx⟩; exact (consRow_some t p x hx).2
    · intro hx; exact ⟨x.1, consRow_of_mem t x hx⟩

/-- MAIN: the predicate that judges the implementation's answers for the export number of EVERY node (tokens and
    constituents) holds of the model's answers, for every well-formed tree -/
theorem exportNumsOK_model (t : Tree) (h : WF t = true) : exportNumsOK t (exportNumTable t) = true := by
  unfold exportNumsOK exportNumTable
  simp only [Bool.and_eq_true, beq_iff_eq, List.all_eq_true, List.map_map, List.filterMap_map]
  refine ⟨⟨by simp [Function.comp_def], ?_⟩, ?_⟩
  · intro row hrow
    obtain ⟨p, _, rfl⟩ := List.mem_map.1 hrow
    simp only
    split
    · rename_i k f hg; simp [exportNum, hg]
    · rfl
  · exact numberingOK_of_perm t _ _ (consRows_perm t).symm (TT.Props.C19.numbering_ok t h)

/-! ### concrete instances -/

/-- a discontinuous tree of three levels whose children are stored out of order:
    `(S (VP (NP (A 1) (C 3)) (D 4)) (B 2))` stored as `S[B 2, VP[D 4, NP[A 1, C 3]]]` -/
def exT : Tree := node { label := "S".toList }
  [leaf 2 { label := "B".toList },
   node { label := "VP".toList } [leaf 4 { label := "D".toList },
     node { label := "NP".toList } [leaf 1 { label := "A".toList }, leaf 3 { label := "C".toList }]]]

example : WF exT = true := by decide +kernel
example : dominanceTable exT =
    [([], [[]]), ([0], [[0], []]), ([1], [[1], []]), ([1, 0], [[1, 0], [1], []]), ([1, 1], [[1, 1], [1], []]),
     ([1, 1, 0], [[1, 1, 0], [1, 1], [1], []]), ([1, 1, 1], [[1, 1, 1], [1, 1], [1], []])] := by
  decide +kernel
example : dominanceOK exT (dominanceTable exT) = true := dominanceOK_model exT
/-- the predicate is not vacuous: an answer without the node itself, one with the root twice, one that skips a
    generation, a table that lacks a row -/
example : dominanceOK exT ((dominanceTable exT).map fun (p, dom) => (p, dom.drop 1)) = false := by decide +kernel
example : dominanceOK exT ((dominanceTable exT).map fun (p, dom) => (p, dom ++ [[]])) = false := by decide +kernel
example : dominanceOK exT
    [([], [[]]), ([0], [[0], []]), ([1], [[1], []]), ([1, 0], [[1, 0], [1], []]), ([1, 1], [[1, 1], [1], []]),
     ([1, 1, 0], [[1, 1, 0], [1], [], []]), ([1, 1, 1], [[1, 1, 1], [1, 1], [1], []])] = false := by
  decide +kernel
example : dominanceOK exT ((dominanceTable exT).drop 1) = false := by decide +kernel

example : exT.noEmpty = true ∧ levelsTable exT = [([], 3), ([1], 2), ([1, 1], 1)] := by decide +kernel
example : levelsOK exT (levelsTable exT) = true := levelsOK_model exT (by decide +kernel)
/-- the order of the rows does not matter -/
example : levelsOK exT [([1, 1], 1), ([], 3), ([1], 2)] = true := by decide +kernel
/-- the predicate is not vacuous: a wrong level, the same constituent twice with another one missing (the inline check of
    the driver accepted that), a token listed as a constituent, a missing row -/
example : levelsOK exT [([], 3), ([1], 1), ([1, 1], 1)] = false := by decide +kernel
example : levelsOK exT [([], 3), ([1], 2), ([1], 2)] = false := by decide +kernel
example : levelsOK exT [([], 3), ([1], 2), ([0], 0)] = false := by decide +kernel
example : levelsOK exT [([], 3), ([1], 2)] = false := by decide +kernel
/-- `noEmpty` cannot be dropped: over a childless constituent the model's level (the height, which counts the childless
    constituent as one step) is not the length of a way down to a token -/
def bad : Tree := node { label := "S".toList } [node { label := "A".toList } [], leaf 1 { label := "x".toList }]
example : bad.noEmpty = false ∧ levelsTable bad = [([], 2)] ∧ longestDown bad = 1 ∧
    levelsOK bad (levelsTable bad) = false := by decide +kernel


example : exportNumTable exT = [([], some 0), ([0], some 2), ([1], some 501), ([1, 0], some 4), ([1, 1], some 500),
    ([1, 1, 0], some 1), ([1, 1, 1], some 3)] := by decide +kernel
example : exportNumsOK exT (exportNumTable exT) = true := exportNumsOK_model exT (by decide +kernel)
/-- the predicate is not vacuous: the two constituents' numbers exchanged, a token's number changed, a constituent
    without a number -/
example : exportNumsOK exT [([], some 0), ([0], some 2), ([1], some 500), ([1, 0], some 4), ([1, 1], some 501),
    ([1, 1, 0], some 1), ([1, 1, 1], some 3)] = false := by decide +kernel
example : exportNumsOK exT [([], some 0), ([0], some 3), ([1], some 501), ([1, 0], some 4), ([1, 1], some 500),
    ([1, 1, 0], some 1), ([1, 1, 1], some 3)] = false := by decide +kernel
example : exportNumsOK exT [([], some 0), ([0], some 2), ([1], none), ([1, 0], some 4), ([1, 1], some 500),
    ([1, 1, 0], some 1), ([1, 1, 1], some 3)] = false := by decide +kernel
/-- well-formedness cannot be dropped: over a childless constituent the model's level of `A` is 2, its longest way down
    to a token 1 as for `C`; the model numbers `C` before `A`, the predicate wants `A` (leftmost token 1) first -/
def bad4 : Tree := node { label := "S".toList }
  [node { label := "A".toList } [node { label := "B".toList } [], leaf 1 {}], node { label := "C".toList } [leaf 2 {}]]
example : WF bad4 = false ∧ exportNumsOK bad4 (exportNumTable bad4) = false := by decide +kernel

end TT.Props.C19More3
