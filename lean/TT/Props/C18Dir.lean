/-
  C18 / C03 — directory sources (`TT.runDirCmd`, the `os.path.isdir` branch of `transform.run`): what is written for a
  file of the directory depends on that file and on the words of the command line only - not on the other files of the
  directory, not on their number, not on the order of the listing; a directory is the same as running the command on
  every file.  (The state a PROCESS carries from file to file - the scratch file of `misc.gunzip`, the node-id counter,
  caches - is not in the model; that it has no effect is what the correspondence check observes on directories of
  several plain and compressed files.)
-/
import TT.RunDir
namespace TT.Props.C18Dir
open TT

variable (names pwords : List Str) (fmt : DestFmt) (dwords : List Str) (enc : Option Str) (swords : List Str)

/-- what the directory run writes for ONE file: `name.dest` with the text of the single-file command, if that succeeds -/
def conv (f : Str × Source) : Option (Str × Str) :=
  match runCmd names pwords fmt dwords enc swords f.2 with
  | some (.ok o) => some (f.1 ++ ".dest".toList, o)
  | _ => none

/-- a directory run ends without error with the files `res` iff `res` is, file by file in listing order, what the
    single-file command writes -/
theorem runDirCmd_ok_iff (files : List (Str × Source)) (res : List (Str × Str)) :
    runDirCmd names pwords fmt dwords enc swords files = some (res, none)
      ↔ files.map (conv names pwords fmt dwords enc swords) = res.map some := by
  induction files generalizing res with
  | nil => cases res <;> simp [runDirCmd]
  | cons f fs ih =>
    obtain ⟨n, s⟩ := f
    simp only [runDirCmd, List.map_cons, conv]
    cases hrun : runCmd names pwords fmt dwords enc swords s with
    | none => cases res <;> simp
    | some r =>
      cases r with
      | error e => cases res <;> simp
      | ok out =>
        cases hrest : runDirCmd names pwords fmt dwords enc swords fs with
        | none =>
          cases res with
          | nil => simp
          | cons r rs =>
            have : ¬ List.map (conv names pwords fmt dwords enc swords) fs = List.map some rs :=
              fun h => by have := (ih rs).mpr h; simp [hrest] at this
            simp; intro _; exact this
        | some q =>
          obtain ⟨outs, e⟩ := q
          cases res with
          | nil => simp
          | cons r rs =>
            simp only [Option.some.injEq, Prod.mk.injEq, List.cons.injEq, List.map_cons]
            constructor
            · rintro ⟨⟨rfl, rfl⟩, rfl⟩
              exact ⟨rfl, (ih outs).mp hrest⟩
            · rintro ⟨rfl, h⟩
              have := (ih rs).mpr h
              rw [hrest] at this
              simp only [Option.some.injEq, Prod.mk.injEq] at this
              exact ⟨⟨rfl, this.1⟩, this.2⟩

/-- every file converts: the directory run writes, for every file in listing order, `name.dest` with exactly the text the
    single-file command writes for that file -/
theorem runDirCmd_all_ok (files : List (Str × Source)) (outs : List Str)
    (h : files.map (fun f => runCmd names pwords fmt dwords enc swords f.2) = outs.map (fun o => some (.ok o))) :
    runDirCmd names pwords fmt dwords enc swords files
      = some ((files.map (fun f => f.1 ++ ".dest".toList)).zip outs, none) := by
  induction files generalizing outs with
  | nil => cases outs <;> simp_all [runDirCmd]
  | cons f fs ih =>
    obtain ⟨n, s⟩ := f
    cases outs with
    | nil => simp at h
    | cons o os =>
      simp only [List.map_cons, List.cons.injEq] at h
      simp [runDirCmd, h.1, ih os h.2]

/-- locality: what is written for the files BEFORE a file does not depend on it or on anything after it -/
theorem runDirCmd_append (a b : List (Str × Source)) (ra : List (Str × Str))
    (h : runDirCmd names pwords fmt dwords enc swords a = some (ra, none)) :
    runDirCmd names pwords fmt dwords enc swords (a ++ b)
      = (runDirCmd names pwords fmt dwords enc swords b).map fun r => (ra ++ r.1, r.2) := by
  induction a generalizing ra with
  | nil =>
    simp [runDirCmd] at h; subst h
    cases hb : runDirCmd names pwords fmt dwords enc swords b <;> simp [hb]
  | cons f fs ih =>
    obtain ⟨n, s⟩ := f
    simp only [runDirCmd] at h
    split at h
    · simp at h
    · simp at h
    · rename_i out hrun
      split at h
      · simp at h
      · rename_i outs e hrest
        simp only [Option.some.injEq, Prod.mk.injEq] at h
        obtain ⟨h1, h2⟩ := h
        subst h2; subst h1
        simp only [List.cons_append, runDirCmd, hrun, ih outs hrest]
        cases runDirCmd names pwords fmt dwords enc swords b <;> simp

/-- the first failing file ends the command with its error; the files before it are written as if they were alone -/
theorem runDirCmd_first_error (a b : List (Str × Source)) (n : Str) (s : Source) (e : Err) (ra : List (Str × Str))
    (ha : runDirCmd names pwords fmt dwords enc swords a = some (ra, none))
    (hs : runCmd names pwords fmt dwords enc swords s = some (.error e)) :
    runDirCmd names pwords fmt dwords enc swords (a ++ (n, s) :: b) = some (ra, some e) := by
  rw [runDirCmd_append _ _ _ _ _ _ a _ ra ha]
  simp [runDirCmd, hs]

/-- order of the listing: when every file converts, listing the files in another order writes the same files -/
theorem runDirCmd_perm (f1 f2 : List (Str × Source)) (r1 r2 : List (Str × Str)) (hp : f1.Perm f2)
    (h1 : runDirCmd names pwords fmt dwords enc swords f1 = some (r1, none))
    (h2 : runDirCmd names pwords fmt dwords enc swords f2 = some (r2, none)) : r1.Perm r2 := by
  have e1 := (runDirCmd_ok_iff _ _ _ _ _ _ f1 r1).mp h1
  have e2 := (runDirCmd_ok_iff _ _ _ _ _ _ f2 r2).mp h2
  have hp' := (hp.map (conv names pwords fmt dwords enc swords)).filterMap id
  rw [e1, e2] at hp'
  simpa [List.filterMap_map] using hp'

/-- one file does not see the others: if a directory run succeeds, so does the run on any single file of it, with the
    same text -/
theorem runDirCmd_file_alone (files : List (Str × Source)) (res : List (Str × Str)) (f : Str × Source)
    (h : runDirCmd names pwords fmt dwords enc swords files = some (res, none)) (hf : f ∈ files) :
    ∃ o, runCmd names pwords fmt dwords enc swords f.2 = some (.ok o) ∧ (f.1 ++ ".dest".toList, o) ∈ res := by
  have e := (runDirCmd_ok_iff _ _ _ _ _ _ files res).mp h
  have : conv names pwords fmt dwords enc swords f ∈ res.map some := e ▸ List.mem_map_of_mem hf
  obtain ⟨r, hr, hc⟩ := List.mem_map.mp this
  unfold conv at hc
  split at hc
  · rename_i o ho
    exact ⟨o, ho, by simp at hc; exact hc ▸ hr⟩
  · simp at hc

/-- `--split` refuses a directory whatever it contains -/
theorem runDirSplitCmd_refused (files : List (Str × Source)) : runDirSplitCmd files = .error .valueError := rfl

end TT.Props.C18Dir

namespace TT.Props.C18Dir
open TT
/-- illustration (compiled evaluation, proves nothing): a directory of two bracket files, the second with two sentences;
    two `.dest` files, no error; with an unreadable second file the first is written and the error reported -/
def exDir : List (Str × Source) :=
  [("a".toList, .brackets "(S (N a)(V b))".toList), ("b".toList, .brackets "(S (N c))(S (V d)(N e))".toList)]
#guard (runDirCmd [] [] .brackets [] none [] exDir).map (fun r => (r.1.map (·.1), r.2))
        == some (["a.dest".toList, "b.dest".toList], none)
#guard (runDirCmd [] [] .brackets [] none [] (exDir.take 1 ++ [("c".toList, .brackets "(S (N c)".toList)])).map (fun r => (r.1.map (·.1), r.2))
        == some (["a.dest".toList], some .valueError)
end TT.Props.C18Dir
