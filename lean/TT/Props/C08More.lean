/-
  C08More — "plus its occurrences as a tree root": start symbols of an extracted grammar are rewritten
  exactly as often as they label a tree root; LoPar's start file lists them with that number.
  Helper lemmas: TT/Lemmas/More8.lean.
-/
import TT.Spec.Grammar
import TT.Lemmas.More8
import TT.Props.C06
import TT.Props.C09
namespace TT.Props.C08More
open TT TT.Tree TT.Spec TT.Lemmas.More8

/-- general form, without any hypothesis on the symbol: in the grammar of a treebank every symbol is
    rewritten at least as often as it labels a tree root and at most that often plus its (count-weighted)
    occurrences on right-hand sides -/
theorem lhsMass_bounds (ts : List Tree) (h : ∀ t ∈ ts, t.noEmpty = true) (s : Str) :
    (ts.filter fun t => !t.isLeaf && t.fields.label == s).length ≤ lhsMass (extractAll ts).1 s ∧
    lhsMass (extractAll ts).1 s ≤
      (ts.filter fun t => !t.isLeaf && t.fields.label == s).length + rhsMass (extractAll ts).1 s := by
  obtain ⟨h1, h2⟩ := extractAll_mass s ts
  rw [h1, h2, ← sum_rootHit]
  exact ⟨sum_le_sum _ _ ts (fun t ht => rootHit_le_events s t [] (h t ht)),
    sum_le_sum_add _ _ _ ts (fun t ht => events_lhs_le s t [] (h t ht))⟩

/-- "plus its occurrences as a tree root": in the grammar of a treebank, a symbol that never occurs on a right-hand side is rewritten exactly as often as it
    labels a tree root (every other node with that label is somebody's child) -/
theorem start_mass_roots (ts : List Tree) (h : ∀ t ∈ ts, t.noEmpty = true) (s : Str)
    (hs : s ∉ ((extractAll ts).1.flatMap fun (f, _) => f.drop 1)) :
    lhsMass (extractAll ts).1 s = (ts.filter fun t => !t.isLeaf && t.fields.label == s).length := by
  obtain ⟨h1, h2⟩ := lhsMass_bounds ts h s
  rw [rhsMass_eq_zero _ s hs] at h2
  omega

/-- the same without the blank-freeness hypothesis on `s`: the count in a line of the start file is
    blank-free, so the line splits in one way only -/
theorem lopar_start_roots' (ts : List Tree) (lex : Lexicon) (files : LoparFiles) (h : ∀ t ∈ ts, t.noEmpty = true)
    (hw : writeLopar (extractAll ts).1 lex = .ok files) (s : Str) (c : Nat)
    (hm : (s ++ [' '] ++ natToStr c) ∈ files.start) :
    c = (ts.filter fun t => !t.isLeaf && t.fields.label == s).length ∧
    s ∉ ((extractAll ts).1.flatMap fun (f, _) => f.drop 1) := by
  rw [TT.Props.C09.lopar_start _ lex files hw] at hm
  obtain ⟨s', hs', he⟩ := List.mem_map.1 hm
  obtain ⟨rfl, hc⟩ := append_sp_inj s' s _ _ (natToStr_no_blank _) (natToStr_no_blank _) he
  have hnot : s' ∉ ((extractAll ts).1.flatMap fun (f, _) => f.drop 1) := by
    have := (List.mem_filter.1 hs').2
    simpa using this
  refine ⟨?_, hnot⟩
  rw [← start_mass_roots ts h s' hnot]
  exact (TT.Lemmas.GramOut.natToStr_inj hc).symm

set_option linter.unusedVariables false in
/-- (`hs` is not needed: `lopar_start_roots'`) hence LoPar's start file lists the root labels that are no child labels, each with the number of trees it roots -/
theorem lopar_start_roots (ts : List Tree) (lex : Lexicon) (files : LoparFiles) (h : ∀ t ∈ ts, t.noEmpty = true)
    (hw : writeLopar (extractAll ts).1 lex = .ok files) (s : Str) (c : Nat)
    (hm : (s ++ [' '] ++ natToStr c) ∈ files.start) (hs : ' ' ∉ s) : c = (ts.filter fun t => !t.isLeaf && t.fields.label == s).length :=
  (lopar_start_roots' ts lex files h hw s c hm).1

/-! ### concrete instances -/

/-- a continuous treebank: two sentences rooted in `S`, one rooted in `VP` that has an `S` below, a bare token -/
def exA : Tree :=
  node { label := "S".toList }
    [node { label := "NP".toList } [leaf 1 { label := "N".toList, word := some "he".toList }],
     node { label := "VP".toList } [leaf 2 { label := "V".toList, word := some "sleeps".toList }]]
def exB : Tree :=
  node { label := "TOP".toList }
    [leaf 1 { label := "V".toList, word := some "look".toList },
     node { label := "S".toList } [leaf 2 { label := "N".toList, word := some "rain".toList }]]
def exC : Tree := leaf 1 { label := "TOP".toList, word := some "oh".toList }
def exTs : List Tree := [exA, exB, exC, exA, TT.Props.C06.exT]

example : ∀ t ∈ exTs, t.noEmpty = true := by decide
/-- `TOP` is on no right-hand side and roots one tree (the bare token `exC` does not count) ... -/
example : "TOP".toList ∉ ((extractAll exTs).1.flatMap fun (f, _) => f.drop 1) := by decide
example : lhsMass (extractAll exTs).1 "TOP".toList = 1 ∧
    (exTs.filter fun t => !t.isLeaf && t.fields.label == "TOP".toList).length = 1 := by decide
/-- ... while `S` roots three trees, is rewritten four times and occurs once on a right-hand side:
    the hypothesis on `s` cannot be dropped, the bounds of `lhsMass_bounds` are attained -/
example : lhsMass (extractAll exTs).1 "S".toList = 4 ∧ rhsMass (extractAll exTs).1 "S".toList = 1 ∧
    (exTs.filter fun t => !t.isLeaf && t.fields.label == "S".toList).length = 3 := by decide
/-- the start file of the continuous part -/
example : (match writeLopar (extractAll [exA, exB, exC, exA]).1 [] with
    | .ok f => f.start == ["TOP 1".toList] | .error _ => false) = true := by decide
example : (match writeLopar (extractAll [exA, exC, exA]).1 [] with
    | .ok f => f.start == ["S 2".toList] | .error _ => false) = true := by decide

end TT.Props.C08More
