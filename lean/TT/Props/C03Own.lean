/-
  C03 (own round trip, bracket format) — the tool's own bracket reader accepts, with identical content, what its own
  bracket writer produced.  Route: `readBrackets_eq_spec` (C01) reduces the reader to the specification grammar
  `specBrackets`; `TT.Lemmas.OwnRT.spOK` runs that grammar on the writer's text (analogue of `TT.Lemmas.Write.decOK`).
-/
import TT.Spec.Formats
import TT.IO.Read
import TT.Props.C01
import TT.Props.C02
import TT.Lemmas.OwnRT
namespace TT.Props.C03Own
open TT TT.Tree TT.Spec
open TT.Lemmas.OwnRT TT.Lemmas.WF

/-- equality of writer results is decidable (used by the concrete instances below only) -/
local instance instDecEqExcept {ε α} [DecidableEq ε] [DecidableEq α] : DecidableEq (Except ε α)
  | .ok a, .ok b => decidable_of_iff (a = b) (by simp)
  | .error a, .error b => decidable_of_iff (a = b) (by simp)
  | .ok _, .error _ => isFalse (by simp)
  | .error _, .ok _ => isFalse (by simp)

/-! ### the writer without options never fails -/

/-- without decoration options the bracket writer is total (on every tree, representable or not) -/
theorem bracketsSub_total : (t : Tree) → ∃ s, bracketsSub {} false t = .ok s := by
  intro t
  induction t using tree_ind with
  | hl n f => exact ⟨_, bracketsSub_leaf_plain false n f⟩
  | hn f ks ih =>
    have hk : ∃ parts, bracketsKids {} ks = .ok parts := by
      clear f
      induction ks with
      | nil => exact ⟨[], by rw [bracketsKids]⟩
      | cons k ks ihk =>
        obtain ⟨a, ha⟩ := ih k (by simp)
        obtain ⟨b, hb⟩ := ihk (fun k' hk' => ih k' (by simp [hk']))
        exact ⟨(leftmost k, a) :: b, by rw [bracketsKids, ha, hb]⟩
    obtain ⟨parts, hparts⟩ := hk
    rw [bracketsSub]
    by_cases he : ks.isEmpty = true
    · simp only [he, if_true, TT.Props.C20.getLabel_plain]
      exact ⟨_, rfl⟩
    · simp only [he, Bool.false_eq_true, if_false, TT.Props.C20.getLabel_plain, hparts]
      exact ⟨_, rfl⟩

/-- for representable trees the paren replacement on tokens is the identity, so the writer prints labels and words as they are -/
theorem bracketsSub_plain (t : Tree) (hok : BracketsOK t = true) (hp : ∀ s ∈ t.subtrees, replaceParens s.fields.label = s.fields.label ∧
      (s.fields.word.map replaceParens) = s.fields.word) :
    ∃ s, bracketsSub {} false t = .ok s :=
  have _ := hok
  have _ := hp
  bracketsSub_total t

/-- what is printed for a representable token: label and word as they are -/
theorem bracketsSub_plain_leaf (n : Nat) (f : Fields) (w : Str) (hw : f.word = some w)
    (hp : replaceParens f.label = f.label ∧ (f.word.map replaceParens) = f.word) :
    bracketsSub {} false (leaf n f) = .ok (['('] ++ f.label ++ [' '] ++ w ++ [')']) := by
  rw [bracketsSub_leaf_plain, hp.1, hp.2, hw]
  simp

mutual
/-- the bracket text of a tree with labels and words printed as they are (no replacement of parentheses) -/
def plainSub : Tree → Str
  | leaf _ f => ['('] ++ f.label ++ [' '] ++ (f.word.getD "None".toList) ++ [')']
  | node f ks =>
    if ks.isEmpty then ['('] ++ f.label ++ [' '] ++ (f.word.getD "None".toList) ++ [')']
    else ['('] ++ f.label ++ ((sortBy (·.1) (plainKids ks)).map (·.2)).flatten ++ [')']
def plainKids : List Tree → List (Nat × Str)
  | [] => []
  | t :: ts => (leftmost t, plainSub t) :: plainKids ts
end

/-- sharper form of `bracketsSub_plain`: when the paren replacement is the identity on every label and word, the writer
    prints exactly the plain text (labels and words as they are) -/
theorem bracketsSub_eq_plain (t : Tree) : (∀ s ∈ t.subtrees, replaceParens s.fields.label = s.fields.label ∧
      (s.fields.word.map replaceParens) = s.fields.word) → bracketsSub {} false t = .ok (plainSub t) := by
  induction t using tree_ind with
  | hl n f =>
    intro hp
    have := hp _ (self_mem_subtrees _)
    simp only [Tree.fields] at this
    rw [bracketsSub_leaf_plain, this.1, this.2, plainSub]
    simp [TT.Lemmas.Write.none_eq]
  | hn f ks ih =>
    intro hp
    have hk : ∀ L : List Tree, (∀ k ∈ L, k ∈ ks) → bracketsKids {} L = .ok (plainKids L) := by
      intro L
      induction L with
      | nil => intro _; rw [bracketsKids, plainKids]
      | cons k L ihL =>
        intro hL
        have hk := hL k (by simp)
        rw [bracketsKids, ih k hk (fun s hs => hp s ((mem_subtrees_node f ks s).2 (Or.inr ⟨k, hk, hs⟩))),
          ihL (fun k' hk' => hL k' (by simp [hk'])), plainKids]
    have hself := hp _ (self_mem_subtrees _)
    simp only [Tree.fields] at hself
    rw [bracketsSub, plainSub]
    by_cases he : ks.isEmpty = true
    · simp only [he, if_true, TT.Props.C20.getLabel_plain, Tree.fields, replaceParensFields, hself.1, hself.2]
    · simp only [he, Bool.false_eq_true, if_false, TT.Props.C20.getLabel_plain, hk ks (fun _ h => h), Tree.fields]

/-- a tree stored out of order (children of the root: token 3 first) -/
def exOwn : Tree :=
  node { label := "S".toList, edge := some "X".toList }
    [leaf 3 { label := "C".toList, word := some "c".toList, lemma := some "l".toList },
     node { label := "NP".toList } [leaf 2 { label := "B".toList, word := some "b".toList }, leaf 1 { label := "A".toList, word := some "a".toList }]]

example : BracketsOK exOwn = true ∧ (∀ s ∈ exOwn.subtrees, replaceParens s.fields.label = s.fields.label ∧
    (s.fields.word.map replaceParens) = s.fields.word) := by decide +kernel
example : bracketsSub {} false exOwn = .ok "(S(NP(A a)(B b))(C c))".toList := by decide +kernel
example : plainSub exOwn = "(S(NP(A a)(B b))(C c))".toList := by decide +kernel
/-- the hypothesis `hp` matters for "as they are": a word with a bracket is rewritten -/
example : bracketsSub {} false (leaf 1 { label := "A".toList, word := some "[".toList }) = .ok "(A LSB)".toList := by decide +kernel

/-! ### the specification grammar on the writer's text -/

/-- the specification grammar parses what the writer wrote -/
theorem specBrackets_write (t : Tree) (s : Str) (hwf : WF t = true) (hc : gapDegree t = 0) (hok : BracketsOK t = true)
    (hp : ∀ x ∈ t.subtrees, replaceParens x.fields.label = x.fields.label ∧ (x.fields.word.map replaceParens) = x.fields.word)
    (h : bracketsSub {} false t = .ok s) :
    ∃ d, specBrackets false (s ++ ['\n']) = some [d] ∧ sameTree d (asReadBrackets t) = true := by
  obtain ⟨rs, hrs, hlen, hall⟩ := spGroups_file [t] [s] [] (2 * (s ++ ['\n']).length + 2) rfl
    (fun i hi => by
      have : i = 0 := by simpa using hi
      subst this
      exact ⟨t, s, rfl, rfl, hwf, hc, hok, hp, h⟩)
    (by simp; omega)
  obtain ⟨t', r, ht, hr, hst⟩ := hall 0 (by simp)
  simp only [List.length_cons, List.length_nil, List.getElem?_cons_zero, Option.some.injEq] at ht hlen
  subst ht
  obtain ⟨d, rfl⟩ : ∃ d, rs = [d] := by
    match rs, hlen with
    | [d], _ => exact ⟨d, rfl⟩
  simp only [List.getElem?_cons_zero, Option.some.injEq] at hr
  subst hr
  refine ⟨d, ?_, hst⟩
  unfold specBrackets
  simpa using hrs

example : WF exOwn = true ∧ gapDegree exOwn = 0 := by decide +kernel
example : (specBrackets false "(S(NP(A a)(B b))(C c))\n".toList).map (fun ds => ds.map fun d => sameTree d (asReadBrackets exOwn)) = some [true] := by
  decide +kernel

/-! ### the reader on the writer's text -/

/-- the reader without options is the specification grammar (instance of `readBrackets_eq_spec`) -/
theorem readBrackets_of_spec (text : Str) (ds : List Tree) (h : specBrackets false text = some ds) :
    readBrackets {} text = .ok ((List.range' 1 ds.length).zip ds) := by
  have hS := TT.Props.C01.readBrackets_eq_spec {} rfl rfl rfl text
  simp only at hS
  rw [h] at hS
  exact hS

/-- MAIN (C03 T1 for brackets): the tool's own reader accepts, with identical content, what its own writer produced -/
theorem own_roundtrip_brackets (t : Tree) (s : Str) (hwf : WF t = true) (hc : gapDegree t = 0) (hok : BracketsOK t = true)
    (hp : ∀ x ∈ t.subtrees, replaceParens x.fields.label = x.fields.label ∧ (x.fields.word.map replaceParens) = x.fields.word)
    (h : bracketsSub {} false t = .ok s) :
    ∃ r, readBrackets {} (s ++ ['\n']) = .ok [(1, r)] ∧ sameTree r (asReadBrackets t) = true := by
  obtain ⟨d, hd, hsd⟩ := specBrackets_write t s hwf hc hok hp h
  exact ⟨d, by rw [readBrackets_of_spec _ _ hd]; rfl, hsd⟩

/-- the hypotheses hold for `exOwn`; the theorem gives the read-back tree -/
example : ∃ r, readBrackets {} ("(S(NP(A a)(B b))(C c))".toList ++ ['\n']) = .ok [(1, r)] ∧ sameTree r (asReadBrackets exOwn) = true :=
  own_roundtrip_brackets exOwn _ (by decide +kernel) (by decide +kernel) (by decide +kernel) (by decide +kernel) (by decide +kernel)

/-- and a whole file: k trees written one per line are read back as k trees with ids 1..k -/
theorem own_roundtrip_file (ts : List Tree) (lines : List Str)
    (h : ∀ i, i < ts.length → ∃ t s, ts[i]? = some t ∧ lines[i]? = some s ∧ WF t = true ∧ gapDegree t = 0 ∧ BracketsOK t = true ∧
        (∀ x ∈ t.subtrees, replaceParens x.fields.label = x.fields.label ∧ (x.fields.word.map replaceParens) = x.fields.word) ∧
        bracketsSub {} false t = .ok s) (hl : lines.length = ts.length) :
    ∃ rs, readBrackets {} ((lines.map (· ++ ['\n'])).flatten) = .ok ((List.range' 1 ts.length).zip rs) ∧ rs.length = ts.length ∧
      ∀ i, i < ts.length → ∃ t r, ts[i]? = some t ∧ rs[i]? = some r ∧ sameTree r (asReadBrackets t) = true := by
  have hlen := length_le_flatten_lines lines
  obtain ⟨rs, hrs, hrl, hall⟩ := spGroups_file ts lines [] (2 * ((lines.map (· ++ ['\n'])).flatten).length + 2) hl h (by omega)
  refine ⟨rs, ?_, hrl, hall⟩
  have hspec : specBrackets false ((lines.map (· ++ ['\n'])).flatten) = some rs := by
    unfold specBrackets
    simpa using hrs
  rw [readBrackets_of_spec _ _ hspec, hrl]

/-- a two-line file -/
def exOwn2 : Tree := node { label := "T".toList } [leaf 1 { label := "D".toList, word := some "d".toList }]

example : ∃ rs, readBrackets {} "(S(NP(A a)(B b))(C c))\n(T(D d))\n".toList = .ok ((List.range' 1 2).zip rs) ∧ rs.length = 2 ∧
    ∀ i, i < 2 → ∃ t r, [exOwn, exOwn2][i]? = some t ∧ rs[i]? = some r ∧ sameTree r (asReadBrackets t) = true :=
  own_roundtrip_file [exOwn, exOwn2] ["(S(NP(A a)(B b))(C c))".toList, "(T(D d))".toList]
    (fun i hi => by
      have hi' : i = 0 ∨ i = 1 := by simp at hi; omega
      rcases hi' with rfl | rfl
      · exact ⟨exOwn, _, rfl, rfl, by decide +kernel, by decide +kernel, by decide +kernel, by decide +kernel, by decide +kernel⟩
      · exact ⟨exOwn2, _, rfl, rfl, by decide +kernel, by decide +kernel, by decide +kernel, by decide +kernel, by decide +kernel⟩)
    rfl

end TT.Props.C03Own
