/-
  C11 (slash), second part (wave 15): WHICH kept traces the slash branch deletes, and how the call can be rejected.
  Model: TT/Transform/Slash.lean; first part: TT/Props/C11Slash.lean; helper lemmas: TT/Lemmas/Slash.lean.
-/
import TT.Props.C11Slash
import TT.Props.C11Traces
import TT.Spec.More15c
namespace TT.Props.C11Slash2
open TT TT.Tree TT.Spec TT.Lemmas.WF TT.Lemmas.Edit TT.Lemmas.Slash TT.Props.C11Slash

/-! ## which traces are deleted -/

/-- `index_to_traces` when the first loop is over: co-index ↦ the CURRENT numbers of the kept traces that carry it -/
def indexToTraces (o : TraceOpts) (t : Tree) : IdxMap Nat :=
  (((t.terminals.filter fun l => l.fields.label == NONE_POS).map num).foldl (traceStepI o) ((t, 0), [])).2

/-- the tree when the first loop is over (traces deleted or relabelled, labels not yet cleaned) -/
def afterTraces (o : TraceOpts) (t : Tree) : Tree :=
  (((t.terminals.filter fun l => l.fields.label == NONE_POS).map num).foldl (traceStep o) (t, 0)).1

/-- the traces the slash branch deletes on top of the plain trace deletion: when every co-index has at most one
    filler, the recorded traces whose co-index is not the co-index of any constituent (in the order of
    `index_to_traces`); when some co-index has several fillers, none (every trace is then resolved bottom-up, or the call
    is rejected) -/
def slashDeleted (o : TraceOpts) (t : Tree) : List Nat :=
  let i2n := nontermIndex (afterTraces o t)
  if i2n.any (fun e => e.2.length > 1) then []
  else ((indexToTraces o t).filter fun e => !i2n.has e.1).flatMap (·.2)

theorem slashPhase_nums (ls : List Str) (t2 r : Tree) (i2t : IdxMap TraceRef) (i2n : IdxMap Path)
    (h : slashPhase ls t2 i2t i2n = .ok r) :
    ∃ t3, Annotated t2 t3 ∧ r = deleteList t3
      (if i2n.any (fun e => e.2.length > 1) then []
       else ((i2t.filter fun e => !i2n.has e.1).flatMap (·.2)).map (·.1)) := by
  unfold slashPhase at h
  by_cases hc : (i2n.any fun e => decide (e.2.length > 1)) = true
  · simp only [hc, if_true] at h ⊢
    cases hr : resolveBottomUp t2 i2t i2n with
    | error e => rw [hr] at h; cases h
    | ok ab =>
      obtain ⟨a, b⟩ := ab
      rw [hr] at h
      simp only at h
      have hall := resolveBottomUp_has t2 i2t i2n a b hr
      have hdel : a.filter (fun e => !IdxMap.has b e.1) = [] := by
        rw [List.filter_eq_nil_iff]
        intro e he
        simp [hall e he]
      split at h
      · cases h
      · rename_i t3 h3
        rw [hdel] at h
        simp only [Except.ok.injEq] at h
        exact ⟨t3, annotateAll_annotated ls b _ t2 t2 t3 (.refl _) h3, by simpa using h.symm⟩
  · rw [if_neg hc] at h ⊢
    simp only at h
    split at h
    · cases h
    · rename_i t3 h3
      simp only [Except.ok.injEq] at h
      exact ⟨t3, annotateAll_annotated ls i2n _ t2 t2 t3 (.refl _) h3, h.symm⟩

theorem filter_map_key (g : Nat → Path) (p : Str → Bool) (m : IdxMap Nat) :
    (((m.map fun e => (e.1, e.2.map fun n => (n, g n))).filter fun e => p e.1).flatMap (·.2)).map (·.1) =
      (m.filter fun e => p e.1).flatMap (·.2) := by
  induction m with
  | nil => rfl
  | cons e rest ih =>
    simp only [List.map_cons, List.filter_cons]
    split
    · simp only [List.flatMap_cons, List.map_append, List.map_map]
      rw [ih]
      congr 1
      simp [Function.comp_def]
    · exact ih

/-- C11 clause 9 (i): the result of the slash branch is the plain trace deletion, annotated, minus EXACTLY the traces
    `slashDeleted o t` (current numbers, deleted one after the other) -/
theorem slash_deleted (o : TraceOpts) (ls : List Str) (t r : Tree)
    (h : ptbDeleteTracesSlash o (some ls) t = .ok r) :
    ∃ t3, Annotated (ptbDeleteTraces o t) t3 ∧ r = deleteList t3 (slashDeleted o t) := by
  unfold ptbDeleteTracesSlash at h
  simp only at h
  obtain ⟨t3, ha, hr⟩ := slashPhase_nums ls _ r _ _ h
  rw [foldl_traceStepI_fst] at ha
  refine ⟨t3, ha, ?_⟩
  rw [hr]
  unfold slashDeleted afterTraces indexToTraces
  simp only [foldl_traceStepI_fst]
  split
  · rfl
  · rw [filter_map_key _ (fun k => !(nontermIndex _).has k)]

/-- on `exS` (`C11Slash`): `*T*-3` (token 6 of the plain result) is the one trace without filler -/
example : slashDeleted { keepall := true } exS = [6] ∧
    indexToTraces { keepall := true } exS = [("1".toList, [4]), ("2".toList, [5]), ("3".toList, [6])] ∧
    (nontermIndex (afterTraces { keepall := true } exS)).map (·.1) = ["1".toList, "2".toList] := by decide
/-- with the default options no trace is kept: nothing is recorded, nothing is deleted on top -/
example : slashDeleted {} exS = [] ∧ indexToTraces {} exS = [] := by decide
/-- fillers not unique (`exU`): nothing is deleted on top -/
example : slashDeleted { keepall := true } exU = [] := by decide

/-! ### the keys of `index_to_nonterms` -/

/-- the co-index under which the constituent at `p` is recorded as a filler: it has children and its label carries a
    non-empty co-index -/
def fillerCo (t : Tree) (p : Path) : Option Str :=
  match t.get? p with
  | some (node f (_ :: _)) =>
    let co := (parseLabel DEFAULT_GF_SEP f.label).coindex
    if co.isEmpty then none else some co
  | _ => none

theorem has_foldl_push_opt {α β : Type} (g : β → Option Str) (val : β → α) (l : List β) (m : IdxMap α) (k : Str) :
    IdxMap.has (l.foldl (fun m e => match g e with | some key => IdxMap.push m key (val e) | none => m) m) k
      = (IdxMap.has m k || l.any (fun e => g e == some k)) := by
  induction l generalizing m with
  | nil => simp
  | cons e rest ih =>
    simp only [List.foldl_cons, ih, List.any_cons]
    cases hg : g e with
    | none => simp
    | some key => simp [has_push, Bool.or_assoc]

theorem nontermIndex_eq (t : Tree) :
    nontermIndex t = t.preorderP.foldl (fun m p => match fillerCo t p with | some co => IdxMap.push m co p | none => m) [] := by
  unfold nontermIndex
  congr 1
  funext m p
  unfold fillerCo
  split
  · simp only
    split <;> simp_all
  · rename_i hne
    split
    · rename_i heq
      split at heq
      · rename_i f a b hg
        exact absurd hg (hne f a b)
      · cases heq
    · rfl

/-- a co-index is a key of `index_to_nonterms` iff some constituent with children carries it -/
theorem nontermIndex_has (t : Tree) (co : Str) :
    (nontermIndex t).has co = t.preorderP.any (fun p => fillerCo t p == some co) := by
  rw [nontermIndex_eq, has_foldl_push_opt]
  simp [IdxMap.has]

example : (nontermIndex (afterTraces { keepall := true } exS)).has "1".toList = true ∧
    (nontermIndex (afterTraces { keepall := true } exS)).has "3".toList = false := by decide

/-! ## how the call can be rejected -/

def NonEmptyVals {α : Type} (m : IdxMap α) : Prop := ∀ e ∈ m, e.2 ≠ []

theorem push_nonEmpty {α : Type} (m : IdxMap α) (k : Str) (v : α) (h : NonEmptyVals m) : NonEmptyVals (IdxMap.push m k v) := by
  induction m with
  | nil => intro e he; simp [IdxMap.push] at he; subst he; simp
  | cons x rest ih =>
    obtain ⟨k', vs⟩ := x
    simp only [IdxMap.push]
    split
    · intro e he
      rcases List.mem_cons.1 he with rfl | he
      · simp
      · exact h e (by simp [he])
    · intro e he
      rcases List.mem_cons.1 he with rfl | he
      · exact h _ (by simp)
      · exact ih (fun e he => h e (by simp [he])) e he

theorem get_ne_nil_of_has {α : Type} (m : IdxMap α) (h : NonEmptyVals m) (k : Str) (hk : IdxMap.has m k = true) :
    IdxMap.get m k ≠ [] := by
  unfold IdxMap.get
  cases hf : m.find? (fun e => e.1 == k) with
  | none =>
    simp only [IdxMap.has, List.any_eq_true] at hk
    obtain ⟨e, he, hek⟩ := hk
    exact absurd hek (by simpa using List.find?_eq_none.1 hf e he)
  | some e => exact h e (List.mem_of_find?_eq_some hf)

theorem nontermIndex_nonEmpty (t : Tree) : NonEmptyVals (nontermIndex t) := by
  rw [nontermIndex_eq]
  generalize t.preorderP = l
  suffices ∀ m : IdxMap Path, NonEmptyVals m →
      NonEmptyVals (l.foldl (fun m p => match fillerCo t p with | some co => IdxMap.push m co p | none => m) m) from
    this [] (by intro e he; simp at he)
  induction l with
  | nil => intro m hm; exact hm
  | cons p rest ih =>
    intro m hm
    simp only [List.foldl_cons]
    apply ih
    split
    · exact push_nonEmpty _ _ _ hm
    · exact hm

theorem foldl_push_nonEmpty {α β : Type} (key : β → Str) (val : β → α) (l : List β) (m : IdxMap α) (h : NonEmptyVals m) :
    NonEmptyVals (l.foldl (fun m e => IdxMap.push m (key e) (val e)) m) := by
  induction l generalizing m with
  | nil => exact h
  | cons e rest ih => exact ih _ (push_nonEmpty _ _ _ h)

theorem annotateOne_error (ls : List Str) (t : Tree) (tr f : Path) (e : String)
    (h : annotateOne ls t tr f = .error e) : e = "ValueError" := by
  unfold annotateOne at h
  split at h
  · cases h
  · split at h
    · cases h; rfl
    · cases h

theorem annotateAll_error (ls : List Str) (i2n : IdxMap Path) (hne : NonEmptyVals i2n) :
    ∀ (l : List (Str × TraceRef)) (t : Tree) (e : String), (∀ x ∈ l, i2n.has x.1 = true) →
      annotateAll ls i2n t l = .error e → e = "ValueError"
  | [], t, e, _, h => by simp [annotateAll] at h
  | (co, tr) :: rest, t, e, hall, h => by
    have hco := get_ne_nil_of_has i2n hne co (hall (co, tr) (by simp))
    cases hg : i2n.get co with
    | nil => exact absurd hg hco
    | cons f fs =>
      simp only [annotateAll, hg] at h
      split at h
      · exact annotateAll_error ls i2n hne rest _ e (fun x hx => hall x (by simp [hx])) h
      · rename_i e' he
        cases h
        exact annotateOne_error ls t tr.2 f _ he

theorem resolveTraces_error (t : Tree) (fillers : List Path) : ∀ (trs : List TraceRef) (st : ResState) (e : String),
    resolveTraces t fillers st trs = .error e → e = "ValueError"
  | [], st, e, h => by simp [resolveTraces] at h
  | tr :: rest, (tf, ni), e, h => by
    simp only [resolveTraces] at h
    split at h
    · exact resolveTraces_error t fillers rest _ e h
    · cases h; rfl

theorem resolveIndices_error (t : Tree) (i2n : IdxMap Path) : ∀ (m : IdxMap TraceRef) (st : ResState) (e : String),
    resolveIndices t i2n st m = .error e → e = "ValueError"
  | [], st, e, h => by simp [resolveIndices] at h
  | (idx, trs) :: rest, st, e, h => by
    simp only [resolveIndices] at h
    split at h
    · exact resolveIndices_error t i2n rest _ e h
    · rename_i e' he
      cases h
      exact resolveTraces_error t _ trs st _ he

theorem slashPhase_error (ls : List Str) (t2 : Tree) (i2t : IdxMap TraceRef) (i2n : IdxMap Path) (hne : NonEmptyVals i2n)
    (e : String) (h : slashPhase ls t2 i2t i2n = .error e) : e = "ValueError" := by
  unfold slashPhase at h
  by_cases hc : (i2n.any fun e => decide (e.2.length > 1)) = true
  · simp only [hc, if_true] at h
    cases hr : resolveBottomUp t2 i2t i2n with
    | error e' =>
      rw [hr] at h
      cases h
      unfold resolveBottomUp at hr
      split at hr
      · rename_i e'' he
        cases hr
        exact resolveIndices_error t2 i2n i2t _ _ he
      · cases hr
    | ok ab =>
      obtain ⟨a, b⟩ := ab
      rw [hr] at h
      simp only at h
      have hb : NonEmptyVals b := by
        unfold resolveBottomUp at hr
        split at hr
        · cases hr
        · simp only [Except.ok.injEq, Prod.mk.injEq] at hr
          rw [← hr.2]
          exact foldl_push_nonEmpty _ _ _ [] (by intro e he; simp at he)
      split at h
      · rename_i e' he
        cases h
        refine annotateAll_error ls b hb _ t2 _ ?_ he
        intro x hx
        obtain ⟨en, hen, hx⟩ := List.mem_flatMap.1 hx
        obtain ⟨tr, _, rfl⟩ := List.mem_map.1 hx
        exact (List.mem_filter.1 hen).2
      · cases h
  · rw [if_neg hc] at h
    simp only at h
    split at h
    · rename_i e' he
      cases h
      refine annotateAll_error ls i2n hne _ t2 _ ?_ he
      intro x hx
      obtain ⟨en, hen, hx⟩ := List.mem_flatMap.1 hx
      obtain ⟨tr, _, rfl⟩ := List.mem_map.1 hx
      exact (List.mem_filter.1 hen).2
    · cases h

/-- C11 clause 9 (iii), first half: whenever the slash branch rejects a call it is with `ValueError` ("no mapping found" in
    the bottom-up resolution, or "filler neither c-commands nor dominates"); the `IndexError` branch of the model
    (`index_to_nonterms[coindex][0]` on an empty list) is unreachable -/
theorem slash_error_value (o : TraceOpts) (ls : List Str) (t : Tree) (e : String)
    (h : ptbDeleteTracesSlash o (some ls) t = .error e) : e = "ValueError" := by
  unfold ptbDeleteTracesSlash at h
  simp only at h
  exact slashPhase_error ls _ _ _ (nontermIndex_nonEmpty _) e h

/-- a rejected call: two constituents carry co-index 1 and the trace `*T*-1` is neither below nor beside one of them
    (`(S (X (A-1 a) (A-1 b)) ... )` with the trace under a sister of `X`'s parent) -/
def exRej : Tree :=
  node { label := "S".toList } [
    node { label := "X".toList } [
      node { label := "Y".toList } [
        node { label := "A-1".toList } [leaf 1 { label := "NN".toList, word := some "a".toList }],
        node { label := "A-1".toList } [leaf 2 { label := "NN".toList, word := some "b".toList }]]],
    node { label := "Z".toList } [leaf 3 { label := "-NONE-".toList, word := some "*T*-1".toList }]]

example : WF exRej = true ∧ (match ptbDeleteTracesSlash { keepall := true } (some []) exRej with
    | .error e => e == "ValueError" | .ok _ => false) = true := by decide
example : ∀ e, ptbDeleteTracesSlash { keepall := true } (some []) exRej = .error e → e = "ValueError" :=
  fun e h => slash_error_value _ _ _ e h

/-! ## C11 clause 1c / 5: `insert_terminals` with a request list in which some entries are skipped -/

theorem insertSpec_accepted : ∀ (reqs : List (Nat × Str × Str)) (s : List Tok),
    insertSpec s reqs = insertSpec s (acceptedFrom s.length reqs)
  | [], s => rfl
  | (k, w, p) :: rest, s => by
    by_cases hk : (k == 0 || decide (k > s.length + 1)) = true
    · simp only [insertSpec, acceptedFrom, hk, if_true]
      exact insertSpec_accepted rest s
    · simp only [insertSpec, acceptedFrom, hk, Bool.false_eq_true, if_false]
      have hlen : (s.take (k - 1) ++ [(some w, p)] ++ s.drop (k - 1)).length = s.length + 1 := by
        simp only [Bool.or_eq_true, beq_iff_eq, decide_eq_true_eq, not_or] at hk
        simp only [List.length_append, List.length_take, List.length_cons, List.length_nil, List.length_drop]
        omega
      rw [insertSpec_accepted rest _, hlen]

theorem acceptedFrom_sublist : ∀ (reqs : List (Nat × Str × Str)) (n : Nat), (acceptedFrom n reqs).Sublist reqs
  | [], n => by simp [acceptedFrom]
  | (k, w, p) :: rest, n => by
    simp only [acceptedFrom]
    split
    · exact (acceptedFrom_sublist rest n).trans (List.sublist_cons_self _ _)
    · exact (acceptedFrom_sublist rest (n + 1)).cons_cons _

theorem acceptedFrom_range : ∀ (reqs : List (Nat × Str × Str)) (n : Nat) (j : Nat) (h : j < (acceptedFrom n reqs).length),
    1 ≤ (acceptedFrom n reqs)[j].1 ∧ (acceptedFrom n reqs)[j].1 ≤ n + j + 1
  | [], n, j, h => by simp [acceptedFrom] at h
  | (k, w, p) :: rest, n, j, h => by
    by_cases hk : (k == 0 || decide (k > n + 1)) = true
    · have e : acceptedFrom n ((k, w, p) :: rest) = acceptedFrom n rest := by simp only [acceptedFrom, hk, if_true]
      simp only [e] at h ⊢
      exact acceptedFrom_range rest n j h
    · have e : acceptedFrom n ((k, w, p) :: rest) = (k, w, p) :: acceptedFrom (n + 1) rest := by
        simp only [acceptedFrom, hk, Bool.false_eq_true, if_false]
      simp only [e] at h ⊢
      simp only [Bool.or_eq_true, beq_iff_eq, decide_eq_true_eq, not_or] at hk
      cases j with
      | zero => simp only [List.getElem_cons_zero]; omega
      | succ j =>
        simp only [List.getElem_cons_succ]
        have := acceptedFrom_range rest (n + 1) j (by simpa using h)
        omega

/-- the position-wise statement for a MIXED list (indices strictly increasing; any of them may be out of range): with
    `acc` = the requests accepted at their turn, the result is that of `acc` alone, every request of `acc` is found at its
    position, and removing those positions gives back the original sentence -/
theorem insertSpec_at_mixed (s : List Tok) (reqs : List (Nat × Str × Str))
    (hs : (reqs.map (·.1)).Pairwise (· < ·)) :
    insertSpec s reqs = insertSpec s (acceptedFrom s.length reqs) ∧
    (∀ r ∈ acceptedFrom s.length reqs, (insertSpec s reqs)[r.1 - 1]? = some (some r.2.1, r.2.2)) ∧
    dropPositions (insertSpec s reqs) ((acceptedFrom s.length reqs).map (·.1)) = s := by
  have h1 := insertSpec_accepted reqs s
  have hs' : ((acceptedFrom s.length reqs).map (·.1)).Pairwise (· < ·) :=
    hs.sublist ((acceptedFrom_sublist reqs s.length).map _)
  have := TT.Props.C11Traces.insertSpec_at s (acceptedFrom s.length reqs) hs' (acceptedFrom_range reqs s.length)
  rw [← h1] at this
  exact ⟨h1, this⟩

/-- at the tree -/
theorem insert_tokens_mixed (reqs : List (Nat × Str × Str)) (t : Tree) (h : WF t = true)
    (hs : (reqs.map (·.1)).Pairwise (· < ·)) :
    (∀ r ∈ acceptedFrom t.terminals.length reqs, (insertTerminals reqs t).sentence[r.1 - 1]? = some (some r.2.1, r.2.2)) ∧
    dropPositions (insertTerminals reqs t).sentence ((acceptedFrom t.terminals.length reqs).map (·.1)) = t.sentence := by
  rw [TT.Props.C11.insert_sentence reqs t h]
  have e : t.sentence.length = t.terminals.length := by simp [sentence]
  rw [← e]
  exact (insertSpec_at_mixed t.sentence reqs hs).2

/-- `exP` has 5 tokens: index 0 is skipped, 2 and 7 are accepted, 9 is skipped (more than one past the end of the 7 tokens
    there are then) -/
example : acceptedFrom 5 [(0, "w".toList, "W".toList), (2, "x".toList, "X".toList), (7, "z".toList, "Z".toList), (9, "y".toList, "Y".toList)]
    = [(2, "x".toList, "X".toList), (7, "z".toList, "Z".toList)] := by decide
example : WF TT.Props.C11.exP = true ∧ TT.Props.C11.exP.terminals.length = 5 := by decide
example : (insertTerminals [(0, "w".toList, "W".toList), (2, "x".toList, "X".toList), (7, "z".toList, "Z".toList), (9, "y".toList, "Y".toList)]
      TT.Props.C11.exP).sentence.map (·.2) = ["$(", "X", "N", "$,", "V", "$.", "Z"].map String.toList := by decide
example := insert_tokens_mixed [(0, "w".toList, "W".toList), (2, "x".toList, "X".toList), (7, "z".toList, "Z".toList), (9, "y".toList, "Y".toList)]
  TT.Props.C11.exP (by decide) (by decide)

end TT.Props.C11Slash2
