/-
  C18 (wave 12) — sentence locality of the remaining pieces:

  * statistics of a concatenation are the sums, per degree and for both tables (`GapDegree`), for the tags (`PosTags`)
    and the sentence counter (`SentenceCount`);
  * the TIGER-XML reader (from the element structure) on a concatenation of two documents' sentences;
  * the command with TIGER-XML output (the framed format) and with any `enc`;
  * the export source read with `continuous` into a format that does not print sentence numbers;
  * the grammar command (`treebank` type) on a concatenation: counts add up;
  * clause 11 ("up to the order of lines in files that represent sets"): the LoPar writer's grammar, start and tag-count
    files depend on grammar and lexicon only as finite maps; the whole grammar command on a permuted treebank
    (`writeLopar_command_perm`); the lexicon file is NOT set-like (counterexample);
  * clause 3: the discobracket reader is sentence local (`brLoop_disco_append`, `readDisco_append`,
    `readDisco_append_text`: a text may be cut behind every line break), with the examples that show that the inputs
    which were misread before the repair of the reader (D21: blank before the line break, blank lines) are read correctly.
-/
import TT.Spec.More12f
import TT.Lemmas.More12f
import TT.Props.C10Run
import TT.Props.C16Tags
import TT.Props.C18
import TT.Props.C18Run
namespace TT.Props.C18Local
open TT TT.Tree TT.Spec TT.Lemmas.Proc TT.Lemmas.Run TT.Lemmas.More12f
open TT.Props.C18

/-- equality of results is decidable (used by the concrete instances below only) -/
local instance instDecEqExcept {ε α} [DecidableEq ε] [DecidableEq α] : DecidableEq (Except ε α)
  | .ok a, .ok b => decidable_of_iff (a = b) (by simp)
  | .error a, .error b => decidable_of_iff (a = b) (by simp)
  | .ok _, .error _ => isFalse (by simp)
  | .error _, .ok _ => isFalse (by simp)

/-! ### clause 7: statistics of a concatenation are the sums -/

/-- the count a table lists for degree `d` (0 when the degree is not listed) -/
abbrev cnt (d : Nat) (l : List (Nat × Nat)) : Nat := TT.Lemmas.More12f.cnt d l

example : cnt 1 [(0, 3), (1, 2)] = 2 ∧ cnt 5 [(0, 3), (1, 2)] = 0 := by decide

/-- MAIN: for every degree, the per-tree and the per-node count of a concatenation is the sum of the counts of the parts -/
theorem gapstats_append_count (ts us : List Tree) (d : Nat) :
    cnt d ((ts ++ us).foldl GapStats.run {}).perTree =
      cnt d (ts.foldl GapStats.run {}).perTree + cnt d (us.foldl GapStats.run {}).perTree ∧
    cnt d ((ts ++ us).foldl GapStats.run {}).perNode =
      cnt d (ts.foldl GapStats.run {}).perNode + cnt d (us.foldl GapStats.run {}).perNode := by
  obtain ⟨h1, h2⟩ := cnt_foldl_run d (ts ++ us) {}
  obtain ⟨h3, h4⟩ := cnt_foldl_run d ts {}
  obtain ⟨h5, h6⟩ := cnt_foldl_run d us {}
  have h0 : TT.Lemmas.More12f.cnt d ({} : GapStats).perTree = 0 := rfl
  simp only [cnt, h1, h2, h3, h4, h5, h6, h0, List.filter_append, List.length_append, List.flatMap_append,
    List.count_append, Nat.zero_add]
  exact ⟨trivial, trivial⟩

/-- the same when the accumulator has already seen other sentences (`s` arbitrary) -/
theorem gapstats_append_count_from (s : GapStats) (ts us : List Tree) (d : Nat) :
    cnt d ((ts ++ us).foldl GapStats.run s).perTree =
      cnt d (ts.foldl GapStats.run s).perTree + cnt d (us.foldl GapStats.run {}).perTree ∧
    cnt d ((ts ++ us).foldl GapStats.run s).perNode =
      cnt d (ts.foldl GapStats.run s).perNode + cnt d (us.foldl GapStats.run {}).perNode := by
  obtain ⟨h1, h2⟩ := cnt_foldl_run d (ts ++ us) s
  obtain ⟨h3, h4⟩ := cnt_foldl_run d ts s
  obtain ⟨h5, h6⟩ := cnt_foldl_run d us {}
  have h0 : TT.Lemmas.More12f.cnt d ({} : GapStats).perTree = 0 := rfl
  simp only [cnt, h1, h2, h3, h4, h5, h6, h0, List.filter_append, List.length_append, List.flatMap_append,
    List.count_append]
  omega

abbrev exT : Tree := TT.Props.C06.exT

example : ([exT, exU] ++ [exT]).foldl GapStats.run {} = { perNode := [(1, 4), (0, 3)], perTree := [(1, 2), (0, 1)] } ∧
    [exT, exU].foldl GapStats.run {} = { perNode := [(1, 2), (0, 2)], perTree := [(1, 1), (0, 1)] } ∧
    [exT].foldl GapStats.run {} = { perNode := [(1, 2), (0, 1)], perTree := [(1, 1)] } := by decide +kernel

/-- `PosTags`: the collected tags of a concatenation are the concatenation -/
theorem fileTags_append (ts us : List Tree) :
    TT.Props.C16Tags.fileTags (ts ++ us) = TT.Props.C16Tags.fileTags ts ++ TT.Props.C16Tags.fileTags us := by
  simp [TT.Props.C16Tags.fileTags]

theorem posTags_append (ts us : List Tree) :
    (ts ++ us).foldl posTagsRun [] = ts.foldl posTagsRun [] ++ us.foldl posTagsRun [] := by
  simp only [TT.Props.C16Tags.posTags_fold, fileTags_append]

/-- ... so a tag is reported for the concatenation iff it is reported for one of the parts -/
theorem posTags_append_reported (ts us : List Tree) (tag : Str) :
    tag ∈ ((ts ++ us).foldl posTagsRun []).eraseDups ↔
      tag ∈ (ts.foldl posTagsRun []).eraseDups ∨ tag ∈ (us.foldl posTagsRun []).eraseDups := by
  rw [posTags_append]
  simp

example : ([exT] ++ [exU]).foldl posTagsRun [] = [exT].foldl posTagsRun [] ++ [exU].foldl posTagsRun [] ∧
    distinctCount (([exT] ++ [exU]).foldl posTagsRun []) = 3 ∧ distinctCount ([exT].foldl posTagsRun []) = 3 ∧
    distinctCount ([exU].foldl posTagsRun []) = 2 := by decide +kernel

/-- `SentenceCount` -/
theorem sentenceCount_append (ts us : List Tree) :
    (ts ++ us).foldl sentenceCountRun 0 = ts.foldl sentenceCountRun 0 + us.foldl sentenceCountRun 0 := by
  have h : ∀ (ts : List Tree) (n : Nat), ts.foldl sentenceCountRun n = n + ts.length := by
    intro ts
    induction ts with
    | nil => intro n; rfl
    | cons t ts ih => intro n; rw [List.foldl_cons, ih]; simp [sentenceCountRun]; omega
  simp [h]

/-! ### clause 4: the TIGER-XML reader -/

/-- MAIN: reading the sentences of two documents one after the other = reading each and concatenating; with `continuous`
    the numbers of the second part are shifted by the number of `<s>` elements of the first part — all of them, also
    those that were skipped because they are not a tree (the counter advances for them too); errors of the first part first -/
theorem readTiger_append (o : InOpts) (a b : List XSent) :
    readTiger o (a ++ b) =
      match readTiger o a, readTiger o b with
      | .error e, _ => .error e
      | .ok _, .error e => .error e
      | .ok ra, .ok rb => .ok (ra ++ rb.map (renum o a.length)) := by
  rw [readTiger_eq, readTiger_eq, readTiger_eq, List.zipIdx_append, List.foldlM_append]
  cases ha : a.zipIdx.foldlM (tigerStep o) [] with
  | error e => rfl
  | ok ra =>
    simp only [bind, Except.bind, Nat.zero_add]
    rw [tigerFold_shift o b a.length ra]
    cases b.zipIdx.foldlM (tigerStep o) [] <;> rfl

/-- without `continuous` nothing is renumbered: the trees of a concatenation are the concatenation -/
theorem readTiger_append_ids (o : InOpts) (a b : List XSent) (hc : o.continuous = false) (ra rb : List (Nat × Tree))
    (ha : readTiger o a = .ok ra) (hb : readTiger o b = .ok rb) : readTiger o (a ++ b) = .ok (ra ++ rb) := by
  rw [readTiger_append, ha, hb]
  have hf : renum o a.length = id := by funext p; simp [renum, hc]
  simp [hf]

private def S (s : String) : Str := s.toList
/-- `<s id="s5">`: (NP the dog) -/
def xs1 : XSent := XSent.mk (S "s5") [XTerm.mk (S "s5_1") (some (S "the")) (some (S "D")) none none,
    XTerm.mk (S "s5_2") (some (S "dog")) (some (S "N")) none none]
  [XNt.mk (S "s5_500") (some (S "NP")) [(some (S "HD"), S "s5_1"), (some (S "HD"), S "s5_2")]]
/-- `<s id="s6">`: two terminals and no nonterminal, i.e. two roots: skipped (`ValueError`) -/
def xs2 : XSent := XSent.mk (S "s6") [XTerm.mk (S "s6_1") (some (S "a")) (some (S "D")) none none,
    XTerm.mk (S "s6_2") (some (S "b")) (some (S "N")) none none] []
/-- `<s id="s9">`: one terminal -/
def xs3 : XSent := XSent.mk (S "s9") [XTerm.mk (S "s9_1") (some (S "now")) (some (S "ADV")) none none] []

example : ids (readTiger {} [xs1, xs2]) = .inr [(5, 2)] ∧ ids (readTiger {} [xs3, xs1]) = .inr [(9, 1), (5, 2)] ∧
    ids (readTiger {} ([xs1, xs2] ++ [xs3, xs1])) = .inr [(5, 2), (9, 1), (5, 2)] := by decide +kernel
/-- with `continuous` the skipped sentence of the first part still shifts the numbers of the second part by two -/
example : ids (readTiger { continuous := true } [xs1, xs2]) = .inr [(1, 2)] ∧
    ids (readTiger { continuous := true } [xs3, xs1]) = .inr [(1, 1), (2, 2)] ∧
    ids (readTiger { continuous := true } ([xs1, xs2] ++ [xs3, xs1])) = .inr [(1, 2), (3, 1), (4, 2)] := by decide +kernel

/-! ### clause 2: the framed output format, any `enc` -/

/-- the text around the bodies: the TIGER-XML frame, nothing for the other formats -/
def frame (fmt : DestFmt) (enc : Option Str) (body : Str) : Str := if fmt = .tigerxml then tigerFrame enc body else body

theorem writeAll_frame (fmt : DestFmt) (o : OutOpts) (enc : Option Str) (ts : List (Nat × Tree)) :
    writeAll fmt o enc ts = (bodyText fmt o ts).map (frame fmt enc) := by
  rw [writeAll_eq]
  cases bodyText fmt o ts with
  | error e => rfl
  | ok b =>
    by_cases hf : fmt = .tigerxml <;> simp [frame, hf, bind, Except.bind, Except.map, pure, Except.pure]

/-- MAIN (every format, every `enc`; no success assumed): the command on a concatenation of sentence lists writes the frame
    around the concatenation of the two bodies; errors of the first list first -/
theorem runFrom_append_framed (steps : List Step) (fmt : DestFmt) (o : OutOpts) (enc : Option Str) (a b : List (Nat × Tree)) :
    runFrom steps fmt o enc (.ok (a ++ b)) =
      match transformAll steps a, transformAll steps b with
      | .error e, _ => .error e
      | .ok _, .error e => .error e
      | .ok a', .ok b' =>
        match bodyText fmt o a', bodyText fmt o b' with
        | .error e, _ => .error e
        | .ok _, .error e => .error e
        | .ok x, .ok y => .ok (frame fmt enc (x ++ y)) := by
  rw [runFrom_ok, transformAll_append]
  cases transformAll steps a with
  | error e => rfl
  | ok a' =>
    cases transformAll steps b with
    | error e => rfl
    | ok b' =>
      show writeAll fmt o enc (a' ++ b') = (match bodyText fmt o a', bodyText fmt o b' with
        | .error e, _ => .error e
        | .ok _, .error e => .error e
        | .ok x, .ok y => .ok (frame fmt enc (x ++ y)))
      rw [writeAll_frame, bodyText_append]
      cases bodyText fmt o a' with
      | error e => rfl
      | ok x => cases bodyText fmt o b' <;> rfl

/-- what the command wrote when it succeeded: the frame around a body -/
theorem runFrom_framed_inv (steps : List Step) (fmt : DestFmt) (o : OutOpts) (enc : Option Str) (a : List (Nat × Tree)) (r : Str)
    (h : runFrom steps fmt o enc (.ok a) = .ok r) :
    ∃ a' x, transformAll steps a = .ok a' ∧ bodyText fmt o a' = .ok x ∧ r = frame fmt enc x := by
  rw [runFrom_ok] at h
  obtain ⟨a', h1, h⟩ := bind_ok _ _ _ h
  rw [writeAll_frame] at h
  cases hb : bodyText fmt o a' with
  | error e => rw [hb] at h; cases h
  | ok x =>
    rw [hb] at h
    simp only [Except.map, Except.ok.injEq] at h
    exact ⟨a', x, h1, hb, h.symm⟩

/-- TIGER-XML output: two successful runs are `begin ++ body ++ end` each, and the run on the concatenation is
    `begin ++ (body a ++ body b) ++ end` -/
theorem runFrom_append_tiger (steps : List Step) (o : OutOpts) (enc : Option Str) (a b : List (Nat × Tree)) (ra rb : Str)
    (ha : runFrom steps .tigerxml o enc (.ok a) = .ok ra) (hb : runFrom steps .tigerxml o enc (.ok b) = .ok rb) :
    ∃ x y, ra = tigerFrame enc x ∧ rb = tigerFrame enc y ∧
      runFrom steps .tigerxml o enc (.ok (a ++ b)) = .ok (tigerFrame enc (x ++ y)) := by
  obtain ⟨a', x, h1, h2, h3⟩ := runFrom_framed_inv _ _ _ _ _ _ ha
  obtain ⟨b', y, h4, h5, h6⟩ := runFrom_framed_inv _ _ _ _ _ _ hb
  refine ⟨x, y, by simpa [frame] using h3, by simpa [frame] using h6, ?_⟩
  rw [runFrom_append_framed, h1, h4]
  simp only [h2, h5, frame, if_true]

/-- the frame-less formats with an arbitrary `enc` (the C18Run statement fixes `enc = none`) -/
theorem runFrom_append_enc (steps : List Step) (fmt : DestFmt) (o : OutOpts) (enc : Option Str) (a b : List (Nat × Tree))
    (ra rb : Str) (hf : fmt ≠ .tigerxml)
    (ha : runFrom steps fmt o enc (.ok a) = .ok ra) (hb : runFrom steps fmt o enc (.ok b) = .ok rb) :
    runFrom steps fmt o enc (.ok (a ++ b)) = .ok (ra ++ rb) := by
  obtain ⟨a', x, h1, h2, h3⟩ := runFrom_framed_inv _ _ _ _ _ _ ha
  obtain ⟨b', y, h4, h5, h6⟩ := runFrom_framed_inv _ _ _ _ _ _ hb
  rw [runFrom_append_framed, h1, h4]
  simp only [h2, h5, h3, h6, frame, hf, if_false]

example : runFrom [] .tigerxml {} (some (S "utf-8")) (.ok [(1, exU)]) = .ok (tigerFrame (some (S "utf-8"))
    (((writeTiger 1 exU).map (· ++ ['\n'])).flatten)) := by decide +kernel

/-! ### clause 2, `continuous`: formats that do not print the sentence number -/

/-- the formats whose text for a tree does not mention the sentence number -/
def noIds (fmt : DestFmt) : Bool := fmt == .brackets || fmt == .discobrackets || fmt == .terminals

theorem writeOne_noIds (fmt : DestFmt) (o : OutOpts) (h : noIds fmt = true) (sid sid' : Nat) (t : Tree) :
    writeOne fmt o sid t = writeOne fmt o sid' t := by
  cases fmt <;> first | rfl | simp [noIds] at h

theorem bodyText_renum (fmt : DestFmt) (o : OutOpts) (io : InOpts) (k : Nat) (h : noIds fmt = true) (ts : List (Nat × Tree)) :
    bodyText fmt o (ts.map (renum io k)) = bodyText fmt o ts := by
  unfold bodyText
  rw [List.mapM_map]
  congr 2
  funext p
  exact writeOne_noIds fmt o h _ _ _

theorem transformAll_renum (steps : List Step) (io : InOpts) (k : Nat) : ∀ (ts : List (Nat × Tree)),
    transformAll steps (ts.map (renum io k)) = (transformAll steps ts).map (·.map (renum io k))
  | [] => rfl
  | (sid, t) :: rest => by
    have ih := transformAll_renum steps io k rest
    have hr : renum io k (sid, t) = ((if io.continuous then sid + k else sid), t) := rfl
    rw [List.map_cons, hr, transformAll, transformAll]
    cases applySteps' steps t with
    | error e => rfl
    | ok r =>
      cases r with
      | none => exact ih
      | some t' =>
        simp only [ih]
        cases transformAll steps rest <;> rfl

/-- the run on renumbered sentences writes the same text in these formats -/
theorem runFrom_renum (steps : List Step) (fmt : DestFmt) (o : OutOpts) (enc : Option Str) (io : InOpts) (k : Nat)
    (h : noIds fmt = true) (ts : List (Nat × Tree)) :
    runFrom steps fmt o enc (.ok (ts.map (renum io k))) = runFrom steps fmt o enc (.ok ts) := by
  rw [runFrom_ok, runFrom_ok, transformAll_renum]
  cases transformAll steps ts with
  | error e => rfl
  | ok ts' =>
    show writeAll fmt o enc (ts'.map (renum io k)) = writeAll fmt o enc ts'
    rw [writeAll_frame, writeAll_frame, bodyText_renum fmt o io k h]

/-- MAIN: the C18Run statement `run_export_append` WITHOUT `continuous = false`, for the formats that do not print
    sentence numbers (for export output the hypothesis is needed, see C18Run) -/
theorem run_export_append_noIds (steps : List Step) (fmt : DestFmt) (o : OutOpts) (io : InOpts) (a b : Str) (ra rb : Str)
    (hf : noIds fmt = true) (hcomplete : Complete (lines a))
    (ha : runFrom steps fmt o none (readExport io (a ++ ['\n'])) = .ok ra)
    (hb : runFrom steps fmt o none (readExport io b) = .ok rb) :
    runFrom steps fmt o none (readExport io (a ++ ['\n'] ++ b)) = .ok (ra ++ rb) := by
  obtain ⟨xa, _, hxa, _, _⟩ := TT.Props.C18Run.runFrom_inv _ _ _ _ _ _ ha
  obtain ⟨xb, _, hxb, _, _⟩ := TT.Props.C18Run.runFrom_inv _ _ _ _ _ _ hb
  have hread : readExport io (a ++ ['\n'] ++ b) = .ok (xa ++ xb.map (renum io (sentences (lines (a ++ ['\n']))))) := by
    rw [readExport_append_nl io a b hcomplete, hxa, hxb]
  have hne : fmt ≠ .tigerxml := by intro h; subst h; simp [noIds] at hf
  rw [hread]
  rw [hxa] at ha
  rw [hxb, ← runFrom_renum steps fmt o none io (sentences (lines (a ++ ['\n']))) hf] at hb
  exact TT.Props.C18Run.runFrom_append steps fmt o xa _ ra rb hne ha hb

/-- the texts of C18 with `continuous`: the second treebank's tree is number 3 in the concatenation, the brackets are the same -/
example : runFrom [] .brackets {} none (readExport { continuous := true } (exA ++ ['\n'] ++ exB)) =
    .ok ("(VROOT(NP(D the)(N dog)))\n(VROOT(N it))\n".toList ++ "(VROOT(ADV now))\n".toList) :=
  run_export_append_noIds [] .brackets {} { continuous := true } exA exB _ _ rfl (by decide +kernel)
    (by decide +kernel) (by decide +kernel)

/-! ### clause 6: the grammar command on a concatenation -/

/-- MAIN: `treetools grammar … treebank` on a concatenation: every rule count and every lexicon count is the sum -/
theorem runGrammarFrom_treebank_append (mo : Option MarkovOpts) (a b : List (Nat × Tree)) :
    ∃ gab ga gb, runGrammarFrom .treebank mo (.ok (a ++ b)) = .ok gab ∧ runGrammarFrom .treebank mo (.ok a) = .ok ga ∧
      runGrammarFrom .treebank mo (.ok b) = .ok gb ∧
      (∀ f l v, gramCount gab.1 f l v = gramCount ga.1 f l v + gramCount gb.1 f l v) ∧
      (∀ w t, lexCount gab.2 w t = lexCount ga.2 w t + lexCount gb.2 w t) := by
  refine ⟨_, _, _, TT.Props.C10Run.runGrammarFrom_treebank mo _, TT.Props.C10Run.runGrammarFrom_treebank mo _,
    TT.Props.C10Run.runGrammarFrom_treebank mo _, ?_, ?_⟩
  · intro f l v
    rw [List.map_append]
    exact extract_append_counts _ _ f l v
  · intro w t
    rw [List.map_append]
    exact extract_append_lex _ _ w t

/-- the lexicon handed to the writer adds up whatever the grammar type (it is not binarized) -/
theorem runGrammarFrom_lexicon_append (gt : GramType) (mo : Option MarkovOpts) (a b : List (Nat × Tree)) :
    ∃ gab ga gb, runGrammarFrom gt mo (.ok (a ++ b)) = .ok gab ∧ runGrammarFrom gt mo (.ok a) = .ok ga ∧
      runGrammarFrom gt mo (.ok b) = .ok gb ∧ ∀ w t, lexCount gab.2 w t = lexCount ga.2 w t + lexCount gb.2 w t := by
  refine ⟨_, _, _, TT.Props.C10Run.runGrammarFrom_ok gt mo _, TT.Props.C10Run.runGrammarFrom_ok gt mo _,
    TT.Props.C10Run.runGrammarFrom_ok gt mo _, ?_⟩
  intro w t
  simp only [List.map_append]
  exact extract_append_lex _ _ w t

example : ∃ g, runGrammarFrom .treebank none (.ok ([(1, exT)] ++ [(2, exU), (3, exT)])) = .ok g ∧
    gramCount g.1 TT.Props.C06.exF TT.Props.C06.exL (.ctx ["S2".toList]) = 2 ∧ lexCount g.2 "it".toList "N".toList = 5 :=
  ⟨_, rfl, by decide, by decide⟩

/-! ## clause 11: files that represent sets, up to the order of lines (LoPar writer) -/

section Lopar
open TT TT.Tree TT.Spec TT.Lemmas.GramOut TT.Lemmas.Lopar12

/-! ### the statement proposed by the audit is false

`writeLopar_start_perm (g g') (h : ∀ f l v, gramCount g f l v = gramCount g' f l v) :
   (files g).start.Perm (files g').start` (and the same for `.gram`): `gramCount` is `getD 0` of the lookup, so it does
not see a key with an empty table, a stored 0, or a second entry under a key that is already there. -/

/-- the lines written for a grammar with the empty lexicon (`[]` when the writer refuses) -/
def startLines (g : Grammar) : List Str := match writeLopar g [] with | .ok F => F.start | .error _ => []
def gramLines (g : Grammar) : List Str := match writeLopar g [] with | .ok F => F.gram | .error _ => []

/-- a function key with an empty table -/
def cexEmpty : Grammar := [(["S".toList], [])]
/-- a stored count 0 -/
def cexZero : Grammar := [(["S".toList, "A".toList], [([[(0, 0)]], [(.default, 0)])])]
/-- a function key stored twice: the second entry is invisible to lookups, but it is written -/
def cexTwice : Grammar :=
  [(["S".toList, "A".toList], [([[(0, 0)]], [(.default, 1)])]), (["S".toList, "A".toList], [([[(0, 0)]], [(.default, 5)])])]
def cexOnce : Grammar := [(["S".toList, "A".toList], [([[(0, 0)]], [(.default, 1)])])]

/-- counterexample 1: `[(S, [])]` and `[]` have the same `gramCount` everywhere, but only the first writes a start line -/
example : (∀ f l v, gramCount cexEmpty f l v = gramCount [] f l v) ∧
    startLines cexEmpty = ["S 0".toList] ∧ startLines [] = [] ∧ ¬ (startLines cexEmpty).Perm (startLines []) := by
  refine ⟨?_, by decide, by decide, by decide⟩
  intro f l v
  unfold gramCount cexEmpty
  rw [get?_cons]
  split <;> rfl

/-- counterexample 2: a stored 0 is a rule line and a start line -/
example : (∀ f l v, gramCount cexZero f l v = gramCount [] f l v) ∧
    gramLines cexZero = ["0 S A".toList] ∧ gramLines [] = [] ∧ startLines cexZero = ["S 0".toList] := by
  refine ⟨?_, by decide, by decide, by decide⟩
  intro f l v
  unfold gramCount cexZero
  simp only [get?_cons, get?_nil]
  split
  · simp only [Option.bind_some, get?_cons, get?_nil]
    split
    · simp only [Option.bind_some, get?_cons, get?_nil]
      split <;> rfl
    · rfl
  · rfl

/-- counterexample 3: a repeated key -/
example : (∀ f l v, gramCount cexTwice f l v = gramCount cexOnce f l v) ∧
    gramLines cexTwice = ["1 S A".toList, "5 S A".toList] ∧ gramLines cexOnce = ["1 S A".toList] ∧
    startLines cexTwice = ["S 6".toList] ∧ startLines cexOnce = ["S 1".toList] := by
  refine ⟨?_, by decide, by decide, by decide, by decide⟩
  intro f l v
  unfold gramCount cexTwice cexOnce
  simp only [get?_cons, get?_nil]
  by_cases hf : ([['S'], ['A']] : Func) = f <;> simp [hf]

/-! ### 2. grammars built by additions are well-formed -/

theorem gramWF_nil : GramWF [] := TT.Lemmas.Lopar12.gramWF_nil

theorem gramWF_add (g : Grammar) (f : Func) (l : Lin) (v : VertKey) (n : Nat) (h : GramWF g) :
    GramWF (g.add f l v n) := TT.Lemmas.Lopar12.gramWF_add g f l v n h

theorem gramWF_extractAll (ts : List Tree) : GramWF (extractAll ts).1 :=
  gramWF_foldl_extract ts ([], []) gramWF_nil

/-- every count stored by the extraction is positive -/
theorem tight_extractAll (ts : List Tree) : Tight (extractAll ts).1 :=
  tight_foldl_extract ts ([], []) tight_nil

/-! two lists of additions, the second a rearrangement of the first -/

def exAdds : List (Func × Lin × VertKey × Nat) :=
  [(["S".toList, "NP".toList, "VP".toList], [[(0, 0), (1, 0)]], .ctx ["S1".toList], 1),
   (["NP".toList, "N".toList], [[(0, 0)]], .ctx ["NP1".toList, "S1".toList], 1),
   (["NP".toList, "N".toList], [[(0, 0)]], .ctx ["NP1".toList, "VP1".toList], 2),
   (["S".toList, "NP".toList], [[(0, 0)]], .default, 3),
   (["ROOT".toList, "S".toList], [[(0, 0)]], .default, 4),
   (["VP".toList, "V".toList, "NP".toList], [[(0, 0), (1, 0)]], .ctx ["VP1".toList, "S1".toList], 1),
   (["S".toList, "NP".toList, "VP".toList], [[(1, 0), (0, 0)]], .ctx ["S1".toList], 2)]

def exAdds' : List (Func × Lin × VertKey × Nat) :=
  [(["S".toList, "NP".toList, "VP".toList], [[(1, 0), (0, 0)]], .ctx ["S1".toList], 2),
   (["NP".toList, "N".toList], [[(0, 0)]], .ctx ["NP1".toList, "VP1".toList], 2),
   (["VP".toList, "V".toList, "NP".toList], [[(0, 0), (1, 0)]], .ctx ["VP1".toList, "S1".toList], 1),
   (["S".toList, "NP".toList], [[(0, 0)]], .default, 3),
   (["NP".toList, "N".toList], [[(0, 0)]], .ctx ["NP1".toList, "S1".toList], 1),
   (["ROOT".toList, "S".toList], [[(0, 0)]], .default, 4),
   (["S".toList, "NP".toList, "VP".toList], [[(0, 0), (1, 0)]], .ctx ["S1".toList], 1)]

def exG1 : Grammar := exAdds.foldl addE []
def exG2 : Grammar := exAdds'.foldl addE []
def exLex : Lexicon := [("dog".toList, [("N".toList, 2)]), ("Rex".toList, [("N".toList, 1)]), ("barks".toList, [("V".toList, 1)])]

theorem exG1_wf : GramWF exG1 := gramWF_foldl_addE exAdds [] gramWF_nil
theorem exG2_wf : GramWF exG2 := gramWF_foldl_addE exAdds' [] gramWF_nil
theorem exG12_sameMap : SameMap exG1 exG2 :=
  sameMap_foldl_addE_perm exAdds exAdds' (by decide) [] [] (sameMap_refl [])

/-- the two grammars are stored in different orders, at every level -/
example : exG1.map (·.1) ≠ exG2.map (·.1) ∧
    (AList.get? ["S".toList, "NP".toList, "VP".toList] exG1).map (·.map (·.1)) ≠
      (AList.get? ["S".toList, "NP".toList, "VP".toList] exG2).map (·.map (·.1)) ∧
    inner exG1 ["NP".toList, "N".toList] [[(0, 0)]] ≠ inner exG2 ["NP".toList, "N".toList] [[(0, 0)]] := by decide

/-- `SameMap` can also be checked on the entries -/
example : SameMap exG1 exG2 := sameMap_of_entries_perm exG1 exG2 exG1_wf exG2_wf (by decide)

/-! ### 3. the same finite map: the same rules, context-freeness, files up to the order of lines -/

theorem rules_perm (g g' : Grammar) (h : GramWF g) (h' : GramWF g') (e : SameMap g g') : g.rules.Perm g'.rules := by
  rw [List.perm_ext_iff_of_nodup (rules_nodup g h) (rules_nodup g' h')]
  intro r
  exact ⟨mem_rules_of_sameMap g g' h h' e r, mem_rules_of_sameMap g' g h' h (sameMap_symm e) r⟩

example : exG1.rules.Perm exG2.rules ∧ exG1.rules ≠ exG2.rules :=
  ⟨rules_perm exG1 exG2 exG1_wf exG2_wf exG12_sameMap, by decide⟩

theorem isContextFree_sameMap (g g' : Grammar) (h : GramWF g) (h' : GramWF g') (e : SameMap g g') :
    isContextFree g = isContextFree g' := by
  rw [isContextFree_eq_rules, isContextFree_eq_rules]
  exact (rules_perm g g' h h' e).all_eq

example : isContextFree exG1 = isContextFree exG2 := isContextFree_sameMap exG1 exG2 exG1_wf exG2_wf exG12_sameMap

/-- the LoPar files of two well-formed grammars that are the same finite map: the same rule lines and the same start
    lines up to their order; the lexicon-side files are identical -/
theorem writeLopar_perm (g g' : Grammar) (lex : Lexicon) (h : GramWF g) (h' : GramWF g') (e : SameMap g g')
    (F : LoparFiles) (hw : writeLopar g lex = .ok F) :
    ∃ F', writeLopar g' lex = .ok F' ∧ F.gram.Perm F'.gram ∧ F.start.Perm F'.start ∧
      F.lex = F'.lex ∧ F.oc = F'.oc ∧ F.ocU = F'.ocU := by
  have hcf : isContextFree g' = true := by
    rw [← isContextFree_sameMap g g' h h' e]; exact writeLopar_isCF g lex F hw
  obtain ⟨F', hw'⟩ := writeLopar_ok_of_isCF g' lex hcf
  have hr := rules_perm g g' h h' e
  refine ⟨F', hw', ?_, ?_, writeLopar_lexside g g' lex F F' hw hw'⟩
  · rw [writeLopar_gram g lex F hw, writeLopar_gram g' lex F' hw']
    exact hr.map _
  · rw [start_eq_startOf g lex F hw, start_eq_startOf g' lex F' hw']
    exact startOf_perm _ _ _ _ (funcs_perm_of_rules_perm g g' h h' hr) (lhsMass_of_rules_perm g g' hr)

/-- the hypotheses are met by `exG1`, `exG2`, and the files do come out in different orders -/
example : ∃ F F', writeLopar exG1 exLex = .ok F ∧ writeLopar exG2 exLex = .ok F' ∧
    F.gram.Perm F'.gram ∧ F.gram ≠ F'.gram ∧ F.start.Perm F'.start ∧ F.start = ["ROOT 4".toList] := by
  have hcf : isContextFree exG1 = true := by decide
  obtain ⟨F, hw⟩ := writeLopar_ok_of_isCF exG1 exLex hcf
  obtain ⟨F', hw', hg, hs, _⟩ := writeLopar_perm exG1 exG2 exLex exG1_wf exG2_wf exG12_sameMap F hw
  refine ⟨F, F', hw, hw', hg, ?_, hs, ?_⟩
  · rw [writeLopar_gram _ _ _ hw, writeLopar_gram _ _ _ hw']; decide
  · rw [TT.Props.C09.lopar_start _ _ _ hw]; decide

/-- the audit's statement with the missing hypotheses: well-formed, no stored 0 -/
theorem writeLopar_perm_of_gramCount (g g' : Grammar) (lex : Lexicon) (h : GramWF g) (h' : GramWF g')
    (ht : Tight g) (ht' : Tight g') (e : ∀ f l v, gramCount g f l v = gramCount g' f l v)
    (F : LoparFiles) (hw : writeLopar g lex = .ok F) :
    ∃ F', writeLopar g' lex = .ok F' ∧ F.gram.Perm F'.gram ∧ F.start.Perm F'.start := by
  obtain ⟨F', hw', hg, hs, _⟩ := writeLopar_perm g g' lex h h' (sameMap_of_gramCount g g' ht ht' e) F hw
  exact ⟨F', hw', hg, hs⟩

/-! ### 4. the same sentences in another order -/

theorem extractAll_sameMap_perm (ts ts' : List Tree) (p : ts.Perm ts') :
    SameMap (extractAll ts).1 (extractAll ts').1 := by
  apply sameMap_of_gramCount _ _ (tight_extractAll ts) (tight_extractAll ts')
  intro f l v
  rw [TT.Lemmas.Proc.extractAll_gramCount, TT.Lemmas.Proc.extractAll_gramCount, ruleOcc_perm f l v ts ts' p]

/-- the same command on the sentences in another order writes the same grammar and start files up to the order of
    lines -/
theorem writeLopar_treebank_perm (ts ts' : List Tree) (lex : Lexicon) (h : ts.Perm ts') (F : LoparFiles)
    (hw : writeLopar (extractAll ts).1 lex = .ok F) :
    ∃ F', writeLopar (extractAll ts').1 lex = .ok F' ∧ F.gram.Perm F'.gram ∧ F.start.Perm F'.start := by
  obtain ⟨F', hw', hg, hs, _⟩ := writeLopar_perm _ _ lex (gramWF_extractAll ts) (gramWF_extractAll ts')
    (extractAll_sameMap_perm ts ts' h) F hw
  exact ⟨F', hw', hg, hs⟩

/-- `(S (NP the/1 dog/2) (VP barks/3))` -/
def exTa : Tree :=
  node { label := "S".toList }
    [node { label := "NP".toList }
       [leaf 1 { label := "D".toList, word := some "the".toList }, leaf 2 { label := "N".toList, word := some "dog".toList }],
     node { label := "VP".toList } [leaf 3 { label := "V".toList, word := some "barks".toList }]]

/-- `(S (VP runs/2) (NP it/1))`, stored verb phrase first -/
def exTb : Tree :=
  node { label := "S".toList }
    [node { label := "VP".toList } [leaf 2 { label := "V".toList, word := some "runs".toList }],
     node { label := "NP".toList } [leaf 1 { label := "N".toList, word := some "it".toList }]]

example : ∃ F F', writeLopar (extractAll [exTa, exTb]).1 (extractAll [exTa, exTb]).2 = .ok F ∧
    writeLopar (extractAll [exTb, exTa]).1 (extractAll [exTa, exTb]).2 = .ok F' ∧
    F.gram.Perm F'.gram ∧ F.gram ≠ F'.gram ∧ F.start.Perm F'.start := by
  have hcf : isContextFree (extractAll [exTa, exTb]).1 = true := by decide
  obtain ⟨F, hw⟩ := writeLopar_ok_of_isCF _ (extractAll [exTa, exTb]).2 hcf
  obtain ⟨F', hw', hg, hs⟩ := writeLopar_treebank_perm [exTa, exTb] [exTb, exTa] _ (List.Perm.swap exTb exTa []) F hw
  refine ⟨F, F', hw, hw', hg, ?_, hs⟩
  rw [writeLopar_gram _ _ _ hw, writeLopar_gram _ _ _ hw']; decide


open TT TT.Tree TT.Spec TT.Lemmas.GramOut TT.Lemmas.Lopar12

/-! ### 5. the lexicon file is not set-like; the tag-count files are -/


def exLx1 : Lexicon := [("dog".toList, [("N".toList, 1), ("V".toList, 1)]), ("Rex".toList, [("N".toList, 2)])]
def exLx2 : Lexicon := [("Rex".toList, [("N".toList, 2)]), ("dog".toList, [("V".toList, 1), ("N".toList, 1)])]

theorem exLx1_wf : LexWF exLx1 := by
  refine ⟨by decide, ?_⟩
  intro p hp
  simp only [exLx1, List.mem_cons, List.not_mem_nil, or_false] at hp
  rcases hp with rfl | rfl <;> decide

theorem exLx2_wf : LexWF exLx2 := by
  refine ⟨by decide, ?_⟩
  intro p hp
  simp only [exLx2, List.mem_cons, List.not_mem_nil, or_false] at hp
  rcases hp with rfl | rfl <;> decide

theorem exLx12_same : SameLex exLx1 exLx2 := by
  intro w t
  apply Option.ext
  intro c
  unfold lexLookup
  rw [← mem_flat2_iff exLx1 exLx1_wf, ← mem_flat2_iff exLx2 exLx2_wf]
  exact (show (flat2 exLx1).Perm (flat2 exLx2) by decide).mem_iff

/-- The lexicon file is NOT the same up to the order of lines: a line lists the tags of its word in insertion order.
    Two lexicons that are the same finite map (so also the same `lexCount` everywhere), every key once: -/
example : LexWF exLx1 ∧ LexWF exLx2 ∧ SameLex exLx1 exLx2 ∧
    lexLines exLx1 = ["dog\tN 1 V 1".toList, "Rex\tN 2".toList] ∧
    lexLines exLx2 = ["Rex\tN 2".toList, "dog\tV 1 N 1".toList] ∧
    ¬ (lexLines exLx1).Perm (lexLines exLx2) :=
  ⟨exLx1_wf, exLx2_wf, exLx12_same, by decide, by decide, by decide⟩

theorem SameLex.lexCount {lex lex' : Lexicon} (e : SameLex lex lex') (w t : Str) :
    lexCount lex w t = lexCount lex' w t := by
  have := e w t
  unfold lexLookup at this
  unfold Spec.lexCount
  rw [this]

/-- the tag-count files (`oc`: words not starting with an upper-case letter, `ocU`: the others) of two lexicons that
    are the same finite map agree up to the order of lines -/
theorem writeLopar_oc_perm (g : Grammar) (lex lex' : Lexicon) (h : LexWF lex) (h' : LexWF lex') (e : SameLex lex lex')
    (F F' : LoparFiles) (hw : writeLopar g lex = .ok F) (hw' : writeLopar g lex' = .ok F') :
    F.oc.Perm F'.oc ∧ F.ocU.Perm F'.ocU := by
  have p : (flat2 lex).Perm (flat2 lex') := flat2_perm lex lex' h h' e
  obtain ⟨h1, h2⟩ := writeLopar_oc g lex F hw
  obtain ⟨h1', h2'⟩ := writeLopar_oc g lex' F' hw'
  rw [h1, h2, h1', h2', ocFold_eq, ocFold_eq]
  exact ⟨(bumpAll_perm _ _ (incs_perm false lex lex' p)).map _, (bumpAll_perm _ _ (incs_perm true lex lex' p)).map _⟩

example : ∃ F F', writeLopar exG1 exLx1 = .ok F ∧ writeLopar exG1 exLx2 = .ok F' ∧
    F.oc.Perm F'.oc ∧ F.ocU.Perm F'.ocU ∧ F.oc = ["N 1".toList, "V 1".toList] ∧ F'.oc = ["V 1".toList, "N 1".toList] := by
  have hcf : isContextFree exG1 = true := by decide
  obtain ⟨F, hw⟩ := writeLopar_ok_of_isCF exG1 exLx1 hcf
  obtain ⟨F', hw'⟩ := writeLopar_ok_of_isCF exG1 exLx2 hcf
  obtain ⟨p1, p2⟩ := writeLopar_oc_perm exG1 exLx1 exLx2 exLx1_wf exLx2_wf exLx12_same F F' hw hw'
  refine ⟨F, F', hw, hw', p1, p2, ?_, ?_⟩
  · rw [(writeLopar_oc _ _ _ hw).1]; decide
  · rw [(writeLopar_oc _ _ _ hw').1]; decide


/-! ### the whole grammar command on a permuted treebank, lexicon side included -/

open TT TT.Tree TT.Spec TT.Lemmas.GramOut TT.Lemmas.Lopar12

/-! ### (a), (b): the lexicon written by the extraction -/

theorem lexInv_extractAll (ts : List Tree) : LexInv (extractAll ts).2 :=
  lexInv_foldl_extract ts ([], []) ⟨lexWFne_nil, lexTight_nil⟩

/-- (a) no word twice, no tag twice under a word -/
theorem lexWF_extractAll (ts : List Tree) : LexWF (extractAll ts).2 := (lexInv_extractAll ts).1.1

/-- no word without a tag -/
theorem lexNonempty_extractAll (ts : List Tree) : ∀ p ∈ (extractAll ts).2, p.2 ≠ [] := (lexInv_extractAll ts).1.2

/-- (b) every stored count is positive -/
theorem lexTight_extractAll (ts : List Tree) : ∀ w t, lexLookup (extractAll ts).2 w t ≠ some 0 :=
  (lexInv_extractAll ts).2

/-- (b) the finite map is read off the occurrence counts -/
theorem lexLookup_extractAll (ts : List Tree) (w t : Str) :
    lexLookup (extractAll ts).2 w t =
      if TT.Lemmas.Proc.lexOcc w t ts = 0 then none else some (TT.Lemmas.Proc.lexOcc w t ts) := by
  rw [lexLookup_of_tight _ (lexInv_extractAll ts).2, TT.Lemmas.Proc.extractAll_lexCount]

/-- (b) the sentences in another order give the same lexicon, as a finite map -/
theorem extractAll_sameLex_perm (ts ts' : List Tree) (p : ts.Perm ts') :
    SameLex (extractAll ts).2 (extractAll ts').2 := by
  apply sameLex_of_lexCount _ _ (lexInv_extractAll ts).2 (lexInv_extractAll ts').2
  intro w t
  rw [TT.Lemmas.Proc.extractAll_lexCount, TT.Lemmas.Proc.extractAll_lexCount, lexOcc_perm w t ts ts' p]

/-! ### (c) the whole command -/

/-- the grammar command on the sentences in another order: the grammar file, the start file and the two tag-count
    files are the same up to the order of lines -/
theorem writeLopar_command_perm (ts ts' : List Tree) (h : ts.Perm ts') (F : LoparFiles)
    (hw : writeLopar (extractAll ts).1 (extractAll ts).2 = .ok F) :
    ∃ F', writeLopar (extractAll ts').1 (extractAll ts').2 = .ok F' ∧
      F.gram.Perm F'.gram ∧ F.start.Perm F'.start ∧ F.oc.Perm F'.oc ∧ F.ocU.Perm F'.ocU := by
  -- first the grammar, the lexicon kept
  obtain ⟨F1, hw1, hg, hs, _, ho, hu⟩ := writeLopar_perm _ _ (extractAll ts).2 (gramWF_extractAll ts)
    (gramWF_extractAll ts') (extractAll_sameMap_perm ts ts' h) F hw
  -- then the lexicon, the grammar kept
  obtain ⟨F', hw'⟩ := writeLopar_ok_of_isCF (extractAll ts').1 (extractAll ts').2 (writeLopar_isCF _ _ _ hw1)
  obtain ⟨p1, p2⟩ := writeLopar_oc_perm (extractAll ts').1 (extractAll ts).2 (extractAll ts').2
    (lexWF_extractAll ts) (lexWF_extractAll ts') (extractAll_sameLex_perm ts ts' h) F1 F' hw1 hw'
  have eg : F1.gram = F'.gram := by rw [writeLopar_gram _ _ _ hw1, writeLopar_gram _ _ _ hw']
  have es : F1.start = F'.start := by rw [start_eq_startOf _ _ _ hw1, start_eq_startOf _ _ _ hw']
  refine ⟨F', hw', ?_, ?_, ?_, ?_⟩
  · rw [← eg]; exact hg
  · rw [← es]; exact hs
  · rw [ho]; exact p1
  · rw [hu]; exact p2

/-- (e) `exTa`, `exTb` in both orders: all hypotheses are met, and the grammar file and the lower-case tag-count file do
    come out in different orders -/
example : ∃ F F', writeLopar (extractAll [exTa, exTb]).1 (extractAll [exTa, exTb]).2 = .ok F ∧
    writeLopar (extractAll [exTb, exTa]).1 (extractAll [exTb, exTa]).2 = .ok F' ∧
    F.gram.Perm F'.gram ∧ F.start.Perm F'.start ∧ F.oc.Perm F'.oc ∧ F.ocU.Perm F'.ocU ∧
    F.gram ≠ F'.gram ∧ F.oc ≠ F'.oc := by
  have hcf : isContextFree (extractAll [exTa, exTb]).1 = true := by decide
  obtain ⟨F, hw⟩ := writeLopar_ok_of_isCF _ (extractAll [exTa, exTb]).2 hcf
  obtain ⟨F', hw', hg, hs, ho, hu⟩ := writeLopar_command_perm [exTa, exTb] [exTb, exTa] (List.Perm.swap exTb exTa []) F hw
  refine ⟨F, F', hw, hw', hg, hs, ho, hu, ?_, ?_⟩
  · rw [writeLopar_gram _ _ _ hw, writeLopar_gram _ _ _ hw']; decide
  · rw [(writeLopar_oc _ _ _ hw).1, (writeLopar_oc _ _ _ hw').1]; decide

/-! ### (d) the lexicon file of the command -/

/-- `(S (VP dog/1) (NP it/2))`: the word `dog` once more, now as a verb -/
def exTc : Tree :=
  node { label := "S".toList }
    [node { label := "VP".toList } [leaf 1 { label := "V".toList, word := some "dog".toList }],
     node { label := "NP".toList } [leaf 2 { label := "N".toList, word := some "it".toList }]]

/-- The lexicon file is NOT the same up to the order of lines when the sentences come in another order: a word seen
    with two tags lists them in the order of first occurrence. -/
example : ∃ F F', writeLopar (extractAll [exTa, exTc]).1 (extractAll [exTa, exTc]).2 = .ok F ∧
    writeLopar (extractAll [exTc, exTa]).1 (extractAll [exTc, exTa]).2 = .ok F' ∧
    F.lex = ["the\tD 1".toList, "dog\tN 1 V 1".toList, "barks\tV 1".toList, "it\tN 1".toList] ∧
    F'.lex = ["dog\tV 1 N 1".toList, "it\tN 1".toList, "the\tD 1".toList, "barks\tV 1".toList] ∧
    ¬ F.lex.Perm F'.lex := by
  have hcf : isContextFree (extractAll [exTa, exTc]).1 = true := by decide
  have hcf' : isContextFree (extractAll [exTc, exTa]).1 = true := by decide
  obtain ⟨F, hw⟩ := writeLopar_ok_of_isCF _ (extractAll [exTa, exTc]).2 hcf
  obtain ⟨F', hw'⟩ := writeLopar_ok_of_isCF _ (extractAll [exTc, exTa]).2 hcf'
  refine ⟨F, F', hw, hw', ?_, ?_, ?_⟩
  · rw [writeLopar_lex _ _ _ hw]; decide
  · rw [writeLopar_lex _ _ _ hw']; decide
  · rw [writeLopar_lex _ _ _ hw, writeLopar_lex _ _ _ hw']; decide

/-- What does hold of the lexicon file: one line per word, the same words, and under each word the same (tag, count)
    pairs -- up to the order of the lines and the order of the pairs inside a line. -/
theorem lexicon_command_perm (ts ts' : List Tree) (h : ts.Perm ts') :
    ((extractAll ts).2.map (·.1)).Perm ((extractAll ts').2.map (·.1)) ∧
    ∀ w tags, (w, tags) ∈ (extractAll ts).2 → ∃ tags', (w, tags') ∈ (extractAll ts').2 ∧ tags.Perm tags' :=
  ⟨words_of_sameLex _ _ (lexInv_extractAll ts).1 (lexInv_extractAll ts').1 (extractAll_sameLex_perm ts ts' h),
   tags_of_sameLex _ _ (lexInv_extractAll ts).1 (lexInv_extractAll ts').1 (extractAll_sameLex_perm ts ts' h)⟩

/-- the same in terms of the file: the lines are those of the lexicon, so the two files have the same number of lines -/
theorem lexicon_command_lines (ts ts' : List Tree) (h : ts.Perm ts') (F F' : LoparFiles)
    (hw : writeLopar (extractAll ts).1 (extractAll ts).2 = .ok F)
    (hw' : writeLopar (extractAll ts').1 (extractAll ts').2 = .ok F') :
    F.lex = lexLines (extractAll ts).2 ∧ F'.lex = lexLines (extractAll ts').2 ∧ F.lex.length = F'.lex.length := by
  refine ⟨writeLopar_lex _ _ _ hw, writeLopar_lex _ _ _ hw', ?_⟩
  rw [writeLopar_lex _ _ _ hw, writeLopar_lex _ _ _ hw']
  have := (lexicon_command_perm ts ts' h).1.length_eq
  simpa [lexLines] using this

example : (("dog".toList, [("N".toList, 1), ("V".toList, 1)]) : Str × AList Str Nat) ∈ (extractAll [exTa, exTc]).2 ∧
    (("dog".toList, [("V".toList, 1), ("N".toList, 1)]) : Str × AList Str Nat) ∈ (extractAll [exTc, exTa]).2 := by decide


end Lopar

/-! ## clause 3: the discobracket reader is sentence local -/

section Disco
open TT TT.Spec TT.Lemmas.Read TT.Lemmas.More4 TT.Lemmas.Disco12

/-- what the examples compare (`Tree` has no decidable equality): sentence id, leaf numbers, words -/
def dview (r : Except Err (List (Nat × Tree))) : Option (List (Nat × List Nat × List Str)) :=
  match r with
  | .ok l => some (l.map fun p => (p.1, p.2.leafNums, p.2.leaves.map fun l => l.fields.word.getD []))
  | .error _ => none

/-! ### C. token level -/

/-- TOKEN-LEVEL MAIN THEOREM.  If the tokens `a` are read successfully from a between-sentences state and the last
    token of `a` is whitespace with a line break (`EndsBreak a`: the last sentence line is terminated inside `a`), then
    reading `a ++ b` is reading `b` from the fresh state with the sentence counter advanced and the trees of `a` already
    delivered.  Before the repair of the reader (D21) the hypothesis had to be `EndsNL a` (the last token is exactly
    "\n"); now any whitespace token that contains a line break ends the sentence line (" \n", "\n\n", "\t\n  ", ...).
    The statement is the one given, except that the hypothesis `o.disco = true` is dropped: the proof does not use it
    (with `o.disco = false` there is no post-pass and `EndsBreak` is not needed either, see `C18More.brLoop_append`). -/
theorem brLoop_disco_append (o : InOpts) (a b : List (Str × LexClass)) (st : BrState) (ra : List (Nat × Tree)) (fa fb : Nat)
    (ha : brLoop o fa st a = .ok ra) (hst : st.state = 0 ∧ st.level = 0 ∧ st.queue = [] ∧ st.termCnt = 1) (hnl : EndsBreak a)
    (hfa : a.length < fa) (hfb : (a ++ b).length < fb) :
    brLoop o fb st (a ++ b) = brLoop o fb ⟨0, 0, [], 1, st.cnt + (ra.length - st.out.length), ra.reverse⟩ b := by
  obtain ⟨s, hr, hl0, hout, hb⟩ := loop_reach o fa st a ra ha hnl hfa
  have hi0 : Inv0 s := hr.inv0 (by unfold Inv0; simp [hst.1, hst.2.1])
  have hs0 : s.state = 0 := hi0.2 hl0
  have hq := hr.inv2 (fun _ => ⟨hst.2.2.1, hst.2.2.2⟩) hs0
  have hlen : ra.length = s.out.length := by rw [hout]; simp
  have hcnt : s.cnt = st.cnt + (ra.length - st.out.length) := by
    have := hr.cnt; have := hr.len; omega
  rw [hb b fb hfb]
  obtain ⟨state, level, queue, termCnt, cnt, out⟩ := s
  obtain ⟨hq1, hq2⟩ := hq
  simp only at hs0 hl0 hout hcnt hq1 hq2
  subst hs0 hl0 hout hcnt hq1 hq2
  rfl

/-- the results form: the trees of `a`, then the trees of `b` read on its own with the sentence counter continued;
    errors of `b` are the errors of `a ++ b` -/
theorem brLoop_disco_append_results (o : InOpts) (a b : List (Str × LexClass)) (st : BrState) (ra : List (Nat × Tree))
    (fa fb fb' : Nat)
    (ha : brLoop o fa st a = .ok ra) (hst : st.state = 0 ∧ st.level = 0 ∧ st.queue = [] ∧ st.termCnt = 1) (hnl : EndsBreak a)
    (hfa : a.length < fa) (hfb : (a ++ b).length < fb) (hfb' : b.length < fb') :
    brLoop o fb st (a ++ b) =
      match brLoop o fb' { cnt := st.cnt + (ra.length - st.out.length) } b with
      | .error e => .error e
      | .ok rb => .ok (ra ++ rb) := by
  rw [brLoop_disco_append o a b st ra fa fb ha hst hnl hfa hfb]
  have hb : b.length < fb := by simp only [List.length_append] at hfb; omega
  have hp := brLoop_out_prefix o ra.reverse fb ⟨0, 0, [], 1, st.cnt + (ra.length - st.out.length), []⟩ b
  simp only [List.nil_append, List.reverse_reverse] at hp
  rw [hp, brLoop_fuel o fb fb' _ b hb hfb']
  cases brLoop o fb' { cnt := st.cnt + (ra.length - st.out.length) } b <;> rfl

/-- both parts succeed: the results concatenate -/
theorem brLoop_disco_append_ok (o : InOpts) (a b : List (Str × LexClass)) (st : BrState) (ra rb : List (Nat × Tree))
    (fa fb fb' : Nat)
    (ha : brLoop o fa st a = .ok ra) (hst : st.state = 0 ∧ st.level = 0 ∧ st.queue = [] ∧ st.termCnt = 1) (hnl : EndsBreak a)
    (hfa : a.length < fa) (hfb : (a ++ b).length < fb) (hfb' : b.length < fb')
    (hrb : brLoop o fb' { cnt := st.cnt + (ra.length - st.out.length) } b = .ok rb) :
    brLoop o fb st (a ++ b) = .ok (ra ++ rb) := by
  rw [brLoop_disco_append_results o a b st ra fa fb fb' ha hst hnl hfa hfb hfb', hrb]

/-- the former hypothesis (`EndsNL`: the last token is exactly "\n") is a special case on lexer output, where a "\n"
    token is always a whitespace token -/
theorem brLoop_disco_append_endsNL (o : InOpts) (a b : List (Str × LexClass)) (st : BrState) (ra : List (Nat × Tree)) (fa fb : Nat)
    (ha : brLoop o fa st a = .ok ra) (hst : st.state = 0 ∧ st.level = 0 ∧ st.queue = [] ∧ st.termCnt = 1) (hnl : EndsNL a)
    (hcl : ∀ tc ∈ a, tc.1 = ['\n'] → tc.2 = .ws)
    (hfa : a.length < fa) (hfb : (a ++ b).length < fb) :
    brLoop o fb st (a ++ b) = brLoop o fb ⟨0, 0, [], 1, st.cnt + (ra.length - st.out.length), ra.reverse⟩ b :=
  brLoop_disco_append o a b st ra fa fb ha hst (endsBreak_of_endsNL a hnl hcl) hfa hfb

/-- the tokens of the two example lines: `(S (A 1) (B 2))<TAB>x y<NL>` and `(T (C 1))<TAB>z<NL>`, each with its
    "\n" token (the lexer emits it because something non-white follows, here a junk word `q`) -/
def dExA : List (Str × LexClass) := bracketLex "(S (A 1) (B 2))\tx y\nq ".toList |>.dropLast
def dExB : List (Str × LexClass) := bracketLex "(T (C 1))\tz\nq ".toList |>.dropLast
/-- the first line with two blanks between the words, a TAB and a blank before the line break and a blank line behind it -/
def dExA' : List (Str × LexClass) := bracketLex "(S (A 1) (B 2))\t x  y\t \n\nq ".toList |>.dropLast

/-- F: the hypotheses of the token-level theorem are met by the first example line, and the concatenation reads as the
    concatenation with the ids continued (leaf numbers and words are those of each line's own sentence) -/
example : EndsBreak dExA ∧ dExA.length < 21 ∧ (dExA ++ dExB).length < 40 ∧ dExB.length < 20 ∧
    dview (brLoop { disco := true } 21 {} dExA) = some [(1, [1, 2], ["x".toList, "y".toList])] ∧
    dview (brLoop { disco := true } 20 { cnt := 2 } dExB) = some [(2, [1], ["z".toList])] ∧
    dview (brLoop { disco := true } 40 {} (dExA ++ dExB)) =
      some [(1, [1, 2], ["x".toList, "y".toList]), (2, [1], ["z".toList])] :=
  ⟨.inr ⟨dExA.dropLast, ['\n'], by decide +kernel, by decide⟩, by decide +kernel, by decide +kernel, by decide +kernel,
    by decide +kernel, by decide +kernel, by decide +kernel⟩

/-- F: the same with the untidy first line: its last token is "\t \n\n" -/
example : EndsBreak dExA' ∧ dExA'.length < 21 ∧ (dExA' ++ dExB).length < 40 ∧ dExB.length < 20 ∧
    dview (brLoop { disco := true } 21 {} dExA') = some [(1, [1, 2], ["x".toList, "y".toList])] ∧
    dview (brLoop { disco := true } 40 {} (dExA' ++ dExB)) =
      some [(1, [1, 2], ["x".toList, "y".toList]), (2, [1], ["z".toList])] :=
  ⟨.inr ⟨dExA'.dropLast, "\t \n\n".toList, by decide +kernel, by decide⟩, by decide +kernel, by decide +kernel, by decide +kernel,
    by decide +kernel, by decide +kernel⟩

/-! ### D. the last sentence line has to be terminated -/

def exDa : List (Str × LexClass) := bracketLex "(S 1)\tx ".toList
def exDb : List (Str × LexClass) := (bracketLex "(T 1)\tz\n(U 1)\tw\nq ".toList).dropLast

/-- `EndsBreak` cannot be dropped.  `a` = `(S 1)<TAB>x` is read successfully on its own (the sentence is ended by the end
    of the stream), `b` = `(T 1)<TAB>z<NL>(U 1)<TAB>w<NL>` gives two trees on its own; in `a ++ b` the whole first line
    of `b` is swallowed into the sentence of `a`: two trees instead of three.  (This is a cut in the middle of a line, not
    a defect: the text of `a` has no line break.) -/
example :
    ¬ EndsBreak exDa ∧
    dview (brLoop { disco := true } 30 {} exDa) = some [(1, [1], ["x".toList])] ∧
    dview (brLoop { disco := true } 30 { cnt := 2 } exDb) = some [(2, [1], ["z".toList]), (3, [1], ["w".toList])] ∧
    dview (brLoop { disco := true } 30 {} (exDa ++ exDb)) = some [(1, [1], ["x".toList]), (2, [1], ["w".toList])] := by
  refine ⟨?_, by decide +kernel, by decide +kernel, by decide +kernel⟩
  rintro (h | ⟨pre, t, h, _⟩)
  · exact absurd h (by decide +kernel)
  · have h2 := congrArg (fun l => l.getLast?.map (·.2)) h
    simp only [List.getLast?_append, List.getLast?_singleton, Option.some_or, Option.map_some] at h2
    exact absurd h2 (by decide +kernel)

/-- the same on texts (no line break between the two parts) -/
example :
    dview (readBrackets { disco := true } "(S 1)\tx ".toList) = some [(1, [1], ["x".toList])] ∧
    dview (readBrackets { disco := true, firstId := some 2 } "(T 1)\tz\n(U 1)\tw\n".toList) =
      some [(2, [1], ["z".toList]), (3, [1], ["w".toList])] ∧
    dview (readBrackets { disco := true } ("(S 1)\tx ".toList ++ "(T 1)\tz\n(U 1)\tw\n".toList)) =
      some [(1, [1], ["x".toList]), (2, [1], ["w".toList])] := ⟨by decide +kernel, by decide +kernel, by decide +kernel⟩

/-! ### E. text level -/

theorem lineToks_endsBreak (a0 : Str) : EndsBreak (lineToks a0) := endsBreak_snoc _ _ (by decide)

/-- the lexer lemma: when `a0` does not end with whitespace and the next line starts with a non-white character, the
    token stream is cut exactly behind the "\n" token.  (If `a0` ends with whitespace the newline is glued to that
    run — `lex_line_general` — and the token is not a "\n" token; since the repair of the reader that token ends the
    sentence line as well.) -/
theorem lex_line (a0 : Str) (c : Char) (b' : Str) (hc : pyIsSpace c = false) (hws : NoTrailWs a0) :
    bracketLex (a0 ++ '\n' :: c :: b') = lineToks a0 ++ bracketLex (c :: b') := by
  rw [lex_line_general a0 c b' hc, lexBuf_noTrailWs a0 hws]
  rfl

/-- the core of the text-level theorems: a text whose tokens are those of `a0 ++ "\n"`, one whitespace token with a line
    break, and the tokens of `b` -/
theorem readDisco_cut (o : InOpts) (a0 text b : Str) (T : Str) (ra : List (Nat × Tree)) (hT : T.contains '\n' = true)
    (hlex : bracketLex text = (bracketLex (a0 ++ ['\n']) ++ [(T, LexClass.ws)]) ++ bracketLex b)
    (ha : brLoop o ((lineToks a0).length + 1) { cnt := o.firstId.getD 1 } (lineToks a0) = .ok ra) :
    readBrackets o text =
      match readBrackets { o with firstId := some (o.firstId.getD 1 + ra.length) } b with
      | .error e => .error e
      | .ok rb => .ok (ra ++ rb) := by
  unfold readBrackets
  rw [hlex]
  have ha' : brLoop o ((lineToks a0).length + 1) { cnt := o.firstId.getD 1 } (bracketLex (a0 ++ ['\n']) ++ [(T, LexClass.ws)]) = .ok ra := by
    rw [← ha]
    exact brLoop_last_break o _ _ _ T ['\n'] hT (by decide)
  rw [brLoop_disco_append_results o (bracketLex (a0 ++ ['\n']) ++ [(T, LexClass.ws)]) (bracketLex b) { cnt := o.firstId.getD 1 } ra
    ((lineToks a0).length + 1) _ ((bracketLex b).length + 1) ha' ⟨rfl, rfl, rfl, rfl⟩ (endsBreak_snoc _ _ hT)
    (by simp [lineToks]) (by omega) (by omega)]
  rw [brLoop_firstId o (some (o.firstId.getD 1 + ra.length))]
  rfl

/-- TEXT-LEVEL COROLLARY.  `a0` is the first part of the text without its final newline — it MAY end with blanks or
    TABs (before the repair of the reader, D21, the hypothesis `NoTrailWs a0` was needed) —; `c :: b'` is the second part,
    starting with a non-white character.  If the tokens of the first part (`lineToks a0`, which include the terminating
    "\n" token) are read successfully, giving `ra`, then reading the whole text gives `ra` followed by the trees of the
    second part read on its own with the sentence ids continued; errors of the second part are the errors of the whole.
    Holds for every `o` (the brief asked for `o.disco = true`). -/
theorem readDisco_append (o : InOpts) (a0 : Str) (c : Char) (b' : Str) (ra : List (Nat × Tree))
    (hc : pyIsSpace c = false)
    (ha : brLoop o ((lineToks a0).length + 1) { cnt := o.firstId.getD 1 } (lineToks a0) = .ok ra) :
    readBrackets o (a0 ++ '\n' :: c :: b') =
      match readBrackets { o with firstId := some (o.firstId.getD 1 + ra.length) } (c :: b') with
      | .error e => .error e
      | .ok rb => .ok (ra ++ rb) :=
  readDisco_cut o a0 _ (c :: b') ((lexBuf a0 [] []).2.reverse ++ ['\n']) ra (by simp)
    (lex_line_general a0 c b' hc) ha

/-- the same with the second part given as a text `b` whose first character exists and is not whitespace -/
theorem readDisco_append' (o : InOpts) (a0 b : Str) (ra : List (Nat × Tree))
    (hb : b.head?.map pyIsSpace = some false)
    (ha : brLoop o ((lineToks a0).length + 1) { cnt := o.firstId.getD 1 } (lineToks a0) = .ok ra) :
    readBrackets o (a0 ++ '\n' :: b) =
      match readBrackets { o with firstId := some (o.firstId.getD 1 + ra.length) } b with
      | .error e => .error e
      | .ok rb => .ok (ra ++ rb) := by
  cases b with
  | nil => simp at hb
  | cons c b' => exact readDisco_append o a0 c b' ra (by simpa using hb) ha

/-- both parts succeed: the results concatenate -/
theorem readDisco_append_ok (o : InOpts) (a0 b : Str) (ra rb : List (Nat × Tree))
    (hb : b.head?.map pyIsSpace = some false)
    (ha : brLoop o ((lineToks a0).length + 1) { cnt := o.firstId.getD 1 } (lineToks a0) = .ok ra)
    (hrb : readBrackets { o with firstId := some (o.firstId.getD 1 + ra.length) } b = .ok rb) :
    readBrackets o (a0 ++ '\n' :: b) = .ok (ra ++ rb) := by
  rw [readDisco_append' o a0 b ra hb ha, hrb]

/-- reading the tokens of a complete line (`lineToks a0`) is implied by reading the TEXT `a0 ++ "\n"` on its own: since
    the repair the token that ends the line gets no position, so it makes no difference whether the line is ended by that
    token or by the end of the stream -/
theorem lineToks_of_text (o : InOpts) (a0 : Str) (ra : List (Nat × Tree)) (ha : readBrackets o (a0 ++ ['\n']) = .ok ra) :
    brLoop o ((lineToks a0).length + 1) { cnt := o.firstId.getD 1 } (lineToks a0) = .ok ra := by
  unfold readBrackets at ha
  have := brLoop_snoc_ws o ['\n'] _ _ _ ra ha (Nat.lt_succ_self _)
  simpa [lineToks] using this

/-- TEXT-LEVEL MAIN THEOREM, on texts only and without any side condition on the second part: if the text `a0 ++ "\n"`
    is read successfully, giving `ra`, then for EVERY text `b` reading `a0 ++ "\n" ++ b` gives `ra` followed by the trees
    of `b` read on its own with the sentence ids continued; errors of `b` are the errors of the whole.  `a0` may end with
    blanks, `b` may start with blank lines or be empty.  (False before the repair: see the examples below.) -/
theorem readDisco_append_text (o : InOpts) (a0 b : Str) (ra : List (Nat × Tree))
    (ha : readBrackets o (a0 ++ ['\n']) = .ok ra) :
    readBrackets o (a0 ++ '\n' :: b) =
      match readBrackets { o with firstId := some (o.firstId.getD 1 + ra.length) } b with
      | .error e => .error e
      | .ok rb => .ok (ra ++ rb) := by
  obtain ⟨w, r, rfl, hw, hr⟩ := split_lead_ws b
  rcases hr with rfl | ⟨c, b', rfl, hc⟩
  · -- nothing but whitespace follows
    have e1 : readBrackets o (a0 ++ '\n' :: (w ++ [])) = .ok ra := by
      unfold readBrackets at ha ⊢
      rw [List.append_nil, lex_line_end a0 w hw]
      exact ha
    have e2 : bracketLex (w ++ []) = [] := by
      unfold bracketLex; rw [List.append_nil]; exact (lex_spaces w hw []).1
    rw [e1]
    unfold readBrackets
    rw [e2]
    simp [brLoop]
  · have hcut := readDisco_cut o a0 (a0 ++ '\n' :: (w ++ c :: b')) (c :: b') ((lexBuf a0 [] []).2.reverse ++ '\n' :: w) ra
      (by simp) (lex_line_ws a0 w c b' hw hc) (lineToks_of_text o a0 ra ha)
    rw [hcut]
    -- the leading whitespace of the second part is skipped
    have e : readBrackets { o with firstId := some (o.firstId.getD 1 + ra.length) } (w ++ c :: b') =
        readBrackets { o with firstId := some (o.firstId.getD 1 + ra.length) } (c :: b') := by
      unfold readBrackets
      rw [lex_lead_ws w c b' hw hc]
      by_cases hne : w = []
      · simp [hne]
      · simp only [hne, if_false, List.singleton_append, List.length_cons]
        rw [brLoop_cons]
        have hd : ∀ (st : BrState) rest, st.state = 0 → dStep { o with firstId := some (o.firstId.getD 1 + ra.length) } st (w, .ws) rest = .ok (st, rest) := by
          intro st rest h0
          simp [dStep, brStep, h0]
        rw [hd _ _ rfl]
    rw [e]

/-- both parts succeed: the results concatenate -/
theorem readDisco_append_text_ok (o : InOpts) (a0 b : Str) (ra rb : List (Nat × Tree))
    (ha : readBrackets o (a0 ++ ['\n']) = .ok ra)
    (hrb : readBrackets { o with firstId := some (o.firstId.getD 1 + ra.length) } b = .ok rb) :
    readBrackets o (a0 ++ '\n' :: b) = .ok (ra ++ rb) := by
  rw [readDisco_append_text o a0 b ra ha, hrb]

/-- a text whose last character is not whitespace -/
theorem noTrailWs_snoc (p : Str) (c : Char) (hc : pyIsSpace c = false) : NoTrailWs (p ++ [c]) := by
  intro p' c' h
  have := List.append_inj' h rfl
  simp only [List.cons.injEq, and_true] at this
  rw [← this.2]; exact hc

/-- F: the example of the brief, `(S (A 0) (B 1))<TAB>x y<NL>` followed by `(T (C 0))<TAB>z<NL>`: the hypotheses are
    met, ids continue.  (Words are 1-based indices into the sentence in this reader, so index 0 has no word: "0".) -/
example : ("(T (C 0))\tz\n".toList).head?.map pyIsSpace = some false ∧
    dview (brLoop { disco := true } ((lineToks "(S (A 0) (B 1))\tx y".toList).length + 1) {}
      (lineToks "(S (A 0) (B 1))\tx y".toList)) = some [(1, [0, 1], ["0".toList, "x".toList])] ∧
    dview (readBrackets { disco := true, firstId := some 2 } "(T (C 0))\tz\n".toList) = some [(2, [0], ["0".toList])] ∧
    dview (readBrackets { disco := true } ("(S (A 0) (B 1))\tx y".toList ++ '\n' :: "(T (C 0))\tz\n".toList)) =
      some [(1, [0, 1], ["0".toList, "x".toList]), (2, [0], ["0".toList])] :=
  ⟨by decide +kernel, by decide +kernel, by decide +kernel, by decide +kernel⟩

/-- F: the same with 1-based indices, so that every leaf gets its word -/
example : ("(T (C 1))\tz\n".toList).head?.map pyIsSpace = some false ∧
    dview (brLoop { disco := true } ((lineToks "(S (A 1) (B 2))\tx y".toList).length + 1) {}
      (lineToks "(S (A 1) (B 2))\tx y".toList)) = some [(1, [1, 2], ["x".toList, "y".toList])] ∧
    dview (readBrackets { disco := true, firstId := some 2 } "(T (C 1))\tz\n".toList) = some [(2, [1], ["z".toList])] ∧
    dview (readBrackets { disco := true } ("(S (A 1) (B 2))\tx y".toList ++ '\n' :: "(T (C 1))\tz\n".toList)) =
      some [(1, [1, 2], ["x".toList, "y".toList]), (2, [1], ["z".toList])] :=
  ⟨by decide +kernel, by decide +kernel, by decide +kernel, by decide +kernel⟩

/-- F: an instance of `readDisco_append_text` with a first part that ends in a blank and a TAB, two blanks between the
    words, and a second part that starts with a blank line -/
example :
    dview (readBrackets { disco := true } ("(S (A 1) (B 2))\tx  y \t".toList ++ ['\n'])) =
      some [(1, [1, 2], ["x".toList, "y".toList])] ∧
    dview (readBrackets { disco := true, firstId := some 2 } " \n(T (C 1))\tz\n".toList) = some [(2, [1], ["z".toList])] ∧
    dview (readBrackets { disco := true } ("(S (A 1) (B 2))\tx  y \t".toList ++ '\n' :: " \n(T (C 1))\tz\n".toList)) =
      some [(1, [1, 2], ["x".toList, "y".toList]), (2, [1], ["z".toList])] :=
  ⟨by decide +kernel, by decide +kernel, by decide +kernel⟩

/-- since the repair it makes no difference whether a line is ended by its line-break token or by the end of the stream:
    the token that ends the line gets no position.  (Before the repair a leaf pointing one past the last word read "0" at
    the end of the text and "\n" inside a longer text.) -/
example :
    dview (readBrackets { disco := true } "(S 2)\tx\n".toList) = some [(1, [2], ["0".toList])] ∧
    dview (readBrackets { disco := true } ("(S 2)\tx".toList ++ '\n' :: "(T 1)\tz\n".toList)) =
      some [(1, [2], ["0".toList]), (2, [1], ["z".toList])] := ⟨by decide +kernel, by decide +kernel⟩

/-- the hypothesis about `lineToks a0` is weaker than the one about the text `a0 ++ "\n"`: a tree without a sentence
    part is an error at the end of the text ("no sentence after tree": the lexer does not deliver the final line break)
    and is read with an empty sentence inside a longer text -/
example :
    dview (readBrackets { disco := true } "(S 1)\n".toList) = none ∧
    dview (brLoop { disco := true } ((lineToks "(S 1)".toList).length + 1) {} (lineToks "(S 1)".toList)) =
      some [(1, [1], ["0".toList])] ∧
    dview (readBrackets { disco := true } ("(S 1)".toList ++ '\n' :: "(T 1)\tz\n".toList)) =
      some [(1, [1], ["0".toList]), (2, [1], ["z".toList])] := ⟨by decide +kernel, by decide +kernel, by decide +kernel⟩

/-- `NoTrailWs` is no longer needed (D21 repaired): with a blank before the newline the lexer delivers the token " \n",
    which now ends the sentence; the next line is read as a sentence of its own — three trees.  (Before the repair this
    text gave two trees: `(T 1)<TAB>z` was swallowed into the sentence of the first line.) -/
example :
    dview (readBrackets { disco := true } ("(S 1)\tx ".toList ++ '\n' :: "(T 1)\tz\n(U 1)\tw\n".toList)) =
      some [(1, [1], ["x".toList]), (2, [1], ["z".toList]), (3, [1], ["w".toList])] ∧
    dview (readBrackets { disco := true, firstId := some 2 } "(T 1)\tz\n(U 1)\tw\n".toList) =
      some [(2, [1], ["z".toList]), (3, [1], ["w".toList])] := ⟨by decide +kernel, by decide +kernel⟩

/-- formerly bad inputs are read correctly: a TAB-separated sentence part with a trailing blank, a blank line between two
    sentences, two blanks and a TAB between two words -/
example :
    dview (readBrackets { disco := true } "(S 1)\tx \n(T 1)\tz\n(U 1)\tw\n".toList) =
      some [(1, [1], ["x".toList]), (2, [1], ["z".toList]), (3, [1], ["w".toList])] ∧
    dview (readBrackets { disco := true } "(S 1)\tx\n\n(T 1)\tz\n \n\t\n(U 1)\tw\n".toList) =
      some [(1, [1], ["x".toList]), (2, [1], ["z".toList]), (3, [1], ["w".toList])] ∧
    dview (readBrackets { disco := true } "(S (A 1) (B 2) (C 3))\tx  y\tz\n".toList) =
      some [(1, [1, 2, 3], ["x".toList, "y".toList, "z".toList])] := ⟨by decide +kernel, by decide +kernel, by decide +kernel⟩


end Disco

end TT.Props.C18Local
