/-
  C16 (tags) — the `PosTags` task: "the analysis tasks report totals equal to the number of … tokens/tags in the file".

  The accumulator keeps one tag per token, in file order, whatever the tag looks like (no tag is a
  placeholder that would not count); the number it reports is the number of distinct tags of the file,
  a number that depends neither on the order of the sentences nor on how the file is cut into two.
-/
import TT.Analysis
import TT.Lemmas.Sort
import TT.Lemmas.Edit
namespace TT.Props.C16Tags
open TT TT.Tree

/-- tags of a treebank, one per token, in file order -/
def fileTags (ts : List Tree) : List Str := ts.flatMap fun t => t.terminals.map (·.fields.label)

theorem posTags_fold_from (acc : List Str) (ts : List Tree) :
    ts.foldl posTagsRun acc = acc ++ fileTags ts := by
  induction ts generalizing acc with
  | nil => simp [fileTags]
  | cons t ts ih => simp [List.foldl_cons, ih, posTagsRun, fileTags, List.append_assoc]

/-- after all sentences the accumulator holds exactly the tags of the file, one per token, in order -/
theorem posTags_fold (ts : List Tree) : ts.foldl posTagsRun [] = fileTags ts := by
  simpa using posTags_fold_from [] ts

/-- one tag per token: the number of collected tags is the number of tokens of the file -/
theorem posTags_total (ts : List Tree) :
    (ts.foldl posTagsRun []).length = (ts.map fun t => t.leafNums.length).sum := by
  rw [posTags_fold]
  induction ts with
  | nil => simp [fileTags]
  | cons t ts ih =>
    have : fileTags (t :: ts) = t.terminals.map (·.fields.label) ++ fileTags ts := by simp [fileTags]
    rw [this, List.length_append, ih]
    simp [TT.Lemmas.Edit.terminals_length]

theorem nodup_eraseDups {α} [BEq α] [LawfulBEq α] : ∀ (l : List α), l.eraseDups.Nodup
  | [] => by simp
  | a :: as => by
    have : (as.filter fun b => !b == a).length < (a :: as).length :=
      Nat.lt_succ_of_le (List.length_filter_le _ as)
    rw [List.eraseDups_cons, List.nodup_cons]
    refine ⟨?_, nodup_eraseDups _⟩
    simp
termination_by l => l.length

theorem eraseDups_sublist {α} [BEq α] [LawfulBEq α] : ∀ (l : List α), l.eraseDups.Sublist l
  | [] => by simp
  | a :: as => by
    have : (as.filter fun b => !b == a).length < (a :: as).length :=
      Nat.lt_succ_of_le (List.length_filter_le _ as)
    rw [List.eraseDups_cons]
    exact ((eraseDups_sublist _).trans List.filter_sublist).cons_cons a
termination_by l => l.length

/-- the reported number counts a tag iff some token of the file carries it: every tag that occurs is counted once -/
theorem reported_counts_every_tag (ts : List Tree) (tag : Str) :
    tag ∈ (ts.foldl posTagsRun []).eraseDups ↔ ∃ t ∈ ts, ∃ x ∈ t.terminals, x.fields.label = tag := by
  rw [posTags_fold]
  simp [fileTags]

/-- the reported number never exceeds the number of tokens -/
theorem reported_le_tokens (ts : List Tree) :
    distinctCount (ts.foldl posTagsRun []) ≤ (ts.map fun t => t.leafNums.length).sum := by
  rw [← posTags_total]
  unfold distinctCount
  exact (eraseDups_sublist _).length_le

/-- a file with at least one token reports at least one tag -/
theorem reported_pos (ts : List Tree) (h : fileTags ts ≠ []) : 0 < distinctCount (ts.foldl posTagsRun []) := by
  rw [posTags_fold]
  unfold distinctCount
  cases hf : fileTags ts with
  | nil => exact absurd hf h
  | cons a l => simp [List.eraseDups_cons]

/-- the reported number depends only on the SET of tags: any two files with the same tags occurring report the same -/
theorem reported_set (l l' : List Str) (h : ∀ a, a ∈ l ↔ a ∈ l') : distinctCount l = distinctCount l' := by
  unfold distinctCount
  apply List.Perm.length_eq
  apply (List.perm_ext_iff_of_nodup (nodup_eraseDups l) (nodup_eraseDups l')).2
  intro a
  simp [h a]

/-- the order of the sentences does not matter -/
theorem reported_perm (ts ts' : List Tree) (h : ts.Perm ts') :
    distinctCount (ts.foldl posTagsRun []) = distinctCount (ts'.foldl posTagsRun []) := by
  rw [posTags_fold, posTags_fold]
  apply reported_set
  intro a
  simp only [fileTags, List.mem_flatMap]
  constructor
  · rintro ⟨t, ht, hx⟩; exact ⟨t, h.mem_iff.1 ht, hx⟩
  · rintro ⟨t, ht, hx⟩; exact ⟨t, h.mem_iff.2 ht, hx⟩

/-- a tag that looks like the label placeholder is a tag like any other (instance) -/
example : distinctCount ([node {} [leaf 1 { label := "EMPTY".toList, word := some "a".toList },
                                  leaf 2 { label := "NN".toList, word := some "b".toList }]].foldl posTagsRun []) = 2 := by
  decide

end TT.Props.C16Tags
