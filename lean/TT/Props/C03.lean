/-
  C03 — any-to-any conversion is total and lossless (theorems being added)
-/
import TT.Spec.Formats
import TT.IO.Read
namespace TT.Props.C03
open TT TT.Tree TT.Spec

end TT.Props.C03
