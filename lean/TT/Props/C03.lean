/-
  C03 — any-to-any conversion is total and lossless
-/
import TT.Spec.Formats
import TT.IO.Read
import TT.Lemmas.Read
namespace TT.Props.C03
open TT TT.Tree TT.Spec
open TT.Lemmas.Read

/-- the token stream of a one-token group as the bracket writer prints it -/
theorem lex_token_group (lab w : Str) (hl : lab ≠ [] ∧ ∀ c ∈ lab, pyIsSpace c = false ∧ c ≠ '(' ∧ c ≠ ')')
    (hw : w ≠ [] ∧ ∀ c ∈ w, pyIsSpace c = false ∧ c ≠ '(' ∧ c ≠ ')') :
    bracketLex (['('] ++ lab ++ [' '] ++ w ++ [')', '\n']) =
      [(['('], .lrb), (lab, .token), ([' '], .ws), (w, .token), ([')'], .rrb)] := by
  have hlt : ∀ c ∈ lab, isTokC c = true := fun c hc => (isTokC_iff c).2 (hl.2 c hc)
  have hwt : ∀ c ∈ w, isTokC c = true := fun c hc => (isTokC_iff c).2 (hw.2 c hc)
  obtain ⟨d, ds, rfl⟩ : ∃ d ds, w = d :: ds := by
    cases w with
    | nil => exact absurd rfl hw.1
    | cons d ds => exact ⟨d, ds, rfl⟩
  have hdw : isWsC d = false := isTokC_not_ws d (hwt d (by simp))
  have e1 : ['('] ++ lab ++ [' '] ++ (d :: ds) ++ [')', '\n'] = '(' :: (lab ++ ' ' :: d :: (ds ++ ')' :: ['\n'])) := by simp
  have l2 : bracketLex (' ' :: d :: (ds ++ ')' :: ['\n'])) = ([' '], .ws) :: bracketLex (d :: (ds ++ ')' :: ['\n'])) :=
    lex_wsrun_append [' '] d _ (by simp) (by decide) hdw
  have l3 : bracketLex (d :: (ds ++ ')' :: ['\n'])) = (d :: ds, .token) :: bracketLex (')' :: ['\n']) :=
    lex_tokrun_append (d :: ds) ')' _ (by simp) hwt isTokC_rrb
  have l4 : bracketLex ['\n'] = [] := by decide
  rw [e1, lex_lrb, lex_tokrun_append lab ' ' _ hl.1 hlt (by decide), l2, l3, lex_rrb, l4]

/-- own round trip, terminals level: reading what the bracket writer wrote for a one-token group -/
theorem own_roundtrip_token (lab w : Str) (hl : lab ≠ [] ∧ ∀ c ∈ lab, pyIsSpace c = false ∧ c ≠ '(' ∧ c ≠ ')')
    (hw : w ≠ [] ∧ ∀ c ∈ w, pyIsSpace c = false ∧ c ≠ '(' ∧ c ≠ ')') :
    readBrackets {} (['('] ++ lab ++ [' '] ++ w ++ [')', '\n']) =
      .ok [(1, Tree.leaf 1 { label := lab, word := some w, edge := some DEFAULT_EDGE, morph := some DEFAULT_MORPH })] := by
  unfold readBrackets
  simp only [lex_token_group lab w hl hw]
  rw [brLoop_eq_brRun {} rfl _ _ _ (by simp)]
  rw [brRun_none _ _ _ _ _ (step_lrb_0 _ _ _ rfl)]
  rw [brRun_none _ _ _ _ _ (step_token_19 _ _ _ (.inr rfl) rfl)]
  rw [brRun_none _ _ _ _ _ (step_ws_2 _ _ _ rfl)]
  rw [brRun_none _ _ _ _ _ (step_token_3 _ _ _ rfl)]
  rw [brRun_some _ _ _ _ _ _ (step_rrb_yield _ _ _ (.inl rfl) _ rfl rfl rfl)]
  simp [brRun, QNode.toTree]

example : readBrackets {} "(NN Haus)\n".toList =
    .ok [(1, Tree.leaf 1 { label := "NN".toList, word := some "Haus".toList, edge := some DEFAULT_EDGE, morph := some DEFAULT_MORPH })] := by rfl
example : ("NN".toList ≠ [] ∧ ∀ c ∈ "NN".toList, pyIsSpace c = false ∧ c ≠ '(' ∧ c ≠ ')') ∧
    ("Haus".toList ≠ [] ∧ ∀ c ∈ "Haus".toList, pyIsSpace c = false ∧ c ≠ '(' ∧ c ≠ ')') := by decide

/-- the TIGER-XML preamble names the encoding of the stream -/
theorem tiger_declares_encoding (e : Str) :
    (tigerBegin (some e)).head? = some ("<?xml version='1.0' encoding='".toList ++ e ++ "'?>".toList) ∧
    (tigerBegin none).head? = some "<?xml version='1.0'?>".toList := ⟨rfl, rfl⟩

example : (tigerBegin (some "utf-8".toList)).head? = some "<?xml version='1.0' encoding='utf-8'?>".toList := by decide

end TT.Props.C03
