/-
  C08 — (theorems being added)
-/
import TT.Spec.Grammar
namespace TT.Props.C08
open TT TT.Tree TT.Spec

end TT.Props.C08
