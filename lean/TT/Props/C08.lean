/-
  C08 — rule counts are conserved by grammar binarization
-/
import TT.Spec.Grammar
import TT.Lemmas.GramBin
namespace TT.Props.C08
open TT TT.Tree TT.Spec TT.Lemmas.GramBin

theorem add_lhsMass (g : Grammar) (f : Func) (l : Lin) (v : VertKey) (n : Nat) (x : Str) :
    lhsMass (g.add f l v n) x = lhsMass g x + (if f.head? = some x then n else 0) :=
  lhsMass_add g f l v n x

theorem add_rhsMass (g : Grammar) (f : Func) (l : Lin) (v : VertKey) (n : Nat) (x : Str) :
    rhsMass (g.add f l v n) x = rhsMass g x + n * (f.drop 1).count x :=
  rhsMass_add g f l v n x

/-- counts are accumulated: binarizing one rule adds its count once to the LHS label's mass ... -/
theorem binarizeRule_lhsMass (mo : Option MarkovOpts) (func : Func) (lin : Lin) (cnt : Nat) (vert : List Str)
    (st : GenState) (res : Grammar) (x : Str) (hx : x.head? ≠ some '@') (h3 : func ≠ []) :
    lhsMass (binarizeRule mo func lin cnt vert st res).2 x = lhsMass res x + (if func.head? = some x then cnt else 0) := by
  by_cases h : func.length ≤ 3
  · rw [binarizeRule_small _ _ _ _ _ _ _ h, lhsMass_add]
  · rw [binarizeRule_large _ _ _ _ _ _ _ h]
    simp only
    rw [lhsMass_add, midOf, binMid_lhsMass _ _ _ _ _ _ hx _ _ _ _ _ _ (nextLabel_head ..), lhsMass_add]
    have hb := binMid_label mo func vert (fanOut lin) cnt (func.length - 4) 1 _ lin
      (nextLabel mo st func 0 vert (fanOut lin)).2
      (res.add [func[0]?.getD [], func[1]?.getD [], (nextLabel mo st func 0 vert (fanOut lin)).1] (topLin lin) .default cnt)
      (nextLabel_head mo st func 0 vert (fanOut lin))
    have hne : ∀ b : Str, b.head? = some '@' → b ≠ x := by rintro b hb rfl; exact hx hb
    have h0 : func.head? = some (func[0]?.getD []) := by
      cases func with
      | nil => exact absurd rfl h3
      | cons a r => simp
    simp [hne _ hb, h0]

/-- ... and keeps every symbol's balance (LHS mass minus count-weighted RHS occurrences) exactly as the unbinarized rule would -/
theorem binarizeRule_net (mo : Option MarkovOpts) (func : Func) (lin : Lin) (cnt : Nat) (vert : List Str)
    (st : GenState) (res : Grammar) (x : Str) (h3 : func ≠ []) :
    net (binarizeRule mo func lin cnt vert st res).2 x =
      net res x + (if func.head? = some x then (cnt : Int) else 0) - (cnt : Int) * ((func.drop 1).count x : Int) := by
  by_cases h : func.length ≤ 3
  · rw [binarizeRule_small _ _ _ _ _ _ _ h, net_add]
  · rw [binarizeRule_large _ _ _ _ _ _ _ h]
    simp only
    rw [net_add]
    have hm := binMid_net mo func vert (fanOut lin) cnt x (func.length - 4) 1
      (nextLabel mo st func 0 vert (fanOut lin)).1 lin (nextLabel mo st func 0 vert (fanOut lin)).2
      (res.add [func[0]?.getD [], func[1]?.getD [], (nextLabel mo st func 0 vert (fanOut lin)).1] (topLin lin) .default cnt)
    rw [net_add] at hm
    have h0 : func.head? = some (func[0]?.getD []) := by
      cases func with
      | nil => exact absurd rfl h3
      | cons a r => simp
    rw [func_drop_one func h, h0]
    simp only [midOf]
    simp only [List.head?_cons, Option.some.injEq, List.drop_succ_cons, List.drop_zero, List.count_cons,
      List.count_nil, List.count_append, beq_iff_eq] at hm ⊢
    generalize (binMid mo func vert (fanOut lin) cnt 1 (func.length - 4) _ lin _ _).1 = bl2 at hm ⊢
    generalize net (binMid mo func vert (fanOut lin) cnt 1 (func.length - 4) _ lin _ _).2.2.2 x = n2 at hm ⊢
    generalize (nextLabel mo st func 0 vert (fanOut lin)).1 = bl at hm ⊢
    generalize List.count x (midSyms func 1 (func.length - 4)) = m at hm ⊢
    generalize net res x = r at hm ⊢
    generalize func[0]?.getD [] = f0 at hm ⊢
    generalize func[1]?.getD [] = f1 at hm ⊢
    generalize func[func.length - 2]?.getD [] = fa at hm ⊢
    generalize func[func.length - 1]?.getD [] = fb at hm ⊢
    generalize hc : (cnt : Int) = c at hm ⊢
    by_cases e1 : bl2 = x <;> by_cases e2 : bl = x <;> by_cases e3 : f0 = x <;> by_cases e4 : f1 = x <;>
      by_cases e5 : fa = x <;> by_cases e6 : fb = x <;>
      simp [e1, e2, e3, e4, e5, e6, Int.mul_add, Int.natCast_add] at hm ⊢ <;> omega

theorem binarizeGrammar_lhsMass (r : Reordering) (mo : Option MarkovOpts) (g : Grammar) (x : Str)
    (hx : x.head? ≠ some '@') (hg : ∀ e ∈ g, e.1 ≠ []) : lhsMass (binarizeGrammar r mo g) x = lhsMass g x := by
  have hnil : lhsMass ([] : Grammar) x = 0 := by simp [lhsMass, Grammar.rules]
  cases mo with
  | some o =>
    simp only [binarizeGrammar]
    rw [foldl_sum (fun acc : GenState × Grammar => lhsMass acc.2 x)
      (fun e : Func × Lin × VertKey × Nat => if e.1.head? = some x then e.2.2.2 else 0)]
    · simp only [hnil, Nat.zero_add]; exact (lhsMass_eq_entries_sum g x).symm
    · rintro acc ⟨f, l, v, c⟩ he
      obtain ⟨p, hp, hpf⟩ := entries_func_mem g _ he
      have hf : f ≠ [] := by have := hg p hp; rwa [hpf] at this
      obtain ⟨h1, h2⟩ := reorder_head r f l hf
      simp only
      rw [binarizeRule_lhsMass _ _ _ _ _ _ _ x hx h2, h1]
  | none =>
    simp only [binarizeGrammar]
    rw [foldl_sum (fun acc : GenState × Grammar => lhsMass acc.2 x)
      (fun e : Func × Lin × Nat => if e.1.head? = some x then e.2.2 else 0)]
    · simp only [hnil, Nat.zero_add]; exact (lhsMass_eq_rules_sum g x).symm
    · rintro acc ⟨f, l, c⟩ he
      obtain ⟨p, hp, hpf⟩ := rules_func_mem g _ he
      have hf : f ≠ [] := by have := hg p hp; rwa [hpf] at this
      obtain ⟨h1, h2⟩ := reorder_head r f l hf
      simp only
      rw [binarizeRule_lhsMass _ _ _ _ _ _ _ x hx h2, h1]

/-! ### concrete instances -/

def exFunc : Func := ["S".toList, "A".toList, "B".toList, "A".toList, "D".toList]
def exLin : Lin := [[(0, 0), (2, 0), (1, 0)], [(3, 0), (0, 1), (2, 1)]]
def exG : Grammar := Grammar.add (Grammar.add [] exFunc exLin (.ctx ["S2".toList]) 3) exFunc exLin (.ctx ["T1".toList]) 2

example : lhsMass (binarizeRule (some ⟨1, 1, false⟩) exFunc exLin 3 [] {} exG).2 "S".toList = lhsMass exG "S".toList + 3 := by
  rw [binarizeRule_lhsMass _ _ _ _ _ _ _ _ (by decide) (by decide)]; rfl
example : net (binarizeRule none exFunc exLin 3 [] {} []).2 "A".toList = net [] "A".toList + 0 - 3 * 2 := by
  rw [binarizeRule_net _ _ _ _ _ _ _ _ (by decide)]; rfl
example : lhsMass (binarizeGrammar .optimal (some ⟨1, 1, true⟩) exG) "S".toList = lhsMass exG "S".toList :=
  binarizeGrammar_lhsMass _ _ _ _ (by decide) (by simp [exG, Grammar.add, AList.upsert, exFunc])

end TT.Props.C08
